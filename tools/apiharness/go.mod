module verif/apiharness

go 1.19

require github.com/reedom/convergen v0.0.0

require (
	github.com/matoous/go-nanoid v1.5.0 // indirect
	golang.org/x/mod v0.20.0 // indirect
	golang.org/x/sync v0.8.0 // indirect
	golang.org/x/tools v0.24.0 // indirect
)

replace github.com/reedom/convergen => /repo
