// Command apiharness drives the exported matcher API of reedom/convergen in-process (C19):
// random and exhaustive operation sequences on PatternMatcher / IdentMatcher /
// Options.CompareFieldName, compared with the Lean model (through the driver) and judged
// against Go's regexp / strings.EqualFold as the reference semantics.
package main

import (
	"bufio"
	"encoding/json"
	"flag"
	"fmt"
	"io"
	"math/rand"
	"os"
	"os/exec"
	"path/filepath"
	"regexp"
	"sort"
	"strings"
	"time"

	"github.com/reedom/convergen/pkg/option"
)

type Query struct {
	Ident string `json:"ident"`
	Case  bool   `json:"case"`
}

type Script struct {
	Kind    string  `json:"kind"` // pm | ident | compare
	Pattern string  `json:"pattern"`
	Case    bool    `json:"case"`
	Queries []Query `json:"queries"`
}

type jRegex struct {
	Expr     string `json:"expr"`
	Subject  string `json:"subject"`
	Compiles bool   `json:"compiles"`
	Match    bool   `json:"match"`
}

type driver struct {
	in  io.WriteCloser
	out *bufio.Reader
	cmd *exec.Cmd
}

func startDriver(bin string) *driver {
	cmd := exec.Command(bin)
	in, _ := cmd.StdinPipe()
	out, _ := cmd.StdoutPipe()
	cmd.Stderr = os.Stderr
	if err := cmd.Start(); err != nil {
		fmt.Fprintln(os.Stderr, "apiharness:", err)
		os.Exit(2)
	}
	return &driver{in: in, out: bufio.NewReaderSize(out, 1<<20), cmd: cmd}
}

func (d *driver) call(req any, resp any) error {
	b, _ := json.Marshal(req)
	if _, err := d.in.Write(append(b, '\n')); err != nil {
		return err
	}
	line, err := d.out.ReadBytes('\n')
	if err != nil {
		return err
	}
	var probe struct {
		Error string `json:"error"`
	}
	_ = json.Unmarshal(line, &probe)
	if probe.Error != "" {
		return fmt.Errorf("driver: %s", probe.Error)
	}
	return json.Unmarshal(line, resp)
}

func compileExprH(pattern string, exactCase bool) string {
	var expr string
	if strings.HasPrefix(pattern, "/") && strings.HasSuffix(pattern, "/") && 2 <= len(pattern) {
		expr = pattern[1 : len(pattern)-1]
	} else {
		expr = fmt.Sprintf("^%v$", regexp.QuoteMeta(pattern))
	}
	if !exactCase {
		expr = "(?i)" + expr
	}
	return expr
}

func isSlashed(p string) bool {
	return strings.HasPrefix(p, "/") && strings.HasSuffix(p, "/") && 2 <= len(p)
}

// implPM runs the script on the real PatternMatcher.
func implPM(s Script) (newRes string, answers []string) {
	m, err := option.NewPatternMatcher(s.Pattern, s.Case)
	if err != nil {
		return "error", nil
	}
	for _, q := range s.Queries {
		answers = append(answers, func() (res string) {
			defer func() {
				if r := recover(); r != nil {
					res = "panic"
				}
			}()
			if m.Match(q.Ident, q.Case) {
				return "true"
			}
			return "false"
		}())
	}
	return "ok", answers
}

// reference semantics of the property statement
func refPM(pattern, ident string, exact bool) (string, bool) {
	if !isSlashed(pattern) {
		if exact {
			return fmt.Sprint(ident == pattern), true
		}
		return fmt.Sprint(strings.EqualFold(ident, pattern)), true
	}
	inner := pattern[1 : len(pattern)-1]
	if !exact {
		inner = "(?i)" + inner
	}
	re, err := regexp.Compile(inner)
	if err != nil {
		return "", false
	}
	return fmt.Sprint(re.MatchString(ident)), true
}

var plainPool = []string{"ID", "Id", "id", "Name", "name", "NAME", "User.Name", "user.name", "User.ID", "A", "a", "A.B", "a.b",
	"µs", "Μs", "μs", "ſ", "s", "S", "Kelvin", "kelvin", "\u212aelvin", "\u212a", "k", "K", "ab", "AB", "Ab", "aB", "CreatedAt", "createdat", "Straße", "STRASSE", "STRAẞE", "straße", "ς", "Σ", "σ", "Å", "å", "X.Y.Z", "x.y.z", "URL", "Url", "a+b", "A(B)", "", ".", "a.", "$1"}

var rePool = []string{`/^A/`, `/^a/`, `/\S+e/`, `/\s/`, `/[A-Z]+/`, `/[a-z]+$/`, `/\pL/`, `/\pL{2}/`, `/(?P<n>a)b/`, `/(?P<N>A)B/`, `/a|B/`,
	`/\bID\b/`, `/\d+$/`, `/.*Name/`, `/\x41/`, `/\QA.B\E/`, `/[/`, `/(/`, `/`, `//`, `/a`, `a/`, `/A.B/`, `/^User\.(Name|ID)$/`, `/\W/`, `/\D/`,
	`/[[:upper:]]/`, `/[^a-z.]/`, `/(?:name|id)$/`, `/(?:NAME|ID)$/`, `/(?:ab)/`, `/(?:A)b/`, `/(?s)user\.name/`, `/(?P<x>k)elvin/`, `/(?:created|updated)at$/`,
	`/(?U)a+/`, `/(?m)^id$/`, `/(?i)name/`, `/(?-i)Name/`, `/µ/`, `/Μ/`, `/ſ/`, `/\p{Greek}/`, `/\PL/`, `/\BD/`, `/\Ax/`, `/a\z/`, `/^$/`, `/./`,
	// an alternation between two anchors binds the anchors to its ends: (^Name)|(ID$), not ^(Name|ID)$
	`/^Name|ID$/`, `/^a|b$/`, `/^User|name$/`, `/^A|B|s$/`}

func genScript(r *rand.Rand) Script {
	s := Script{Kind: "pm", Case: r.Intn(2) == 0}
	if r.Intn(2) == 0 {
		s.Pattern = plainPool[r.Intn(len(plainPool))]
	} else {
		s.Pattern = rePool[r.Intn(len(rePool))]
	}
	switch r.Intn(6) {
	case 0:
		s.Kind = "ident"
	}
	n := 1 + r.Intn(7)
	c := r.Intn(2) == 0
	for i := 0; i < n; i++ {
		if r.Intn(3) > 0 {
			c = !c
		}
		s.Queries = append(s.Queries, Query{Ident: plainPool[r.Intn(len(plainPool))], Case: c})
	}
	return s
}

// exhaustive small scope: all strings of length ≤ 2 over the alphabet as pattern and path
func smallScope() []Script {
	alpha := []string{"a", "A", "b", ".", "µ", "Μ", "ſ", "s"}
	var strs []string
	strs = append(strs, "")
	for _, x := range alpha {
		strs = append(strs, x)
		for _, y := range alpha {
			strs = append(strs, x+y)
		}
	}
	var out []Script
	for _, p := range strs {
		for _, c0 := range []bool{true, false} {
			s := Script{Kind: "pm", Pattern: p, Case: c0}
			for _, id := range strs {
				s.Queries = append(s.Queries, Query{id, true}, Query{id, false})
			}
			out = append(out, s)
			s2 := s
			s2.Pattern = "/" + p + "/"
			out = append(out, s2)
		}
	}
	return out
}

type Failure struct {
	Key    string `json:"key"`
	What   string `json:"what"`
	Script Script `json:"script"`
	Index  int    `json:"index"`
	Impl   string `json:"impl"`
	Ref    string `json:"ref"`
	Model  string `json:"model"`
}

type Summary struct {
	Scripts       int            `json:"scripts"`
	Ops           int            `json:"ops"`
	Disagreements []Failure      `json:"disagreements"` // model vs implementation
	Violations    []Failure      `json:"violations"`    // implementation vs reference semantics
	Classes       map[string]int `json:"classes"`
	Distinct      int            `json:"distinct"`
	Samples       []any          `json:"samples"`
	Exhaustive    bool           `json:"exhaustive"`
	WallS         float64        `json:"wall_s"`
}

func nonASCII(s string) bool {
	for _, r := range s {
		if r >= 128 {
			return true
		}
	}
	return false
}

func main() {
	drvBin := flag.String("driver", "", "lean driver")
	seed := flag.Int64("seed", 1, "seed")
	n := flag.Int("n", 2000, "random scripts")
	exhaustive := flag.Bool("exhaustive", false, "also enumerate the small scope")
	out := flag.String("out", "", "summary path")
	replay := flag.String("replay", "", "replay one script from a JSON file")
	flag.Parse()
	t0 := time.Now()
	d := startDriver(*drvBin)
	r := rand.New(rand.NewSource(*seed))
	var scripts []Script
	if *replay != "" {
		b, err := os.ReadFile(*replay)
		if err != nil {
			fmt.Fprintln(os.Stderr, err)
			os.Exit(2)
		}
		var obj struct {
			Script Script `json:"script"`
		}
		_ = json.Unmarshal(b, &obj)
		scripts = []Script{obj.Script}
	} else {
		for i := 0; i < *n; i++ {
			scripts = append(scripts, genScript(r))
		}
		if *exhaustive {
			scripts = append(scripts, smallScope()...)
		}
	}
	sum := Summary{Classes: map[string]int{}, Exhaustive: *exhaustive}
	distinct := map[string]bool{}
	addFail := func(list *[]Failure, f Failure) {
		for _, e := range *list {
			if e.Key == f.Key {
				if len(*list) > 400 {
					return
				}
			}
		}
		*list = append(*list, f)
	}
	for _, s := range scripts {
		sum.Scripts++
		sum.Ops += len(s.Queries)
		switch s.Kind {
		case "ident":
			im := option.NewIdentMatcher(s.Pattern)
			o := option.Options{}
			var model struct {
				Answers []bool   `json:"answers"`
				Paths   []string `json:"paths"`
				Names   []string `json:"names"`
				Getters []bool   `json:"getters"`
			}
			if err := d.call(map[string]any{"op": "ident", "pattern": s.Pattern, "queries": s.Queries}, &model); err != nil {
				fmt.Fprintln(os.Stderr, err)
				os.Exit(2)
			}
			for i, q := range s.Queries {
				impl := im.Match(q.Ident, q.Case)
				o.ExactCase = q.Case
				impl2 := o.CompareFieldName(s.Pattern, q.Ident)
				ref := q.Ident == s.Pattern
				if !q.Case {
					ref = strings.EqualFold(q.Ident, s.Pattern)
				}
				cls := fmt.Sprintf("ident|case=%v|nonascii=%v|ans=%v", q.Case, nonASCII(q.Ident+s.Pattern), impl)
				sum.Classes[cls]++
				distinct[fmt.Sprintf("i|%s|%s|%v", s.Pattern, q.Ident, q.Case)] = true
				if i < len(model.Answers) && model.Answers[i] != impl {
					addFail(&sum.Disagreements, Failure{Key: "ident-match", What: "IdentMatcher.Match: model and implementation differ", Script: s, Index: i, Impl: fmt.Sprint(impl), Model: fmt.Sprint(model.Answers[i])})
				}
				if impl != ref || impl2 != ref {
					addFail(&sum.Violations, Failure{Key: fmt.Sprintf("C19|ident|case=%v", q.Case), What: "IdentMatcher.Match / CompareFieldName differs from ==/EqualFold", Script: s, Index: i, Impl: fmt.Sprint(impl, impl2), Ref: fmt.Sprint(ref)})
				}
			}
			// path splitting helpers
			for i := 0; i < im.PathLen() && i < len(model.Names); i++ {
				if im.NameAt(i) != model.Names[i] || im.ForGetter(i) != model.Getters[i] || im.ExprAt(i) != model.Paths[i] {
					addFail(&sum.Disagreements, Failure{Key: "ident-paths", What: "IdentMatcher path helpers: model and implementation differ", Script: s, Index: i, Impl: im.NameAt(i), Model: model.Names[i]})
				}
			}
			if im.PathLen() != len(model.Paths) {
				addFail(&sum.Disagreements, Failure{Key: "ident-pathlen", What: "PathLen differs", Script: s})
			}
		default:
			newRes, answers := implPM(s)
			// engine oracle
			var tbl []jRegex
			for _, exact := range []bool{true, false} {
				expr := compileExprH(s.Pattern, exact)
				re, err := regexp.Compile(expr)
				if err != nil {
					tbl = append(tbl, jRegex{Expr: expr, Compiles: false})
					continue
				}
				seen := map[string]bool{}
				for _, q := range s.Queries {
					for _, subj := range []string{q.Ident, strings.ToLower(q.Ident)} {
						if !seen[subj] {
							seen[subj] = true
							tbl = append(tbl, jRegex{Expr: expr, Subject: subj, Compiles: true, Match: re.MatchString(subj)})
						}
					}
				}
				if len(s.Queries) == 0 {
					tbl = append(tbl, jRegex{Expr: expr, Compiles: true})
				}
			}
			var model struct {
				New     string   `json:"new"`
				Answers []string `json:"answers"`
				Exprs   []string `json:"exprs"`
			}
			if err := d.call(map[string]any{"op": "pm", "pattern": s.Pattern, "case": s.Case, "queries": s.Queries, "regex": tbl}, &model); err != nil {
				fmt.Fprintln(os.Stderr, err)
				os.Exit(2)
			}
			modelAgrees := model.New == newRes
			if len(model.Exprs) == 2 && (model.Exprs[0] != compileExprH(s.Pattern, true) || model.Exprs[1] != compileExprH(s.Pattern, false)) {
				// the model's ToLower/QuoteMeta differ from Go's on this pattern: outside the model alphabet
				sum.Classes["skipped-alphabet"]++
				continue
			}
			if !modelAgrees {
				addFail(&sum.Disagreements, Failure{Key: "pm-new", What: "NewPatternMatcher: model and implementation differ", Script: s, Impl: newRes, Model: model.New})
			}
			// creation: reference = the regexp between slashes compiles (plain patterns always do)
			refNewOK := true
			if isSlashed(s.Pattern) {
				_, err := regexp.Compile(s.Pattern[1 : len(s.Pattern)-1])
				refNewOK = err == nil
			}
			if refNewOK != (newRes == "ok") {
				k := "C19|new|valid-regexp-rejected-under-caseoff"
				if refNewOK == false {
					k = "C19|new|invalid-regexp-accepted-under-caseoff"
				}
				if s.Case {
					k = "C19|new|creation-differs-exact"
				}
				if !modelAgrees {
					k += "|model-disagrees"
				}
				addFail(&sum.Violations, Failure{Key: k, What: "NewPatternMatcher acceptance differs from regexp.Compile of the unchanged expression", Script: s, Impl: newRes, Ref: fmt.Sprint(refNewOK)})
			}
			if newRes != "ok" {
				continue
			}
			for i, q := range s.Queries {
				impl := answers[i]
				mdl := ""
				if i < len(model.Answers) {
					mdl = model.Answers[i]
				}
				kind := "plain"
				if isSlashed(s.Pattern) {
					kind = "regexp"
				}
				cls := fmt.Sprintf("pm|%s|case=%v|nonascii=%v|ans=%s", kind, q.Case, nonASCII(q.Ident+s.Pattern), impl)
				sum.Classes[cls]++
				distinct[fmt.Sprintf("p|%s|%s|%v", s.Pattern, q.Ident, q.Case)] = true
				if mdl != impl {
					addFail(&sum.Disagreements, Failure{Key: "pm-match", What: "PatternMatcher.Match: model and implementation differ", Script: s, Index: i, Impl: impl, Model: mdl})
				}
				ref, ok := refPM(s.Pattern, q.Ident, q.Case)
				if !ok {
					continue
				}
				if impl != ref {
					k := ""
					switch {
					case impl == "panic":
						k = "C19|panic|nil-regexp-after-case-flip"
					case q.Case:
						k = "C19|answer|exact-case|" + kind
					case kind == "regexp":
						k = "C19|answer|caseoff|regexp|lowercased-expression"
					default:
						k = "C19|answer|caseoff|plain|tolower-vs-fold"
					}
					if mdl != impl {
						k += "|model-disagrees"
					}
					addFail(&sum.Violations, Failure{Key: k, What: "PatternMatcher.Match differs from the reference semantics (==, EqualFold, regexp search, (?i))", Script: s, Index: i, Impl: impl, Ref: ref, Model: mdl})
				}
			}
			// history independence judged on the implementation alone: same query → same answer
			seenAns := map[string]string{}
			for i, q := range s.Queries {
				k := fmt.Sprintf("%s|%v", q.Ident, q.Case)
				if prev, ok := seenAns[k]; ok && prev != answers[i] {
					addFail(&sum.Violations, Failure{Key: "C19|history-dependent", What: "the same query got two different answers on one matcher", Script: s, Index: i, Impl: answers[i], Ref: prev})
				}
				seenAns[k] = answers[i]
			}
			if len(sum.Samples) < 3 && len(s.Queries) > 2 {
				sum.Samples = append(sum.Samples, map[string]any{"script": s, "answers": answers})
			}
		}
	}
	sum.Distinct = len(distinct)
	sum.WallS = time.Since(t0).Seconds()
	sort.Slice(sum.Violations, func(i, j int) bool { return sum.Violations[i].Key < sum.Violations[j].Key })
	b, _ := json.MarshalIndent(sum, "", " ")
	if *out != "" {
		_ = os.MkdirAll(filepath.Dir(*out), 0755)
		_ = os.WriteFile(*out, b, 0644)
	}
	keys := map[string]int{}
	for _, v := range sum.Violations {
		keys[v.Key]++
	}
	fmt.Printf("apiharness: %d scripts, %d ops, %d distinct, %d disagreements, violations by key %v, %.1fs\n",
		sum.Scripts, sum.Ops, sum.Distinct, len(sum.Disagreements), keys, sum.WallS)
	d.in.Close()
	_ = d.cmd.Wait()
}
