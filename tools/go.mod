module verif/tools

go 1.19

require golang.org/x/tools v0.24.0

require (
	golang.org/x/mod v0.20.0 // indirect
	golang.org/x/sync v0.8.0 // indirect
)
