package main

// Line-level reading of generated functions: the observable the structural properties
// (C04–C10, C16) talk about.  The same reader is applied to the implementation's output and to
// the model's predicted text, so a difference can be localised to a destination path.

import (
	"bytes"
	"fmt"
	"go/ast"
	"go/parser"
	"go/printer"
	"go/token"
	"sort"
	"strings"
)

type BodyLine struct {
	Kind  string `json:"kind"`  // assign | skip | nomatch | slice | hook | alloc | errcheck | return | other
	Path  string `json:"path"`  // destination path below the destination variable ("" for hooks etc.)
	Text  string `json:"text"`  // canonical text of the statement
	Depth int    `json:"depth"` // block nesting depth
}

type FuncLines struct {
	Key    string     `json:"key"`
	Header string     `json:"header"` // signature text without body
	Doc    []string   `json:"doc"`
	Lines  []BodyLine `json:"lines"`
}

func nodeText(fset *token.FileSet, n ast.Node) string {
	var buf bytes.Buffer
	_ = printer.Fprint(&buf, fset, n)
	return buf.String()
}

// rootAndPath splits "dst.A.B" into ("dst", "A.B").
func rootAndPath(expr string) (string, string) {
	i := strings.Index(expr, ".")
	if i < 0 {
		return expr, ""
	}
	return expr[:i], expr[i+1:]
}

// readFuncs parses src and returns the line-level reading of every function.
func readFuncs(src []byte) ([]FuncLines, error) {
	fset := token.NewFileSet()
	f, err := parser.ParseFile(fset, "x.go", src, parser.ParseComments)
	if err != nil {
		return nil, err
	}
	var out []FuncLines
	for _, d := range f.Decls {
		fd, ok := d.(*ast.FuncDecl)
		if !ok || fd.Body == nil {
			continue
		}
		fl := FuncLines{Key: recvKey(fd)}
		hdr := *fd
		hdr.Body = nil
		hdr.Doc = nil
		fl.Header = strings.TrimSpace(nodeText(fset, &hdr))
		if fd.Doc != nil {
			for _, c := range fd.Doc.List {
				fl.Doc = append(fl.Doc, c.Text)
			}
		}
		type item struct {
			pos  token.Pos
			line BodyLine
		}
		var items []item
		// comments inside the body
		for _, cg := range f.Comments {
			for _, c := range cg.List {
				if c.Pos() <= fd.Body.Lbrace || c.End() >= fd.Body.Rbrace {
					continue
				}
				t := strings.TrimSpace(strings.TrimPrefix(c.Text, "//"))
				switch {
				case strings.HasPrefix(t, "skip: "):
					_, p := rootAndPath(strings.TrimPrefix(t, "skip: "))
					items = append(items, item{c.Pos(), BodyLine{Kind: "skip", Path: p, Text: c.Text}})
				case strings.HasPrefix(t, "no match: "):
					_, p := rootAndPath(strings.TrimPrefix(t, "no match: "))
					items = append(items, item{c.Pos(), BodyLine{Kind: "nomatch", Path: p, Text: c.Text}})
				default:
					items = append(items, item{c.Pos(), BodyLine{Kind: "other", Text: c.Text}})
				}
			}
		}
		var walk func(stmts []ast.Stmt, depth int)
		walk = func(stmts []ast.Stmt, depth int) {
			for _, s := range stmts {
				switch x := s.(type) {
				case *ast.AssignStmt:
					lhs := nodeText(fset, x.Lhs[0])
					_, p := rootAndPath(lhs)
					kind := "assign"
					txt := nodeText(fset, x)
					if len(x.Rhs) == 1 {
						if ul, ok := x.Rhs[0].(*ast.UnaryExpr); ok && ul.Op == token.AND {
							if _, ok := ul.X.(*ast.CompositeLit); ok && !strings.Contains(lhs, ".") {
								kind = "alloc"
							}
						}
						if c, ok := x.Rhs[0].(*ast.CallExpr); ok && lhs == "err" {
							_ = c
							kind = "hook"
							p = ""
						}
					}
					items = append(items, item{x.Pos(), BodyLine{Kind: kind, Path: p, Text: txt, Depth: depth}})
				case *ast.ExprStmt:
					kind := "other"
					if _, ok := x.X.(*ast.CallExpr); ok {
						kind = "hook"
					}
					items = append(items, item{x.Pos(), BodyLine{Kind: kind, Text: nodeText(fset, x), Depth: depth}})
				case *ast.ReturnStmt:
					items = append(items, item{x.Pos(), BodyLine{Kind: "return", Text: nodeText(fset, x), Depth: depth}})
				case *ast.IfStmt:
					cond := nodeText(fset, x.Cond)
					if cond == "err != nil" {
						items = append(items, item{x.Pos(), BodyLine{Kind: "errcheck", Text: strings.Join(strings.Fields(nodeText(fset, x)), " "), Depth: depth}})
						continue
					}
					// slice copy block: `if src.X != nil { dst.X = make(...) ... }`
					if len(x.Body.List) > 0 {
						if as, ok := x.Body.List[0].(*ast.AssignStmt); ok && len(as.Rhs) == 1 {
							if c, ok := as.Rhs[0].(*ast.CallExpr); ok && nodeText(fset, c.Fun) == "make" {
								_, p := rootAndPath(nodeText(fset, as.Lhs[0]))
								items = append(items, item{x.Pos(), BodyLine{Kind: "slice", Path: p, Text: strings.Join(strings.Fields(nodeText(fset, x)), " "), Depth: depth}})
								continue
							}
						}
					}
					items = append(items, item{x.Pos(), BodyLine{Kind: "other", Text: "if " + cond, Depth: depth}})
					walk(x.Body.List, depth+1)
				case *ast.BlockStmt:
					walk(x.List, depth+1)
				default:
					items = append(items, item{s.Pos(), BodyLine{Kind: "other", Text: strings.Join(strings.Fields(nodeText(fset, s)), " "), Depth: depth}})
				}
			}
		}
		walk(fd.Body.List, 0)
		sort.SliceStable(items, func(i, j int) bool { return items[i].pos < items[j].pos })
		for _, it := range items {
			fl.Lines = append(fl.Lines, it.line)
		}
		out = append(out, fl)
	}
	return out, nil
}

// LineDiff is one localised difference between model and implementation.
type LineDiff struct {
	Func  string `json:"func"`
	Cat   string `json:"cat"` // header | doc | body | slice | hook | errflow | missing-func
	Path  string `json:"path"`
	Model string `json:"model"`
	Impl  string `json:"impl"`
}

func (d LineDiff) String() string {
	return fmt.Sprintf("[%s] %s %s\n  model: %s\n  impl:  %s", d.Cat, d.Func, d.Path, d.Model, d.Impl)
}

func catOf(l BodyLine) string {
	switch l.Kind {
	case "slice":
		return "slice"
	case "hook":
		return "hook"
	case "errcheck", "return":
		return "errflow"
	case "alloc":
		return "hook" // allocation order relative to hooks/assignments (C10/C02)
	}
	return "body"
}

// diffFuncs localises the differences between two readings of the same function set.
func diffFuncs(model, impl []FuncLines) []LineDiff {
	var out []LineDiff
	im := map[string]FuncLines{}
	for _, f := range impl {
		im[f.Key] = f
	}
	for _, mf := range model {
		f, ok := im[mf.Key]
		if !ok {
			out = append(out, LineDiff{Func: mf.Key, Cat: "missing-func", Model: mf.Header})
			continue
		}
		if f.Header != mf.Header {
			out = append(out, LineDiff{Func: mf.Key, Cat: "header", Model: mf.Header, Impl: f.Header})
		}
		if strings.Join(f.Doc, "\n") != strings.Join(mf.Doc, "\n") {
			out = append(out, LineDiff{Func: mf.Key, Cat: "doc", Model: strings.Join(mf.Doc, "\n"), Impl: strings.Join(f.Doc, "\n")})
		}
		// align line by line; on the first difference report it and resynchronise by path
		n := len(mf.Lines)
		if len(f.Lines) > n {
			n = len(f.Lines)
		}
		i, j := 0, 0
		for i < len(mf.Lines) || j < len(f.Lines) {
			var ml, il *BodyLine
			if i < len(mf.Lines) {
				ml = &mf.Lines[i]
			}
			if j < len(f.Lines) {
				il = &f.Lines[j]
			}
			switch {
			case ml != nil && il != nil && ml.Text == il.Text && ml.Depth == il.Depth:
				i++
				j++
			case ml != nil && il != nil && ml.Path == il.Path:
				out = append(out, LineDiff{Func: mf.Key, Cat: worstCat(*ml, *il), Path: ml.Path, Model: ml.Text, Impl: il.Text})
				i++
				j++
			case ml != nil && (il == nil || !containsPath(f.Lines[j:], ml.Path, ml.Text)):
				out = append(out, LineDiff{Func: mf.Key, Cat: catOf(*ml), Path: ml.Path, Model: ml.Text, Impl: ""})
				i++
			default:
				out = append(out, LineDiff{Func: mf.Key, Cat: catOf(*il), Path: il.Path, Model: "", Impl: il.Text})
				j++
			}
		}
	}
	return out
}

func worstCat(a, b BodyLine) string {
	ca, cb := catOf(a), catOf(b)
	if ca != "body" {
		return ca
	}
	return cb
}

func containsPath(ls []BodyLine, path, text string) bool {
	for _, l := range ls {
		if l.Text == text || (path != "" && l.Path == path) {
			return true
		}
	}
	return false
}
