package main

// Generator of abstract programs (DESIGN.md §3.6): setup files drawn from convergen's own
// vocabulary — struct pairs over a type alphabet, getters, converters, hooks, notations —
// rendered into scratch packages.  Every random choice derives from one PRNG state.

import (
	"fmt"
	"math/rand"
	"sort"
	"strings"
)

type GCase struct {
	Name     string            // package directory name
	Files    map[string]string // relative path → content
	Setup    string            // relative path of the setup file
	Features []string          // what the case exercises (for the evidence distribution)
	Profile  string
}

type gen struct {
	r        *rand.Rand
	features map[string]bool
	badness  float64 // multiplier for choices that make convergen reject the input
	profile  string
}

// bad is chance() for rejection-inducing choices, scaled by the profile.
func (g *gen) bad(p float64) bool { return g.r.Float64() < p*g.badness }

func (g *gen) feat(f string) { g.features[f] = true }

func (g *gen) pick(l []string) string { return l[g.r.Intn(len(l))] }
func (g *gen) chance(p float64) bool  { return g.r.Float64() < p }

// ---- type alphabet ----------------------------------------------------------------------------

// typePairs lists (source type, destination type, tag) triples the builder distinguishes.
// Types are Go source text valid in the setup package (local types) — `ext.` refers to the
// imported package.
var sameTypes = []string{
	"int", "int64", "string", "bool", "float64", "uint8", "[]byte", "MyInt", "MyStr", "Status", "Code",
	"*int", "*string", "*Inner", "Inner", "[]int", "[]string", "[]MyInt", "[]Inner", "[]*Inner",
	"[]interface{}", "Names", "map[string]int", "chan int", "func()", "interface{}", "Namer",
	"ext.Kind", "ext.Label", "ext.Pub", "*ext.Pub", "[]ext.Pub", "[]ext.Kind", "struct{ K string }", "[2]int",
	"**int", "time.Time", "[]time.Duration", "Inner2", "*Inner2", "Deep", "[]Names", "[][]int",
}

// related destination types per source type: assignable-not-identical, convertible, stringer,
// nested struct pairs, slice element variations …
var relatedTypes = map[string][]string{
	"int":         {"int64", "MyInt", "string", "float64", "interface{}", "*int", "uint8", "ext.Kind"},
	"int64":       {"int", "MyInt", "time.Duration"},
	"string":      {"MyStr", "Status", "[]byte", "interface{}", "ext.Label", "Names"},
	"MyInt":       {"int", "int64", "Code", "string"},
	"MyStr":       {"string", "Status"},
	"Status":      {"string", "MyStr", "Namer", "Stringer"},
	"Code":        {"string", "int", "MyInt"},
	"*Code":       {"string", "Stringer", "*int"},
	"ext.Kind":    {"string", "int", "MyInt", "Stringer"},
	"ext.Label":   {"string", "MyStr"},
	"Inner":       {"Inner2", "*Inner", "ext.Pub", "struct{ X int }", "InnerE", "interface{}"},
	"Inner2":      {"Inner"},
	"*Inner":      {"*Inner2", "Inner"},
	"Deep":        {"Deep2"},
	"ext.Pub":     {"Inner", "ext.Pub2"},
	"[]int":       {"[]int64", "[]MyInt", "[]interface{}", "[]string", "IntList"},
	"[]string":    {"[]interface{}", "[]MyStr", "Names", "[]Status", "[]int"},
	"[]MyInt":     {"[]int", "[]Code"},
	"[]Inner":     {"[]Inner2", "[]*Inner", "[]interface{}"},
	"[]*Inner":    {"[]*Inner2", "[]Inner"},
	"[]Status":    {"[]string", "[]Stringer", "[]Namer"},
	"Names":       {"[]string", "Names2"},
	"[]ext.Kind":  {"[]int", "[]string"},
	"[]byte":      {"string"},
	"*int":        {"*MyInt", "int", "*int64"},
	"error":       {"interface{}", "string"},
	"Namer":       {"interface{}", "Stringer"},
	"time.Time":   {"string", "int64", "*time.Time"},
	"interface{}": {"int", "Namer"},
	"empty":       {"empty2"},
	"E0":          {"E1"},
}

var fieldNames = []string{"A", "B", "C", "ID", "Id", "Name", "name", "URL", "Url", "Count", "Items", "In", "Tag",
	"Kind", "Label", "When", "Note", "Data", "Extra", "X", "Y", "hidden", "Str", "Val", "Ptr", "List", "Nested"}

const typesPrelude = `package %s

import (
	"strconv"
	"time"

	"%s/ext"
)

type Stringer interface{ String() string }

var _ = strconv.Itoa
var _ time.Time
var _ ext.Kind

type MyInt int
type MyStr string
type Status string

func (s Status) String() string { return string(s) }
func (s Status) Name() string   { return string(s) }

type Code int

func (c *Code) String() string { return strconv.Itoa(int(*c)) }

type Namer interface{ Name() string }
type Names []string
type Names2 []string
type IntList []int

type Inner struct {
	X int
	Y string
}
type Inner2 struct {
	X int64
	Y string
	z bool
}
type InnerE struct {
	Inner
	W int
}
type Deep struct {
	In  Inner
	Tag string
	P   *Inner
}
type Deep2 struct {
	In  Inner2
	Tag MyStr
	P   *Inner
	Q   int
}
type empty struct{}
type empty2 struct{}
type E0 struct{ e empty }
type E1 struct{ e empty2 }
`

const extPrelude = `package ext

import "strconv"

type Kind int

func (k Kind) String() string { return strconv.Itoa(int(k)) }

type Label string

type Pub struct {
	A int
	b int
	S string
}

func (p Pub) B() int { return p.b }

type Pub2 struct {
	A int64
	b int
	S string
	c string
}

type Holder struct {
	Pub  Pub
	Kind Kind
	priv Label
}

func PubToInt(p Pub) int             { return p.A }
func KindName(k Kind) (string, error) { return k.String(), nil }
func hiddenConv(i int) int           { return i }
func Fill(dst *Pub, src *Pub)        {}
`

type gField struct {
	Name string
	Type string
}

func (g *gen) fieldName(used map[string]bool) string {
	for i := 0; i < 50; i++ {
		n := g.pick(fieldNames)
		if g.chance(0.1) {
			n = n + fmt.Sprint(g.r.Intn(3))
		}
		if !used[n] {
			used[n] = true
			return n
		}
	}
	n := fmt.Sprintf("F%d", len(used))
	used[n] = true
	return n
}

func caseVariant(g *gen, n string) string {
	switch g.r.Intn(4) {
	case 0:
		return strings.ToUpper(n)
	case 1:
		return strings.ToLower(n)
	case 2:
		return strings.ToUpper(n[:1]) + strings.ToLower(n[1:])
	}
	return n
}

// zeroValue / sample literal for :literal
func literalFor(t string) string {
	switch t {
	case "int", "int64", "MyInt", "float64", "uint8", "ext.Kind", "Code":
		return "42"
	case "string", "MyStr", "Status", "ext.Label":
		return `"lit  x"`
	case "bool":
		return "true"
	case "interface{}", "[]int", "[]string", "*int", "*string", "*Inner", "map[string]int", "chan int", "func()", "Namer", "[]byte",
		"[]Inner", "[]*Inner", "[]interface{}", "Names", "*ext.Pub", "**int", "[]MyInt", "[]ext.Pub", "[]ext.Kind", "*Inner2":
		return "nil"
	case "Inner":
		return "Inner{X: 1}"
	case "time.Time":
		return "time.Time{}"
	}
	return ""
}

// litVariant varies the text of a string literal by the member it is for (no random draw: the other choices of a case
// stay what they were): percent signs, escapes, a raw string — text that must reach the output byte for byte
func litVariant(key, lit string) string {
	if lit != `"lit  x"` {
		return lit
	}
	h := 0
	for _, c := range key {
		h = h*31 + int(c)
	}
	variants := []string{lit, `"100%"`, `"%d of %s"`, "`raw %v`", `"tab\there"`, `"%%"`, lit}
	return variants[h%len(variants)]
}

type gMethod struct {
	name      string
	doc       []string // comment lines (without //)
	src, dst  string   // struct type names
	srcPtr    bool
	dstPtr    bool
	srcName   string
	dstName   string
	extraArgs []gField
	retErr    bool
}

// genStructPair draws a source/destination struct pair and helper declarations.
func (g *gen) genStructPair(idx int, decl *strings.Builder, notes *[]string, extra []gField) (src, dst string, srcFields, dstFields []gField) {
	src = fmt.Sprintf("S%d", idx)
	dst = fmt.Sprintf("D%d", idx)
	nf := 1 + g.r.Intn(6)
	usedS, usedD := map[string]bool{}, map[string]bool{}
	for i := 0; i < nf; i++ {
		st := g.pick(sameTypes)
		if g.bad(0.15) {
			st = "error"
			g.feat("error-typed-field")
		}
		if g.chance(0.3) {
			keys := make([]string, 0, len(relatedTypes))
			for k := range relatedTypes {
				keys = append(keys, k)
			}
			sort.Strings(keys)
			st = g.pick(keys)
		}
		dt := st
		if rel, ok := relatedTypes[st]; ok && g.chance(0.55) {
			dt = g.pick(rel)
			g.feat("related-type")
		} else if g.chance(0.08) {
			dt = g.pick(sameTypes)
			g.feat("random-type-pair")
		}
		if g.chance(0.12) { // reverse direction of the relation
			st, dt = dt, st
		}
		sn := g.fieldName(usedS)
		dn := sn
		switch {
		case g.chance(0.12):
			dn = caseVariant(g, sn)
			g.feat("case-variant")
		case g.chance(0.07):
			dn = g.fieldName(map[string]bool{sn: true})
			g.feat("renamed")
		}
		if usedD[dn] {
			continue
		}
		usedD[dn] = true
		srcFields = append(srcFields, gField{sn, st})
		if !g.chance(0.06) {
			dstFields = append(dstFields, gField{dn, dt})
		}
	}
	if g.profile == "casefold" {
		// several spellings of one name on both sides
		for _, base := range [][]string{{"ID", "Id", "id", "iD"}, {"Name", "name", "NAME"}, {"URL", "Url", "url"}}[:1+g.r.Intn(3)] {
			t := g.pick([]string{"int", "string", "MyInt"})
			for _, v := range base {
				if g.chance(0.6) && !usedD[v] {
					usedD[v] = true
					dstFields = append(dstFields, gField{v, t})
				}
				if g.chance(0.5) && !usedS[v] {
					usedS[v] = true
					srcFields = append(srcFields, gField{v, t})
				}
			}
		}
		g.feat("case-variants-of-one-name")
	}
	if g.chance(0.15) { // destination-only field
		dn := g.fieldName(usedD)
		dstFields = append(dstFields, gField{dn, g.pick(sameTypes)})
		g.feat("dst-only-field")
	}
	if len(dstFields) == 0 {
		dstFields = append(dstFields, gField{"A", "int"})
	}
	// getters on the source
	var getters strings.Builder
	if g.chance(0.45) {
		for _, f := range srcFields {
			if !g.chance(0.4) {
				continue
			}
			gname := strings.ToUpper(f.Name[:1]) + f.Name[1:]
			if gname == f.Name {
				gname = "Get" + f.Name
				// a destination field of that name so the getter can be matched
				if g.chance(0.5) && !usedD[gname] {
					usedD[gname] = true
					dstFields = append(dstFields, gField{gname, f.Type})
				}
			}
			if usedS[gname] {
				continue
			}
			usedS[gname] = true
			recv := "s *" + src
			if g.chance(0.3) {
				recv = "s " + src
			}
			switch g.r.Intn(8) {
			case 0:
				fmt.Fprintf(&getters, "func (%s) %s() (%s, error) { return s.%s, nil }\n", recv, gname, f.Type, f.Name)
				g.feat("getter-with-error")
			case 1:
				fmt.Fprintf(&getters, "func (%s) %s(n int) %s { return s.%s }\n", recv, gname, f.Type, f.Name)
				g.feat("getter-with-param")
			default:
				fmt.Fprintf(&getters, "func (%s) %s() %s { return s.%s }\n", recv, gname, f.Type, f.Name)
				g.feat("getter")
			}
		}
	}
	writeStruct := func(name string, fs []gField) {
		fmt.Fprintf(decl, "type %s struct {\n", name)
		for _, f := range fs {
			fmt.Fprintf(decl, "\t%s %s\n", f.Name, f.Type)
		}
		decl.WriteString("}\n")
	}
	writeStruct(src, srcFields)
	writeStruct(dst, dstFields)
	decl.WriteString(getters.String())
	return
}

// path candidates for :map / :conv sources
func srcPaths(g *gen, fs []gField) []string {
	var out []string
	for _, f := range fs {
		out = append(out, f.Name)
		switch f.Type {
		case "Inner", "*Inner":
			out = append(out, f.Name+".X", f.Name+".Y")
		case "Deep":
			out = append(out, f.Name+".In.X", f.Name+".Tag", f.Name+".P.Y")
		case "ext.Pub", "*ext.Pub":
			out = append(out, f.Name+".A", f.Name+".b", f.Name+".B()")
		case "Status":
			out = append(out, f.Name+".String()", f.Name+".Name()")
		case "time.Time":
			out = append(out, f.Name+".Unix()", f.Name+".String()")
		case "InnerE":
			out = append(out, f.Name+".X", f.Name+".W", f.Name+".Inner.Y")
		}
		if g.chance(0.1) {
			out = append(out, f.Name+"()")
		}
	}
	out = append(out, "Missing", "missing.X")
	return out
}

func dstPaths(fs []gField) []string {
	var out []string
	for _, f := range fs {
		out = append(out, f.Name)
		switch f.Type {
		case "Inner", "Inner2":
			out = append(out, f.Name+".X", f.Name+".Y")
		case "Deep", "Deep2":
			out = append(out, f.Name+".In.X", f.Name+".Tag", f.Name+".In")
		case "ext.Pub", "ext.Pub2":
			out = append(out, f.Name+".A")
		}
	}
	return out
}

func typeOfField(fs []gField, name string) string {
	for _, f := range fs {
		if f.Name == name {
			return f.Type
		}
	}
	return "int"
}

// genMethod draws one converter method with notations; returns declarations it needs.
func (g *gen) genMethod(idx int, decl *strings.Builder, profile string) gMethod {
	m := gMethod{name: fmt.Sprintf("Conv%d", idx)}
	if g.chance(0.2) {
		m.name = g.pick([]string{"ToDst", "FromSrc", "Copy", "Apply", "conv"}) + fmt.Sprint(idx)
	}
	// additional arguments
	if g.chance(0.2) {
		n := 1 + g.r.Intn(2)
		for i := 0; i < n; i++ {
			t := g.pick([]string{"int", "string", "*Inner", "Inner", "ext.Pub", "[]int", "MyInt", "map[string]int", "time.Time"})
			name := ""
			if g.chance(0.6) {
				name = fmt.Sprintf("x%d", i)
			}
			m.extraArgs = append(m.extraArgs, gField{name, t})
		}
		g.feat("extra-args")
	}
	src, dst, sf, df := g.genStructPair(idx, decl, nil, m.extraArgs)
	m.src, m.dst = src, dst
	m.srcPtr = g.chance(0.7)
	m.dstPtr = g.chance(0.7)
	if g.chance(0.5) {
		m.srcName, m.dstName = g.pick([]string{"src", "s", "in", "from"}), g.pick([]string{"dst", "d", "out", "to"})
	}
	m.retErr = g.chance(0.3)

	add := func(format string, a ...any) { m.doc = append(m.doc, fmt.Sprintf(format, a...)) }
	if g.chance(0.3) {
		add(" %s converts %s to %s.", m.name, src, dst)
	}
	// toggles
	for _, t := range []string{"typecast", "stringer", "getter"} {
		if g.chance(0.35) {
			add(" :%s", t)
			g.feat(":" + t)
			if g.chance(0.1) {
				add(" :%s:off", t)
			}
		}
	}
	if g.chance(0.2) || (g.profile == "casefold" && g.chance(0.75)) {
		add(" :case:off")
		g.feat(":case:off")
	}
	if g.chance(0.08) {
		add(" :match none")
		g.feat(":match none")
	}
	styleArg := false
	if g.chance(0.25) {
		add(" :style arg")
		styleArg = true
		g.feat(":style arg")
	}
	if g.chance(0.15) {
		add(" :recv %s", g.pick([]string{"r", "self", "x1", "É"}))
		g.feat(":recv")
	}
	if styleArg && len(m.extraArgs) == 0 && g.chance(0.3) {
		add(" :reverse")
		g.feat(":reverse")
	} else if g.bad(0.1) {
		add(" :reverse")
		g.feat(":reverse-illegal")
	}
	dps := dstPaths(df)
	sps := srcPaths(g, sf)
	if g.profile == "casefold" {
		// notations that name one spelling (or a spelling no field has)
		var variants []string
		for _, f := range df {
			switch strings.ToLower(f.Name) {
			case "id", "name", "url":
				variants = append(variants, f.Name)
			}
		}
		variants = append(variants, "ID", "Id", "iD", "NAME", "uRL")
		for i := 0; i < 1+g.r.Intn(3); i++ {
			v := g.pick(variants)
			switch g.r.Intn(5) {
			case 0:
				add(" :skip %s", v)
			case 1:
				add(" :map %s %s", g.pick(sps), v)
			case 2:
				if lit := litVariant(v, literalFor(typeOfField(df, v))); lit != "" && typeOfField(df, v) != "int" || true {
					if lit == "" {
						lit = "0"
					}
					add(" :literal %s %s", v, lit)
				}
			case 3:
				add(" :skip /^%s$/", v)
			default:
				fn := fmt.Sprintf("cf%d_%d", idx, i)
				sp := g.pick(sps)
				fmt.Fprintf(decl, "func %s(v %s) (r %s) { return }\n", fn, typeOfField(sf, strings.Split(sp, ".")[0]), typeOfField(df, v))
				add(" :conv %s %s %s", fn, strings.Split(sp, ".")[0], v)
			}
		}
		g.feat("notation-on-one-spelling")
	}
	// skip
	if g.chance(0.3) && len(dps) > 0 {
		p := g.pick(dps)
		switch g.r.Intn(5) {
		case 0:
			add(" :skip /^%s/", p[:1])
			g.feat(":skip-regexp")
		case 1:
			add(" :skip %s", caseVariant(g, p))
			g.feat(":skip-casevariant")
		case 2:
			add(" :skip /%s$/", strings.ToLower(p))
			g.feat(":skip-regexp")
		default:
			add(" :skip %s", p)
			g.feat(":skip")
		}
		if g.chance(0.3) {
			add(" :case:off")
			g.feat("case-flip-after-skip")
		}
	}
	// map
	nmap := 0
	if g.chance(0.35) {
		nmap = 1 + g.r.Intn(2)
	}
	for i := 0; i < nmap && len(dps) > 0; i++ {
		add(" :map %s %s", g.pick(sps), g.pick(dps))
		g.feat(":map")
	}
	if len(m.extraArgs) > 0 && g.chance(0.7) && len(dps) > 0 {
		n := 1 + g.r.Intn(len(m.extraArgs)+2)
		suffix := ""
		if n >= 2 && n-2 < len(m.extraArgs) {
			switch m.extraArgs[n-2].Type {
			case "*Inner", "Inner":
				suffix = g.pick([]string{"", ".X", ".Y"})
			case "ext.Pub":
				suffix = g.pick([]string{"", ".A", ".B()", ".b"})
			case "time.Time":
				suffix = g.pick([]string{"", ".Unix()"})
			}
		}
		add(" :map $%d%s %s", n, suffix, g.pick(dps))
		g.feat(":map-$n")
	}
	// conv
	if g.chance(0.35) && len(dps) > 0 {
		n := 1 + g.r.Intn(2)
		for i := 0; i < n; i++ {
			sp := g.pick(sps)
			dp := g.pick(dps)
			st := typeOfField(sf, strings.Split(sp, ".")[0])
			dt := typeOfField(df, strings.Split(dp, ".")[0])
			if strings.Contains(sp, ".") || strings.Contains(sp, "(") {
				st = g.pick([]string{"int", "string"})
			}
			if strings.Contains(dp, ".") {
				dt = g.pick([]string{"int", "string", "int64"})
			}
			fn := fmt.Sprintf("cv%d_%d", idx, i)
			arg := st
			if g.chance(0.15) && !strings.HasPrefix(st, "*") {
				arg = "*" + st
				g.feat("conv-ptr-arg")
			}
			k := g.r.Intn(10)
			if k == 1 && !g.bad(0.5) || k == 4 && !g.bad(0.5) {
				k = 9
			}
			if k == 0 && !m.retErr && !g.bad(0.5) {
				k = 9
			}
			switch k {
			case 0:
				fmt.Fprintf(decl, "func %s(v %s) (r %s, err error) { return }\n", fn, arg, dt)
				g.feat("conv-with-error")
			case 1:
				fmt.Fprintf(decl, "func %s(v %s, w int) (r %s) { return }\n", fn, arg, dt)
				g.feat("conv-bad-shape")
			case 2:
				fn = "ext.PubToInt"
			case 3:
				fn = "ext.KindName"
			case 4:
				fn = g.pick([]string{"NoSuchFunc", "ext.hiddenConv", "ext.Nope", "nopkg.F", "MyInt", "strconv.Itoa", "len"})
				g.feat("conv-unresolvable")
			default:
				fmt.Fprintf(decl, "func %s(v %s) (r %s) { return }\n", fn, arg, dt)
			}
			if g.chance(0.5) && sp == dp {
				add(" :conv %s %s", fn, sp)
			} else {
				add(" :conv %s %s %s", fn, sp, dp)
			}
			g.feat(":conv")
		}
	}
	// literal
	if g.chance(0.2) && len(dps) > 0 {
		dp := g.pick(dps)
		lit := litVariant(dp, literalFor(typeOfField(df, strings.Split(dp, ".")[0])))
		if strings.Contains(dp, ".") {
			lit = "" // nested member: its type is not tracked by the generator
		}
		if lit != "" {
			add(" :literal %s %s", dp, lit)
			g.feat(":literal")
		}
	}
	// hooks
	for _, hk := range []string{"preprocess", "postprocess"} {
		if !g.chance(0.15) {
			continue
		}
		fn := fmt.Sprintf("%s%d", hk[:3], idx)
		dT, sT := "*"+dst, "*"+src
		if g.chance(0.3) {
			dT = dst
		}
		if g.chance(0.3) {
			sT = src
		}
		params := fmt.Sprintf("d %s, s %s", dT, sT)
		if len(m.extraArgs) > 0 && g.chance(0.6) {
			for i, a := range m.extraArgs {
				params += fmt.Sprintf(", a%d %s", i, a.Type)
			}
			g.feat("hook-extra-args")
		}
		ret := ""
		if g.chance(0.3) && (m.retErr || g.bad(0.3)) {
			ret = " error"
			g.feat("hook-with-error")
		}
		hk2 := g.r.Intn(12)
		if hk2 <= 2 && !g.bad(0.6) {
			hk2 = 11
		}
		switch hk2 {
		case 0:
			params = "d " + dT
			g.feat("hook-one-param")
		case 1:
			params = fmt.Sprintf("d %s, s %s", sT, dT)
			g.feat("hook-swapped")
		case 2:
			ret = " int"
			g.feat("hook-bad-result")
		}
		body := "{}"
		if ret != "" {
			body = "{ return }"
			if ret == " int" {
				body = "{ return 0 }"
			} else {
				body = "{ return nil }"
			}
		}
		fmt.Fprintf(decl, "func %s(%s)%s %s\n", fn, params, ret, body)
		add(" :%s %s", hk, fn)
		g.feat(":" + hk)
	}
	// malformed / odd notation lines
	if g.bad(0.25) {
		for i := 0; i < 1+g.r.Intn(3); i++ {
			add("%s", g.pick([]string{" :skip", " :map A", " :conv f", " :literal X", " :style", " :style bogus",
				" :match", " :match tag", " :match fuzzy", " :recv", " :recv 9x", " :recv a_b", " :preprocess", " :postprocess nofunc",
				" :skip /[/", " :skip /(?P<n>a)/", " :skip /\\pL{3}/", " :tag json", " :conv:type x y", " :unknownthing a b",
				" :map  $x A", " :map $0 A", " :map $99 A", " :map $1 A", " :map $ A", ":typecast", " : typecast", " :getter extra args",
				" :convergen", " :literal A B", " :literal A  5 + 1 ", " :skip A B C", " :conv strconv.Itoa A B C D",
				" :reverse", " :case", " :stringer:off", " :map A.B.C.D E", " :map () A", " :map A() A", " :map .A A", " :map A. A"}))
		}
		g.feat("odd-notation")
	}
	// shuffle notation order a little
	if g.chance(0.3) {
		g.r.Shuffle(len(m.doc), func(i, j int) { m.doc[i], m.doc[j] = m.doc[j], m.doc[i] })
	}
	return m
}

func (m gMethod) render() string {
	var sb strings.Builder
	for _, l := range m.doc {
		sb.WriteString("\t//" + l + "\n")
	}
	sp, dp := "", ""
	if m.srcPtr {
		sp = "*"
	}
	if m.dstPtr {
		dp = "*"
	}
	params := []string{}
	named := m.srcName != ""
	if named {
		params = append(params, m.srcName+" "+sp+m.src)
	} else {
		params = append(params, sp+m.src)
	}
	for i, a := range m.extraArgs {
		n := a.Name
		if named && n == "" {
			n = fmt.Sprintf("p%d", i)
		}
		if !named {
			n = ""
		}
		if n != "" {
			params = append(params, n+" "+a.Type)
		} else {
			params = append(params, a.Type)
		}
	}
	res := dp + m.dst
	if named {
		res = m.dstName + " " + res
	}
	if m.retErr {
		if named {
			res = "(" + res + ", err error)"
		} else {
			res = "(" + res + ", error)"
		}
	} else if named {
		res = "(" + res + ")"
	}
	fmt.Fprintf(&sb, "\t%s(%s) %s\n", m.name, strings.Join(params, ", "), res)
	return sb.String()
}

// GenCase draws one case.  profile selects the emphasis: "mixed", "matching", "notations",
// "malformed", "scoping", "layout".
func GenCase(seed int64, idx int, profile string) GCase {
	g := &gen{r: rand.New(rand.NewSource(seed*1000003 + int64(idx))), features: map[string]bool{}, badness: 0.12}
	g.profile = profile
	if profile == "malformed" {
		g.badness = 1.6
	}
	if profile == "simple" {
		g.badness = 0
	}
	name := fmt.Sprintf("c%05d", idx)
	modPath := "exp/" + name
	var decl strings.Builder
	fmt.Fprintf(&decl, typesPrelude, name, modPath)

	var setup strings.Builder
	switch g.r.Intn(3) {
	case 0:
		setup.WriteString("//go:build convergen\n\n")
	case 1:
		setup.WriteString("//go:build convergen\n// +build convergen\n\n")
	default:
		setup.WriteString("// +build convergen\n\n")
	}
	if g.chance(0.3) {
		fmt.Fprintf(&setup, "// Package %s is a generated test case.\n", name)
		g.feat("package-doc")
	}
	fmt.Fprintf(&setup, "package %s\n\n", name)
	extAlias := ""
	if g.chance(0.2) {
		extAlias = g.pick([]string{"ext", "e2"})
	}
	setup.WriteString("import (\n\t\"strconv\"\n\t\"time\"\n\n")
	if extAlias != "" && extAlias != "ext" {
		// an aliased import: the types file keeps using `ext`, the setup file the alias
		fmt.Fprintf(&setup, "\t%s \"%s/ext\"\n", extAlias, modPath)
		g.feat("import-alias")
	} else {
		fmt.Fprintf(&setup, "\t\"%s/ext\"\n", modPath)
	}
	setup.WriteString(")\n\nvar _ = strconv.Itoa\nvar _ time.Time\n")
	if extAlias != "" && extAlias != "ext" {
		fmt.Fprintf(&setup, "var _ %s.Kind\n\n", extAlias)
	} else {
		setup.WriteString("var _ ext.Kind\n\n")
	}

	nIntf := 1
	if g.chance(0.2) {
		nIntf = 2 + g.r.Intn(2)
		g.feat("multi-interface")
	}
	midx := 0
	for i := 0; i < nIntf; i++ {
		iname := "Convergen"
		if i > 0 || g.chance(0.15) {
			iname = g.pick([]string{"Alpha", "Zeta", "MidConv", "conv"}) + fmt.Sprint(i)
		}
		if g.chance(0.3) {
			fmt.Fprintf(&setup, "// %s holds converters.\n", iname)
		}
		if iname != "Convergen" {
			setup.WriteString("// :convergen\n")
		}
		// interface-level notations
		for _, t := range []string{"typecast", "stringer", "getter", "case:off", "style arg", "match none"} {
			if g.chance(0.1) {
				fmt.Fprintf(&setup, "// :%s\n", t)
				g.feat("intf-level-notation")
			}
		}
		if g.chance(0.1) {
			setup.WriteString("//go:generate go run github.com/reedom/convergen@v0.7.0\n")
		}
		fmt.Fprintf(&setup, "type %s interface {\n", iname)
		nm := 1 + g.r.Intn(3)
		for k := 0; k < nm; k++ {
			m := g.genMethod(midx, &decl, profile)
			midx++
			text := m.render()
			if extAlias != "" && extAlias != "ext" {
				text = strings.ReplaceAll(text, "ext.", extAlias+".")
			}
			setup.WriteString(text)
		}
		setup.WriteString("}\n\n")
		if g.chance(0.2) {
			fmt.Fprintf(&setup, "// Other%d is not a converter.\ntype Other%d interface {\n\t// :typecast\n\tM%d(int) string\n}\n\n", i, i, i)
			g.feat("unmarked-interface")
		}
	}
	feats := make([]string, 0, len(g.features))
	for f := range g.features {
		feats = append(feats, f)
	}
	sort.Strings(feats)
	return GCase{
		Name:  name,
		Setup: name + "/setup.go",
		Files: map[string]string{
			name + "/setup.go":   setup.String(),
			name + "/types.go":   decl.String(),
			name + "/ext/ext.go": extPrelude,
		},
		Features: feats,
		Profile:  profile,
	}
}
