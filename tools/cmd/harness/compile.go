package main

// C01 judge: the Go type checker (through the compiler) and gofmt on every emitted file, in its
// package under the ordinary build (setup file excluded by its build tag, output included).

import (
	"bytes"
	"os"
	"os/exec"
	"path/filepath"
	"regexp"
	"strings"
)

var reCompileErr = regexp.MustCompile(`^([^\s:]+)/([^/\s:]+\.go):(\d+):(\d+): (.*)$`)

var compileClasses = []struct {
	re    *regexp.Regexp
	class string
}{
	{regexp.MustCompile(`arguments to copy .* have different element types`), "copy-element-types-differ"},
	{regexp.MustCompile(`cannot use .* as .* value in argument to`), "call-argument-type"},
	{regexp.MustCompile(`cannot use .* as .* value in assignment`), "assignment-type"},
	{regexp.MustCompile(`cannot use .* as .* value in (return|range)`), "value-type"},
	{regexp.MustCompile(`cannot convert`), "conversion"},
	{regexp.MustCompile(`cannot take address`), "address-of-non-addressable"},
	{regexp.MustCompile(`cannot call pointer method`), "pointer-method-on-value"},
	{regexp.MustCompile(`cannot indirect`), "indirect-of-non-pointer"},
	{regexp.MustCompile(`undefined: err\b`), "err-undefined"},
	{regexp.MustCompile(`undefined:`), "undefined-name"},
	{regexp.MustCompile(`assignment mismatch`), "assignment-count"},
	{regexp.MustCompile(`(declared and not used|imported and not used)`), "unused"},
	{regexp.MustCompile(`not enough arguments|too many arguments`), "call-argument-count"},
	{regexp.MustCompile(`(unexported|not exported|refer to unexported)`), "unexported"},
	{regexp.MustCompile(`redeclared|duplicate|other declaration of`), "redeclared"},
	{regexp.MustCompile(`syntax error|expected`), "syntax"},
	{regexp.MustCompile(`(missing return|no value\) used as value|too many return values|not enough return values)`), "return-shape"},
	{regexp.MustCompile(`has no field or method|undefined \(type`), "no-such-member"},
}

func normaliseCompileMsg(m string) string {
	for _, c := range compileClasses {
		if c.re.MatchString(m) {
			return c.class
		}
	}
	words := strings.Fields(m)
	if len(words) > 4 {
		words = words[:4]
	}
	return "other:" + strings.Join(words, "-")
}

func compileJudge(root string, cases map[string]GCase) []Judgement {
	var out []Judgement
	env := append(os.Environ(), "GOFLAGS=", "GOPROXY=off", "GOTOOLCHAIN=local", "GOSUMDB=off")
	cmd := exec.Command("go", "build", "-gcflags=-e", "./...")
	cmd.Dir = root
	cmd.Env = env
	var buf bytes.Buffer
	cmd.Stdout = &buf
	cmd.Stderr = &buf
	_ = cmd.Run()
	seen := map[string]bool{}
	for _, l := range strings.Split(buf.String(), "\n") {
		m := reCompileErr.FindStringSubmatch(strings.TrimSpace(l))
		if m == nil {
			continue
		}
		dir := strings.TrimPrefix(m[1], "./")
		name := strings.Split(dir, "/")[0]
		if _, ok := cases[name]; !ok {
			continue
		}
		// a wrongly typed :literal is the user's text, not convergen's choice
		if c := cases[name]; literalLine(root, dir, m[2], m[3], c) {
			continue
		}
		key := "C01|does-not-compile|" + normaliseCompileMsg(m[5])
		if seen[name+key] {
			continue
		}
		seen[name+key] = true
		out = append(out, Judgement{Property: "C01", Case: cases[name].Name, Key: key, What: l})
	}
	// gofmt-clean
	cmd = exec.Command("gofmt", "-l", ".")
	cmd.Dir = root
	cmd.Env = env
	buf.Reset()
	cmd.Stdout = &buf
	_ = cmd.Run()
	for _, l := range strings.Split(buf.String(), "\n") {
		l = strings.TrimSpace(l)
		if !strings.HasSuffix(l, ".gen.go") {
			continue
		}
		name := strings.Split(filepath.ToSlash(l), "/")[0]
		if _, ok := cases[name]; ok {
			out = append(out, Judgement{Property: "C01", Case: cases[name].Name, Key: "C01|not-gofmt-clean", What: l + " is not gofmt-clean"})
		}
	}
	return out
}

// literalLine reports whether the offending output line assigns the text of a :literal notation.
func literalLine(root, dir, file, line string, c GCase) bool {
	b, err := os.ReadFile(filepath.Join(root, dir, file))
	if err != nil {
		return false
	}
	lines := strings.Split(string(b), "\n")
	n := 0
	for _, ch := range line {
		n = n*10 + int(ch-'0')
	}
	if n < 1 || n > len(lines) {
		return false
	}
	l := lines[n-1]
	i := strings.Index(l, " = ")
	if i < 0 {
		return false
	}
	rhs := strings.TrimSpace(l[i+3:])
	for _, sl := range strings.Split(c.Files[c.Setup], "\n") {
		if mm := reNotationH.FindStringSubmatch(sl); mm != nil && mm[1] == "literal" {
			if strings.Contains(strings.Join(strings.Fields(mm[2]), " "), strings.Join(strings.Fields(rhs), " ")) {
				return true
			}
		}
	}
	return false
}
