package main

// Targeted case families.  The generic generator (gen.go) draws broad mixtures; the families here
// aim at the situations that need something specific to manifest: nested destination paths with
// notations, same-named members at several nesting levels, several methods with per-method rule
// lists, hooks and converters shared between methods, references to functions generated in the same
// run, sibling files, same-named packages, blank imports, concrete error types, case-rule flips.

import (
	"fmt"
	"math/rand"
	"sort"
	"strings"
)

type tgen struct {
	r     *rand.Rand
	name  string
	files map[string]string
	feats map[string]bool
}

func (t *tgen) ch(p float64) bool       { return t.r.Float64() < p }
func (t *tgen) pick(l ...string) string { return l[t.r.Intn(len(l))] }
func (t *tgen) feat(f string)           { t.feats[f] = true }

func (t *tgen) finish(profile string) GCase {
	fl := make([]string, 0, len(t.feats))
	for f := range t.feats {
		fl = append(fl, f)
	}
	sort.Strings(fl)
	return GCase{Name: t.name, Setup: t.name + "/setup.go", Files: t.files, Features: fl, Profile: profile}
}

func header(t *tgen, imports ...string) string {
	var sb strings.Builder
	sb.WriteString(t.pick("//go:build convergen\n\n", "//go:build convergen\n// +build convergen\n\n", "// +build convergen\n\n"))
	fmt.Fprintf(&sb, "package %s\n\n", t.name)
	if len(imports) > 0 {
		sb.WriteString("import (\n")
		for _, i := range imports {
			sb.WriteString("\t" + i + "\n")
		}
		sb.WriteString(")\n\n")
	}
	return sb.String()
}

// GenTargeted draws one case of a targeted family; ok=false when the profile has none.
func GenTargeted(seed int64, idx int, profile string) (GCase, bool) {
	t := &tgen{r: rand.New(rand.NewSource(seed*104729 + int64(idx)*31 + int64(len(profile)))), name: fmt.Sprintf("t%05d", idx),
		files: map[string]string{}, feats: map[string]bool{}}
	fams := map[string][]func(*tgen){
		"nesting":    {famNested, famNested, famNestedConvRoot, famCandidates, famWholeCopy, famEmbeddedFields},
		"notations":  {famNested, famNestedConvRoot, famCaseFlip, famRefs, famPerMethodLists, famGetterShapes, famConvShapes, famWholeCopy, famEmbeddedFields},
		"scoping":    {famPerMethodLists, famPerMethodLists, famIntfLevel},
		"hooks":      {famSharedHooks, famSharedHooks, famHookShapes},
		"errors":     {famErrors, famSharedHooks, famErrors},
		"signatures": {famSignatures, famSignatures, famGenerics},
		"selection":  {famSelection, famSelection, famEmbedded},
		"imports":    {famImports, famImportNames, famImportNames, famVisibility},
		"matching":   {famMatching, famCandidates, famCandidates, famImports, famGetterShapes, famImportNames, famGenerics, famPlain, famPlain, famVisibility},
		"plain":      {famPlain},
		"slices":     {famSlices, famSlices},
		"casefold":   {famCaseFlip, famCandidates},
		"getters":    {famGetterShapes, famGetterShapes, famCandidates},
		"runtime":    {famRuntime},
		"generics":   {famGenerics, famImportNames},
		"simple":     {famRefs, famPlain},
		"mixed":      {famNested, famPerMethodLists, famSharedHooks, famErrors, famSignatures, famImports, famMatching, famSlices, famRefs, famCaseFlip, famCandidates, famGetterShapes, famImportNames, famGenerics, famVisibility},
		"malformed":  {famSharedHooks, famErrors, famConvShapes, famConvShapes, famEmbedded, famEmbedded},
	}
	fs, ok := fams[profile]
	if !ok {
		return GCase{}, false
	}
	fs[t.r.Intn(len(fs))](t)
	return t.finish(profile), true
}

// ---- nested destination paths with notations --------------------------------------------------

func famNested(t *tgen) {
	t.feat("family:nested")
	depth := 2 + t.r.Intn(2)
	// leaf names occur at every level so that "resolve from the root" and "resolve from the current
	// struct" give different answers
	leaf := []string{"Code", "Name", "Tag"}
	var types strings.Builder
	fmt.Fprintf(&types, "package %s\n\n", t.name)
	mk := func(side string, convert bool) {
		for d := depth; d >= 1; d-- {
			fmt.Fprintf(&types, "type %sL%d struct {\n", side, d)
			for _, l := range leaf {
				ty := "string"
				if convert && side == "D" && l == "Tag" && t.ch(0.3) {
					ty = "int"
				}
				fmt.Fprintf(&types, "\t%s %s\n", l, ty)
			}
			if side == "D" {
				fmt.Fprintf(&types, "\tRef%d string\n\tNum%d int\n", d, d)
			} else {
				fmt.Fprintf(&types, "\tOnly%d string\n", d)
			}
			if d < depth {
				fmt.Fprintf(&types, "\tIn %sL%d\n", side, d+1)
			}
			types.WriteString("}\n")
		}
	}
	mk("S", false)
	mk("D", true)
	types.WriteString("func up(s string) string { return s + \"!\" }\nfunc atoi(s string) (int, error) { return len(s), nil }\n")
	path := func(d int, leaf string) string {
		p := ""
		for i := 1; i < d; i++ {
			p += "In."
		}
		return p + leaf
	}
	var doc []string
	n := 1 + t.r.Intn(4)
	withErr := t.ch(0.5)
	for i := 0; i < n; i++ {
		d := 1 + t.r.Intn(depth)
		sd := 1 + t.r.Intn(depth)
		switch t.r.Intn(6) {
		case 0:
			doc = append(doc, fmt.Sprintf(":map %s %s", path(sd, t.pick(leaf...)), path(d, fmt.Sprintf("Ref%d", d))))
			t.feat("map-on-nested-dst")
		case 1:
			doc = append(doc, fmt.Sprintf(":conv up %s %s", path(sd, t.pick(leaf...)), path(d, fmt.Sprintf("Ref%d", d))))
			t.feat("conv-on-nested-dst")
		case 2:
			doc = append(doc, fmt.Sprintf(":literal %s %q", path(d, fmt.Sprintf("Ref%d", d)), "lit"))
			t.feat("literal-on-nested-dst")
		case 3:
			doc = append(doc, fmt.Sprintf(":skip %s", path(d, t.pick(leaf...))))
			t.feat("skip-on-nested-dst")
		case 4:
			if withErr {
				doc = append(doc, fmt.Sprintf(":conv atoi %s %s", path(sd, t.pick(leaf...)), path(d, fmt.Sprintf("Num%d", d))))
				t.feat("error-conv-on-nested-dst")
			}
		default:
			doc = append(doc, fmt.Sprintf(":map %s %s", path(sd, fmt.Sprintf("Only%d", sd)), path(d, t.pick(leaf...))))
			t.feat("map-on-nested-dst")
		}
	}
	if t.ch(0.3) {
		doc = append(doc, ":typecast")
	}
	var sb strings.Builder
	sb.WriteString(header(t))
	sb.WriteString("type Convergen interface {\n")
	for _, l := range doc {
		sb.WriteString("\t// " + l + "\n")
	}
	res := "*DL1"
	if withErr {
		res = "(*DL1, error)"
	}
	if t.ch(0.3) {
		sb.WriteString("\t// :style arg\n")
	}
	fmt.Fprintf(&sb, "\tConv(*SL1) %s\n}\n", res)
	t.files[t.name+"/setup.go"] = sb.String()
	t.files[t.name+"/types.go"] = types.String()
}

// the :conv / :map source must be resolved from the source operand, not from the struct the builder
// happens to be in
func famNestedConvRoot(t *tgen) {
	t.feat("family:nested-root-resolution")
	types := fmt.Sprintf(`package %s

type Addr struct {
	Currency string
	City     string
}
type Cust struct {
	Currency string
	Code     string
	Address  Addr
}
type Order struct {
	Currency string
	Code     string
	Customer Cust
}
type DAddr struct {
	OrderCurrency string
	OrderRef      string
	City          string
	Tag           string
}
type DCust struct {
	Ref     string
	Address DAddr
}
type DOrder struct {
	Code     string
	Customer DCust
}

func upper(s string) string { return s }
`, t.name)
	var doc []string
	for _, l := range []string{":map Code Customer.Address.OrderRef", ":conv upper Code Customer.Address.Tag", ":map Code Customer.Ref",
		":conv upper Currency Customer.Address.OrderCurrency", ":map Customer.Code Customer.Address.OrderRef", ":map Customer.Address.City Code",
		":conv upper Customer.Currency Customer.Ref"} {
		if t.ch(0.45) {
			doc = append(doc, l)
		}
	}
	var sb strings.Builder
	sb.WriteString(header(t))
	sb.WriteString("type Convergen interface {\n")
	for _, l := range doc {
		sb.WriteString("\t// " + l + "\n")
	}
	sb.WriteString("\tConv(*Order) *DOrder\n}\n")
	t.files[t.name+"/setup.go"] = sb.String()
	t.files[t.name+"/types.go"] = types
}

// ---- struct members that could be copied as a whole, with notations naming something beneath them ----------------

func famWholeCopy(t *tgen) {
	t.feat("family:whole-copy-members")
	ty := fmt.Sprintf("package %s\n\ntype In struct{ X, Y, Z int }\ntype Deep struct {\n\tIn In\n\tK  int\n}\ntype S struct {\n\tIn    In\n\tOther In\n\tD     Deep\n\tAlt   int\n}\ntype D struct {\n\tIn    In\n\tOther In\n\tD     Deep\n}\n", t.name)
	pool := []string{":skip In.X", ":map Alt In.Y", ":literal D.In.Z 7", ":skip D.In.Y", ":map Alt D.K", ":skip Other.Z", ":literal Other.X 1",
		// patterns without a dot that match nested paths all the same
		":skip /X$/", ":skip /Z$/", ":skip /^D\\./", ":skip /Y/", ":skip /^Other/", ":skip /K$/"}
	var sb strings.Builder
	sb.WriteString(header(t))
	sb.WriteString("type Convergen interface {\n")
	for j := 0; j < 1+t.r.Intn(3); j++ {
		for k := 0; k < t.r.Intn(3); k++ {
			l := pool[t.r.Intn(len(pool))]
			if strings.HasPrefix(l, ":skip /") {
				t.feat("dotless-regexp-skip")
			}
			sb.WriteString("\t// " + l + "\n")
		}
		if t.ch(0.3) {
			sb.WriteString("\t// :style arg\n")
		}
		fmt.Fprintf(&sb, "\tM%d(%sS) %sD\n", j, t.pick("*", "*", ""), t.pick("*", "*", ""))
	}
	sb.WriteString("}\n")
	t.files[t.name+"/setup.go"] = sb.String()
	t.files[t.name+"/types.go"] = ty
}

// ---- embedded structs: promoted fields that share a name with a field of the embedding struct ------------------

func famEmbeddedFields(t *tgen) {
	t.feat("family:embedded-struct-fields")
	ty := fmt.Sprintf("package %s\n\ntype Audit struct {\n\tID int\n\tBy string\n}\ntype S struct {\n\tAudit\n\tID   int\n\tCode int\n\tName string\n}\ntype D struct {\n\tAudit\n\tID   int\n\tName string\n}\ntype DP struct {\n\t*Audit\n\tID int\n}\n", t.name)
	pool := []string{":map Code ID", ":skip ID", ":map Code Audit.ID", ":skip Audit.By", ":literal ID 7", ":literal Audit.ID 8", ":skip /ID$/", ":map Name Audit.By", ":skip By", ":map Audit.ID ID"}
	var sb strings.Builder
	sb.WriteString(header(t))
	sb.WriteString("type Convergen interface {\n")
	for j := 0; j < 1+t.r.Intn(3); j++ {
		for k := 0; k < t.r.Intn(3); k++ {
			sb.WriteString("\t// " + pool[t.r.Intn(len(pool))] + "\n")
		}
		if t.ch(0.3) {
			sb.WriteString("\t// :style arg\n")
		}
		fmt.Fprintf(&sb, "\tM%d(%sS) %s%s\n", j, t.pick("*", "*", ""), t.pick("*", "*", ""), t.pick("D", "D", "DP"))
	}
	sb.WriteString("}\n")
	t.files[t.name+"/setup.go"] = sb.String()
	t.files[t.name+"/types.go"] = ty
}

// ---- case-rule flips around :skip ---------------------------------------------------------------

func famCaseFlip(t *tgen) {
	t.feat("family:case-flip")
	types := fmt.Sprintf("package %s\n\ntype S struct {\n\tID int\n\tName string\n\tEmail string\n\tURL string\n}\ntype D struct {\n\tID int\n\tName string\n\tEmail string\n\tURL string\n}\n", t.name)
	pats := []string{"id", "ID", "name", "Name", "NAME", "email", "url", "/^n/", "/^N/", "/mail$/", "/^(id|url)$/", "/[A-Z]{2,}/"}
	var doc []string
	state := []string{":case:off", ":case", ""}
	for i := 0; i < 2+t.r.Intn(4); i++ {
		if s := t.pick(state...); s != "" {
			doc = append(doc, s)
		}
		// sometimes followed by a blank or a remark: only the first word is the pattern
		doc = append(doc, ":skip "+t.pick(pats...)+t.pick("", "", "", " ", " legacy", "  see above"))
	}
	if s := t.pick(state...); s != "" {
		doc = append(doc, s)
	}
	var sb strings.Builder
	sb.WriteString(header(t))
	sb.WriteString("type Convergen interface {\n")
	for _, l := range doc {
		sb.WriteString("\t// " + l + "\n")
	}
	sb.WriteString("\tConv(*S) *D\n")
	if t.ch(0.5) {
		sb.WriteString("\t// :skip " + t.pick(pats...) + "\n\tOther(*S) *D\n")
	}
	sb.WriteString("}\n")
	t.files[t.name+"/setup.go"] = sb.String()
	t.files[t.name+"/types.go"] = types
}

// ---- references to functions generated in the same run -------------------------------------------

func famRefs(t *tgen) {
	t.feat("family:conv-refers-to-generated-function")
	types := fmt.Sprintf(`package %s

type Cat struct{ ID int; Name string }
type DCat struct{ ID int; Name string }
type Part struct{ No int }
type DPart struct{ No int }
type Pet struct {
	Name string
	Cat  Cat
	Part Part
	Prev *Cat
}
type DPet struct {
	Name string
	Cat  DCat
	Part DPart
	Prev *DCat
}
`, t.name)
	// interface names chosen so that the referencing one sorts before or after the referenced one
	a, b := "Convergen", t.pick("PartsConverter", "APartsConverter", "Zed")
	catM, partM := t.pick("CatToD", "ACat", "zcat"), t.pick("PartToD", "APart")
	var sb strings.Builder
	sb.WriteString(header(t))
	fmt.Fprintf(&sb, "type %s interface {\n\t// :conv %s Cat\n\t// :conv %s Part\n", a, catM, partM)
	if t.ch(0.4) {
		fmt.Fprintf(&sb, "\t// :conv %sP Prev\n", catM)
		t.feat("ref-with-pointers")
	}
	sb.WriteString("\tPetToD(*Pet) *DPet\n")
	sameIntf := t.ch(0.4)
	if sameIntf {
		fmt.Fprintf(&sb, "\t%s(Cat) DCat\n", catM)
	}
	sb.WriteString("}\n\n")
	fmt.Fprintf(&sb, "// :convergen\ntype %s interface {\n", b)
	if !sameIntf {
		fmt.Fprintf(&sb, "\t%s(Cat) DCat\n", catM)
	}
	fmt.Fprintf(&sb, "\t%s(Part) DPart\n\t%sP(*Cat) *DCat\n", partM, catM)
	if t.ch(0.3) {
		fmt.Fprintf(&sb, "\t// :style arg\n\tArgStyle%s(Cat) DCat\n", catM)
	}
	sb.WriteString("}\n")
	if t.ch(0.35) {
		// a third interface whose receiver-form method has the name of the referenced converter (another function:
		// a method of the source type), declared before or after the others in name order
		fmt.Fprintf(&sb, "\n// :convergen\ntype %s interface {\n\t// :recv c\n\t%s(*Part) *DPart\n}\n", t.pick("Aaa", "Zzz", "Mid"), catM)
		t.feat("receiver-method-named-like-referenced-converter")
	}
	t.files[t.name+"/setup.go"] = sb.String()
	t.files[t.name+"/types.go"] = types
}

// ---- several methods, each with its own rule lists (aliasing between methods) --------------------

func famPerMethodLists(t *tgen) {
	t.feat("family:per-method-rule-lists")
	types := fmt.Sprintf(`package %s

type S struct {
	Name, Nick, Alias, Note, Secret string
	N                              int
}
type D struct {
	Display, Note, Secret, Extra string
	N                            int
}

func c1(s string) string { return s }
func c2(s string) string { return s }
func c3(s string) string { return s }
`, t.name)
	srcs := []string{"Name", "Nick", "Alias", "Note", "Secret"}
	dsts := []string{"Display", "Note", "Secret", "Extra"}
	var sb strings.Builder
	sb.WriteString(header(t))
	nIntf := 1 + t.r.Intn(2)
	mi := 0
	for k := 0; k < nIntf; k++ {
		iname := "Convergen"
		if k > 0 {
			sb.WriteString("// :convergen\n")
			iname = t.pick("Beta", "Alpha", "Zz") + fmt.Sprint(k)
		}
		for _, n := range []string{":typecast", ":stringer", ":case:off", ":getter", ":style arg", ":match none"} {
			if t.ch(0.12) {
				sb.WriteString("// " + n + "\n")
				t.feat("interface-level-notation")
			}
		}
		fmt.Fprintf(&sb, "type %s interface {\n", iname)
		for j := 0; j < 2+t.r.Intn(3); j++ {
			for i := 0; i < t.r.Intn(3); i++ {
				switch t.r.Intn(4) {
				case 0:
					fmt.Fprintf(&sb, "\t// :map %s %s\n", t.pick(srcs...), t.pick(dsts...))
				case 1:
					fmt.Fprintf(&sb, "\t// :skip %s\n", t.pick(dsts...))
				case 2:
					fmt.Fprintf(&sb, "\t// :literal %s %q\n", t.pick(dsts...), fmt.Sprintf("v%d", mi))
				default:
					fmt.Fprintf(&sb, "\t// :conv c%d %s %s\n", 1+t.r.Intn(3), t.pick(srcs...), t.pick(dsts...))
				}
			}
			for _, n := range []string{":typecast:off", ":case", ":style return", ":match name"} {
				if t.ch(0.08) {
					sb.WriteString("\t// " + n + "\n")
				}
			}
			fmt.Fprintf(&sb, "\t%s%d(*S) *D\n", t.pick("M", "A", "Z", "conv"), mi)
			mi++
		}
		sb.WriteString("}\n\n")
	}
	t.files[t.name+"/setup.go"] = sb.String()
	t.files[t.name+"/types.go"] = types
}

func famIntfLevel(t *tgen) {
	t.feat("family:interface-level-defaults")
	types := fmt.Sprintf(`package %s

import "strconv"

type St int

func (s St) String() string { return strconv.Itoa(int(s)) }

type S struct {
	ID    int
	name  string
	Stat  St
	Count int
}

func (s *S) Name() string { return s.name }

type D struct {
	ID    int64
	Name  string
	Stat  string
	count int
}
`, t.name)
	var sb strings.Builder
	sb.WriteString(header(t))
	for k := 0; k < 1+t.r.Intn(3); k++ {
		iname := "Convergen"
		if k > 0 {
			sb.WriteString("// :convergen\n")
			iname = t.pick("Metric", "Audit", "Zeta") + fmt.Sprint(k)
		}
		for _, n := range []string{":typecast", ":stringer", ":getter", ":case:off", ":style arg", ":match none", ":typecast:off", ":getter:off"} {
			if t.ch(0.3) {
				sb.WriteString("// " + n + "\n")
			}
		}
		if t.ch(0.35) {
			// notations that are valid on methods only, written on the interface (they are to be ignored there), in numbers
			// that leave spare capacity in a slice grown by append
			methodOnly := []string{":skip ID", ":skip Name", ":skip Stat", ":skip count", ":skip /^N/", ":map ID Count", ":literal Name \"x\"", ":skip Count", ":skip Missing"}
			for _, i := range t.r.Perm(len(methodOnly))[:3+t.r.Intn(5)] {
				sb.WriteString("// " + methodOnly[i] + "\n")
			}
			t.feat("method-only-notations-on-interface")
		}
		fmt.Fprintf(&sb, "type %s interface {\n", iname)
		for j := 0; j < 1+t.r.Intn(3); j++ {
			if t.ch(0.5) {
				fmt.Fprintf(&sb, "\t// :skip %s\n", t.pick("ID", "Name", "Stat"))
			}
			if t.ch(0.35) {
				// a regexp pattern written before the method flips the case rule back (or forth): the rule in force for the
				// method is the one that counts, not the one in force when the line was read
				fmt.Fprintf(&sb, "\t// :skip %s\n\t// %s\n", t.pick("/^(id|name)$/", "/^(ID|Name)$/", "/^s/", "/^S/", "/t$/", "/T$/"), t.pick(":case", ":case:off", ":case"))
			}
			for _, n := range []string{":typecast", ":stringer:off", ":getter", ":case", ":style return", ":match name", ":typecast:off", ":stringer"} {
				if t.ch(0.15) {
					sb.WriteString("\t// " + n + "\n")
				}
			}
			fmt.Fprintf(&sb, "\tF%d_%d(*S) *D\n", k, j)
		}
		sb.WriteString("}\n\n")
	}
	t.files[t.name+"/setup.go"] = sb.String()
	t.files[t.name+"/types.go"] = types
}

// ---- hooks -------------------------------------------------------------------------------------------

func famSharedHooks(t *tgen) {
	t.feat("family:hooks-shared-between-methods")
	types := fmt.Sprintf(`package %s

type FieldError struct{ F string }

func (e *FieldError) Error() string { return e.F }

type A struct{ X int }
type B struct{ X int }
type C struct{ X int }

func hookAB(d *B, s *A)                        {}
func hookABErr(d *B, s *A) error               { return nil }
func hookABArgs(d *B, s *A, n int) error       { return nil }
func hookABVal(d B, s A)                       {}
func hookCB(d *B, s *C)                        {}
func hookConcrete(d *B, s *A) *FieldError      { return nil }
func hookABStr(d *B, s *A, n string)           {}
`, t.name)
	hooks := []string{"hookAB", "hookABErr", "hookABArgs", "hookABVal", "hookCB", "hookConcrete", "hookABStr"}
	var sb strings.Builder
	sb.WriteString(header(t))
	sb.WriteString("type Convergen interface {\n")
	shared := t.pick(hooks...)
	sameShape := t.ch(0.5) // all methods over the same operand types: only the error result varies
	for j := 0; j < 2+t.r.Intn(3); j++ {
		h := shared
		if t.ch(0.3) && !sameShape {
			h = t.pick(hooks...)
		}
		fmt.Fprintf(&sb, "\t// :%s %s\n", t.pick("preprocess", "postprocess"), h)
		if t.ch(0.3) {
			sb.WriteString("\t// :style arg\n")
		}
		src := t.pick("*A", "A", "*A", "*C")
		dst := t.pick("*B", "B", "*B")
		extra := t.pick("", "", ", n int", ", n string")
		if sameShape {
			src, dst, extra = "*A", "*B", ""
			if shared == "hookABArgs" {
				extra = ", n int"
			}
		}
		ret := t.pick(dst, "("+dst+", error)")
		fmt.Fprintf(&sb, "\t%s%d(s %s%s) %s\n", t.pick("Conv", "Must", "A", "Z"), j, src, extra, strings.Replace(ret, "(", "(d ", 1))
	}
	sb.WriteString("}\n")
	text := sb.String()
	// named results need names on all of them
	text = strings.ReplaceAll(text, ", error)", ", err error)")
	text = strings.ReplaceAll(text, ") *B\n", ") (d *B)\n")
	text = strings.ReplaceAll(text, ") B\n", ") (d B)\n")
	t.files[t.name+"/setup.go"] = text
	t.files[t.name+"/types.go"] = types
}

func famHookShapes(t *tgen) {
	t.feat("family:hook-shape-grid")
	var types strings.Builder
	fmt.Fprintf(&types, "package %s\n\ntype A struct{ X int }\ntype B struct{ X int }\ntype MyInt int\ntype Fn func()\ntype Ints []int\ntype Xer interface{ GetX() int }\n\nfunc (a A) GetX() int  { return a.X }\nfunc (b *B) GetX() int { return b.X }\n\n", t.name)
	var sb strings.Builder
	sb.WriteString(header(t))
	sb.WriteString("type Convergen interface {\n")
	k := 0
	for _, sp := range []string{"*A", "A"} {
		for _, dp := range []string{"*B", "B"} {
			if t.ch(0.4) {
				continue
			}
			// operand sides: the exact types, or types related to them in one direction only
			hd, hs := t.pick("*B", "B", "*B", "B", "interface{}", "Xer"), t.pick("*A", "A", "*A", "A", "interface{}", "Xer")
			ret, body := "", "{}"
			withErr := t.ch(0.4)
			if withErr {
				ret, body = " error", "{ return nil }"
			}
			// additional arguments: method side and hook side drawn independently from types whose
			// assignability is not symmetric (int / interface{} / named int / func types)
			extraM, extraH := "", ""
			if t.ch(0.5) {
				pool := []string{"int", "interface{}", "MyInt", "string", "any", "func()", "Fn", "[]int", "Ints"}
				n := 1 + t.r.Intn(2)
				for i := 0; i < n; i++ {
					mt := pool[t.r.Intn(len(pool))]
					ht := mt
					if t.ch(0.6) {
						ht = pool[t.r.Intn(len(pool))]
					}
					extraM += fmt.Sprintf(", v%d %s", i, mt)
					if i == n-1 && t.ch(0.15) {
						// the hook takes fewer additional parameters than the method has arguments
						t.feat("hook-with-fewer-parameters")
						continue
					}
					extraH += fmt.Sprintf(", v%d %s", i, ht)
				}
				if t.ch(0.15) {
					extraH += ", more int"
				}
			}
			fmt.Fprintf(&types, "func h%d(d %s, s %s%s)%s %s\n", k, hd, hs, extraH, ret, body)
			fmt.Fprintf(&sb, "\t// :%s h%d\n", t.pick("preprocess", "postprocess"), k)
			if t.ch(0.35) {
				sb.WriteString("\t// :style arg\n")
			}
			res := dp
			if withErr || t.ch(0.3) {
				res = "(" + dp + ", error)"
			}
			srcDecl := sp
			if extraM != "" {
				srcDecl = "s " + sp
			}
			fmt.Fprintf(&sb, "\tM%d(%s%s) %s\n", k, srcDecl, extraM, res)
			k++
		}
	}
	if k == 0 {
		fmt.Fprintf(&types, "func h0(d *B, s *A) {}\n")
		sb.WriteString("\t// :postprocess h0\n\tM0(*A) *B\n")
	}
	sb.WriteString("}\n")
	t.files[t.name+"/setup.go"] = sb.String()
	t.files[t.name+"/types.go"] = types.String()
}

// ---- error-capable call sites ---------------------------------------------------------------------

func famErrors(t *tgen) {
	t.feat("family:error-capable-call-sites")
	types := fmt.Sprintf(`package %s

type FieldError struct{ F string }

func (e *FieldError) Error() string { return e.F }

type SI2 struct{ P, Q string }
type DI2 struct{ P, Q int }
type SI struct {
	X, Y string
	Deep SI2
}
type DI struct {
	X, Y int
	Deep DI2
}
type S struct {
	A, B string
	In   SI
	n    string
}

func (s *S) N() (string, error)      { return s.n, nil }
func (s *S) Plain() string           { return s.n }
func (s *S) Concrete() (string, *FieldError) { return s.n, nil }

type D struct {
	A, B int
	In   DI
	N    string
	P    string
}

type MyInt int

func (m MyInt) String() string { return "" }

func (s *S) Num() (MyInt, error)          { return 0, nil }
func atoiM(s string) (MyInt, error)       { return MyInt(len(s)), nil }
func atoi(s string) (int, error)          { return len(s), nil }
func atoiC(s string) (int, *FieldError)    { return len(s), nil }
func plain(s string) int                  { return len(s) }
func pre(d *D, s *S) error                { return nil }
func post(d *D, s *S) error               { return nil }
func postC(d *D, s *S) *FieldError        { return nil }
`, t.name)
	var sb strings.Builder
	sb.WriteString(header(t))
	sb.WriteString("type Convergen interface {\n")
	for j := 0; j < 1+t.r.Intn(3); j++ {
		for _, l := range []string{":conv atoi A", ":conv atoi B", ":conv atoi In.X", ":conv atoi In.Y", ":conv plain A", ":map N() N", ":map Plain() P",
			":conv atoi In.Deep.P", ":conv atoi In.Deep.Q", ":conv atoi In.Deep.P In.Deep.Q", ":conv plain In.Deep.P",
			":preprocess pre", ":postprocess post", ":conv atoiC B", ":postprocess postC", ":map Concrete() N", ":getter",
			// error-returning calls whose value does not fit as it is: only a conversion / String() could make it fit
			":typecast", ":stringer", ":conv atoi A N", ":conv atoi In.X P", ":map N() A", ":conv atoiM A B", ":map Num() N"} {
			if t.ch(0.25) {
				sb.WriteString("\t// " + l + "\n")
			}
		}
		if t.ch(0.3) {
			sb.WriteString("\t// :style arg\n")
		}
		res := t.pick("(*D, error)", "(*D, error)", "*D", "(D, error)")
		if t.ch(0.3) {
			// a `$n` source that is an error-returning getter of an additional argument
			fmt.Fprintf(&sb, "\t// :map $2.N() %s\n", t.pick("N", "P"))
			if t.ch(0.4) {
				sb.WriteString("\t// :map $2.Plain() P\n")
			}
			fmt.Fprintf(&sb, "\t%s%d(s *S, other *S) %s\n", t.pick("Conv", "Must", "A"), j, res)
			continue
		}
		fmt.Fprintf(&sb, "\t%s%d(*S) %s\n", t.pick("Conv", "Must", "A"), j, res)
	}
	sb.WriteString("}\n")
	t.files[t.name+"/setup.go"] = sb.String()
	t.files[t.name+"/types.go"] = types
}

// ---- signatures: the documented shape space --------------------------------------------------------

func famSignatures(t *tgen) {
	t.feat("family:signature-shapes")
	types := fmt.Sprintf("package %s\n\ntype S struct{ A int }\ntype D struct{ A int }\n", t.name)
	ext := "package ext\n\ntype Pub struct{ A int }\ntype Out struct{ A int }\n"
	var sb strings.Builder
	sb.WriteString(header(t, "\"context\"", "\"time\"", fmt.Sprintf("\"exp/%s/ext\"", t.name)))
	sb.WriteString("var _ ext.Pub\nvar _ context.Context\nvar _ time.Duration\n\ntype Convergen interface {\n")
	for j := 0; j < 3+t.r.Intn(4); j++ {
		style := t.pick("", "", ":style arg", ":style return")
		recv := t.ch(0.3)
		rev := style == ":style arg" && t.ch(0.3)
		srcT, dstT := t.pick("S", "S", "ext.Pub"), t.pick("D", "D", "ext.Out")
		sp, dp := t.pick("*", ""), t.pick("*", "")
		nargs := t.r.Intn(3)
		if rev {
			nargs = 0
			if t.ch(0.15) {
				nargs = 1 // illegal on purpose
			}
		}
		named := t.ch(0.5)
		withErr := t.ch(0.4)
		if style != "" {
			sb.WriteString("\t// " + style + "\n")
		}
		if recv {
			// mostly fresh names; sometimes one that another parameter, a default name or the error result uses
			sb.WriteString("\t// :recv " + t.pick("r", "x", "self", "r", "x", "self", "a0", "a1", "err", "dst", "src", "out", "d", "arg0", "u_ser", "_x1", "_") + "\n")
		}
		if rev {
			sb.WriteString("\t// :reverse\n")
		} else if t.ch(0.03) {
			sb.WriteString("\t// :reverse\n")
		}
		params := []string{}
		p0 := sp + srcT
		if named {
			p0 = t.pick("in", "s", "from", "_") + " " + p0
		}
		params = append(params, p0)
		for i := 0; i < nargs; i++ {
			at := t.pick("int", "string", "*S", "ext.Pub", "[]int", "map[string]*D", "[]S", "func(int) error", "interface{}", "context.Context", "context.Context", "time.Duration", "error")
			if named {
				an := fmt.Sprintf("a%d", i)
				if t.ch(0.12) {
					an = t.pick("err", "dst", "src", "in", "s", "out", "d", "a0", "_", "_", "_")
				}
				at = an + " " + at
			}
			params = append(params, at)
		}
		res := dp + dstT
		if named {
			res = "(" + t.pick("out", "d", "to", "_") + " " + res
			if withErr {
				res += ", err error"
			}
			res += ")"
		} else if withErr {
			res = "(" + res + ", error)"
		}
		fmt.Fprintf(&sb, "\t%s%d(%s) %s\n", t.pick("F", "Conv", "g"), j, strings.Join(params, ", "), res)
	}
	sb.WriteString("}\n")
	t.files[t.name+"/setup.go"] = sb.String()
	t.files[t.name+"/types.go"] = types
	t.files[t.name+"/ext/ext.go"] = ext
}

// ---- which interfaces are converted ----------------------------------------------------------------

func famSelection(t *tgen) {
	t.feat("family:interface-selection")
	types := fmt.Sprintf("package %s\n\ntype S struct{ A int }\ntype D struct{ A int }\n\nfunc helper() {}\nfunc (s *S) Has() bool { return true }\n", t.name)
	var sb strings.Builder
	sb.WriteString(header(t))
	useNamed := t.ch(0.5)
	docs := []string{"// :convergen", "//:convergen", "//  :convergen  trailing", "// // :convergen", "// see :convergen for details", "// :convergence",
		"// :convergen.", "/* :convergen */", "// :Convergen", "// Marker: :convergen", "// :convergen-off", "// :convergen2"}
	usedNames := map[string]bool{}
	if t.ch(0.25) {
		// two converter interfaces, the name of one a prefix of the other's, the longer one declared first
		sb.WriteString("// :convergen\ntype MakerPlus interface {\n\tMP(*S) *D\n}\n\n// :convergen\ntype Maker interface {\n\tMK(*S) *D\n}\n\n")
		t.feat("interface-name-prefix-of-another")
	}
	for k := 0; k < 2+t.r.Intn(3); k++ {
		name := t.pick("Alpha", "Beta", "Mapper", "zed", "Other", "PostConvergen", "MyConvergen", "ConvergenX", "convergen") + fmt.Sprint(k)
		if t.ch(0.15) {
			name = t.pick("PostConvergen", "XConvergen", "NotConvergen", "ConvergenPlus", "ConvergenX", "Conv", "ConvA")
		}
		if usedNames[name] {
			name += fmt.Sprint(k)
		}
		usedNames[name] = true
		if k == 0 && useNamed {
			name = "Convergen"
		}
		if t.ch(0.4) {
			fmt.Fprintf(&sb, "// %s is documented.\n", name)
		}
		if name != "Convergen" || t.ch(0.3) {
			sb.WriteString(t.pick(docs...) + "\n")
		}
		if t.ch(0.2) {
			sb.WriteString("// :typecast\n")
		}
		// method names: mostly fresh; sometimes the name of another method (of another interface), of a
		// declaration that stays in the package, of the interface itself, or - in receiver style - of a
		// field or method of the receiver type
		mname := fmt.Sprintf("M%d", k)
		recv := ""
		if t.ch(0.5) {
			mname = t.pick("M0", "M1", "S", "D", "helper", "S", "D", "helper", name, "A", "Has")
			if t.ch(0.4) {
				recv = "\t// :recv s\n"
				if t.ch(0.5) {
					// in receiver form the members of the receiver type are what a name can collide with
					mname = t.pick("A", "Has")
					t.feat("method-named-like-receiver-member")
				}
			}
			t.feat("method-name-clash-candidate")
		}
		fmt.Fprintf(&sb, "type %s interface {\n\t// :skip A\n%s\t%s(*S) *D\n}\n\n", name, recv, mname)
	}
	if t.ch(0.25) {
		// a converter interface without methods (all of them commented out): it is replaced by nothing
		sb.WriteString(t.pick("// :convergen\ntype Hollow interface {\n}\n\n", "// Hollow has nothing yet.\n// :convergen\ntype Hollow interface {\n\t// :typecast\n\t// Later(*S) *D\n}\n\n",
			"// :convergen\ntype Hollow interface{}\n\n"))
		t.feat("converter-interface-without-methods")
	}
	if t.ch(0.3) {
		// objects of the package scope whose type is an interface without being an interface declaration: a marked variable,
		// a marked function; they stay where they are
		sb.WriteString(t.pick("// Default is a variable, not an interface declaration.\n// :convergen\nvar Default interface{ VarConv(*S) *D }\n\n",
			"// :convergen\nvar Registry, Spare interface {\n\tVarConv(*S) *D\n}\n\n",
			"// :convergen\nvar Fallback = interface{ VarConv(*S) *D }(nil)\n\n"))
		t.feat("marked-variable-of-interface-type")
	}
	if !useNamed && t.ch(0.4) {
		sb.WriteString("// :convergen\ntype Sure interface {\n\tSure(*S) *D\n}\n")
		t.feat("method-named-like-its-interface")
	}
	if t.ch(0.3) {
		// two marked interfaces asking for a function of the same name: plain (a clash) or with receivers of
		// different types (legal)
		switch t.r.Intn(4) {
		case 3:
			// the README's example: the same receiver name and method name on two different receiver types
			sb.WriteString("// :convergen\ntype Twin1 interface {\n\t// :recv m\n\tSame(*S) *D\n}\n\n// :convergen\ntype Twin2 interface {\n\t// :recv m\n\tSame(*D) *S\n}\n")
		case 0:
			sb.WriteString("// :convergen\ntype Twin1 interface {\n\tSame(*S) *D\n}\n\n// :convergen\ntype Twin2 interface {\n\tSame(*D) *S\n}\n")
		case 1:
			sb.WriteString("// :convergen\ntype Twin1 interface {\n\t// :recv s\n\tSame(*S) *D\n}\n\n// :convergen\ntype Twin2 interface {\n\t// :recv d\n\tSame(*D) *S\n}\n")
		default:
			sb.WriteString("// :convergen\ntype Twin1 interface {\n\t// :recv s\n\tSame(*S) *D\n}\n\n// :convergen\ntype Twin2 interface {\n\t// :recv x\n\tSame(s *S) D\n}\n")
		}
		t.feat("twin-interfaces-same-method-name")
	}
	t.files[t.name+"/setup.go"] = sb.String()
	t.files[t.name+"/types.go"] = types
	// sibling files of the same package, visible under the convergen tag
	if t.ch(0.7) {
		sib := "//go:build convergen\n\npackage " + t.name + "\n\n"
		if t.ch(0.6) {
			sib += "type Convergen2 interface {\n\tSib0(*S) *D\n}\n\n"
		}
		if !useNamed && t.ch(0.7) {
			sib += "type Convergen interface {\n\tSibNamed(*S) *D\n}\n\n"
			t.feat("sibling-named-Convergen")
		}
		sib += "// :convergen\ntype SibMarked interface {\n\tSib1(*S) *D\n}\n"
		t.files[t.name+"/another.go"] = sib
		t.feat("sibling-file")
	}
}

// ---- packages and imports ---------------------------------------------------------------------------

func famImports(t *tgen) {
	t.feat("family:imports")
	// an imported package whose *name* equals the setup package's name (path differs), packages whose
	// last path element is not their name, blank imports with equal base names
	same := fmt.Sprintf("package %s\n\ntype M struct {\n\tID int\n\tsecret string\n\tMeta Meta\n}\ntype Meta struct {\n\tRev int\n\tchecked bool\n}\n\nfunc (m M) Secret() string { return m.secret }\nfunc Fill(d *M, s *M) {}\n", t.name)
	hooks := "package conv\n\nfunc Touch(d interface{}, s interface{}) {}\n"
	types := fmt.Sprintf("package %s\n\ntype L struct {\n\tID int\n\tsecret string\n\tMeta LMeta\n}\ntype LMeta struct {\n\tRev int\n\tchecked bool\n}\n", t.name)
	var imps []string
	alias := t.pick("api", "m2", "other")
	imps = append(imps, fmt.Sprintf("%s \"exp/%s/api/%s\"", alias, t.name, t.name))
	blank := t.ch(0.6)
	if blank {
		imps = append(imps, fmt.Sprintf("_ \"exp/%s/hooks/conv\"", t.name), fmt.Sprintf("_ \"exp/%s/plugins/conv\"", t.name))
		t.feat("blank-imports-with-equal-base-name")
	}
	var sb strings.Builder
	sb.WriteString(header(t, imps...))
	fmt.Fprintf(&sb, "var _ %s.M\n\ntype Convergen interface {\n", alias)
	for _, n := range []string{":getter", ":typecast", ":case:off"} {
		if t.ch(0.3) {
			sb.WriteString("\t// " + n + "\n")
		}
	}
	fmt.Fprintf(&sb, "\tToAPI(*L) *%s.M\n", alias)
	for _, n := range []string{":getter", ":map Secret() secret"} {
		if t.ch(0.3) {
			sb.WriteString("\t// " + n + "\n")
		}
	}
	fmt.Fprintf(&sb, "\tFromAPI(*%s.M) *L\n", alias)
	if t.ch(0.4) {
		fmt.Fprintf(&sb, "\t// :recv %s\n\tRecvImported(%s%s.M) *L\n", t.pick("m", "x"), t.pick("*", ""), alias)
		t.feat("recv-with-imported-type")
	}
	if t.ch(0.4) {
		fmt.Fprintf(&sb, "\t// :postprocess %s.Fill\n\tBoth(*%s.M) *%s.M\n", alias, alias, alias)
	}
	if blank && t.ch(0.7) {
		sb.WriteString("\t// :postprocess conv.Touch\n\tWithBlank(*L) *L\n")
		t.feat("notation-names-blank-import")
	}
	sb.WriteString("}\n")
	t.files[t.name+"/setup.go"] = sb.String()
	t.files[t.name+"/types.go"] = types
	t.files[t.name+"/api/"+t.name+"/m.go"] = same
	if blank {
		t.files[t.name+"/hooks/conv/c.go"] = hooks
		// same base name, different content: which of the two gets the name matters
		t.files[t.name+"/plugins/conv/c.go"] = "package conv\n\nfunc Other(d interface{}, s interface{}, n int) {}\n"
	}
}

// ---- default matching ------------------------------------------------------------------------------------

func famMatching(t *tgen) {
	t.feat("family:default-matching")
	types := fmt.Sprintf(`package %s

import "strconv"

type Text string
type Payload interface{ Len() int }

func (t Text) Len() int { return len(t) }

type PStat int

func (p *PStat) String() string { return strconv.Itoa(int(*p)) }

type VStat int

func (v VStat) String() string { return strconv.Itoa(int(v)) }

type Money struct{ Amount int; Cur string }

type S struct {
	Body   Text
	Done   chan struct{}
	Stat   PStat
	VS     VStat
	Price  int64
	Total  Money
	id     int
	Items  []int
}

func (s S) ID() int          { return s.id }
func (s S) Status() PStat    { return s.Stat }
func (s *S) VStatus() VStat  { return s.VS }

type D struct {
	Body    Payload
	Done    <-chan struct{}
	Stat    string
	VS      string
	Price   Money
	Total   int64
	ID      int
	Status  string
	VStatus string
	Items   []int64
}
`, t.name)
	var sb strings.Builder
	sb.WriteString(header(t))
	sb.WriteString("type Convergen interface {\n")
	for j := 0; j < 1+t.r.Intn(3); j++ {
		for _, n := range []string{":stringer", ":getter", ":typecast", ":case:off", ":match none"} {
			if t.ch(0.4) {
				sb.WriteString("\t// " + n + "\n")
			}
		}
		if t.ch(0.5) {
			fmt.Fprintf(&sb, "\tTo%d(%sS) %sD\n", j, t.pick("*", ""), t.pick("*", ""))
		} else {
			fmt.Fprintf(&sb, "\tBack%d(%sD) %sS\n", j, t.pick("*", ""), t.pick("*", ""))
		}
	}
	sb.WriteString("}\n")
	t.files[t.name+"/setup.go"] = sb.String()
	t.files[t.name+"/types.go"] = types
}

// ---- several candidates of one folded name, getters next to fields, struct pairs without content ----------------

func famCandidates(t *tgen) {
	t.feat("family:candidate-search")
	tyPool := []string{"int", "string", "int64", "Money", "E1", "E2", "[]int", "Name"}
	spell := [][]string{{"ID", "Id", "iD", "id"}, {"Name", "NAME", "name", "nAme"}, {"In", "IN", "in"}}
	if t.ch(0.4) {
		// case variants whose UTF-8 lengths differ (sharp s, long s, Kelvin sign)
		spell = append(spell, [][]string{{"Straße", "STRAẞE", "straße"}, {"Las", "Laſ", "LAS"}, {"Kilo", "Kilo", "kilo"}}[t.r.Intn(3)])
		t.feat("case-variants-of-different-utf8-length")
	}
	var ty strings.Builder
	fmt.Fprintf(&ty, "package %s\n\ntype Money struct{ Amount int }\ntype E1 struct{}\ntype E2 struct{}\ntype Name string\n\n", t.name)
	// source: for each base name two or three spellings with different types, in random order
	ty.WriteString("type S struct {\n")
	type cand struct{ name, typ string }
	var srcFields []cand
	for _, sp := range spell {
		perm := t.r.Perm(len(sp))
		k := 2 + t.r.Intn(2)
		if k > len(sp) {
			k = len(sp)
		}
		for _, i := range perm[:k] {
			c := cand{sp[i], tyPool[t.r.Intn(len(tyPool))]}
			srcFields = append(srcFields, c)
			fmt.Fprintf(&ty, "\t%s %s\n", c.name, c.typ)
		}
	}
	ty.WriteString("\tplain int\n}\n\n")
	// getters whose names fold onto destination names (never equal to a field of S: Go forbids that)
	getters := []cand{{"Ident", "int"}, {"Title", "string"}, {"Inner", "E1"}}
	for _, g := range getters {
		fmt.Fprintf(&ty, "func (s S) %s() %s { var z %s; return z }\n", g.name, g.typ, g.typ)
	}
	ty.WriteString("\ntype D struct {\n")
	for _, sp := range spell {
		fmt.Fprintf(&ty, "\t%s %s\n", sp[t.r.Intn(len(sp))], tyPool[t.r.Intn(len(tyPool))])
	}
	for _, g := range getters {
		n := g.name
		if t.ch(0.5) {
			n = strings.ToLower(n[:1]) + n[1:]
		}
		fmt.Fprintf(&ty, "\t%s %s\n", n, t.pick(g.typ, g.typ, "E2", "string"))
	}
	ty.WriteString("\tplain int\n}\n")
	var sb strings.Builder
	sb.WriteString(header(t))
	sb.WriteString("type Convergen interface {\n")
	for j := 0; j < 1+t.r.Intn(3); j++ {
		if t.ch(0.7) {
			sb.WriteString("\t// :case:off\n")
		}
		for _, n := range []string{":getter", ":typecast", ":stringer", ":match none"} {
			if t.ch(0.35) {
				sb.WriteString("\t// " + n + "\n")
			}
		}
		fmt.Fprintf(&sb, "\tTo%d(%sS) %sD\n", j, t.pick("*", ""), t.pick("*", ""))
	}
	sb.WriteString("}\n")
	t.files[t.name+"/setup.go"] = sb.String()
	t.files[t.name+"/types.go"] = ty.String()
}

// ---- method shapes offered as getters: parameters, result counts, receivers, chains ----------------------------

func famGetterShapes(t *tgen) {
	t.feat("family:getter-shapes")
	ty := fmt.Sprintf(`package %s

type Cat struct{ name string; Age int }

func (c Cat) Name() string   { return c.name }
func (c *Cat) PName() string { return c.name }

type S struct {
	A   int
	cat Cat
	pc  *Cat
}

func (s S) Plain() int               { return s.A }
func (s *S) PtrRecv() int            { return s.A }
func (s S) WithParam(n int) int      { return n }
func (s S) Variadic(n ...int) int    { return len(n) }
func (s S) Two() (int, error)        { return s.A, nil }
func (s S) TwoNoErr() (int, string)  { return s.A, "" }
func (s S) Three() (int, int, error) { return 0, 0, nil }
func (s S) None()                    {}
func (s S) ErrOnly() error           { return nil }
func (s S) Cat() Cat                 { return s.cat }
func (s S) PCat() *Cat               { return s.pc }
func (s S) Self() S                  { return s }

type D struct {
	A, B, C int
	N, M    string
	// members named like methods of S: candidates of the default matching under :getter only if the method is a getter
	Plain   int
	PtrRecv int
	Two     int
	ErrOnly error
	None    interface{}
	Self    S
}

func FromCat(c *Cat) string  { return c.Name() }
func FromCatV(c Cat) string  { return c.Name() }
func FromInt(n int) (int, error) { return n, nil }
`, t.name)
	srcs := []string{"Plain()", "PtrRecv()", "WithParam()", "Variadic()", "Two()", "TwoNoErr()", "Three()", "None()", "ErrOnly()",
		"Cat().Age", "PCat().Age", "Cat().Name()", "Cat().PName()", "PCat().Name()", "PCat().PName()", "Self().A", "Self().Plain()",
		"Self().Self().A", "Two().A", "A", "cat.Age", "cat.Name()", "cat.PName()", "pc.PName()", "cat.cat.Age", "s.A", "pc.Age"}
	convs := []string{"FromCat Cat() N", "FromCat Cat() N", "FromCat PCat() N", "FromCatV Cat() N", "FromCatV PCat() N", "FromCat cat N", "FromCat pc N",
		"FromInt Plain() B", "FromInt Two() B", "FromInt Two() B", "FromInt Two() B", "FromInt A B"}
	var sb strings.Builder
	sb.WriteString(header(t))
	sb.WriteString("type Convergen interface {\n")
	for j := 0; j < 1+t.r.Intn(3); j++ {
		dsts := []string{"A", "B", "C"}
		t.r.Shuffle(len(dsts), func(a, b int) { dsts[a], dsts[b] = dsts[b], dsts[a] })
		for _, d := range dsts[:1+t.r.Intn(3)] {
			fmt.Fprintf(&sb, "\t// :map %s %s\n", srcs[t.r.Intn(len(srcs))], d)
		}
		if t.ch(0.7) {
			sb.WriteString("\t// :conv " + convs[t.r.Intn(len(convs))] + "\n")
		}
		if t.ch(0.4) {
			fmt.Fprintf(&sb, "\t// :map %s M\n", t.pick("Cat().Name()", "Cat().PName()", "Cat().PName()", "PCat().Name()", "cat.Name()", "pc.Name()"))
		}
		for _, n := range []string{":getter", ":typecast", ":stringer"} {
			if t.ch(0.3) {
				sb.WriteString("\t// " + n + "\n")
			}
		}
		ret := t.pick("*D", "D", "(*D, error)", "(D, error)", "(*D, error)")
		// the source operand may bear the name of one of its own members (cat.cat.Age is then a path of two segments)
		fmt.Fprintf(&sb, "\tTo%d(%s%sS) %s\n", j, t.pick("", "", "cat ", "pc ", "A ", "s "), t.pick("*", ""), ret)
	}
	sb.WriteString("}\n")
	t.files[t.name+"/setup.go"] = sb.String()
	t.files[t.name+"/types.go"] = ty
}

// ---- unnamed imports whose path does not end in the package name; local names shadowing imported types ---------

func famImportNames(t *tgen) {
	t.feat("family:import-names")
	// (directory, declared package name)
	shapes := [][2]string{{"go-foo", "foo"}, {"bar/v2", "bar"}, {"plain", "plain"}, {"x.y", "xy"}, {"store", "storage"}}
	sh := shapes[t.r.Intn(len(shapes))]
	dir, pname := sh[0], sh[1]
	ext := fmt.Sprintf("package %s\n\ntype Status int\ntype Code string\ntype M struct {\n\tID int\n\tSt Status\n\tCo Code\n\tTags []Status\n}\n\nfunc Fill(d *M, s *M) {}\nfunc fill(d *M, s *M) {}\nfunc ToCode(s string) Code { return Code(s) }\nfunc toCode(s string) Code { return Code(s) }\n", pname)
	local := fmt.Sprintf("package %s\n\ntype L struct {\n\tID int\n\tSt int\n\tCo string\n\tTags []int\n}\n", t.name)
	dot := t.ch(0.2)
	shadow := !dot && t.ch(0.5)
	if shadow {
		// local objects named like the imported types: a type, a func, a var
		local += t.pick("\ntype Status string\n", "\nfunc Status() {}\n", "\nvar Status = 1\n", "\ntype Status = int64\n")
		t.feat("local-name-shadows-imported-type")
	}
	imp := fmt.Sprintf("\"exp/%s/%s\"", t.name, dir)
	if dot {
		// a dot import: the package's names are used without a qualifier
		imp = ". " + imp
		t.feat("dot-import")
	} else if t.ch(0.25) {
		imp = t.pick("al", pname) + " " + imp
	}
	var sb strings.Builder
	imps := []string{imp}
	if !dot && !strings.Contains(imp, " ") && t.ch(0.4) {
		// a blank import of another package that declares the same name: when the last element of the first path is
		// not its package name (go-foo declares foo), the clash shows only once the package names are known
		// the twin's path sorts behind or before the other import's
		tdir := "x"
		if len(t.name)%2 == 0 || strings.HasSuffix(t.name, "1") || strings.HasSuffix(t.name, "4") || strings.HasSuffix(t.name, "7") {
			tdir = "a"
		}
		twin := fmt.Sprintf("_ \"exp/%s/%s/%s\"", t.name, tdir, pname)
		if t.ch(0.5) {
			imps = append(imps, twin)
		} else {
			imps = []string{twin, imp}
		}
		t.files[t.name+"/"+tdir+"/"+pname+"/twin.go"] = fmt.Sprintf("package %s\n\nvar Twin = 1\n", pname)
		t.feat("blank-import-of-a-same-named-package")
	}
	sb.WriteString(header(t, imps...))
	ref := pname
	if strings.Contains(imp, " ") {
		ref = strings.Split(imp, " ")[0]
	}
	q := ref + "."
	if dot {
		q = ""
	}
	fmt.Fprintf(&sb, "var _ %sM\n\ntype Convergen interface {\n", q)
	for j := 0; j < 1+t.r.Intn(2); j++ {
		for _, n := range []string{":typecast", ":stringer", ":case:off"} {
			if t.ch(0.5) {
				sb.WriteString("\t// " + n + "\n")
			}
		}
		if t.ch(0.2) {
			// a receiver of the imported type (also when its name needs no qualifier): not a local type
			fmt.Fprintf(&sb, "\t// :recv m\n\tRecv%d(*%sM) *L\n", j, q)
			t.feat("recv-with-imported-type")
			continue
		}
		if t.ch(0.3) {
			// sometimes the unexported twin, which the setup file's package cannot refer to
			fmt.Fprintf(&sb, "\t// :conv %s%s Co Co\n", q, t.pick("ToCode", "ToCode", "ToCode", "toCode"))
		}
		if t.ch(0.3) {
			fmt.Fprintf(&sb, "\t// :postprocess %s%s\n\tBoth%d(*%sM) *%sM\n", q, t.pick("Fill", "Fill", "Fill", "fill"), j, q, q)
			continue
		}
		if t.ch(0.5) {
			fmt.Fprintf(&sb, "\tTo%d(%sL) %s%sM\n", j, t.pick("*", ""), t.pick("*", ""), q)
		} else {
			fmt.Fprintf(&sb, "\tFrom%d(%s%sM) %sL\n", j, t.pick("*", ""), q, t.pick("*", ""))
		}
	}
	if t.ch(0.3) {
		fmt.Fprintf(&sb, "\tExtra(s *L, more []%sM, m map[string]*%sM) *L\n", q, q)
	}
	sb.WriteString("}\n")
	t.files[t.name+"/setup.go"] = sb.String()
	t.files[t.name+"/types.go"] = local
	t.files[t.name+"/"+dir+"/m.go"] = ext
}

// ---- members the generated package cannot refer to although the type they are reached through is its own --------

func famVisibility(t *tgen) {
	t.feat("family:member-visibility")
	ext := "package ext\n\ntype Remote struct {\n\tName   string\n\tsecret int\n\tOpen   int\n}\n\nfunc (r Remote) Get() int  { return r.secret }\nfunc (r Remote) peek() int { return r.secret }\n\ntype Opt struct {\n\tInner struct {\n\t\tA int\n\t\tb int\n\t}\n\tK int\n}\n\ntype base struct {\n\tID      int\n\tCreated int64\n\thidden  int\n}\n\n// Record embeds an unexported struct: its exported members are promoted\ntype Record struct {\n\tbase\n\tName string\n}\n"
	local := fmt.Sprintf("package %s\n\nimport \"exp/%s/ext\"\n\n// a local type defined over a struct of another package\ntype Local ext.Remote\ntype LP *ext.Remote\ntype D1 struct {\n\tName   string\n\tsecret int\n\tOpen   int\n\tGet    int\n\tpeek   int\n}\ntype DO struct {\n\tInner struct {\n\t\tA int\n\t\tb int\n\t\tc int\n\t}\n\tK int\n}\n// blank fields\ntype B1 struct {\n\tA int\n\t_ int\n\tB string\n\tu int\n}\ntype Own struct {\n\tIn struct {\n\t\ta int\n\t\tB int\n\t}\n}\ntype RecL struct {\n\tID      int\n\tName    string\n\tCreated int64\n}\n", t.name, t.name)
	var sb strings.Builder
	sb.WriteString(header(t, fmt.Sprintf("\"exp/%s/ext\"", t.name)))
	sb.WriteString("var _ ext.Opt\n\ntype Convergen interface {\n")
	shapes := []string{"FromLocal%d(%sLocal) %sD1", "ToLocal%d(%sD1) %sLocal", "ToOpt%d(%sDO) %sext.Opt", "FromOpt%d(%sext.Opt) %sDO", "Blank%d(%sB1) %sB1",
		"FromRemote%d(%sext.Remote) %sD1", "ToRemote%d(%sD1) %sext.Remote", "Own%d(%sOwn) %sOwn", "ToRec%d(%sRecL) %sext.Record"}
	for j := 0; j < 2+t.r.Intn(3); j++ {
		for _, n := range []string{":getter", ":case:off", ":typecast"} {
			if t.ch(0.35) {
				sb.WriteString("\t// " + n + "\n")
			}
		}
		if t.ch(0.4) {
			// a :skip that matches a member the package cannot see: still not to be mentioned
			sb.WriteString("\t// :skip " + t.pick("secret", "/ecret$/", "Inner.b", "/^Inner\\.[a-z]$/", "peek", "/^_$/", "Open") + "\n")
			t.feat("skip-matches-invisible-member")
		}
		sh := shapes[t.r.Intn(len(shapes))]
		fmt.Fprintf(&sb, "\t"+sh+"\n", j, t.pick("*", "*", ""), t.pick("*", "*", ""))
	}
	sb.WriteString("}\n")
	t.files[t.name+"/setup.go"] = sb.String()
	t.files[t.name+"/types.go"] = local
	t.files[t.name+"/ext/ext.go"] = ext
}

// ---- instantiated generic types as operands, members and conversion targets ------------------------------------

func famGenerics(t *tgen) {
	t.feat("family:generic-types")
	ext := "package gx\n\ntype Box[T any] struct{ V T }\ntype Pair[K comparable, V any] struct {\n\tKey K\n\tVal V\n}\ntype Num[T any] int\ntype Item struct{ ID int }\n"
	local := fmt.Sprintf("package %s\n\nimport \"exp/%s/gx\"\n\ntype Box[T any] struct{ V T }\ntype G[T any] int\ntype L struct {\n\tB  Box[int]\n\tX  gx.Box[gx.Item]\n\tP  gx.Pair[string, *gx.Item]\n\tN  int\n\tM  G[int]\n\tBs []Box[string]\n}\ntype R struct {\n\tB  Box[int]\n\tX  gx.Box[gx.Item]\n\tP  gx.Pair[string, *gx.Item]\n\tN  G[string]\n\tM  gx.Num[bool]\n\tBs []Box[string]\n}\n", t.name, t.name)
	var sb strings.Builder
	sb.WriteString(header(t, fmt.Sprintf("\"exp/%s/gx\"", t.name)))
	sb.WriteString("var _ gx.Item\n\ntype Convergen interface {\n")
	shapes := []string{"A%d(*L) *R", "B%d(%sBox[int]) %sBox[int]", "C%d(%sgx.Box[gx.Item]) %sgx.Box[gx.Item]", "D%d(s *L, extra gx.Pair[string, int], more []Box[int]) *R",
		"E%d(%sgx.Pair[string, *gx.Item]) (%sgx.Pair[string, *gx.Item], error)", "F%d(*R) *L"}
	for j := 0; j < 2+t.r.Intn(3); j++ {
		for _, n := range []string{":typecast", ":style arg", ":stringer"} {
			if t.ch(0.4) {
				sb.WriteString("\t// " + n + "\n")
			}
		}
		sh := shapes[t.r.Intn(len(shapes))]
		switch strings.Count(sh, "%s") {
		case 2:
			fmt.Fprintf(&sb, "\t"+sh+"\n", j, t.pick("*", ""), t.pick("*", ""))
		default:
			fmt.Fprintf(&sb, "\t"+sh+"\n", j)
		}
	}
	sb.WriteString("}\n")
	t.files[t.name+"/setup.go"] = sb.String()
	t.files[t.name+"/types.go"] = local
	t.files[t.name+"/gx/gx.go"] = ext
}

// ---- notation-free methods over random struct pairs (the subject of the C04 specification judge) -----------------

func famPlain(t *tgen) {
	t.feat("family:plain-struct-pairs")
	pool := []string{"int", "int64", "string", "bool", "*int", "MyInt", "Inner", "Inner2", "*Inner", "interface{}", "error", "map[string]int",
		"[2]int", "func() error", "chan int", "Stringer", "Status", "E1", "E2", "struct{ K, V int }", "ext.Pub", "*ext.Pub", "ext.Kind",
		"struct {\n\t\tKey string\n\t\trev int\n\t}", "struct {\n\t\tKey string\n\t\trev int64\n\t\tn   bool\n\t}", "struct{ hidden int }", "ext.Anon", "Tree", "Tree2", "*Tree", "Ring"}
	names := []string{"A", "B", "C", "Dd", "E", "F", "G", "H", "id", "name", "In", "Out", "Ext"}
	ext := "package ext\n\ntype Kind int\ntype Pub struct {\n\tA int\n\tb int\n}\ntype Anon struct {\n\tMeta struct {\n\t\tKey string\n\t\trev int\n\t}\n}\n"
	var ty strings.Builder
	fmt.Fprintf(&ty, "package %s\n\nimport \"exp/%s/ext\"\n\nvar _ ext.Kind\n\ntype MyInt int\ntype Stringer interface{ String() string }\ntype Status string\n\nfunc (s Status) String() string { return string(s) }\n\ntype E1 struct{}\ntype E2 struct{}\ntype Inner struct {\n\tX int\n\tY string\n}\ntype Inner2 struct {\n\tX int\n\tY string\n\tZ bool\n}\ntype Tree struct {\n\tVal  int\n\tNext *Tree\n}\ntype Tree2 struct {\n\tVal  int\n\tNext *Tree2\n\tKids []*Tree2\n}\ntype Ring struct {\n\tA *RingB\n}\ntype RingB struct {\n\tR *Ring\n\tN int\n}\n\n", t.name, t.name)
	nPairs := 1 + t.r.Intn(3)
	var sb strings.Builder
	sb.WriteString(header(t, fmt.Sprintf("\"exp/%s/ext\"", t.name)))
	sb.WriteString("var _ ext.Kind\n\ntype Convergen interface {\n")
	for j := 0; j < nPairs; j++ {
		perm := t.r.Perm(len(names))
		k := 3 + t.r.Intn(6)
		fmt.Fprintf(&ty, "type S%d struct {\n", j)
		srcTypes := map[string]string{}
		for _, i := range perm[:k] {
			if t.ch(0.8) {
				srcTypes[names[i]] = pool[t.r.Intn(len(pool))]
				fmt.Fprintf(&ty, "\t%s %s\n", names[i], srcTypes[names[i]])
			}
		}
		ty.WriteString("}\n")
		fmt.Fprintf(&ty, "type D%d struct {\n", j)
		for _, i := range perm[:k] {
			if t.ch(0.85) {
				typ := pool[t.r.Intn(len(pool))]
				if st, ok := srcTypes[names[i]]; ok && t.ch(0.6) {
					typ = st
				}
				fmt.Fprintf(&ty, "\t%s %s\n", names[i], typ)
			}
		}
		ty.WriteString("}\n\n")
		fmt.Fprintf(&sb, "\tP%d(%sS%d) %sD%d\n", j, t.pick("*", ""), j, t.pick("*", ""), j)
	}
	sb.WriteString("}\n")
	t.files[t.name+"/setup.go"] = sb.String()
	t.files[t.name+"/types.go"] = ty.String()
	t.files[t.name+"/ext/ext.go"] = ext
}

// ---- functions of every shape named by :conv / :preprocess / :postprocess ---------------------------------------

func famConvShapes(t *tgen) {
	t.feat("family:function-shape-grid")
	ty := fmt.Sprintf(`package %s

type S struct {
	A, B int
	L    []int
	P    *int
}
type D struct {
	A, B int
	L    int
	P    int
}

func ok1(i int) int                  { return i }
func sum(xs []int) int               { return len(xs) }
func sumVariadic(xs ...int) int      { return len(xs) }
func hookMore(d *D, s *S, more []int)            {}
func hookMoreVariadic(d *D, s *S, more ...int)  {}
func okErr(i int) (int, error)       { return i, nil }
func noParam() int                   { return 0 }
func noResult(i int)                 {}
func noParamNoResult()               {}
func twoParams(i, j int) int         { return i }
func twoResults(i int) (int, int)    { return i, i }
func threeResults(i int) (int, int, error) { return i, i, nil }
func errFirst(i int) (error, int)    { return nil, i }
func onlyErr(i int) error            { return nil }
func variadic(i ...int) int          { return 0 }
func generic[T any](v T) T           { return v }
func ptrParam(i *int) int            { return 0 }
func ifaceParam(i interface{}) int   { return 0 }
func namedRes(i int) (r int)         { return i }

var notFunc = 1

type fnType func(int) int

var fnVar fnType = ok1
var fnLit = func(i int) int { return i }

type recvT struct{}

func (recvT) Method(i int) int { return i }

func hookOk(d *D, s *S)                  {}
func hookNoParam()                       {}
func hookOne(d *D)                       {}
func hookThree(d *D, s *S, n int)        {}
func hookRes(d *D, s *S) int             { return 0 }
func hookTwoRes(d *D, s *S) (int, error) { return 0, nil }
func hookErr(d *D, s *S) error           { return nil }
func hookVariadic(d *D, s ...*S)         {}
`, t.name)
	convs := []string{"ok1", "okErr", "noParam", "noResult", "noParamNoResult", "twoParams", "twoResults", "threeResults", "errFirst", "onlyErr", "variadic",
		"generic", "ptrParam", "ifaceParam", "namedRes", "notFunc", "fnType", "fnVar", "fnLit", "recvT.Method", "missing", "S", "strconv.Itoa", "nosuch.F", t.name + ".ok1"}
	hooks := []string{"hookOk", "hookNoParam", "hookOne", "hookThree", "hookRes", "hookTwoRes", "hookErr", "hookVariadic", "ok1", "notFunc", "fnVar", "missing", "noParamNoResult"}
	var sb strings.Builder
	sb.WriteString(header(t))
	sb.WriteString("type Convergen interface {\n")
	for j := 0; j < 1+t.r.Intn(3); j++ {
		if t.ch(0.2) {
			// a pointer member handed to a function that takes the value (or the pointer)
			fmt.Fprintf(&sb, "\t// :conv %s P\n", t.pick("ok1", "ptrParam", "okErr"))
			t.feat("pointer-source-for-converter")
		}
		if t.ch(0.25) {
			// a slice handed to a function whose parameter is a slice, or variadic
			fmt.Fprintf(&sb, "\t// :conv %s L\n", t.pick("sum", "sumVariadic"))
		}
		if t.ch(0.2) {
			fmt.Fprintf(&sb, "\t// :%s %s\n\tV%d(s *S, more []int) %s\n", t.pick("preprocess", "postprocess"), t.pick("hookMore", "hookMoreVariadic"), j, t.pick("*D", "(*D, error)"))
			continue
		}
		if t.ch(0.8) {
			fmt.Fprintf(&sb, "\t// :conv %s A\n", convs[t.r.Intn(len(convs))])
		}
		if t.ch(0.3) {
			fmt.Fprintf(&sb, "\t// :conv %s A B\n", convs[t.r.Intn(len(convs))])
		}
		if t.ch(0.4) {
			fmt.Fprintf(&sb, "\t// :%s %s\n", t.pick("preprocess", "postprocess"), hooks[t.r.Intn(len(hooks))])
		}
		fmt.Fprintf(&sb, "\tM%d(*S) %s\n", j, t.pick("*D", "(*D, error)"))
	}
	sb.WriteString("}\n")
	t.files[t.name+"/setup.go"] = sb.String()
	t.files[t.name+"/types.go"] = ty
}

// ---- converter interfaces that embed other interfaces; own and inherited methods that fail ----------------------

func famEmbedded(t *tgen) {
	t.feat("family:embedded-interfaces")
	ty := fmt.Sprintf("package %s\n\ntype S struct{ A int }\ntype D struct{ A int }\n\ntype Base interface {\n\tFromBase(*S) *D\n}\n", t.name)
	bad := []string{":style pointer", ":match maybe", ":conv nosuch A", ":map", ":literal A", ":recv 9x", ":skip /(/", ":postprocess nosuch", ":reverse"}
	var sb strings.Builder
	sb.WriteString(header(t))
	if t.ch(0.5) {
		sb.WriteString("type Mixin interface {\n")
		if t.ch(0.4) {
			sb.WriteString("\t// " + bad[t.r.Intn(len(bad))] + "\n")
		}
		sb.WriteString("\tFromMixin(*S) *D\n}\n\n")
	} else {
		sb.WriteString("type Mixin interface {\n\tFromMixin(*S) *D\n\tOther(*D) *S\n}\n\n")
	}
	sb.WriteString("type Convergen interface {\n")
	emb := t.pick("Mixin", "Base", "Mixin\n\tBase")
	if t.ch(0.8) {
		sb.WriteString("\t" + emb + "\n")
	}
	for j := 0; j < 1+t.r.Intn(3); j++ {
		if t.ch(0.45) {
			sb.WriteString("\t// " + bad[t.r.Intn(len(bad))] + "\n")
		}
		fmt.Fprintf(&sb, "\tOwn%d(*S) *D\n", j)
	}
	sb.WriteString("}\n")
	t.files[t.name+"/setup.go"] = sb.String()
	t.files[t.name+"/types.go"] = ty
}

// ---- slices ---------------------------------------------------------------------------------------------------

func famSlices(t *tgen) {
	t.feat("family:slice-element-matrix")
	elems := []string{"int", "int64", "string", "interface{}", "any", "*int", "Name", "Stringer", "struct{ K, V string }", "[]int", "Item", "*Item", "rune", "MyInt", "byte", "Item2", "*Item2", "*MyInt", "*Item", "*int"}
	var ty strings.Builder
	fmt.Fprintf(&ty, "package %s\n\ntype Name string\n\nfunc (n Name) String() string { return string(n) }\n\ntype Stringer interface{ String() string }\ntype Item struct{ A int }\ntype Item2 struct{ A int }\ntype MyInt int\ntype Names []string\n\n", t.name)
	ty.WriteString("type S struct {\n")
	n := 2 + t.r.Intn(5)
	var pairs [][2]string
	for i := 0; i < n; i++ {
		a := t.pick(elems...)
		b := a
		if t.ch(0.55) {
			b = t.pick(elems...)
		}
		// element types that differ but convert into each other (also behind a pointer)
		partner := map[string][]string{"int": {"int64", "MyInt", "rune"}, "int64": {"int", "MyInt"}, "MyInt": {"int", "int64"}, "string": {"Name"}, "Name": {"string"},
			"Item": {"Item2"}, "Item2": {"Item"}, "*Item": {"*Item2"}, "*Item2": {"*Item"}, "*int": {"*MyInt"}, "*MyInt": {"*int"}, "byte": {"int", "rune"}, "rune": {"int", "byte"}}
		if ps, ok := partner[a]; ok && t.ch(0.35) {
			b = ps[t.r.Intn(len(ps))]
			t.feat("convertible-element-pair")
		}
		pairs = append(pairs, [2]string{a, b})
		fmt.Fprintf(&ty, "\tF%d []%s\n", i, a)
	}
	ty.WriteString("\tN Names\n\tM []string\n}\ntype D struct {\n")
	for i, p := range pairs {
		fmt.Fprintf(&ty, "\tF%d []%s\n", i, p[1])
	}
	ty.WriteString("\tN []string\n\tM Names\n}\n")
	var sb strings.Builder
	sb.WriteString(header(t))
	sb.WriteString("type Convergen interface {\n")
	for _, nn := range []string{":typecast", ":stringer", ":style arg"} {
		if t.ch(0.45) {
			sb.WriteString("\t// " + nn + "\n")
		}
	}
	// sometimes an operand is called like a variable of the generated element loop
	sb.WriteString("\t" + t.pick("Conv(*S) *D", "Conv(*S) *D", "Conv(*S) *D", "Conv(i *S) *D", "Conv(src *S) (e *D)", "Conv(e *S) (i *D)", "Conv(s *S, i int) *D") + "\n}\n")
	t.files[t.name+"/setup.go"] = sb.String()
	t.files[t.name+"/types.go"] = ty.String()
}

func newRand(seed int64, idx int) *rand.Rand {
	return rand.New(rand.NewSource(seed*15485863 + int64(idx)*101))
}
