package main

// Specification judges for C04, C05 and C06.
//
// These judges read the property statement off the implementation's own output.  They use the
// go/types facts of the input (type table, field lists, assignability) and the notations written
// in the setup file — not the Lean model and not the model's prediction.  Each rule fires only
// where the property text determines the outcome without interpretation; everywhere else it gives
// no verdict (the sweep's evidence counts how often each rule applied).
//
//	C05  every destination leaf reachable through members the package can touch lies under exactly
//	     one line (assignment, `// skip:`, `// no match:`) on itself or on an enclosing member, and
//	     no line mentions a member the package cannot reach.
//	C06  a destination member matched by a `:skip` pattern is not assigned, neither directly nor by
//	     the copy of an enclosing member; a member named by `:map` (plain field path, assignable) or
//	     `:literal` gets exactly that source / text.
//	C04  methods without any notation: a destination field is assigned as a whole iff the source has
//	     an accessible field of that name with an assignable type, copied member by member when both
//	     are by-value structs of different types, reported `no match` otherwise.

import (
	"regexp"
	"sort"
	"strconv"
	"strings"
	"sync"
)

func init() {
	judges = append(judges, specJudge)
}

// specRuleCounts: how often each rule gave a verdict (pass or fail); written into the sweep summary.
var specRuleCounts = map[string]int{}
var specRuleMu sync.Mutex

func countRule(k string) {
	specRuleMu.Lock()
	specRuleCounts[k]++
	specRuleMu.Unlock()
}

type member struct {
	Path     string
	Ty       int
	ViaPtr   bool // the path passes through a pointer-typed struct member
	IsLeaf   bool
	Enclosed []string // proper prefixes (enclosing members)
	// Promoted: reached through an embedded struct the package cannot name (an unexported embedded field of an imported
	// type): the member is written without that field (dst.ID, not dst.base.ID)
	Promoted bool
}

type tyWalker struct {
	f *Facts
}

func (w tyWalker) ty(i int) *jTy {
	if i < 0 || i >= len(w.f.Types) {
		return nil
	}
	return &w.f.Types[i]
}

func (w tyWalker) deref(i int) int {
	t := w.ty(i)
	if t != nil && t.Kind == "pointer" {
		return t.Elem
	}
	return i
}

// accessibleFields lists the fields of the struct under (one) pointer that the setup package may touch
func (w tyWalker) accessibleFields(i int) []jField {
	t := w.ty(w.deref(i))
	if t == nil || !t.IsStruct {
		return nil
	}
	// the rule of the language: an unexported field is visible only in the package that declares it (whichever type
	// it is reached through); the blank field never
	var out []jField
	for _, fl := range t.Fields {
		if fl.Name == "_" || (fl.Foreign && !isExportedGo(fl.Name)) {
			continue
		}
		out = append(out, fl)
	}
	return out
}

func isExportedGo(name string) bool {
	for _, r := range name {
		return r >= 'A' && r <= 'Z' || (r > 127 && strings.ToUpper(string(r)) == string(r) && strings.ToLower(string(r)) != string(r))
	}
	return false
}

// members enumerates the destination members below type ty (through by-value and pointer struct members)
func (w tyWalker) members(ty int) []member {
	var out []member
	var rec func(t int, prefix string, viaPtr bool, enclosing []string, onPath map[int]bool, depth int)
	rec = func(t int, prefix string, viaPtr bool, enclosing []string, onPath map[int]bool, depth int) {
		direct := map[string]bool{}
		if tt := w.ty(w.deref(t)); tt != nil {
			for _, fl := range tt.Fields {
				direct[fl.Name] = true
			}
			// members promoted through an embedded struct field that the package cannot refer to: the rule of the language
			// lets it write them (r.ID = 1) although it cannot write r.base
			for _, fl := range tt.Fields {
				if !fl.Embedded || !fl.Foreign || isExportedGo(fl.Name) || fl.Name == "_" {
					continue
				}
				if et := w.ty(fl.Ty); et == nil || et.Kind == "pointer" {
					continue // through a nil embedded pointer the write would panic: no verdict
				}
				for _, pf := range w.accessibleFields(fl.Ty) {
					if direct[pf.Name] {
						continue // shadowed by a member of the outer struct
					}
					p := pf.Name
					if prefix != "" {
						p = prefix + "." + pf.Name
					}
					pd := w.ty(w.deref(pf.Ty))
					if pd != nil && pd.IsStruct {
						continue // struct-typed promoted members: no verdict
					}
					out = append(out, member{Path: p, Ty: pf.Ty, ViaPtr: viaPtr, IsLeaf: true, Enclosed: append([]string{}, enclosing...), Promoted: true})
				}
			}
		}
		for _, fl := range w.accessibleFields(t) {
			p := fl.Name
			if prefix != "" {
				p = prefix + "." + fl.Name
			}
			ft := w.ty(fl.Ty)
			isPtr := ft != nil && ft.Kind == "pointer"
			d := w.deref(fl.Ty)
			sub := w.accessibleFields(fl.Ty)
			dt := w.ty(d)
			descend := dt != nil && dt.IsStruct && len(sub) > 0 && !onPath[d] && depth < 6
			m := member{Path: p, Ty: fl.Ty, ViaPtr: viaPtr, IsLeaf: !descend, Enclosed: append([]string{}, enclosing...)}
			out = append(out, m)
			if descend {
				onPath[d] = true
				rec(fl.Ty, p, viaPtr || isPtr, append(append([]string{}, enclosing...), p), onPath, depth+1)
				delete(onPath, d)
			}
		}
	}
	rec(ty, "", false, nil, map[int]bool{w.deref(ty): true}, 0)
	return out
}

// resolveFieldPath follows a plain dotted field path below type ty; ok=false when a segment is not a
// directly declared accessible field (promoted fields, getters: no verdict)
func (w tyWalker) resolveFieldPath(ty int, path string) (int, bool) {
	cur := ty
	for _, seg := range strings.Split(path, ".") {
		found := false
		for _, fl := range w.accessibleFields(cur) {
			if fl.Name == seg {
				cur = fl.Ty
				found = true
				break
			}
		}
		if !found {
			return 0, false
		}
	}
	return cur, true
}

func (w tyWalker) assignable(a, b int) bool {
	if a < 0 || a >= len(w.f.Assignable) || b < 0 || b >= len(w.f.Assignable[a]) {
		return false
	}
	return w.f.Assignable[a][b] == '1'
}

func (w tyWalker) isSlice(i int) bool {
	t := w.ty(i)
	return t != nil && (t.Kind == "slice" || t.IsSlice)
}

var reSimplePath = regexp.MustCompile(`^[A-Za-z_][A-Za-z0-9_]*(\.[A-Za-z_][A-Za-z0-9_]*)*$`)

func coveringLines(fl FuncLines) []BodyLine {
	var out []BodyLine
	seenSlice := map[string]bool{}
	for _, l := range fl.Lines {
		switch l.Kind {
		case "assign", "skip", "nomatch":
			if l.Path != "" {
				out = append(out, l)
			}
		case "slice":
			if l.Path != "" && !seenSlice[l.Path] {
				seenSlice[l.Path] = true
				out = append(out, l)
			}
		}
	}
	return out
}

func isPrefixPath(p, of string) bool { return strings.HasPrefix(of, p+".") }

// rhsPath returns the part after the first identifier of the right-hand side of "lhs = rhs"
func rhsOf(text string) string {
	i := strings.Index(text, " = ")
	if i < 0 {
		return ""
	}
	return strings.TrimSpace(text[i+3:])
}

func specJudge(root string, c GCase, rep *CaseReport) []Judgement {
	if judgeProp != "C04" && judgeProp != "C05" && judgeProp != "C06" {
		return nil
	}
	if rep == nil || rep.Facts == nil || rep.CLI.Class != "ok" || rep.Output == "" || rep.Facts.TypeErrors > 0 {
		return nil
	}
	funcs, err := readFuncs([]byte(rep.Output))
	if err != nil {
		return nil
	}
	byName := map[string]FuncLines{}
	nameCount := map[string]int{}
	for _, fl := range funcs {
		byName[bareName(fl.Key)] = fl
		nameCount[bareName(fl.Key)]++
	}
	// a plain function and a method of the same name (or two methods of different receivers): the judge pairs
	// functions with interface methods by bare name and gives no verdict where that is ambiguous
	for n, k := range nameCount {
		if k > 1 {
			delete(byName, n)
		}
	}
	methodCount := map[string]int{}
	for _, so := range rep.Facts.File.Scope {
		if so.IsInterface && so.InSetupFile {
			for _, m := range so.Methods {
				methodCount[m.Name]++
			}
		}
	}
	for n, k := range methodCount {
		if k > 1 {
			delete(byName, n)
		}
	}
	w := tyWalker{rep.Facts}
	ns := methodNotations(rep.Facts)
	caseOffAnywhere := strings.Contains(rep.SetupSrc, ":case:off")
	var out []Judgement
	add := func(key, what string) {
		for _, j := range out {
			if j.Key == key {
				return
			}
		}
		out = append(out, Judgement{Property: judgeProp, Case: c.Name, Key: key, What: what})
	}
	for _, so := range rep.Facts.File.Scope {
		if !so.IsInterface || !so.InSetupFile {
			continue
		}
		for _, m := range so.Methods {
			fl, ok := byName[m.Name]
			if !ok || len(m.Params) == 0 || len(m.Results) == 0 {
				continue
			}
			// the raw notation words of this method (options included)
			raw := methodRawNotations(rep.Facts, m)
			if raw["reverse"] {
				continue // destination and source swap; the rules below are written for the plain direction
			}
			srcTy, dstTy := m.Params[0].Ty, m.Results[0].Ty
			lines := coveringLines(fl)
			mem := w.members(dstTy)
			switch judgeProp {
			case "C05":
				judgeCover(w, m.Name, mem, lines, add)
				judgeWarnings(rep, root, m, lines, add)
			case "C06":
				// promoted members are C05's subject: the notation rules speak about declared members
				var declared []member
				for _, x := range mem {
					if !x.Promoted {
						declared = append(declared, x)
					}
				}
				judgeNotations(w, m.Name, srcTy, dstTy, declared, lines, ns[m.Name], caseOffAnywhere, add)
			case "C04":
				if len(raw) == 0 && !interfaceHasNotations(rep.Facts, so) {
					judgeDefault(w, m.Name, srcTy, dstTy, lines, add)
				}
			}
		}
	}
	return out
}

// methodRawNotations: the set of notation names (":x" words) in the method's own doc comment
func methodRawNotations(f *Facts, m jMethodDecl) map[string]bool {
	out := map[string]bool{}
	for _, enc := range m.DocChain {
		node := enc / 8
		if enc%8 != 4 {
			continue
		}
		if node >= len(f.File.DocOf) || f.File.DocOf[node] == nil {
			break
		}
		for _, cm := range f.File.Groups[*f.File.DocOf[node]] {
			t := strings.TrimSpace(strings.TrimPrefix(strings.TrimSpace(cm.Text), "//"))
			if strings.HasPrefix(t, ":") {
				out[strings.TrimPrefix(strings.Fields(t)[0], ":")] = true
			}
		}
		break
	}
	return out
}

func interfaceHasNotations(f *Facts, so jScopeObj) bool {
	for _, enc := range so.DocChain {
		node := enc / 8
		if node >= len(f.File.DocOf) || f.File.DocOf[node] == nil {
			continue
		}
		for _, cm := range f.File.Groups[*f.File.DocOf[node]] {
			t := strings.TrimSpace(strings.TrimPrefix(strings.TrimSpace(cm.Text), "//"))
			if strings.HasPrefix(t, ":") && !strings.HasPrefix(t, ":convergen") {
				return true
			}
		}
	}
	return false
}

// ---- C05 ----------------------------------------------------------------------------------------

func judgeCover(w tyWalker, fn string, mem []member, lines []BodyLine, add func(string, string)) {
	known := map[string]bool{}
	for _, m := range mem {
		known[m.Path] = true
	}
	for _, l := range lines {
		countRule("C05:line-names-reachable-member")
		if !known[l.Path] {
			add("C05|unreachable-member-mentioned", fn+": the line `"+l.Text+"` names "+l.Path+", which is not a member the package can reach")
		}
	}
	for _, m := range mem {
		if !m.IsLeaf {
			continue
		}
		n := 0
		var by []string
		for _, l := range lines {
			if l.Path == m.Path || isPrefixPath(l.Path, m.Path) {
				n++
				by = append(by, l.Text)
			}
		}
		countRule("C05:leaf-covered-exactly-once")
		if n == 0 && m.Promoted {
			add("C05|leaf-uncovered|promoted-through-inaccessible-embedded-struct", fn+": destination member "+m.Path+" is promoted through an embedded struct that the package cannot name; the package can write it, yet no line covers it")
		} else if n == 0 {
			add("C05|leaf-uncovered", fn+": destination member "+m.Path+" is covered by no line (no assignment, `// skip:` or `// no match:` on it or an enclosing member)")
		} else if n > 1 {
			add("C05|leaf-covered-twice", fn+": destination member "+m.Path+" is covered "+itoa(n)+" times: "+strings.Join(by, " | "))
		}
	}
}

func itoa(n int) string { return strconv.Itoa(n) }

// judgeWarnings: every `// no match:` line is also reported on stderr, at the position of the method or of one of
// its notation lines
func judgeWarnings(rep *CaseReport, root string, m jMethodDecl, lines []BodyLine, add func(string, string)) {
	allowed := map[string]bool{m.Pos: true}
	for _, enc := range m.DocChain {
		node := enc / 8
		if enc%8 != 4 {
			continue
		}
		if node < len(rep.Facts.File.DocOf) && rep.Facts.File.DocOf[node] != nil {
			for _, cm := range rep.Facts.File.Groups[*rep.Facts.File.DocOf[node]] {
				allowed[cm.Pos] = true
			}
		}
		break
	}
	stderr := canonStderr(rep.CLI.Stderr, root)
	for _, l := range lines {
		if l.Kind != "nomatch" {
			continue
		}
		countRule("C05:no-match-has-positioned-warning")
		found, positioned := false, false
		for _, e := range stderr {
			i := strings.Index(e, ": no assignment for ")
			if i < 0 {
				continue
			}
			rest := e[i+len(": no assignment for "):]
			j := strings.Index(rest, " [")
			if j < 0 {
				continue
			}
			if _, p := rootAndPath(rest[:j]); p == l.Path {
				found = true
				if allowed[e[:i]] {
					positioned = true
				}
			}
		}
		if !found {
			add("C05|no-match-without-warning", m.Name+": `"+l.Text+"` has no `no assignment for` warning on stderr")
		} else if !positioned {
			add("C05|warning-position", m.Name+": the warning for `"+l.Text+"` does not carry the position of the method or of one of its notations")
		}
	}
}

// ---- C06 ----------------------------------------------------------------------------------------

func judgeNotations(w tyWalker, fn string, srcTy, dstTy int, mem []member, lines []BodyLine, ns []Notation,
	caseOff bool, add func(string, string)) {
	byPath := map[string]member{}
	for _, m := range mem {
		byPath[m.Path] = m
	}
	explicitOn := func(path string) bool {
		for _, n := range ns {
			if (n.Kind == "map" || n.Kind == "conv" || n.Kind == "literal") && n.Dst == path {
				return true
			}
		}
		return false
	}
	// classify how an assignment to an enclosing member P came to cover `path`
	enclosingClass := func(p string) string {
		if explicitOn(p) {
			return "explicit-notation-on-enclosing-member"
		}
		if t := w.ty(byPath[p].Ty); t != nil && t.Kind == "pointer" {
			return "pointer-member-not-descended"
		}
		return "enclosing-copy"
	}
	skipMatches := func(n Notation, path string) (bool, bool) { // (matches, verdictPossible)
		pat := n.Dst
		if len(pat) >= 2 && strings.HasPrefix(pat, "/") && strings.HasSuffix(pat, "/") {
			if caseOff {
				return false, false
			}
			re, err := regexp.Compile(pat[1 : len(pat)-1])
			if err != nil {
				return false, false
			}
			return re.MatchString(path), true
		}
		if pat == path {
			return true, true
		}
		if caseOff && strings.EqualFold(pat, path) {
			return false, false // folding applies only where the effective rule is off: no verdict
		}
		return false, true
	}
	skipped := func(path string) bool {
		for _, n := range ns {
			if n.Kind == "skip" {
				if m, ok := skipMatches(n, path); ok && m {
					return true
				}
			}
		}
		return false
	}
	// maybeSkipped: some :skip pattern matches or might match (no verdict possible under a case rule
	// the judge does not resolve): such a member is left to R1 alone
	maybeSkipped := func(path string) bool {
		for _, n := range ns {
			if n.Kind == "skip" {
				if m, ok := skipMatches(n, path); !ok || m {
					return true
				}
			}
		}
		return false
	}
	// R1: a member matched by :skip is not assigned, directly or through an enclosing member
	for _, m := range mem {
		if !skipped(m.Path) {
			continue
		}
		countRule("C06:skip-not-assigned")
		for _, l := range lines {
			if l.Kind != "assign" && l.Kind != "slice" {
				continue
			}
			if l.Path == m.Path {
				add("C06|skip-ignored|direct", fn+": "+m.Path+" matches a :skip pattern but is assigned: "+l.Text)
			} else if isPrefixPath(l.Path, m.Path) && !skipped(l.Path) {
				add("C06|skip-ignored|"+enclosingClass(l.Path), fn+": "+m.Path+" matches a :skip pattern but is copied with its enclosing member: "+l.Text)
			}
		}
	}
	// R2/R3: first :map / :literal on a destination member not claimed by a stronger notation
	seenDst := map[string]bool{}
	for _, n := range ns {
		if n.Kind != "map" && n.Kind != "literal" {
			continue
		}
		dst := n.Dst
		if seenDst[n.Kind+dst] {
			continue
		}
		seenDst[n.Kind+dst] = true
		m, ok := byPath[dst]
		if !ok || !reSimplePath.MatchString(dst) {
			continue
		}
		// stronger notations: :skip on the member or an enclosing one, :conv on it, (:map before :literal)
		blocked := maybeSkipped(dst)
		for _, e := range m.Enclosed {
			if maybeSkipped(e) {
				blocked = true
			}
		}
		for _, o := range ns {
			if o.Kind == "conv" && o.Dst == dst {
				blocked = true
			}
			if n.Kind == "literal" && o.Kind == "map" && o.Dst == dst {
				blocked = true
			}
		}
		if blocked {
			continue
		}
		var want string
		if n.Kind == "map" {
			src := n.Args[0]
			if !reSimplePath.MatchString(src) {
				continue // getters, $n: no verdict
			}
			st, ok := w.resolveFieldPath(srcTy, src)
			if !ok || !w.assignable(st, m.Ty) || w.isSlice(m.Ty) {
				continue
			}
			want = src
		} else {
			want = strings.Join(n.Args[1:], " ")
		}
		countRule("C06:" + n.Kind + "-honoured")
		honoured := false
		var covering *BodyLine
		for i := range lines {
			l := &lines[i]
			if l.Path == dst {
				covering = l
				if l.Kind == "assign" {
					r := rhsOf(l.Text)
					if n.Kind == "map" {
						if j := strings.Index(r, "."); j >= 0 && r[j+1:] == want {
							honoured = true
						}
					} else if strings.Join(strings.Fields(r), "") == strings.Join(strings.Fields(want), "") {
						honoured = true
					}
				}
			}
		}
		if honoured {
			continue
		}
		if covering != nil {
			add("C06|"+n.Kind+"-not-honoured|other-outcome", fn+": :"+n.Kind+" names "+dst+" (source `"+want+"` resolves and fits) but the line is: "+covering.Text)
			continue
		}
		found := false
		for _, l := range lines {
			if isPrefixPath(l.Path, dst) {
				found = true
				switch l.Kind {
				case "nomatch":
					add("C06|"+n.Kind+"-not-honoured|enclosing-member-unmatched", fn+": :"+n.Kind+" names "+dst+" but only the enclosing member is reported: "+l.Text)
				case "assign", "slice":
					add("C06|"+n.Kind+"-not-honoured|"+enclosingClass(l.Path), fn+": :"+n.Kind+" names "+dst+" but the enclosing member is copied as a whole: "+l.Text)
				}
			}
		}
		if !found {
			add("C06|"+n.Kind+"-not-honoured|no-line", fn+": :"+n.Kind+" names "+dst+" but no line covers it")
		}
	}
}

// ---- C04 ----------------------------------------------------------------------------------------

func judgeDefault(w tyWalker, fn string, srcTy, dstTy int, lines []BodyLine, add func(string, string)) {
	srcFields := map[string]jField{}
	for _, fl := range w.accessibleFields(srcTy) {
		srcFields[fl.Name] = fl
	}
	var names []string
	dstFields := map[string]jField{}
	for _, fl := range w.accessibleFields(dstTy) {
		names = append(names, fl.Name)
		dstFields[fl.Name] = fl
	}
	sort.Strings(names)
	for _, name := range names {
		df := dstFields[name]
		var own *BodyLine
		nested := false
		for i := range lines {
			if lines[i].Path == name {
				own = &lines[i]
			}
			if isPrefixPath(name, lines[i].Path) {
				nested = true
			}
		}
		sf, has := srcFields[name]
		dt, st := w.ty(df.Ty), (*jTy)(nil)
		if has {
			st = w.ty(sf.Ty)
		}
		switch {
		case !has:
			countRule("C04:no-candidate-no-match")
			if own == nil || own.Kind != "nomatch" {
				add("C04|assigned-without-candidate", fn+": the source has no accessible field "+name+", yet the line is "+lineText(own, nested))
			}
		case w.isSlice(df.Ty) && w.isSlice(sf.Ty):
			// slice pairs are C16's subject
		case w.assignable(sf.Ty, df.Ty):
			countRule("C04:assignable-assigned")
			if own == nil || own.Kind != "assign" || !strings.HasSuffix(rhsOf(own.Text), "."+name) {
				add("C04|assignable-candidate-not-assigned", fn+": source field "+name+" is assignable to the destination field, yet the line is "+lineText(own, nested))
			}
		case dt != nil && st != nil && dt.IsStruct && st.IsStruct && dt.Kind != "pointer" && st.Kind != "pointer":
			countRule("C04:struct-pair-member-by-member")
			if own != nil && own.Kind == "assign" {
				add("C04|struct-pair-assigned-as-a-whole", fn+": "+name+" has different struct types on both sides, yet: "+own.Text)
			}
		default:
			countRule("C04:unfit-candidate-no-match")
			if own == nil || own.Kind != "nomatch" {
				add("C04|unfit-candidate-assigned", fn+": source field "+name+" is not assignable and no conversion is opted in, yet the line is "+lineText(own, nested))
			}
		}
	}
}

func lineText(l *BodyLine, nested bool) string {
	if l != nil {
		return "`" + l.Text + "`"
	}
	if nested {
		return "a member-by-member block"
	}
	return "missing"
}
