package main

// C12: histories of (edit setup file, run) steps with stale / truncated / broken content left at
// the output path before each run; the reference is the same run in a clean copy.

import (
	"encoding/json"
	"flag"
	"fmt"
	"math/rand"
	"os"
	"path/filepath"
	"regexp"
	"strings"
	"sync"
	"time"
)

type histStep struct {
	Base  string `json:"base"`
	Class string `json:"class"` // previous | truncated | truncated-inside-package-identifier | broken | older-version | garbage
	Stale string `json:"stale"`
	Edit  string `json:"edit,omitempty"` // "" or "v2": setup edited before the run
	Note  string `json:"note,omitempty"`
}

var rePkgClause = regexp.MustCompile(`(?m)^package\s+(\w+)`)

func init() {
	subcommands["history"] = func(args []string) {
		fs := flag.NewFlagSet("history", flag.ExitOnError)
		cli := fs.String("cli", "", "convergen binary")
		nBases := fs.Int("bases", 3, "number of base cases")
		seed := fs.Int64("seed", 1, "seed")
		thorough := fs.Bool("thorough", false, "all truncation offsets")
		replayDir := fs.String("replays", "replays", "replay directory")
		out := fs.String("out", "", "summary path")
		workers := fs.Int("j", 16, "workers")
		_ = fs.Parse(args)
		t0 := time.Now()
		r := rand.New(rand.NewSource(*seed))
		root, err := newScratchModule()
		if err != nil {
			fatal(err)
		}
		defer os.RemoveAll(root)
		pristine := filepath.Join(root, "pristine")
		_ = os.MkdirAll(pristine, 0755)
		_ = os.WriteFile(filepath.Join(pristine, "go.mod"), []byte("module exp\n\ngo 1.21\n"), 0644)

		type baseInfo struct {
			c       GCase
			clean   string // bytes of the clean run
			cleanV2 string
			exit    int
			exitV2  int
			v2Setup string
		}
		var bases []*baseInfo
		// a notation that refers to a blank-imported package by its name: the named import of the output is added by
		// goimports, which looks around in the package directory; a second package of the same name lives in the module
		blank := GCase{Name: "blankimp", Setup: "blankimp/setup.go", Profile: "simple", Features: []string{"import-added-by-goimports"},
			Files: map[string]string{
				"blankimp/setup.go":                "//go:build convergen\n\npackage blankimp\n\nimport (\n\t_ \"exp/blankimp/crypto\"\n)\n\ntype Convergen interface {\n\t// :conv crypto.Encrypt Email\n\tToRow(*User) *UserRow\n}\n",
				"blankimp/types.go":                "package blankimp\n\ntype User struct{ Email string }\ntype UserRow struct{ Email string }\n",
				"blankimp/crypto/crypto.go":        "package crypto\n\nfunc Encrypt(s string) string { return s }\n",
				"blankimp/legacy/crypto/crypto.go": "package crypto\n\nfunc Encrypt(s string) string { return s }\n",
			}}
		*nBases++
		for i := -1; len(bases) < *nBases && i < 40**nBases; i++ {
			c := blank
			if i >= 0 {
				c = GenCase(*seed, i, "simple")
			}
			// a long package name makes the package clause of the output a wide target
			if err := writeCase(pristine, c); err != nil {
				fatal(err)
			}
			res := runCLI(*cli, pristine, []string{c.Setup}, nil)
			outp := filepath.Join(pristine, defaultOut(c.Setup))
			b, rerr := os.ReadFile(outp)
			_ = os.Remove(outp)
			if res.Class != "ok" || rerr != nil {
				continue
			}
			bi := &baseInfo{c: c, clean: string(b), exit: res.Exit}
			// version 2 of the setup file: one more notation on the first method
			v2 := strings.Replace(c.Files[c.Setup], "interface {\n", "interface {\n\t// :skip NoSuchFieldAnywhere\n", 1)
			v2 += "\n// edited\nvar EditedMarker = 1\n"
			bi.v2Setup = v2
			_ = os.WriteFile(filepath.Join(pristine, c.Setup), []byte(v2), 0644)
			res2 := runCLI(*cli, pristine, []string{c.Setup}, nil)
			b2, rerr2 := os.ReadFile(outp)
			_ = os.Remove(outp)
			_ = os.WriteFile(filepath.Join(pristine, c.Setup), []byte(c.Files[c.Setup]), 0644)
			if rerr2 == nil {
				bi.cleanV2 = string(b2)
			}
			bi.exitV2 = res2.Exit
			bases = append(bases, bi)
		}

		var steps []histStep
		for _, bi := range bases {
			o := bi.clean
			steps = append(steps, histStep{Base: bi.c.Name, Class: "previous", Stale: o})
			if bi.cleanV2 != "" {
				steps = append(steps, histStep{Base: bi.c.Name, Class: "older-version", Stale: o, Edit: "v2"})
				steps = append(steps, histStep{Base: bi.c.Name, Class: "newer-version", Stale: bi.cleanV2})
			}
			if older := strings.ReplaceAll(o, "\"exp/blankimp/crypto\"", "\"exp/blankimp/legacy/crypto\""); older != o {
				// what a run left when the setup file still imported the other package of that name
				steps = append(steps, histStep{Base: bi.c.Name, Class: "older-imports", Stale: older})
			}
			loc := rePkgClause.FindStringSubmatchIndex(o)
			offsets := map[int]bool{}
			if *thorough {
				for t := 0; t < len(o); t++ {
					offsets[t] = true
				}
			} else {
				for t := 0; t < len(o) && t < 130; t++ {
					offsets[t] = true
				}
				for k := 0; k < 30; k++ {
					offsets[r.Intn(len(o))] = true
				}
			}
			for t := range offsets {
				class := "truncated"
				if loc != nil && t > loc[2] && t < loc[3] {
					class = "truncated-inside-package-identifier"
				}
				steps = append(steps, histStep{Base: bi.c.Name, Class: class, Stale: o[:t], Note: fmt.Sprint("offset ", t)})
			}
			pkg := bi.c.Name
			for _, br := range []string{
				"package " + pkg + "\n\nfunc (", "package " + pkg + "\n\nimport \"no/such/pkg\"\n\nvar x = nosuch.Y\n",
				"package " + pkg + "\n\ntype S0 struct{ Clash int }\n", "package " + pkg + "\n\nfunc Conv0() {}\nfunc Conv0() {}\n",
				"\x00\x01\x02 garbage", "", "//go:build ignore\n\npackage " + pkg + "\n", "package " + pkg + "\n\nimport \"C\"\n",
				"package " + pkg + "\n\n// :convergen\ntype Stale interface{ M(*S0) *D0 }\n",
			} {
				steps = append(steps, histStep{Base: bi.c.Name, Class: "broken", Stale: br})
			}
		}

		sum := SweepSummary{Kind: "history", Seed: *seed, Skipped: map[string]int{}, Features: map[string]int{},
			CLIClasses: map[string]int{}, ModelStatus: map[string]int{}, ErrorKinds: map[string]int{}}
		baseBy := map[string]*baseInfo{}
		for _, b := range bases {
			baseBy[b.c.Name] = b
		}
		var mu sync.Mutex
		var wg sync.WaitGroup
		ch := make(chan histStep)
		for w := 0; w < *workers; w++ {
			wg.Add(1)
			go func(w int) {
				defer wg.Done()
				work := filepath.Join(root, fmt.Sprintf("h%d", w))
				for st := range ch {
					bi := baseBy[st.Base]
					_ = os.RemoveAll(work)
					_ = os.MkdirAll(work, 0755)
					_ = os.WriteFile(filepath.Join(work, "go.mod"), []byte("module exp\n\ngo 1.21\n"), 0644)
					_ = copyTree(filepath.Join(pristine, st.Base), filepath.Join(work, st.Base))
					want, wantExit := bi.clean, bi.exit
					if st.Edit == "v2" {
						_ = os.WriteFile(filepath.Join(work, bi.c.Setup), []byte(bi.v2Setup), 0644)
						want, wantExit = bi.cleanV2, bi.exitV2
					}
					outp := filepath.Join(work, defaultOut(bi.c.Setup))
					_ = os.WriteFile(outp, []byte(st.Stale), 0644)
					res := runCLI(*cli, work, []string{bi.c.Setup}, nil)
					got, _ := os.ReadFile(outp)
					// second run right after: nothing may change (idempotence)
					res2 := runCLI(*cli, work, []string{bi.c.Setup}, nil)
					got2, _ := os.ReadFile(outp)
					mu.Lock()
					sum.Cases++
					sum.Features["class:"+st.Class]++
					sum.CLIClasses[res.Class]++
					bad := ""
					if res.Exit != wantExit {
						bad = fmt.Sprintf("exit %d, clean run exits %d (%s)", res.Exit, wantExit, firstLine(res.Stderr))
					} else if res.Exit == 0 && string(got) != want {
						bad = "bytes written differ from the clean run"
					} else if res.Exit == 0 && (res2.Exit != 0 || string(got2) != string(got)) {
						bad = "running twice in a row changed the result"
					}
					if bad != "" {
						key := "C12|stale-output-changes-result|" + st.Class
						rp := filepath.Join(*replayDir, fmt.Sprintf("judge-C12-%s-%d.json", st.Class, sum.Cases))
						_ = os.MkdirAll(*replayDir, 0755)
						b, _ := json.MarshalIndent(map[string]any{"step": st, "files": bi.c.Files, "setup": bi.c.Setup, "what": bad,
							"stderr": res.Stderr}, "", " ")
						_ = os.WriteFile(rp, b, 0644)
						sum.Judgements = append(sum.Judgements, Judgement{Property: "C12", Case: st.Base, Key: key,
							What: fmt.Sprintf("%s left at the output path (%s): %s", st.Class, st.Note, bad), Replay: rp})
					} else {
						sum.Agree++
					}
					mu.Unlock()
				}
			}(w)
		}
		for _, st := range steps {
			ch <- st
		}
		close(ch)
		wg.Wait()
		sum.NonTrivial = sum.Cases
		sum.DistinctBodies = sum.Cases
		if len(steps) > 0 {
			sum.Samples = append(sum.Samples, map[string]any{"step": map[string]any{"class": steps[len(steps)/2].Class,
				"note": steps[len(steps)/2].Note, "staleBytes": len(steps[len(steps)/2].Stale)}, "base": steps[len(steps)/2].Base})
		}
		sum.WallS = time.Since(t0).Seconds()
		b, _ := json.MarshalIndent(sum, "", " ")
		if *out != "" {
			_ = os.WriteFile(*out, b, 0644)
		}
		keysJ := map[string]int{}
		for _, j := range sum.Judgements {
			keysJ[j.Key]++
		}
		fmt.Printf("history: %d bases, %d steps, %d as clean, judgements %v, %.1fs\n", len(bases), sum.Cases, sum.Agree, keysJ, sum.WallS)
	}
}
