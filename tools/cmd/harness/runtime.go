package main

// Run-time correspondence (C02, C07, C10, C16): generated functions are compiled together with
// instrumented user functions and executed on constructed values; the exerciser in `exp/rt` judges
// purity, frame, panics, slice storage, hook order/operands and error propagation under every
// single and pairwise fault plan.

import (
	"bytes"
	"encoding/json"
	"flag"
	"fmt"
	"os"
	"os/exec"
	"path/filepath"
	"sort"
	"strings"
	"sync"
	"time"
)

// famRuntime: a struct pair with instrumented getters, converters and hooks.
func famRuntime(t *tgen) {
	t.feat("family:runtime")
	ty := fmt.Sprintf(`package %s

import (
	"strconv"

	"exp/rt"
)

type MyInt int
type Stat int

func (s Stat) String() string { return "st" + strconv.Itoa(int(s)) }

type Names []string

type SI struct {
	X string
	Y string
	P *int
}
type DI struct {
	X string
	Y int
	P *int
}
type S struct {
	A     int
	B     string
	C     MyInt
	St    Stat
	In    SI
	PIn   *SI
	Items []int
	Strs  []string
	Ptrs  []*SI
	Vals  []SI
	Names Names
	M     map[string]int
	When  int64
	n     string
}

func (s *S) N() string           { rt.Call("S.N"); return s.n }
func (s *S) NE() (string, error) { rt.Call("S.NE"); return s.n, rt.Err("S.NE") }

type D struct {
	A     int
	B     string
	C     int
	St    string
	In    DI
	PIn   *SI
	Items []int64
	Strs  []interface{}
	Ptrs  []*SI
	Vals  []SI
	Names Names
	M     map[string]int
	When  int64
	N     string
	Num   int
	Extra string
	Keep  string
}

func cvLen(s string) int            { rt.Call("cvLen", s); return len(s) + 1 }
func cvUp(s string) string          { rt.Call("cvUp", s); return s + "!" }
func cvE(s string) (int, error)     { rt.Call("cvE", s); return len(s), rt.Err("cvE") }
func cvE2(s string) (int, error)    { rt.Call("cvE2", s); return len(s) + 2, rt.Err("cvE2") }
func cvPtr(p *SI) string            { rt.Call("cvPtr"); if p == nil { return "" }; return p.X }
func preH(d *D, s *S)               { rt.Call("preH", d, s) }
func preHE(d *D, s *S) error        { rt.Call("preHE", d, s); return rt.Err("preHE") }
func preV(d D, s S)                 { rt.Call("preV", d, s) }
func postH(d *D, s *S)              { rt.Call("postH", d, s) }
func postHE(d *D, s *S) error       { rt.Call("postHE", d, s); return rt.Err("postHE") }
func postV(d D, s *S)               { rt.Call("postV", d, s) }
func postArgs(d *D, s *S, n int) error { rt.Call("postArgs", d, s, n); return rt.Err("postArgs") }
`, t.name)
	var sb strings.Builder
	sb.WriteString(header(t))
	sb.WriteString("type Convergen interface {\n")
	for j := 0; j < 1+t.r.Intn(3); j++ {
		withErr := t.ch(0.6)
		extra := t.ch(0.25)
		arg := t.ch(0.3)
		recv := t.ch(0.15)
		rev := arg && !extra && t.ch(0.15)
		var doc []string
		for _, n := range []string{":typecast", ":stringer", ":getter"} {
			if t.ch(0.5) {
				doc = append(doc, n)
			}
		}
		opts := []string{":map N() N", ":conv cvLen B Num", ":conv cvUp B Extra", ":literal Keep \"k\"", ":skip When", ":skip /^(M|Vals)$/",
			":conv cvLen In.X In.Y", ":map In.X Extra", ":conv cvPtr PIn Extra", ":map PIn.X Extra", ":skip Names"}
		if withErr {
			opts = append(opts, ":conv cvE B Num", ":conv cvE2 B C", ":conv cvE In.X In.Y", ":map NE() N", ":conv cvE2 In.Y A")
		}
		for _, o := range opts {
			if t.ch(0.22) {
				doc = append(doc, o)
			}
		}
		if !rev {
			if t.ch(0.3) {
				doc = append(doc, ":preprocess "+t.pick("preH", "preV", map[bool]string{true: "preHE", false: "preH"}[withErr]))
			}
			if t.ch(0.3) {
				h := t.pick("postH", "postV", map[bool]string{true: "postHE", false: "postH"}[withErr])
				if extra && withErr && t.ch(0.5) {
					h = "postArgs"
				}
				doc = append(doc, ":postprocess "+h)
			}
		}
		if extra {
			doc = append(doc, ":map $2 "+t.pick("Num", "A"))
		}
		if arg {
			doc = append(doc, ":style arg")
		}
		if recv {
			doc = append(doc, ":recv "+t.pick("r", "s"))
		}
		if rev {
			doc = append(doc, ":reverse")
		}
		for _, l := range doc {
			sb.WriteString("\t// " + l + "\n")
		}
		sp, dp := t.pick("*", "*", ""), t.pick("*", "*", "")
		if rev {
			sp = "*"
		}
		params := sp + "S"
		if extra {
			params += ", int"
		}
		res := dp + "D"
		if withErr {
			res = "(" + res + ", error)"
		}
		fmt.Fprintf(&sb, "\t%s%d(%s) %s\n", t.pick("Conv", "To", "copy"), j, params, res)
	}
	if t.ch(0.3) {
		// source and destination of one type: a clone must not share slices with its original either
		fmt.Fprintf(&sb, "\tClone(%sD) %sD\n", t.pick("*", "*", ""), t.pick("*", "*", ""))
		t.feat("same-type-clone")
	}
	sb.WriteString("}\n")
	t.files[t.name+"/setup.go"] = sb.String()
	t.files[t.name+"/types.go"] = ty
}

var rtSites = []string{"cvE", "cvE2", "S.NE", "preHE", "postHE", "postArgs"}
var rtHooks = []string{"preH", "preHE", "preV", "postH", "postHE", "postV", "postArgs"}

func mapValues(m map[string]string) []string {
	var out []string
	for _, v := range m {
		out = append(out, v)
	}
	return out
}

func goStr(s string) string { b, _ := json.Marshal(s); return string(b) }

func init() {
	subcommands["runtime"] = func(args []string) {
		fs := flag.NewFlagSet("runtime", flag.ExitOnError)
		cli := fs.String("cli", "", "convergen binary")
		drvBin := fs.String("driver", "", "lean driver binary")
		n := fs.Int("n", 60, "cases")
		seed := fs.Int64("seed", 1, "seed")
		prop := fs.String("prop", "C02", "property")
		replayDir := fs.String("replays", "replays", "replay directory")
		out := fs.String("out", "", "summary")
		workers := fs.Int("j", 16, "workers")
		only := fs.String("only", "", "replay file: run just that case")
		corpus := fs.String("corpus", "", "directory of corpus cases of the run-time family, run first")
		_ = fs.Parse(args)
		t0 := time.Now()
		root, err := newScratchModule()
		if err != nil {
			fatal(err)
		}
		if os.Getenv("VERIF_KEEP") == "" {
			defer os.RemoveAll(root)
		} else {
			fmt.Fprintln(os.Stderr, "runtime: keeping", root)
		}
		_ = os.MkdirAll(filepath.Join(root, "rt"), 0755)
		_ = os.WriteFile(filepath.Join(root, "rt", "rt.go"), []byte(rtSource), 0644)
		var cases []GCase
		if *only != "" {
			// only cases of the run-time family carry the instrumentation the exerciser needs
			for _, c := range loadCorpusFile(*only) {
				if strings.Contains(strings.Join(mapValues(c.Files), "\n"), "exp/rt") {
					c.Name = strings.Split(c.Setup, "/")[0] // the exerciser is written into the case's package directory
					cases = append(cases, c)
				}
			}
		} else {
			if *corpus != "" {
				for _, c := range loadCorpus(*corpus) {
					if strings.Contains(strings.Join(mapValues(c.Files), "\n"), "exp/rt") {
						c.Name = "k" + strings.Split(c.Setup, "/")[0] // keep clear of the generated case names
						nf := map[string]string{}
						for rel, content := range c.Files {
							nf["k"+rel] = strings.ReplaceAll(content, "package "+strings.Split(c.Setup, "/")[0], "package "+c.Name)
						}
						c.Files, c.Setup = nf, "k"+c.Setup
						cases = append(cases, c)
					}
				}
			}
			for i := 0; i < *n; i++ {
				t := &tgen{r: newRand(*seed, i), name: fmt.Sprintf("r%05d", i), files: map[string]string{}, feats: map[string]bool{}}
				famRuntime(t)
				cases = append(cases, t.finish("runtime"))
			}
		}
		for _, c := range cases {
			if err := writeCase(root, c); err != nil {
				fatal(err)
			}
		}
		judgeProp = ""
		keepOutputs = true
		type accepted struct {
			c   GCase
			rep CaseReport
		}
		var acc []accepted
		sum := SweepSummary{Kind: "runtime", Seed: *seed, Skipped: map[string]int{}, Features: map[string]int{},
			CLIClasses: map[string]int{}, ModelStatus: map[string]int{}, ErrorKinds: map[string]int{}}
		var mu sync.Mutex
		var wg sync.WaitGroup
		ch := make(chan GCase)
		for w := 0; w < *workers; w++ {
			wg.Add(1)
			go func() {
				defer wg.Done()
				drv, err := startDriver(*drvBin)
				if err != nil {
					fatal(err)
				}
				defer drv.close()
				for c := range ch {
					rep := compareFront(*cli, drv, root, c.Setup)
					mu.Lock()
					sum.Cases++
					sum.CLIClasses[rep.CLI.Class]++
					if len(rep.Diffs) > 0 {
						p := saveReplay(*replayDir, "disagree-"+c.Name, c, &rep, nil)
						sum.Disagreements = append(sum.Disagreements, Disagreement{Case: c.Name, Replay: p, Diffs: rep.Diffs, Cats: rep.Cats})
					} else {
						sum.Agree++
					}
					if rep.CLI.Class == "ok" && rep.Model != nil && rep.Model.Status == "ok" {
						acc = append(acc, accepted{c, rep})
					} else if rep.CLI.Class != "ok" {
						_ = os.Remove(filepath.Join(root, defaultOut(c.Setup)))
					}
					mu.Unlock()
				}
			}()
		}
		for _, c := range cases {
			ch <- c
		}
		close(ch)
		wg.Wait()
		sort.Slice(acc, func(i, j int) bool { return acc[i].c.Name < acc[j].c.Name })

		// driver files
		type drv struct {
			name string
			call string
		}
		var drivers []drv
		nFuncs := 0
		for _, a := range acc {
			fl, err := readFuncs([]byte(a.rep.Output))
			if err != nil {
				continue
			}
			metas := map[string]FuncMeta{}
			for _, m := range a.rep.Model.Metas {
				metas[m.Name] = m
			}
			var sb strings.Builder
			fmt.Fprintf(&sb, "package %s\n\nimport \"exp/rt\"\n\nfunc RunDriver(rep *rt.Report) {\n", a.c.Name)
			for _, f := range fl {
				m, ok := metas[bareName(f.Key)]
				if !ok {
					continue
				}
				nFuncs++
				fn := m.Name
				srcIdx, dstIdx := 0, -1
				if m.Receiver != "" {
					if m.SrcPtr {
						fn = "(*S)." + m.Name
					} else {
						fn = "S." + m.Name
					}
				}
				style := "return"
				if m.ArgStyle {
					style = "arg"
					if m.Receiver != "" {
						srcIdx, dstIdx = 0, 1
					} else {
						srcIdx, dstIdx = 1, 0
					}
					if m.Reverse {
						srcIdx, dstIdx = dstIdx, srcIdx
					}
				}
				var lines, sites, hooks []string
				for _, l := range f.Lines {
					lines = append(lines, fmt.Sprintf("{%s, %s, %s, %d}", goStr(l.Kind), goStr(l.Path), goStr(l.Text), l.Depth))
					for _, s := range rtSites {
						name := s + "("
						if strings.HasPrefix(s, "S.") {
							name = "." + strings.TrimPrefix(s, "S.") + "("
						}
						if strings.Contains(l.Text, name) {
							sites = append(sites, goStr(s))
						}
					}
					if l.Kind == "hook" {
						for _, h := range rtHooks {
							if strings.Contains(l.Text, h+"(") {
								hooks = append(hooks, goStr(h))
							}
						}
					}
				}
				fmt.Fprintf(&sb, "\trt.Exercise(rep, rt.Spec{Name: %s, Fn: %s, Style: %s, DstIndex: %d, SrcIndex: %d, RetError: %v, Reverse: %v,\n\t\tLines: []rt.Line{%s},\n\t\tSites: []string{%s}, Hooks: []string{%s}})\n",
					goStr(a.c.Name+"."+f.Key), fn, goStr(style), dstIdx, srcIdx, m.RetError, m.Reverse,
					strings.Join(lines, ", "), strings.Join(sites, ", "), strings.Join(hooks, ", "))
			}
			sb.WriteString("}\n")
			_ = os.WriteFile(filepath.Join(root, a.c.Name, "zz_driver.go"), []byte(sb.String()), 0644)
			drivers = append(drivers, drv{a.c.Name, ""})
		}
		env := append(os.Environ(), "GOFLAGS=", "GOPROXY=off", "GOTOOLCHAIN=local", "GOSUMDB=off")
		// which packages compile at all (the others are C01's business)
		pre := exec.Command("go", "build", "-gcflags=-e", "./...")
		pre.Dir = root
		pre.Env = env
		var bout bytes.Buffer
		pre.Stdout = &bout
		pre.Stderr = &bout
		_ = pre.Run()
		bad := map[string]bool{}
		for _, l := range strings.Split(bout.String(), "\n") {
			if m := reCompileErr.FindStringSubmatch(strings.TrimSpace(l)); m != nil {
				bad[strings.Split(strings.TrimPrefix(m[1], "./"), "/")[0]] = true
			}
		}
		if len(bad) > 0 {
			sum.Skipped["does-not-compile"] = len(bad)
			// say why: generated code that does not compile is C01's business, a driver that does not is ours
			n := 0
			for _, l := range strings.Split(bout.String(), "\n") {
				if reCompileErr.MatchString(strings.TrimSpace(l)) && n < 6 {
					fmt.Fprintln(os.Stderr, "runtime: does not compile:", strings.TrimSpace(l))
					n++
				}
			}
		}
		var mainSb strings.Builder
		mainSb.WriteString("package main\n\nimport (\n\t\"encoding/json\"\n\t\"fmt\"\n\n\t\"exp/rt\"\n")
		for _, d := range drivers {
			if !bad[d.name] {
				fmt.Fprintf(&mainSb, "\t%s \"exp/%s\"\n", d.name, d.name)
			}
		}
		mainSb.WriteString(")\n\nfunc run(name string, f func(*rt.Report)) {\n\trep := &rt.Report{}\n\tf(rep)\n\tb, _ := json.Marshal(rep)\n\tfmt.Printf(\"%s %s\\n\", name, b)\n}\n\nfunc main() {\n")
		for _, d := range drivers {
			if !bad[d.name] {
				fmt.Fprintf(&mainSb, "\trun(%s, %s.RunDriver)\n", goStr(d.name), d.name)
			}
		}
		mainSb.WriteString("}\n")
		_ = os.MkdirAll(filepath.Join(root, "cmd", "rtmain"), 0755)
		_ = os.WriteFile(filepath.Join(root, "cmd", "rtmain", "main.go"), []byte(mainSb.String()), 0644)
		byName := map[string]accepted{}
		for _, a := range acc {
			byName[a.c.Name] = a
		}
		addJ := func(prop, caseName, key, what string) {
			a := byName[caseName]
			rp := saveReplay(*replayDir, fmt.Sprintf("judge-%s-%s-%d", prop, caseName, len(sum.Judgements)), a.c, &a.rep, map[string]any{"key": key, "what": what})
			sum.Judgements = append(sum.Judgements, Judgement{Property: prop, Case: caseName, Key: key, What: what, Replay: rp,
				ModelDisagrees: len(a.rep.Diffs) > 0})
		}
		bout.Reset()
		build := exec.Command("go", "build", "-o", filepath.Join(root, "rtmain.bin"), "./cmd/rtmain")
		build.Dir = root
		build.Env = env
		build.Stdout = &bout
		build.Stderr = &bout
		if err := build.Run(); err != nil {
			sum.Disagreements = append(sum.Disagreements, Disagreement{Case: "runtime-build", Diffs: []string{bout.String()[:min(len(bout.String()), 1500)]}})
		}
		calls, plans := 0, 0
		if _, err := os.Stat(filepath.Join(root, "rtmain.bin")); err == nil {
			run := exec.Command(filepath.Join(root, "rtmain.bin"))
			run.Dir = root
			var rout bytes.Buffer
			run.Stdout = &rout
			run.Stderr = &rout
			_ = run.Run()
			for _, l := range strings.Split(rout.String(), "\n") {
				parts := strings.SplitN(l, " ", 2)
				if len(parts) != 2 || !strings.HasPrefix(parts[1], "{") {
					if strings.HasPrefix(l, "panic:") || strings.HasPrefix(l, "fatal error:") {
						sum.Disagreements = append(sum.Disagreements, Disagreement{Case: "runtime-run", Diffs: []string{rout.String()[:min(len(rout.String()), 1500)]}})
						break
					}
					continue
				}
				var rep struct {
					Findings []struct{ Prop, Key, Func, What string }
					Calls    int
					Plans    int
					Funcs    int
				}
				if json.Unmarshal([]byte(parts[1]), &rep) != nil {
					continue
				}
				calls += rep.Calls
				plans += rep.Plans
				for _, f := range rep.Findings {
					if f.Prop == *prop {
						addJ(f.Prop, parts[0], f.Key, f.Func+": "+f.What)
					}
				}
			}
		}
		sum.Features["functions-executed"] = nFuncs
		sum.Features["calls"] = calls
		sum.Features["fault-plans"] = plans
		sum.NonTrivial = nFuncs
		sum.DistinctBodies = nFuncs
		sum.Cases = calls + plans // executions of generated functions
		sum.Features["cases-generated"] = len(cases)
		if len(acc) > 0 {
			sum.Samples = append(sum.Samples, map[string]any{"case": acc[0].c.Name, "setup": acc[0].c.Files[acc[0].c.Setup], "calls": calls, "plans": plans})
		}
		sum.WallS = time.Since(t0).Seconds()
		b, _ := json.MarshalIndent(sum, "", " ")
		if *out != "" {
			_ = os.WriteFile(*out, b, 0644)
		}
		keysJ := map[string]int{}
		for _, j := range sum.Judgements {
			keysJ[j.Key]++
		}
		fmt.Printf("runtime(%s): %d cases, %d accepted, %d functions executed, %d calls, %d fault plans, %d disagreements, judgements %v, skipped %v, %.1fs\n",
			*prop, len(cases), len(acc), nFuncs, calls, plans, len(sum.Disagreements), keysJ, sum.Skipped, sum.WallS)
		for i, d := range sum.Disagreements {
			if i < 3 {
				fmt.Println("  DISAGREE", d.Case, strings.Join(d.Diffs, "\n")[:min(600, len(strings.Join(d.Diffs, "\n")))])
			}
		}
	}
}

func min(a, b int) int {
	if a < b {
		return a
	}
	return b
}
