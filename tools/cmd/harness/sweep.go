package main

import (
	"crypto/sha256"
	"encoding/hex"
	"encoding/json"
	"flag"
	"fmt"
	"os"
	"path/filepath"
	"sort"
	"strings"
	"sync"
	"time"
)

// SweepSummary is what a correspondence sweep reports to ./check.
type SweepSummary struct {
	Kind           string         `json:"kind"`
	Seed           int64          `json:"seed"`
	Cases          int            `json:"cases"`
	Agree          int            `json:"agree"`
	Skipped        map[string]int `json:"skipped"`
	Disagreements  []Disagreement `json:"disagreements"`
	Features       map[string]int `json:"features"`
	CLIClasses     map[string]int `json:"cliClasses"`
	ModelStatus    map[string]int `json:"modelStatus"`
	ErrorKinds     map[string]int `json:"errorKinds"`
	DistinctBodies int            `json:"distinctBodies"`
	NonTrivial     int            `json:"nonTrivial"`
	Samples        []any          `json:"samples"`
	WallS          float64        `json:"wall_s"`
	Judgements     []Judgement    `json:"judgements,omitempty"`
}

type Disagreement struct {
	Case   string   `json:"case"`
	Replay string   `json:"replay"`
	Diffs  []string `json:"diffs"`
	Cats   []string `json:"cats"`
}

// Judgement is a property verdict on the implementation's own output (independent of the model).
type Judgement struct {
	Property string `json:"property"`
	Case     string `json:"case"`
	Key      string `json:"key"` // normalised (clause | site) used for known-findings matching
	What     string `json:"what"`
	Replay   string `json:"replay"`
	// ModelDisagrees: on this case the implementation's observation differs from the model's
	// prediction, i.e. the behaviour is not one the model (which reproduces the open findings) knows
	ModelDisagrees bool `json:"modelDisagrees"`
}

func writeCase(root string, c GCase) error {
	for rel, content := range c.Files {
		p := filepath.Join(root, rel)
		if err := os.MkdirAll(filepath.Dir(p), 0755); err != nil {
			return err
		}
		if err := os.WriteFile(p, []byte(content), 0644); err != nil {
			return err
		}
	}
	return nil
}

// saveReplay stores a case (files + both observations) as one JSON file.
func saveReplay(dir, name string, c GCase, rep *CaseReport, extra map[string]any) string {
	_ = os.MkdirAll(dir, 0755)
	p := filepath.Join(dir, name+".json")
	obj := map[string]any{"files": c.Files, "setup": c.Setup, "profile": c.Profile}
	if rep != nil {
		obj["diffs"] = rep.Diffs
		obj["cli"] = rep.CLI
		obj["model"] = rep.Model
		obj["output"] = rep.Output
	}
	for k, v := range extra {
		obj[k] = v
	}
	b, _ := json.MarshalIndent(obj, "", " ")
	_ = os.WriteFile(p, b, 0644)
	return p
}

func newScratchModule() (string, error) {
	// a percent sign in the directory name (a checkout under "my%20project"): every position in a diagnostic carries it,
	// so a path that is used as a format string shows
	root, err := os.MkdirTemp("", "verif%20sweep-")
	if err != nil {
		return "", err
	}
	root, _ = filepath.EvalSymlinks(root)
	if err := os.WriteFile(filepath.Join(root, "go.mod"), []byte("module exp\n\ngo 1.21\n"), 0644); err != nil {
		return "", err
	}
	return root, nil
}

func init() {
	subcommands["sweep"] = func(args []string) {
		fs := flag.NewFlagSet("sweep", flag.ExitOnError)
		cli := fs.String("cli", "", "convergen binary")
		drvBin := fs.String("driver", "", "lean driver binary")
		n := fs.Int("n", 100, "number of generated cases")
		seed := fs.Int64("seed", 1, "PRNG seed")
		profile := fs.String("profile", "mixed", "generator profile")
		corpus := fs.String("corpus", "", "directory of corpus cases (*.json with files/setup) run first")
		replayDir := fs.String("replays", "replays", "where failing cases are written")
		out := fs.String("out", "", "summary JSON path")
		workers := fs.Int("j", 16, "parallel workers")
		keep := fs.Bool("keep", false, "keep the scratch module")
		prop := fs.String("prop", "", "property whose judges run")
		compile := fs.Bool("compile", false, "type-check every output in its package (C01 judge)")
		only := fs.String("only", "", "replay file: run just that case")
		_ = fs.Parse(args)

		t0 := time.Now()
		root, err := newScratchModule()
		if err != nil {
			fatal(err)
		}
		if !*keep {
			defer os.RemoveAll(root)
		}
		// the run-time family's cases import the instrumentation package
		_ = os.MkdirAll(filepath.Join(root, "rt"), 0755)
		_ = os.WriteFile(filepath.Join(root, "rt", "rt.go"), []byte(rtSource), 0644)
		var cases []GCase
		judgeProp = *prop
		if *only != "" {
			cases = loadCorpusFile(*only)
		} else {
			if *corpus != "" {
				cases = append(cases, loadCorpus(*corpus)...)
			}
			for i := 0; i < *n; i++ {
				if *profile == "layout" {
					cases = append(cases, GenLayoutCase(*seed, i))
				} else if tc, ok := GenTargeted(*seed, i, *profile); ok && i%2 == 0 {
					cases = append(cases, tc)
				} else {
					cases = append(cases, GenCase(*seed, i, *profile))
				}
			}
		}
		for _, c := range cases {
			if err := writeCase(root, c); err != nil {
				fatal(err)
			}
		}
		sum := SweepSummary{Kind: "front", Seed: *seed, Skipped: map[string]int{}, Features: map[string]int{},
			CLIClasses: map[string]int{}, ModelStatus: map[string]int{}, ErrorKinds: map[string]int{}}
		bodies := map[string]bool{}
		disagreeing := map[string]bool{}
		var mu sync.Mutex
		var wg sync.WaitGroup
		ch := make(chan GCase)
		for w := 0; w < *workers; w++ {
			wg.Add(1)
			go func() {
				defer wg.Done()
				drv, err := startDriver(*drvBin)
				if err != nil {
					fatal(err)
				}
				defer drv.close()
				for c := range ch {
					rep := compareFront(*cli, drv, root, c.Setup)
					js := judgeCase(root, c, &rep)
					mu.Lock()
					sum.Cases++
					for _, f := range c.Features {
						sum.Features[f]++
					}
					sum.CLIClasses[rep.CLI.Class]++
					sum.ModelStatus[modelStatus(rep.Model)]++
					if rep.Skipped != "" {
						sum.Skipped[rep.Skipped]++
					}
					if rep.Model != nil && rep.Model.Status == "panic" {
						sum.ErrorKinds["panic: "+rep.Model.PanicSite]++
					}
					if rep.Model != nil && rep.Model.Status == "error" && len(rep.Model.Stderr) > 0 {
						last := rep.Model.Stderr[len(rep.Model.Stderr)-1]
						if last == "abort" && len(rep.Model.Stderr) >= 2 {
							last = "abort: " + errorKind(rep.Model.Stderr[len(rep.Model.Stderr)-2])
						}
						sum.ErrorKinds[errorKind(last)]++
					}
					if len(rep.Diffs) > 0 {
						p := saveReplay(*replayDir, "disagree-"+c.Name, c, &rep, nil)
						sum.Disagreements = append(sum.Disagreements, Disagreement{Case: c.Name, Replay: p, Diffs: rep.Diffs, Cats: rep.Cats})
					} else if rep.Skipped == "" || rep.Skipped == "back-half-error" {
						sum.Agree++
					}
					for _, f := range rep.ImplFuncs {
						h := sha256.Sum256([]byte(f.Text))
						bodies[hex.EncodeToString(h[:8])] = true
					}
					if rep.Model != nil && (len(rep.Model.Stderr) > 0 || rep.Model.Status != "ok" || len(c.Features) >= 3) {
						sum.NonTrivial++
					}
					if len(sum.Samples) < 3 && rep.Model != nil && rep.Model.Status == "ok" && len(rep.ImplFuncs) > 0 {
						sum.Samples = append(sum.Samples, map[string]any{"case": c.Name, "setup": c.Files[c.Setup],
							"function": rep.ImplFuncs[0].Text, "stderr": rep.Model.Stderr, "features": c.Features})
					}
					if len(rep.Diffs) > 0 {
						disagreeing[c.Name] = true
					}
					for _, j := range js {
						j.ModelDisagrees = len(rep.Diffs) > 0
						j.Replay = saveReplay(*replayDir, "judge-"+j.Property+"-"+c.Name, c, &rep, map[string]any{"judgement": j})
						sum.Judgements = append(sum.Judgements, j)
					}
					mu.Unlock()
				}
			}()
		}
		keepOutputs = *compile
		for _, c := range cases {
			ch <- c
		}
		close(ch)
		wg.Wait()
		if *compile {
			byName := map[string]GCase{}
			byDir := map[string]GCase{}
			for _, c := range cases {
				byName[c.Name] = c
				// compiler messages name the package directory, which for corpus cases differs from the case name
				byDir[strings.Split(c.Setup, "/")[0]] = c
			}
			for _, j := range compileJudge(root, byDir) {
				j.ModelDisagrees = disagreeing[j.Case]
				j.Replay = saveReplay(*replayDir, "judge-C01-"+j.Case, byName[j.Case], nil, map[string]any{"judgement": j})
				sum.Judgements = append(sum.Judgements, j)
			}
		}
		sum.DistinctBodies = len(bodies)
		sort.Slice(sum.Disagreements, func(i, j int) bool { return sum.Disagreements[i].Case < sum.Disagreements[j].Case })
		sort.Slice(sum.Judgements, func(i, j int) bool {
			if sum.Judgements[i].Property != sum.Judgements[j].Property {
				return sum.Judgements[i].Property < sum.Judgements[j].Property
			}
			return sum.Judgements[i].Case < sum.Judgements[j].Case
		})
		for k, v := range specRuleCounts {
			sum.Features["rule-applied:"+k] = v
		}
		sum.WallS = time.Since(t0).Seconds()
		b, _ := json.MarshalIndent(sum, "", " ")
		if *out != "" {
			_ = os.WriteFile(*out, b, 0644)
		}
		fmt.Printf("sweep: %d cases, %d agree, %d disagree, skipped %v, cli %v, model %v, %d distinct bodies, %.1fs\n",
			sum.Cases, sum.Agree, len(sum.Disagreements), sum.Skipped, sum.CLIClasses, sum.ModelStatus, sum.DistinctBodies, sum.WallS)
		for i, d := range sum.Disagreements {
			if i >= 8 {
				break
			}
			fmt.Printf("  DISAGREE %s\n    %s\n", d.Case, strings.ReplaceAll(strings.Join(d.Diffs, "\n"), "\n", "\n    "))
		}
	}
}

// errorKind strips the position and identifiers from a diagnostic.
func errorKind(l string) string {
	if i := strings.Index(l, ": "); i >= 0 && strings.Contains(l[:i], ".go:") {
		l = l[i+2:]
	}
	words := strings.Fields(l)
	for i, w := range words {
		if strings.ContainsAny(w, "0123456789._[]*") {
			words[i] = "_"
		}
	}
	return strings.Join(words, " ")
}

func loadCorpus(dir string) []GCase {
	var out []GCase
	entries, _ := os.ReadDir(dir)
	for _, e := range entries {
		if !strings.HasSuffix(e.Name(), ".json") {
			continue
		}
		out = append(out, loadCorpusFile(filepath.Join(dir, e.Name()))...)
	}
	return out
}

func loadCorpusFile(path string) []GCase {
	b, err := os.ReadFile(path)
	if err != nil {
		return nil
	}
	var obj struct {
		Files map[string]string `json:"files"`
		Setup string            `json:"setup"`
	}
	if json.Unmarshal(b, &obj) != nil || obj.Setup == "" {
		return nil
	}
	return []GCase{{Name: strings.TrimSuffix(filepath.Base(path), ".json"), Files: obj.Files, Setup: obj.Setup,
		Features: []string{"corpus"}, Profile: "corpus"}}
}

var judgeProp string

func fatal(err error) {
	fmt.Fprintln(os.Stderr, "harness:", err)
	os.Exit(2)
}

// judgeCase evaluates property relations on the implementation's own output (filled in by the
// per-property judges).
func judgeCase(root string, c GCase, rep *CaseReport) []Judgement {
	var out []Judgement
	for _, j := range judges {
		out = append(out, j(root, c, rep)...)
	}
	return out
}

var judges []func(root string, c GCase, rep *CaseReport) []Judgement

func init() {
	// gen: write one generated case to a directory (debugging aid: `harness gen -seed 1 -idx 3 -profile imports -targeted -out dir`)
	subcommands["gen"] = func(args []string) {
		fs := flag.NewFlagSet("gen", flag.ExitOnError)
		seed := fs.Int64("seed", 1, "seed")
		idx := fs.Int("idx", 0, "case index")
		profile := fs.String("profile", "mixed", "profile")
		targeted := fs.Bool("targeted", false, "draw from the targeted families")
		out := fs.String("out", "", "directory")
		_ = fs.Parse(args)
		var c GCase
		if *targeted {
			tc, ok := GenTargeted(*seed, *idx, *profile)
			if !ok {
				fatal(fmt.Errorf("no targeted family for profile %s", *profile))
			}
			c = tc
		} else {
			c = GenCase(*seed, *idx, *profile)
		}
		_ = os.MkdirAll(*out, 0755)
		_ = os.WriteFile(filepath.Join(*out, "go.mod"), []byte("module exp\n\ngo 1.21\n"), 0644)
		if err := writeCase(*out, c); err != nil {
			fatal(err)
		}
		fmt.Println(c.Setup)
	}
}
