package main

import (
	"encoding/json"
	"flag"
	"fmt"
	"os"
	"path/filepath"
	"strings"
)

// CaseReport is the outcome of comparing model and implementation on one setup file.
type CaseReport struct {
	Setup         string        `json:"setup"`
	Agree         bool          `json:"agree"`
	Skipped       string        `json:"skipped,omitempty"`
	Diffs         []string      `json:"diffs,omitempty"`
	Cats          []string      `json:"cats,omitempty"`
	LineDiffs     []LineDiff    `json:"lineDiffs,omitempty"`
	CLI           CLIResult     `json:"cli"`
	Model         *FrontResult  `json:"model,omitempty"`
	ImplFuncs     []FuncSummary `json:"implFuncs,omitempty"`
	ModelFuncs    []FuncSummary `json:"modelFuncs,omitempty"`
	Output        string        `json:"output,omitempty"`
	BackHalfError string        `json:"backHalfError,omitempty"`
	SetupSrc      string        `json:"-"`
	Facts         *Facts        `json:"-"`
}

// keepOutputs leaves the generated files in place (for the batched compile judge).
var keepOutputs bool

// defaultOut mirrors the documented default output path.
func defaultOut(in string) string {
	ext := filepath.Ext(in)
	return in[:len(in)-len(ext)] + ".gen" + ext
}

// compareFront runs CLI and model on one setup file (paths relative to dir) and compares
// function texts, stderr and exit class.
func compareFront(cli string, drv *Driver, dir, setup string) CaseReport {
	rep := CaseReport{Setup: setup}
	abs := filepath.Join(dir, setup)
	out := defaultOut(abs)
	_ = os.Remove(out)
	facts, err := ExtractFacts(abs, out, dir)
	if err != nil {
		rep.Skipped = "facts: " + err.Error()
		return rep
	}
	rep.Facts = facts
	if b, err := os.ReadFile(abs); err == nil {
		rep.SetupSrc = string(b)
	}
	if len(facts.Notes) > 0 {
		rep.Skipped = strings.Join(facts.Notes, ",")
		return rep
	}
	var model FrontResult
	if err := drv.call(map[string]any{"op": "front", "facts": facts}, &model); err != nil {
		rep.Skipped = "driver: " + err.Error()
		return rep
	}
	rep.Model = &model
	rep.CLI = runCLI(cli, dir, []string{setup}, nil)
	outBytes, rerr := os.ReadFile(out)
	if rerr == nil {
		rep.Output = string(outBytes)
	}
	if !keepOutputs {
		_ = os.Remove(out)
	}

	diff := func(cat, format string, a ...any) {
		rep.Diffs = append(rep.Diffs, fmt.Sprintf(format, a...))
		rep.Cats = append(rep.Cats, cat)
	}

	if !model.DistinctFields {
		// assumption of the covering theorem (Props/Cover.DistinctFields): field names of a struct are distinct
		diff("facts", "the type table of this input has a struct with two fields of one name (assumption of Props/Cover violated)")
	}
	if !model.MethodsApart {
		// assumption of Props/C09.method_isolated: distinct methods have distinct doc nodes and comment groups
		diff("facts", "two interface methods of this input share a doc node or comment group (assumption of Props/C09 violated)")
	}
	implErr := canonStderr(rep.CLI.Stderr, dir)
	switch model.Status {
	case "panic":
		if rep.CLI.Class != "panic" {
			diff("exit", "model predicts panic (%s), CLI class %s", model.PanicSite, rep.CLI.Class)
		}
	case "error":
		if rep.CLI.Class != "error" {
			diff("exit", "model predicts error exit, CLI class %s", rep.CLI.Class)
		} else if !equalLines(model.Stderr, implErr) {
			diff("stderr", "stderr differs:\n  model: %q\n  impl:  %q", model.Stderr, implErr)
		}
	case "ok":
		mf, merr := modelFuncs(facts.PkgName, model.Blocks)
		rep.ModelFuncs = mf
		if merr != nil {
			// the model's function text is not parseable Go: the CLI must fail in imports.Process
			if rep.CLI.Class != "error" {
				diff("exit", "model output does not parse (%v) but CLI class %s", merr, rep.CLI.Class)
			} else if len(implErr) >= len(model.Stderr) {
				rep.BackHalfError = backHalfClass(implErr[len(model.Stderr):])
			}
			break
		}
		if rep.CLI.Class == "panic" || rep.CLI.Class == "timeout" {
			diff("exit", "model predicts success, CLI class %s", rep.CLI.Class)
			break
		}
		if rep.CLI.Class == "error" {
			// L6/L7 (base code, goimports, gofmt) may still reject; the front half must agree on stderr prefix
			if !prefixLines(model.Stderr, implErr) {
				diff("stderr", "CLI failed after the front half and stderr differs:\n  model: %q\n  impl:  %q", model.Stderr, implErr)
			} else if model.MarkersSane {
				// parser and builder accept, the markers are planted sanely, the function texts parse:
				// nothing in convergen's own logic explains a failure
				diff("exit", "model predicts success, the run fails: %q", implErr[len(model.Stderr):])
			}
			rep.Skipped = "back-half-error"
			if len(implErr) >= len(model.Stderr) {
				rep.BackHalfError = backHalfClass(implErr[len(model.Stderr):])
			} else {
				rep.BackHalfError = backHalfClass(implErr)
			}
			break
		}
		if !equalLines(model.Stderr, implErr) {
			diff("stderr", "stderr differs:\n  model: %q\n  impl:  %q", model.Stderr, implErr)
		}
		if rerr != nil {
			diff("exit", "CLI exit 0 but no output file")
			break
		}
		impl, perr := summarizeFuncs(outBytes)
		rep.ImplFuncs = impl
		if perr != nil {
			diff("exit", "output does not parse: %v", perr)
			break
		}
		// the output also carries the functions that were already in the setup file; compare
		// the model's functions by key
		implMap := map[string]string{}
		for _, f := range impl {
			implMap[f.Key] = f.Text
		}
		same := true
		for _, f := range mf {
			if it, ok := implMap[f.Key]; !ok || it != f.Text {
				same = false
			}
		}
		if !same {
			// localise
			var sb strings.Builder
			sb.WriteString("package " + facts.PkgName + "\n\n")
			for _, f := range mf {
				sb.WriteString(f.Text + "\n\n")
			}
			ml, err1 := readFuncs([]byte(sb.String()))
			il, err2 := readFuncs(outBytes)
			if err1 != nil || err2 != nil {
				diff("body", "function texts differ and cannot be localised: %v %v", err1, err2)
			} else {
				rep.LineDiffs = diffFuncs(ml, il)
				for _, d := range rep.LineDiffs {
					diff(d.Cat, "%s", d.String())
				}
				if len(rep.LineDiffs) == 0 {
					diff("body", "function texts differ (layout only?)")
				}
			}
		}
	}
	rep.Agree = len(rep.Diffs) == 0
	return rep
}

// backHalfClass normalises the diagnostics of goimports/gofmt on the assembled text.
func backHalfClass(lines []string) string {
	for _, l := range lines {
		if i := strings.Index(l, ".go:"); i >= 0 {
			rest := l[i+4:]
			parts := strings.SplitN(rest, ": ", 2)
			if len(parts) == 2 {
				msg := parts[1]
				words := strings.Fields(msg)
				for k, w := range words {
					if strings.ContainsAny(w, "0123456789'\"") {
						words[k] = "_"
					}
				}
				return strings.Join(words, " ")
			}
		}
	}
	if len(lines) > 0 {
		return errorKind(lines[0])
	}
	return "unknown"
}

func equalLines(a, b []string) bool {
	if len(a) != len(b) {
		return false
	}
	for i := range a {
		if a[i] != b[i] {
			return false
		}
	}
	return true
}

func prefixLines(a, b []string) bool {
	if len(a) > len(b) {
		return false
	}
	for i := range a {
		if a[i] != b[i] {
			return false
		}
	}
	return true
}

func main() {
	if len(os.Args) < 2 {
		fmt.Fprintln(os.Stderr, "usage: harness <facts|case|sweep|...> [flags]")
		os.Exit(2)
	}
	switch os.Args[1] {
	case "facts":
		fs := flag.NewFlagSet("facts", flag.ExitOnError)
		dir := fs.String("dir", ".", "module directory")
		_ = fs.Parse(os.Args[2:])
		abs, _ := filepath.Abs(filepath.Join(*dir, fs.Arg(0)))
		f, err := ExtractFacts(abs, defaultOut(abs), *dir)
		if err != nil {
			fmt.Fprintln(os.Stderr, err)
			os.Exit(1)
		}
		b, _ := json.MarshalIndent(f, "", " ")
		fmt.Println(string(b))
	case "case":
		fs := flag.NewFlagSet("case", flag.ExitOnError)
		cli := fs.String("cli", "", "convergen binary")
		drvBin := fs.String("driver", "", "lean driver binary")
		dir := fs.String("dir", ".", "module directory")
		verbose := fs.Bool("v", false, "print everything")
		_ = fs.Parse(os.Args[2:])
		drv, err := startDriver(*drvBin)
		if err != nil {
			fmt.Fprintln(os.Stderr, err)
			os.Exit(2)
		}
		defer drv.close()
		absDir, _ := filepath.Abs(*dir)
		bad := 0
		for _, setup := range fs.Args() {
			rep := compareFront(*cli, drv, absDir, setup)
			status := "AGREE"
			if rep.Skipped != "" {
				status = "SKIP(" + rep.Skipped + ")"
			}
			if !rep.Agree && rep.Skipped == "" || len(rep.Diffs) > 0 {
				status = "DIFF"
				bad++
			}
			fmt.Printf("%s %s [cli=%s model=%s]\n", status, setup, rep.CLI.Class, modelStatus(rep.Model))
			for _, d := range rep.Diffs {
				fmt.Println("   ", strings.ReplaceAll(d, "\n", "\n    "))
			}
			if *verbose {
				b, _ := json.MarshalIndent(rep, "", " ")
				fmt.Println(string(b))
			}
		}
		if bad > 0 {
			os.Exit(1)
		}
	default:
		if !dispatchMore(os.Args[1], os.Args[2:]) {
			fmt.Fprintln(os.Stderr, "unknown subcommand", os.Args[1])
			os.Exit(2)
		}
	}
}

func modelStatus(m *FrontResult) string {
	if m == nil {
		return "-"
	}
	return m.Status
}
