package main

// Runner-level correspondence and judges (C12, C13, C15, C18): the CLI as a black box over flag
// combinations, path spellings, output-path states and histories; the Lean runner model
// (`Model/Runner.lean`) predicts exit status, stdout and the file-system delta with `core`
// instantiated by a reference `-dry -print` run in a pristine copy.

import (
	"crypto/sha256"
	"encoding/hex"
	"encoding/json"
	"flag"
	"fmt"
	"math/rand"
	"os"
	"path/filepath"
	"regexp"
	"sort"
	"strings"
	"sync"
	"time"
)

type snapshot map[string]string // relative path → sha256 (files) or "dir"

func takeSnapshot(root string) snapshot {
	s := snapshot{}
	_ = filepath.Walk(root, func(p string, info os.FileInfo, err error) error {
		if err != nil {
			return nil
		}
		rel, _ := filepath.Rel(root, p)
		if info.IsDir() {
			s[rel] = "dir"
			return nil
		}
		b, err := os.ReadFile(p)
		if err != nil {
			s[rel] = "unreadable"
			return nil
		}
		h := sha256.Sum256(b)
		s[rel] = hex.EncodeToString(h[:]) + fmt.Sprintf("|%o", info.Mode().Perm())
		return nil
	})
	return s
}

func diffSnapshots(a, b snapshot) (changed []string) {
	for p, h := range b {
		if a[p] != h {
			changed = append(changed, p)
		}
	}
	for p := range a {
		if _, ok := b[p]; !ok {
			changed = append(changed, p+" (removed)")
		}
	}
	sort.Strings(changed)
	return
}

type RunScenario struct {
	Base     string   `json:"base"`     // case name
	Argv     []string `json:"argv"`     // arguments after the program name
	Gofile   string   `json:"gofile"`   // $GOFILE ("" = unset)
	Cwd      string   `json:"cwd"`      // relative to the module root
	OutState string   `json:"outState"` // absent | stale | dirAtPath | missingDir | truncated:<n> | broken | previous
	Stale    string   `json:"stale,omitempty"`
	Kind     string   `json:"kind"` // flags | history | repeat
	Spelling string   `json:"spelling"`
	// StdoutFull: the standard output of the run is /dev/full (every write to it fails)
	StdoutFull bool `json:"stdoutFull,omitempty"`
}

type RunPrediction struct {
	Args   string   `json:"args"`
	Input  string   `json:"input"`
	Output string   `json:"output"`
	Log    string   `json:"log"`
	Exit   int      `json:"exit"`
	Stdout []string `json:"stdout"`
	Writes []string `json:"writes"`
	DirOfs []string `json:"dirOfs"`
}

type coreRef struct {
	Kind   string   `json:"kind"` // ok | error | panic
	Bytes  string   `json:"bytes"`
	Stderr []string `json:"stderr"`
	Exit   int      `json:"exit"`
}

// copyTree copies a case directory.
func copyTree(src, dst string) error {
	return filepath.Walk(src, func(p string, info os.FileInfo, err error) error {
		if err != nil {
			return err
		}
		rel, _ := filepath.Rel(src, p)
		t := filepath.Join(dst, rel)
		if info.IsDir() {
			return os.MkdirAll(t, 0755)
		}
		b, err := os.ReadFile(p)
		if err != nil {
			return err
		}
		return os.WriteFile(t, b, 0644)
	})
}

// reference runs `-dry -print` in a pristine copy: what `core` delivers for this case.
func reference(cli, root string, c GCase) coreRef {
	r := runCLI(cli, root, []string{"-dry", "-print", c.Setup}, nil)
	ref := coreRef{Exit: r.Exit, Stderr: canonStderr(r.Stderr, root)}
	switch r.Class {
	case "ok":
		ref.Kind = "ok"
		ref.Bytes = strings.TrimSuffix(r.Stdout, "\n")
	case "panic":
		ref.Kind = "panic"
	default:
		ref.Kind = "error"
		// the generator stage (goimports / gofmt on the emitted text) failed: with -print the unformatted text is shown
		if len(ref.Stderr) > 0 && (ref.Stderr[0] == "error on optimizing imports of the generated code." ||
			ref.Stderr[0] == "error on formatting the generated code.") {
			ref.Kind = "formatError"
			ref.Bytes = strings.TrimSuffix(r.Stdout, "\n")
		}
	}
	return ref
}

type runOutcome struct {
	Scenario RunScenario `json:"scenario"`
	CLI      CLIResult   `json:"cli"`
	Changed  []string    `json:"changed"`
	Output   *string     `json:"output"` // content at the expected output path after the run
	OutPath  string      `json:"outPath"`
	LogPath  string      `json:"logPath"`
	Before   *string     `json:"before"`
	AbsCwd   string      `json:"absCwd"`
	Work     string      `json:"work"`
}

// expected paths, by the documented rule (independent of the model; uses Go's path functions)
func expectedPaths(argv []string, gofile string) (input, output, logp string, dry, prints, logs bool, ok bool) {
	out := ""
	i := 0
	for i < len(argv) {
		a := argv[i]
		if !strings.HasPrefix(a, "-") || len(a) < 2 {
			break
		}
		name := strings.TrimLeft(a, "-")
		val := ""
		hasVal := false
		if k := strings.Index(name, "="); k >= 0 {
			val = name[k+1:]
			name = name[:k]
			hasVal = true
		}
		switch name {
		case "out":
			if hasVal {
				out = val
			} else if i+1 < len(argv) {
				out = argv[i+1]
				i++
			}
		case "dry":
			dry = !hasVal || val == "true"
		case "print":
			prints = !hasVal || val == "true"
		case "log":
			logs = !hasVal || val == "true"
		default:
			return
		}
		i++
	}
	if i < len(argv) {
		input = argv[i]
	}
	if input == "" {
		input = gofile
	}
	if input == "" {
		return
	}
	output = out
	if output == "" {
		ext := filepath.Ext(input)
		output = input[:len(input)-len(ext)] + ".gen" + ext
	}
	if logs {
		ext := filepath.Ext(output)
		logp = output[:len(output)-len(ext)] + ".log"
	}
	ok = true
	return
}

func init() {
	subcommands["runner"] = func(args []string) {
		fs := flag.NewFlagSet("runner", flag.ExitOnError)
		cli := fs.String("cli", "", "convergen binary")
		drvBin := fs.String("driver", "", "lean driver binary")
		prop := fs.String("prop", "C15", "property")
		nBases := fs.Int("bases", 6, "number of base cases")
		seed := fs.Int64("seed", 1, "seed")
		thorough := fs.Bool("thorough", false, "thorough tier")
		replayDir := fs.String("replays", "replays", "replay directory")
		out := fs.String("out", "", "summary path")
		workers := fs.Int("j", 16, "workers")
		_ = fs.Parse(args)
		t0 := time.Now()
		r := rand.New(rand.NewSource(*seed))

		root, err := newScratchModule()
		if err != nil {
			fatal(err)
		}
		defer os.RemoveAll(root)
		// base cases: accepted and rejected
		var bases []GCase
		if *prop == "C15" || *prop == "C18" {
			// a run that passes parser and builder and fails in the generator stage (the emitted text does not parse):
			// the failure comes after everything convergen decides itself, right before the output would be written
			bases = append(bases, GCase{Name: "fmtfail", Setup: "fmtfail/setup.go", Profile: "simple", Features: []string{"fails-in-generator-stage"},
				Files: map[string]string{
					"fmtfail/setup.go": "//go:build convergen\n\npackage fmtfail\n\ntype Convergen interface {\n\t// :literal A \"open\n\tConv(*S) *D\n}\n",
					"fmtfail/types.go": "package fmtfail\n\ntype S struct{ A string }\ntype D struct{ A string }\n",
				}})
		}
		if *prop == "C13" {
			// a :literal that mentions a package the setup file does not import, whose name two standard packages share:
			// the import is added by goimports
			bases = append(bases, GCase{Name: "ambigimp", Setup: "ambigimp/setup.go", Profile: "simple", Features: []string{"unimported-package-in-literal"},
				Files: map[string]string{
					"ambigimp/setup.go": "//go:build convergen\n\npackage ambigimp\n\ntype Convergen interface {\n\t// :literal Safe template.HTMLEscapeString(\"a<b\")\n\tConv(*S) *D\n}\n",
					"ambigimp/types.go": "package ambigimp\n\ntype S struct{ A string }\ntype D struct {\n\tA    string\n\tSafe string\n}\n",
				}})
			*nBases++
			// a :literal that mentions a package of the module itself which the setup file does not import: goimports
			// resolves it with the go command, run in the working directory of the process
			bases = append(bases, GCase{Name: "localimp", Setup: "localimp/setup.go", Profile: "simple", Features: []string{"unimported-module-local-package-in-literal"},
				Files: map[string]string{
					"localimp/setup.go":       "//go:build convergen\n\npackage localimp\n\ntype Convergen interface {\n\t// :literal Created clock.Stamp()\n\tConv(*S) *D\n}\n",
					"localimp/types.go":       "package localimp\n\ntype S struct{ A string }\ntype D struct {\n\tA       string\n\tCreated string\n}\n",
					"localimp/clock/clock.go": "package clock\n\nfunc Stamp() string { return \"now\" }\n",
				}})
			*nBases++
			// a blank import whose last path element clashes with the declared name of an unnamed import (go-foo declares
			// foo): which of the two paths a notation's "foo." means must not depend on a map's iteration order
			bases = append(bases, GCase{Name: "lateclash", Setup: "lateclash/setup.go", Profile: "simple", Features: []string{"blank-import-of-a-same-named-package"},
				Files: map[string]string{
					"lateclash/setup.go":     "//go:build convergen\n\npackage lateclash\n\nimport (\n\t\"exp/lateclash/go-foo\"\n\t_ \"exp/lateclash/x/foo\"\n)\n\nvar _ = foo.Upper\n\ntype Convergen interface {\n\t// :conv foo.Upper A\n\tConv(*S) *D\n}\n",
					"lateclash/types.go":     "package lateclash\n\ntype S struct{ A string }\ntype D struct{ A string }\n",
					"lateclash/go-foo/foo.go": "package foo\n\nfunc Upper(s string) string { return s + \"!\" }\n",
					"lateclash/x/foo/foo.go":  "package foo\n\nvar Twin = 1\n",
				}})
			*nBases++
		}
		if *prop == "C15" {
			// a module whose go.mod has no go directive: whatever lets the go command touch go.mod or go.sum shows here
			bases = append(bases, GCase{Name: "oldmod", Setup: "oldmod/setup.go", Profile: "simple", Features: []string{"go.mod-without-go-directive"},
				Files: map[string]string{
					"oldmod/setup.go": "//go:build convergen\n\npackage oldmod\n\ntype Convergen interface {\n\tConv(*S) *D\n}\n",
					"oldmod/types.go": "package oldmod\n\ntype S struct{ A string }\ntype D struct{ A string }\n",
				}})
			*nBases++
		}
		for i := 0; len(bases) < *nBases && i < 20**nBases; i++ {
			prof := "simple"
			if i%5 == 4 {
				prof = "malformed"
			}
			if *prop == "C13" && i%3 != 2 {
				// determinism is most at risk where maps are iterated: several imports, blank imports
				if tc, ok := GenTargeted(*seed, i, "imports"); ok {
					bases = append(bases, tc)
					continue
				}
			}
			if i%3 == 1 {
				// a case without sub-packages (can be placed under any directory name)
				if tc, ok := GenTargeted(*seed, i, "simple"); ok {
					bases = append(bases, tc)
					continue
				}
			}
			bases = append(bases, GenCase(*seed, i, prof))
		}
		pristine := filepath.Join(root, "pristine")
		_ = os.MkdirAll(pristine, 0755)
		_ = os.WriteFile(filepath.Join(pristine, "go.mod"), []byte("module exp\n\ngo 1.21\n"), 0644)
		for _, c := range bases {
			if err := writeCase(pristine, c); err != nil {
				fatal(err)
			}
		}
		refs := map[string]coreRef{}
		for _, c := range bases {
			refs[c.Name] = reference(*cli, pristine, c)
		}

		// scenarios
		var scenarios []RunScenario
		flagSets := [][]string{}
		for m := 0; m < 16; m++ {
			var f []string
			if m&1 != 0 {
				f = append(f, "-dry")
			}
			if m&2 != 0 {
				f = append(f, "-print")
			}
			if m&4 != 0 {
				f = append(f, "-log")
			}
			if m&8 != 0 {
				f = append(f, "-out")
			}
			flagSets = append(flagSets, f)
		}
		for _, c := range bases {
			switch *prop {
			case "C15", "C18":
				for _, fset := range flagSets {
					spellings := []string{"rel", "abs", "pkgdir", "gofile", "dotrel", "absoutside", "bareout", "gofileother"}
					if !*thorough {
						spellings = []string{"rel", []string{"abs", "pkgdir", "gofile", "dotrel", "absoutside", "bareout", "gofileother"}[r.Intn(7)]}
					}
					if movable(c) {
						spellings = append(spellings, "dotgo")
					}
					for _, sp := range spellings {
						// "current": the output path already holds exactly what this run writes (an earlier identical run)
						states := []string{"absent", "stale", "current"}
						hasOut := false
						for _, f := range fset {
							if f == "-out" {
								hasOut = true
							}
						}
						if hasOut {
							states = append(states, "missingDir", "dirAtPath", "otherName", "sameAsInput", "linkToInput")
						}
						if !*thorough {
							states = []string{states[r.Intn(len(states))]}
						}
						for _, st := range states {
							scenarios = append(scenarios, buildScenario(c, fset, sp, st))
						}
					}
				}
			}
			if *prop == "C15" {
				// -print onto a standard output that cannot be written: whatever the run makes of it, a run that ends in an
				// error has written nothing
				for _, fset := range [][]string{{"-print"}, {"-print", "-out"}, {"-print", "-dry"}} {
					for _, st := range []string{"absent", "stale"} {
						sc := buildScenario(c, fset, "rel", st)
						sc.StdoutFull = true
						scenarios = append(scenarios, sc)
					}
				}
			}
			switch *prop {
			case "C17":
				// which file is the input: the argument, else $GOFILE — also when both are given and differ
				for _, sp := range []string{"rel", "pkgdir", "gofile", "gofileother"} {
					for _, fset := range [][]string{nil, {"-out"}, {"-dry", "-print"}} {
						scenarios = append(scenarios, buildScenario(c, fset, sp, "absent"))
					}
				}
			case "C13":
				for _, sp := range []string{"rel", "abs", "pkgdir", "gofile", "dotrel", "rel", "abs", "absoutside", "rel", "pkgdir", "rel", "absoutside"} {
					scenarios = append(scenarios, RunScenario{Base: c.Name, Kind: "repeat", OutState: "absent",
						Argv: spellArgs(c, nil, sp).Argv, Gofile: spellArgs(c, nil, sp).Gofile, Cwd: spellArgs(c, nil, sp).Cwd})
				}
				if movable(c) {
					// the same package under names that contain ".go" before the extension, relative and absolute
					for _, sp := range []string{"dotgo", "dotgoabs", "dotgo"} {
						scenarios = append(scenarios, RunScenario{Base: c.Name, Kind: "repeat", OutState: "absent", Spelling: sp,
							Argv: spellArgs(c, nil, sp).Argv, Gofile: spellArgs(c, nil, sp).Gofile, Cwd: spellArgs(c, nil, sp).Cwd})
					}
				}
				// the same run with -log, a few times: neither the clock nor the log may show in the diagnostics or the output
				for k := 0; k < 3; k++ {
					sp := spellArgs(c, []string{"-log"}, "rel")
					scenarios = append(scenarios, RunScenario{Base: c.Name, Kind: "repeat", OutState: "absent", Spelling: "withlog",
						Argv: sp.Argv, Gofile: sp.Gofile, Cwd: sp.Cwd})
				}
				// the same runs over what an earlier run (or anything else) left at the output path, written after the sources:
				// file times and leftovers are not inputs
				for _, sp := range []string{"rel", "abs", "pkgdir"} {
					scenarios = append(scenarios, RunScenario{Base: c.Name, Kind: "repeat", OutState: "stale",
						Argv: spellArgs(c, nil, sp).Argv, Gofile: spellArgs(c, nil, sp).Gofile, Cwd: spellArgs(c, nil, sp).Cwd})
				}
			}
		}

		type result struct {
			o runOutcome
			p *RunPrediction
		}
		var results []result
		var mu sync.Mutex
		var wg sync.WaitGroup
		ch := make(chan RunScenario)
		for w := 0; w < *workers; w++ {
			wg.Add(1)
			go func(w int) {
				defer wg.Done()
				drv, err := startDriver(*drvBin)
				if err != nil {
					fatal(err)
				}
				defer drv.close()
				work := filepath.Join(root, fmt.Sprintf("w%d.gows", w)) // ".go" inside a directory name above the module: absolute spellings carry it
				for sc := range ch {
					_ = os.RemoveAll(work)
					_ = os.MkdirAll(work, 0755)
					gomod := "module exp\n\ngo 1.21\n"
					if sc.Base == "oldmod" {
						gomod = "module exp\n"
					}
					_ = os.WriteFile(filepath.Join(work, "go.mod"), []byte(gomod), 0644)
					_ = copyTree(filepath.Join(pristine, sc.Base), filepath.Join(work, sc.Base))
					if sc.Spelling == "dotgo" || sc.Spelling == "dotgoabs" {
						// the same package under a directory and a file name that contain ".go"
						_ = os.MkdirAll(filepath.Join(work, "svc.golang"), 0755)
						_ = os.Rename(filepath.Join(work, sc.Base), filepath.Join(work, "svc.golang", sc.Base))
						_ = os.Rename(filepath.Join(work, "svc.golang", sc.Base, "setup.go"), filepath.Join(work, "svc.golang", sc.Base, "user.gorm.go"))
					}
					o, p := runScenario(*cli, drv, work, sc, refs[sc.Base])
					mu.Lock()
					results = append(results, result{o, p})
					mu.Unlock()
				}
			}(w)
		}
		for _, sc := range scenarios {
			ch <- sc
		}
		close(ch)
		wg.Wait()

		sum := SweepSummary{Kind: "runner", Seed: *seed, Skipped: map[string]int{}, Features: map[string]int{},
			CLIClasses: map[string]int{}, ModelStatus: map[string]int{}, ErrorKinds: map[string]int{}}
		distinct := map[string]bool{}
		repeatGroups := map[string][]runOutcome{}
		for _, res := range results {
			o := res.o
			sum.Cases++
			sum.CLIClasses[o.CLI.Class]++
			sum.Features["flags:"+strings.Join(flagsOf(o.Scenario.Argv), "")]++
			sum.Features["state:"+o.Scenario.OutState]++
			sum.Features["cwd:"+map[bool]string{true: "root", false: "pkg"}[o.Scenario.Cwd == ""]]++
			sum.Features["core:"+refs[o.Scenario.Base].Kind]++
			distinct[fmt.Sprintf("%s|%v|%s|%s", refs[o.Scenario.Base].Kind, flagsOf(o.Scenario.Argv), o.Scenario.OutState, o.Scenario.Cwd)] = true
			ref := refs[o.Scenario.Base]
			wantProp := *prop
			addJ := func(prop, key, what string) {
				if prop != wantProp {
					return
				}
				rp := filepath.Join(*replayDir, fmt.Sprintf("judge-%s-%s-%d.json", prop, strings.ReplaceAll(key, "|", "_"), sum.Cases))
				_ = os.MkdirAll(*replayDir, 0755)
				b, _ := json.MarshalIndent(map[string]any{"judgement": key, "what": what, "outcome": o, "reference": ref}, "", " ")
				_ = os.WriteFile(rp, b, 0644)
				sum.Judgements = append(sum.Judgements, Judgement{Property: prop, Case: o.Scenario.Base, Key: key, What: what, Replay: rp})
			}
			_, _, _, dry, prints, logs, okArgs := expectedPaths(o.Scenario.Argv, o.Scenario.Gofile)
			if !okArgs {
				continue
			}
			// ---- model correspondence (the model's world has no hard links: that state is judged on the implementation alone)
			if res.p != nil && o.Scenario.OutState != "linkToInput" {
				p := res.p
				var diffs []string
				if p.Args == "config" {
					relCwd := func(x string) string {
						if filepath.IsAbs(x) {
							if r, err := filepath.Rel(o.AbsCwd, x); err == nil {
								return r
							}
						}
						return filepath.Clean(x)
					}
					if relCwd(p.Output) != filepath.Clean(o.OutPath) {
						diffs = append(diffs, fmt.Sprintf("output path: model %q, rule %q", p.Output, o.OutPath))
					}
					if o.CLI.Class != "panic" && p.Exit != o.CLI.Exit {
						diffs = append(diffs, fmt.Sprintf("exit: model %d, impl %d (%s)", p.Exit, o.CLI.Exit, strings.TrimSpace(o.CLI.Stderr)))
					}
					want := strings.Join(p.Stdout, "\n")
					got := strings.TrimSuffix(o.CLI.Stdout, "\n")
					if want != got {
						diffs = append(diffs, fmt.Sprintf("stdout: model %d bytes, impl %d bytes", len(want), len(got)))
					}
					mw := map[string]bool{}
					for _, w := range p.Writes {
						mw[inWork(o, w)] = true
					}
					if o.Scenario.OutState == "current" && ref.Kind == "ok" && o.Before != nil && *o.Before == ref.Bytes {
						// rewriting the bytes that are there already is no change of the tree
						delete(mw, inWork(o, o.OutPath))
					}
					iw := map[string]bool{}
					for _, c := range o.Changed {
						iw[c] = true
					}
					if fmt.Sprint(keys(mw)) != fmt.Sprint(keys(iw)) {
						diffs = append(diffs, fmt.Sprintf("files written: model %v, impl %v", keys(mw), keys(iw)))
					}
				}
				if len(diffs) > 0 {
					rp := filepath.Join(*replayDir, fmt.Sprintf("disagree-runner-%d.json", sum.Cases))
					_ = os.MkdirAll(*replayDir, 0755)
					b, _ := json.MarshalIndent(map[string]any{"diffs": diffs, "outcome": o, "model": p, "reference": ref}, "", " ")
					_ = os.WriteFile(rp, b, 0644)
					sum.Disagreements = append(sum.Disagreements, Disagreement{Case: o.Scenario.Base, Replay: rp, Diffs: diffs, Cats: []string{"runner"}})
				} else {
					sum.Agree++
				}
			}
			// ---- judges on the implementation alone
			outRel := inWork(o, o.OutPath)
			logRel := ""
			if o.LogPath != "" {
				logRel = inWork(o, o.LogPath)
			}
			for _, c := range o.Changed {
				if c != outRel && c != logRel {
					addJ("C15", "C15|stray-write", fmt.Sprintf("%v changed %q (allowed: %q, %q)", o.Scenario.Argv, c, outRel, logRel))
				}
			}
			outChanged := false
			for _, c := range o.Changed {
				if c == outRel {
					outChanged = true
				}
			}
			if o.Scenario.OutState == "sameAsInput" || o.Scenario.OutState == "linkToInput" {
				var changed []string
				for _, c := range o.Changed {
					if c != logRel && !(logs && strings.HasSuffix(c, ".log")) {
						changed = append(changed, c)
					}
				}
				if len(changed) > 0 {
					addJ("C15", "C15|setup-file-overwritten", fmt.Sprintf("%v: the output path is the setup file itself and %v changed", o.Scenario.Argv, changed))
				}
				if o.CLI.Exit == 0 && !dry {
					addJ("C15", "C15|setup-file-overwritten", fmt.Sprintf("%v: the output path is the setup file itself, yet the run reports success", o.Scenario.Argv))
				}
				continue
			}
			if dry && outChanged {
				addJ("C15", "C15|dry-run-wrote-output", fmt.Sprintf("%v: -dry but %q changed", o.Scenario.Argv, outRel))
			}
			if o.CLI.Exit != 0 && outChanged {
				addJ("C15", "C15|failed-run-wrote-output", fmt.Sprintf("%v: exit %d but %q changed", o.Scenario.Argv, o.CLI.Exit, outRel))
			}
			if !logs && logRel == "" {
				for _, c := range o.Changed {
					if strings.HasSuffix(c, ".log") {
						addJ("C15", "C15|log-without-flag", fmt.Sprintf("%v wrote %q", o.Scenario.Argv, c))
					}
				}
			}
			if o.CLI.Class == "panic" {
				addJ("C14", "C14|panic|runner", fmt.Sprintf("%v crashed: %s", o.Scenario.Argv, firstLine(o.CLI.Stderr)))
			}
			// C18
			writable := o.Scenario.OutState != "missingDir" && o.Scenario.OutState != "dirAtPath"
			if ref.Kind == "ok" {
				if !dry && writable {
					if o.Output == nil || *o.Output != ref.Bytes {
						addJ("C18", "C18|output-path-or-bytes", fmt.Sprintf("%v: expected the generated code at %q", o.Scenario.Argv, outRel))
						addJ("C17", "C17|input-file-not-converted", fmt.Sprintf("%v (GOFILE=%q): the functions of the input file's converter interfaces are not at %q", o.Scenario.Argv, o.Scenario.Gofile, outRel))
					}
					if o.CLI.Exit != 0 {
						addJ("C18", "C18|exit-status", fmt.Sprintf("%v: exit %d on an accepted input", o.Scenario.Argv, o.CLI.Exit))
					}
				}
				if prints && ((dry && (!logs || writable)) || (!dry && writable)) {
					got := strings.TrimSuffix(o.CLI.Stdout, "\n")
					if got != ref.Bytes {
						k := "C18|print-differs|dry"
						if !dry {
							k = "C18|print-without-dry-prints-nothing"
							if got != "" {
								k = "C18|print-differs|write"
							}
						}
						addJ("C18", k, fmt.Sprintf("%v: stdout (%d bytes) is not the generated code (%d bytes)", o.Scenario.Argv, len(got), len(ref.Bytes)))
					}
				}
				if !prints && strings.TrimSpace(o.CLI.Stdout) != "" {
					addJ("C18", "C18|stdout-without-print", fmt.Sprintf("%v: unexpected stdout %q", o.Scenario.Argv, firstLine(o.CLI.Stdout)))
				}
				if logs && writable && !dry {
					if _, err := os.Stat("/nonexistent"); err != nil && logRel != "" {
						found := false
						for _, c := range o.Changed {
							if c == logRel {
								found = true
							}
						}
						if !found {
							addJ("C18", "C18|log-missing", fmt.Sprintf("%v: no log at %q", o.Scenario.Argv, logRel))
						}
					}
				}
			}
			if o.Scenario.Kind == "repeat" {
				g := o.Scenario.Base
				if strings.HasPrefix(o.Scenario.Spelling, "dotgo") {
					g += "|dotgo" // other file names: compared among themselves
				}
				repeatGroups[g] = append(repeatGroups[g], o)
			}
		}
		// C13: all repetitions of a base agree on exit, canonical stderr and output bytes
		for base, os_ := range repeatGroups {
			first := os_[0]
			for _, o := range os_[1:] {
				// a failed run leaves the output path as it was (absent or the leftover): the bytes there are compared
				// for successful runs only
				sameOut := o.CLI.Exit != 0 ||
					(((o.Output == nil) == (first.Output == nil)) && (o.Output == nil || *o.Output == *first.Output))
				same := o.CLI.Exit == first.CLI.Exit && fmt.Sprint(canonRunStderr(o)) == fmt.Sprint(canonRunStderr(first)) && sameOut
				if !same {
					rp := filepath.Join(*replayDir, "judge-C13-"+strings.ReplaceAll(base, "|", "-")+".json")
					_ = os.MkdirAll(*replayDir, 0755)
					var files map[string]string
					setup := ""
					for _, bc := range bases {
						if bc.Name == strings.TrimSuffix(base, "|dotgo") {
							files, setup = bc.Files, bc.Setup
						}
					}
					b, _ := json.MarshalIndent(map[string]any{"a": first, "b": o, "files": files, "setup": setup}, "", " ")
					_ = os.WriteFile(rp, b, 0644)
					key := "C13|runs-differ"
					if o.CLI.Exit == first.CLI.Exit && fmt.Sprint(canonRunStderr(o)) == fmt.Sprint(canonRunStderr(first)) &&
						o.Output != nil && first.Output != nil && (o.Scenario.Cwd == "..") != (first.Scenario.Cwd == "..") &&
						onlyModuleImportsDiffer(*first.Output, *o.Output) {
						// exactly one of the two runs was started outside the module and they agree on everything but imports of
						// packages of the module (added, dropped or renamed): goimports asked the go command from the working directory
						key = "C13|runs-differ|module-local-package-resolved-from-cwd"
					} else if o.CLI.Exit == first.CLI.Exit && fmt.Sprint(canonRunStderr(o)) == fmt.Sprint(canonRunStderr(first)) &&
						o.Output != nil && first.Output != nil && onlyAddedImportsDiffer(*first.Output, *o.Output, files[setup]) {
						// the runs agree on everything but the path of an import that the setup file does not have:
						// goimports resolved a package name that several packages share
						key = "C13|runs-differ|unimported-package-resolved-by-goimports"
						if (o.Scenario.Cwd == "..") != (first.Scenario.Cwd == "..") && strings.Contains(*first.Output+*o.Output, "\"exp/") &&
							!strings.Contains(files[setup], "template.") {
							// one of the two runs was started outside the module and the import that differs is a package of the module
							key = "C13|runs-differ|module-local-package-resolved-from-cwd"
						}
					}
					sum.Judgements = append(sum.Judgements, Judgement{Property: "C13", Case: base, Key: key,
						What: fmt.Sprintf("two runs of %s differ (%v vs %v)", base, first.Scenario.Argv, o.Scenario.Argv), Replay: rp})
					break
				}
			}
		}
		sum.NonTrivial = len(distinct)
		sum.DistinctBodies = len(distinct)
		if len(results) > 0 {
			sum.Samples = append(sum.Samples, map[string]any{"scenario": results[0].o.Scenario, "exit": results[0].o.CLI.Exit, "changed": results[0].o.Changed})
		}
		sum.WallS = time.Since(t0).Seconds()
		b, _ := json.MarshalIndent(sum, "", " ")
		if *out != "" {
			_ = os.WriteFile(*out, b, 0644)
		}
		keysJ := map[string]int{}
		for _, j := range sum.Judgements {
			keysJ[j.Key]++
		}
		fmt.Printf("runner(%s): %d runs, %d agree with the model, %d disagree, %d distinct scenarios, judgements %v, cli %v, %.1fs\n",
			*prop, sum.Cases, sum.Agree, len(sum.Disagreements), len(distinct), keysJ, sum.CLIClasses, sum.WallS)
		for i, d := range sum.Disagreements {
			if i < 5 {
				fmt.Println("  DISAGREE", d.Case, d.Diffs)
			}
		}
	}
}

func canonRunStderr(o runOutcome) []string {
	var out []string
	for _, l := range strings.Split(o.CLI.Stderr, "\n") {
		if strings.TrimSpace(l) == "" {
			continue
		}
		// positions are printed with the absolute file name: keep from the case directory on
		if i := strings.Index(l, o.Scenario.Base+"/"); i >= 0 {
			// only the directory part of that file name is dropped: whatever precedes the position (a time stamp, a prefix)
			// is part of the diagnostic
			j := strings.LastIndexAny(l[:i], " \t")
			l = l[:j+1] + l[i:]
		}
		out = append(out, l)
	}
	return out
}

func firstLine(s string) string {
	s = strings.TrimSpace(s)
	if i := strings.Index(s, "\n"); i >= 0 {
		return s[:i]
	}
	return s
}

func keys(m map[string]bool) []string {
	var out []string
	for k := range m {
		out = append(out, k)
	}
	sort.Strings(out)
	return out
}

func flagsOf(argv []string) []string {
	var out []string
	for _, a := range argv {
		if strings.HasPrefix(a, "-") {
			out = append(out, strings.SplitN(a, "=", 2)[0])
		}
	}
	return out
}

type spelled struct {
	Argv   []string
	Gofile string
	Cwd    string
}

// spellArgs renders flags + input path in one of the spellings.
func spellArgs(c GCase, flags []string, spelling string) spelled {
	s := spelled{}
	setup := c.Setup
	outName := func(dir string) string { return filepath.Join(dir, "conv_out.go") }
	var argv []string
	outArg := ""
	for _, f := range flags {
		if f == "-out" {
			outArg = "X"
			continue
		}
		argv = append(argv, f)
	}
	switch spelling {
	case "rel":
		if outArg != "" {
			argv = append(argv, "-out", outName(filepath.Dir(setup)))
		}
		argv = append(argv, setup)
	case "dotrel":
		if outArg != "" {
			argv = append(argv, "-out="+"./"+outName(filepath.Dir(setup)))
		}
		argv = append(argv, "./"+setup)
	case "abs":
		if outArg != "" {
			argv = append(argv, "-out", "ABS/"+outName(filepath.Dir(setup)))
		}
		argv = append(argv, "ABS/"+setup)
	case "bareout":
		// -out is a bare file name while the input lies in a sub-directory: the output goes to the working directory
		if outArg != "" {
			argv = append(argv, "-out", "conv_out.go")
		}
		argv = append(argv, setup)
	case "absoutside":
		// absolute paths, run from a directory outside the module
		s.Cwd = ".."
		if outArg != "" {
			argv = append(argv, "-out", "ABS/"+outName(filepath.Dir(setup)))
		}
		argv = append(argv, "ABS/"+setup)
	case "pkgdir":
		s.Cwd = filepath.Dir(setup)
		if outArg != "" {
			argv = append(argv, "-out", "conv_out.go")
		}
		argv = append(argv, filepath.Base(setup))
	case "gofile":
		s.Cwd = filepath.Dir(setup)
		if outArg != "" {
			argv = append(argv, "-out", "conv_out.go")
		}
		s.Gofile = filepath.Base(setup)
	case "gofileother":
		// as under go generate when the directive lives in another file of the package and names the setup file:
		// $GOFILE is the file with the directive, the argument is the input
		s.Cwd = filepath.Dir(setup)
		if outArg != "" {
			argv = append(argv, "-out", "conv_out.go")
		}
		argv = append(argv, filepath.Base(setup))
		s.Gofile = "types.go"
	case "dotgo":
		moved := filepath.Join("svc.golang", filepath.Dir(setup), "user.gorm.go")
		if outArg != "" {
			argv = append(argv, "-out", outName(filepath.Join("svc.golang", filepath.Dir(setup))))
		}
		argv = append(argv, moved)
	case "dotgoabs":
		// the same place, spelled as an absolute path (".go" occurs in a directory name before the extension)
		moved := filepath.Join("svc.golang", filepath.Dir(setup), "user.gorm.go")
		if outArg != "" {
			argv = append(argv, "-out", "ABS/"+outName(filepath.Join("svc.golang", filepath.Dir(setup))))
		}
		argv = append(argv, "ABS/"+moved)
	}
	s.Argv = argv
	return s
}

// movable: the case has no sub-packages, so its directory can be renamed freely
func movable(c GCase) bool {
	for p := range c.Files {
		if strings.Count(p, "/") > 1 {
			return false
		}
	}
	return true
}

func buildScenario(c GCase, flags []string, spelling, state string) RunScenario {
	sp := spellArgs(c, flags, spelling)
	sc := RunScenario{Base: c.Name, Argv: sp.Argv, Gofile: sp.Gofile, Cwd: sp.Cwd, OutState: state, Kind: "flags", Spelling: spelling}
	// -out variants
	for i, a := range sc.Argv {
		val := ""
		idx := -1
		if a == "-out" && i+1 < len(sc.Argv) {
			val, idx = sc.Argv[i+1], i+1
		} else if strings.HasPrefix(a, "-out=") {
			val, idx = strings.TrimPrefix(a, "-out="), i
		}
		if idx < 0 {
			continue
		}
		switch state {
		case "missingDir":
			val = filepath.Join(filepath.Dir(val), "nodir", filepath.Base(val))
		case "otherName":
			val = filepath.Join(filepath.Dir(val), "sub", "zz_generated.go")
		case "sameAsInput":
			// -out names the setup file itself (spelled as the input is spelled, or with a leading ./)
			if in := sc.Argv[len(sc.Argv)-1]; sc.Gofile == "" && idx < len(sc.Argv)-1 && !strings.HasPrefix(in, "-") && strings.HasSuffix(in, ".go") {
				val = in
			} else {
				sc.OutState = "absent"
			}
		case "linkToInput":
			// -out names another directory entry of the setup file (a hard link made before the run)
			val = filepath.Join(filepath.Dir(val), "zz_link_to_setup.go")
		}
		if a == "-out" {
			sc.Argv[idx] = val
		} else {
			sc.Argv[idx] = "-out=" + val
		}
	}
	return sc
}

var reImportLine = regexp.MustCompile(`^\s*(import\s+)?(\w+\s+)?"([^"]+)"\s*$`)

// onlyAddedImportsDiffer: the two outputs differ in import lines only, and every differing import path is one the
// setup file does not import itself
func onlyAddedImportsDiffer(a, b, setupSrc string) bool {
	count := map[string]int{}
	for _, l := range strings.Split(a, "\n") {
		count[l]++
	}
	for _, l := range strings.Split(b, "\n") {
		count[l]--
	}
	n := 0
	for l, c := range count {
		if c == 0 {
			continue
		}
		m := reImportLine.FindStringSubmatch(l)
		if m == nil || strings.Contains(setupSrc, `"`+m[3]+`"`) {
			return false
		}
		n++
	}
	return n > 0
}

// onlyModuleImportsDiffer: the two outputs differ in import lines only, and every differing line imports a package of the
// scratch module
func onlyModuleImportsDiffer(a, b string) bool {
	count := map[string]int{}
	for _, l := range strings.Split(a, "\n") {
		count[l]++
	}
	for _, l := range strings.Split(b, "\n") {
		count[l]--
	}
	n := 0
	for l, c := range count {
		if c == 0 {
			continue
		}
		t := strings.TrimSpace(l)
		if t == "import (" || t == ")" || t == "" {
			continue // a single import is written without parentheses
		}
		m := reImportLine.FindStringSubmatch(l)
		if m == nil || !strings.HasPrefix(m[3], "exp/") {
			return false
		}
		n++
	}
	return n > 0
}

// inWork spells a path of a run (relative to its working directory, or absolute) relative to the scratch module
func inWork(o runOutcome, p string) string {
	if !filepath.IsAbs(p) {
		p = filepath.Join(o.AbsCwd, p)
	}
	if r, err := filepath.Rel(o.Work, p); err == nil {
		return filepath.Clean(r)
	}
	return filepath.Clean(p)
}

// runScenario prepares the state, runs the CLI, snapshots and asks the model.
func runScenario(cli string, drv *Driver, work string, sc RunScenario, ref coreRef) (runOutcome, *RunPrediction) {
	abs := func(a string) string { return strings.ReplaceAll(a, "ABS/", work+"/") }
	argv := make([]string, len(sc.Argv))
	for i, a := range sc.Argv {
		argv[i] = abs(a)
	}
	cwd := filepath.Join(work, sc.Cwd)
	_, output, logp, _, _, _, ok := expectedPaths(argv, sc.Gofile)
	o := runOutcome{Scenario: sc, OutPath: output, LogPath: logp, AbsCwd: cwd, Work: work}
	o.Scenario.Argv = argv
	resolve := func(p string) string {
		if filepath.IsAbs(p) {
			return p
		}
		return filepath.Join(cwd, p)
	}
	if ok {
		op := resolve(output)
		switch {
		case sc.OutState == "stale":
			_ = os.MkdirAll(filepath.Dir(op), 0755)
			_ = os.WriteFile(op, []byte("// stale\npackage "+sc.Base+"\n\nfunc staleLeftover() {}\n"), 0644)
		case sc.OutState == "current":
			if ref.Kind == "ok" {
				_ = os.MkdirAll(filepath.Dir(op), 0755)
				_ = os.WriteFile(op, []byte(ref.Bytes), 0644)
			}
		case sc.OutState == "dirAtPath":
			_ = os.MkdirAll(op, 0755)
		case sc.OutState == "otherName":
			_ = os.MkdirAll(filepath.Dir(op), 0755)
		case sc.OutState == "linkToInput":
			if in, _, _, _, _, _, okIn := expectedPaths(argv, sc.Gofile); okIn {
				_ = os.Link(resolve(in), op)
			}
		case sc.Stale != "":
			_ = os.MkdirAll(filepath.Dir(op), 0755)
			_ = os.WriteFile(op, []byte(sc.Stale), 0644)
		}
		if b, err := os.ReadFile(op); err == nil {
			s := string(b)
			o.Before = &s
		}
	}
	before := takeSnapshot(work)
	env := []string{}
	if sc.Gofile != "" {
		env = append(env, "GOFILE="+sc.Gofile)
	}
	if sc.StdoutFull {
		env = append(env, "HARNESS_STDOUT=/dev/full")
	}
	o.CLI = runCLI(cli, cwd, argv, env)
	after := takeSnapshot(work)
	o.Changed = diffSnapshots(before, after)
	if ok {
		if b, err := os.ReadFile(resolve(output)); err == nil {
			s := string(b)
			o.Output = &s
		}
		if filepath.IsAbs(output) {
			if r, err := filepath.Rel(cwd, output); err == nil {
				o.OutPath = r
			}
		}
		if logp != "" && filepath.IsAbs(logp) {
			if r, err := filepath.Rel(cwd, logp); err == nil {
				o.LogPath = r
			}
		}
	}
	// model prediction
	if drv == nil || !ok {
		return o, nil
	}
	existsDir := func(p string) bool {
		st, err := os.Stat(resolve(p))
		return err == nil && st.IsDir()
	}
	var dirs, files []string
	// answer the model's directory queries from the state *before* the run (the run creates none)
	for _, p := range []string{output, logp} {
		if p == "" {
			continue
		}
		d := filepath.Dir(p)
		if st, ok := before[relTo(work, resolve(d))]; (ok && st == "dir") || relTo(work, resolve(d)) == "." {
			dirs = append(dirs, dirKey(p))
		}
		if st, ok := before[relTo(work, resolve(p))]; ok && st == "dir" {
			dirs = append(dirs, p)
		}
		_ = existsDir
	}
	input := ""
	if i, _, _, _, _, _, ok2 := expectedPaths(argv, sc.Gofile); ok2 {
		input = i
	}
	if _, ok := before[relTo(work, resolve(input))]; ok {
		files = append(files, input)
	}
	var pred RunPrediction
	err := drv.call(map[string]any{"op": "run", "argv": argv, "gofile": sc.Gofile, "files": files, "dirs": dirs, "stdoutFull": sc.StdoutFull,
		"core": map[string]any{"kind": ref.Kind, "bytes": ref.Bytes, "stderr": ref.Stderr}}, &pred)
	if err != nil {
		return o, nil
	}
	// the model's dirOf must agree with filepath.Dir on the paths it was asked about
	return o, &pred
}

func relTo(root, p string) string {
	r, err := filepath.Rel(root, p)
	if err != nil {
		return p
	}
	return r
}

// dirKey is the spelling of the directory of p that the model's `dirOf` produces.
func dirKey(p string) string {
	i := strings.LastIndex(p, "/")
	if i < 0 {
		return "."
	}
	if i == 0 {
		return "/"
	}
	return p[:i]
}
