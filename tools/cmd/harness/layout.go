package main

// Layout-focused cases (C03, C11) and the judges that compare the output's AST with the setup
// file's: declarations, imports, comment lines, function docs.

import (
	"bytes"
	"fmt"
	"go/ast"
	"go/parser"
	"go/printer"
	"go/token"
	"math/rand"
	"regexp"
	"sort"
	"strings"
)

// GenLayoutCase draws a well-formed setup file with an unusual layout.
func GenLayoutCase(seed int64, idx int) GCase {
	r := rand.New(rand.NewSource(seed*7919 + int64(idx)))
	ch := func(p float64) bool { return r.Float64() < p }
	pick := func(l ...string) string { return l[r.Intn(len(l))] }
	name := fmt.Sprintf("l%05d", idx)
	feats := map[string]bool{}
	var sb strings.Builder
	switch r.Intn(5) {
	case 4:
		// ordinary comment lines in one group with the build constraint
		sb.WriteString("// Some license header.\n// All rights reserved.\n//go:build convergen\n\n")
		feats["license-adjacent-to-constraint"] = true
	case 0:
		sb.WriteString("//go:build convergen\n\n")
	case 1:
		sb.WriteString("//go:build convergen\n// +build convergen\n\n")
	case 2:
		sb.WriteString("// +build convergen\n\n")
	default:
		sb.WriteString("// Some license header.\n\n//go:build convergen\n\n")
		feats["license-header"] = true
	}
	if ch(0.5) {
		fmt.Fprintf(&sb, "// Package %s does things.\n", name)
		if ch(0.3) {
			sb.WriteString("// :typecast is mentioned in the package doc.\n// :stringer\n")
			feats["notation-like-package-doc"] = true
		}
		feats["package-doc"] = true
	}
	fmt.Fprintf(&sb, "package %s\n\n", name)
	if ch(0.6) {
		sb.WriteString("import (\n\t\"strconv\" // for Itoa\n\t\"time\"\n)\n\nvar _ = strconv.Itoa\nvar _ time.Time\n\n")
		feats["imports"] = true
	}
	decl := func(i int) string {
		switch r.Intn(11) {
		case 10:
			// ordinary comments that merely mention a directive
			feats["comment-mentions-directive"] = true
			return fmt.Sprintf("// helper%d is kept in sync by hand; do not add a //go:generate line for it.\nfunc helper%d() {}\n\n/* Legacy note %d: this file used to start with \"// +build convergen\" only. */\nvar Legacy%d = 1\n\n", i, i, i, i)
		case 9:
			// a directive between the ordinary lines of a doc comment
			feats["directive-inside-doc"] = true
			return fmt.Sprintf("// E%d is an enum.\n//go:generate stringer -type=E%d\n// More about E%d.\ntype E%d int\n\n", i, i, i, i)
		case 0:
			return fmt.Sprintf("// K%d is a constant.\nconst K%d = %d // trailing\n\n", i, i, i)
		case 1:
			return fmt.Sprintf("// helper%d does nothing.\n//\n// Second paragraph.\nfunc helper%d(x int) int {\n\t// inside\n\treturn x /* inline */ + 1\n}\n\n", i, i)
		case 2:
			return fmt.Sprintf("/* block comment %d */\nvar V%d = []int{1, 2} // values\n\n", i, i)
		case 3:
			return fmt.Sprintf("type T%d struct {\n\t// A is documented.\n\tA int // the a\n\tB string\n}\n\n// M is a method.\nfunc (t T%d) M() int { return t.A }\n\n", i, i)
		case 4:
			return fmt.Sprintf("// Other%d is not a converter.\n// :typecast\ntype Other%d interface {\n\t// :skip X\n\t// doc of Do\n\tDo(int) string\n}\n\n", i, i)
		case 5:
			return fmt.Sprintf("//go:generate stringer -type=E%d\ntype E%d int\n\n", i, i)
		case 6:
			return fmt.Sprintf("// dangling comment %d\n\nvar (\n\tG%d = 1 // one\n\t// H is two\n\tH%d = 2\n)\n\n", i, i, i)
		case 7:
			return fmt.Sprintf("type (\n\t// P%d is a pair.\n\tP%d struct{ X, Y int }\n\tQ%d = P%d\n)\n\n", i, i, i, i)
		}
		return fmt.Sprintf("func init() { _ = %d }\n\n", i)
	}
	di := 0
	for i := 0; i < r.Intn(3); i++ {
		sb.WriteString(decl(di))
		di++
	}
	sb.WriteString("type S struct{ A int; B string }\ntype D struct{ A int; B string }\n\n")
	nIntf := 1
	if ch(0.35) {
		nIntf = 2 + r.Intn(2)
		feats["multi-interface"] = true
	}
	mi := 0
	for k := 0; k < nIntf; k++ {
		iname := "Convergen"
		if k > 0 || ch(0.2) {
			iname = pick("A", "Zz", "MidConv", "Alpha") + fmt.Sprint(k)
		}
		hasDoc := ch(0.5)
		if hasDoc {
			fmt.Fprintf(&sb, "// %s holds converters.\n", iname)
			if ch(0.3) {
				sb.WriteString("//go:generate go run github.com/reedom/convergen@v0.7.0\n")
				feats["generate-directive-in-doc"] = true
			}
		}
		if iname != "Convergen" {
			sb.WriteString("// :convergen\n")
		} else if !hasDoc {
			feats["interface-without-doc"] = true
		}
		nm := 1 + r.Intn(3)
		style := r.Intn(6)
		var methods []string
		for j := 0; j < nm; j++ {
			mname := fmt.Sprintf("%s%d", pick("F", "Conv", "To", "g"), mi)
			mi++
			doc := ""
			switch r.Intn(5) {
			case 0:
				doc = fmt.Sprintf("\t// %s converts.\n\t// :skip B\n", mname)
			case 1:
				doc = "\t// :skip B\n"
			case 2:
				doc = fmt.Sprintf("\t// %s converts S to D.\n\t//\n\t// More text.\n", mname)
				if mi%2 == 0 {
					// lines in directive form that are no notations: they belong to the function's doc comment like any other line
					doc += "\t//\n\t//nolint:dupl // twin of the hand-written one\n\t//go:noinline\n"
					feats["directive-form-line-in-method-doc"] = true
				}
			case 3:
				doc = fmt.Sprintf("\t/* %s block doc */\n", mname)
				feats["block-doc-on-method"] = true
			default:
				feats["method-without-doc"] = true
			}
			sig := pick("(*S) *D", "(S) D", "(s *S) (d *D)", "(*S) (*D, error)")
			trailing := ""
			if ch(0.2) {
				trailing = " // trailing on method"
				feats["trailing-comment-on-method"] = true
			}
			methods = append(methods, doc+"\t"+mname+sig+trailing+"\n")
		}
		switch style {
		case 0: // one line
			if nm == 1 && !strings.Contains(methods[0], "//") && !strings.Contains(methods[0], "/*") {
				fmt.Fprintf(&sb, "type %s interface{ %s }\n", iname, strings.TrimSpace(methods[0]))
				feats["one-line-interface"] = true
				break
			}
			fallthrough
		case 1:
			fmt.Fprintf(&sb, "type %s interface {\n%s}\n", iname, strings.Join(methods, ""))
		case 2:
			fmt.Fprintf(&sb, "type %s interface { // comment on the brace line\n%s} // closing comment\n", iname, strings.Join(methods, "\n"))
			feats["comment-on-brace-line"] = true
		case 3:
			fmt.Fprintf(&sb, "type %s interface {\n\n\n%s\n\n}\n", iname, strings.Join(methods, "\n\n"))
			feats["blank-lines"] = true
		case 4:
			fmt.Fprintf(&sb, "type %s interface {\n%s\t// last comment inside\n}\n", iname, strings.Join(methods, ""))
			feats["comment-before-closing-brace"] = true
		default:
			fmt.Fprintf(&sb, "type %s interface {\n%s}\n", iname, strings.Join(methods, ""))
		}
		if ch(0.5) {
			sb.WriteString("\n")
		} else {
			feats["adjacent-declaration"] = true
		}
		for i := 0; i < r.Intn(3); i++ {
			sb.WriteString(decl(di))
			di++
		}
	}
	if ch(0.3) {
		sb.WriteString("// trailing file comment\n")
	}
	text := sb.String()
	if ch(0.1) {
		text = strings.ReplaceAll(text, "\n", "\r\n")
		feats["crlf"] = true
	}
	if ch(0.1) {
		text = strings.TrimRight(text, "\r\n")
		feats["no-final-newline"] = true
	}
	fl := make([]string, 0, len(feats))
	for f := range feats {
		fl = append(fl, f)
	}
	sort.Strings(fl)
	return GCase{Name: name, Setup: name + "/setup.go", Files: map[string]string{name + "/setup.go": text},
		Features: fl, Profile: "layout"}
}

var reDirective = regexp.MustCompile(`^//\s*(go:generate\b|go:build convergen\b|\+build convergen)`)

func printDecl(fset *token.FileSet, f *ast.File, d ast.Decl) string {
	var buf bytes.Buffer
	cfg := printer.Config{Mode: printer.UseSpaces | printer.TabIndent, Tabwidth: 8}
	_ = cfg.Fprint(&buf, fset, &printer.CommentedNode{Node: d, Comments: f.Comments})
	return buf.String()
}

// judgeCarryOver compares the output with the setup file (C11).  Returns (key, what) pairs.
func judgeCarryOver(setupSrc, outSrc []byte, converterNames map[string]bool) [][2]string {
	var out [][2]string
	fs1, fs2 := token.NewFileSet(), token.NewFileSet()
	sf, err1 := parser.ParseFile(fs1, "setup.go", setupSrc, parser.ParseComments)
	of, err2 := parser.ParseFile(fs2, "out.go", outSrc, parser.ParseComments)
	if err1 != nil || err2 != nil {
		return nil
	}
	// 1. declarations other than converter interfaces are carried over unchanged (code only;
	//    comments are checked line by line below)
	fs3, fs4 := token.NewFileSet(), token.NewFileSet()
	sfBare, err3 := parser.ParseFile(fs3, "setup.go", setupSrc, 0)
	ofBare, err4 := parser.ParseFile(fs4, "out.go", outSrc, 0)
	if err3 != nil || err4 != nil {
		return nil
	}
	outDecls := map[string]int{}
	for _, d := range ofBare.Decls {
		outDecls[printDecl(fs4, ofBare, d)]++
	}
	bareText := map[token.Pos]string{}
	for i, d := range sfBare.Decls {
		if i < len(sf.Decls) {
			bareText[sf.Decls[i].Pos()] = printDecl(fs3, sfBare, d)
		}
	}
	type methodDoc struct {
		lines []string
	}
	wantDocs := map[string][]string{}
	convDocLines := map[string]bool{}
	for _, d := range sf.Decls {
		gd, isGen := d.(*ast.GenDecl)
		isConv := false
		if isGen && gd.Tok == token.TYPE {
			for _, sp := range gd.Specs {
				ts := sp.(*ast.TypeSpec)
				if it, ok := ts.Type.(*ast.InterfaceType); ok && converterNames[ts.Name.Name] {
					isConv = true
					for _, doc := range []*ast.CommentGroup{gd.Doc, ts.Doc} {
						if doc != nil {
							for _, c := range doc.List {
								convDocLines[c.Text] = true
							}
						}
					}
					for _, m := range it.Methods.List {
						if len(m.Names) == 0 {
							continue
						}
						var lines []string
						if m.Doc != nil {
							for _, c := range m.Doc.List {
								if reNotationH.MatchString(c.Text) {
									continue
								}
								lines = append(lines, c.Text)
							}
						}
						wantDocs[m.Names[0].Name] = lines
					}
				}
			}
		}
		if isGen && gd.Tok == token.IMPORT {
			continue
		}
		if isConv {
			continue
		}
		txt := bareText[d.Pos()]
		if outDecls[txt] == 0 {
			name := firstLine(txt)
			out = append(out, [2]string{"C11|declaration-not-carried-over", "declaration missing or changed in the output: " + name})
		} else {
			outDecls[txt]--
		}
	}
	// 2. comment lines: everything except directives, converter-interface docs and notation lines
	//    of converter methods survives; package doc in particular
	outLines := map[string]int{}
	for _, cg := range of.Comments {
		for _, c := range cg.List {
			outLines[c.Text]++
		}
	}
	convMethodNotation := map[string]bool{}
	for _, d := range sf.Decls {
		if gd, ok := d.(*ast.GenDecl); ok && gd.Tok == token.TYPE {
			for _, sp := range gd.Specs {
				ts := sp.(*ast.TypeSpec)
				if it, ok := ts.Type.(*ast.InterfaceType); ok && converterNames[ts.Name.Name] {
					// every comment positioned inside the interface body belongs to it
					for _, cg := range sf.Comments {
						if cg.Pos() > it.Methods.Opening && cg.End() < it.Methods.Closing+1 {
							for _, c := range cg.List {
								convMethodNotation[c.Text] = true
							}
						}
					}
					// comments on the lines of the braces are part of the interface text as well
					for _, cg := range sf.Comments {
						l1 := fs1.Position(it.Methods.Opening).Line
						l2 := fs1.Position(it.Methods.Closing).Line
						cl := fs1.Position(cg.Pos()).Line
						if (cl == l1 && cg.Pos() > it.Methods.Opening) || (cl == l2 && cg.Pos() > it.Methods.Closing) {
							for _, c := range cg.List {
								convMethodNotation[c.Text] = true
							}
						}
					}
				}
			}
		}
	}
	for _, cg := range sf.Comments {
		for _, c := range cg.List {
			if reDirective.MatchString(c.Text) || convDocLines[c.Text] || convMethodNotation[c.Text] {
				continue
			}
			if outLines[c.Text] == 0 {
				key := "C11|comment-lost"
				if sf.Doc == cg {
					key = "C11|package-doc-lost"
				}
				out = append(out, [2]string{key, fmt.Sprintf("comment line %q of the setup file is missing in the output", c.Text)})
			} else {
				outLines[c.Text]--
			}
		}
	}
	// 2b. every converter interface is gone: it is replaced by its functions (possibly none)
	for _, d := range of.Decls {
		if gd, ok := d.(*ast.GenDecl); ok && gd.Tok == token.TYPE {
			for _, sp := range gd.Specs {
				ts := sp.(*ast.TypeSpec)
				if _, ok := ts.Type.(*ast.InterfaceType); ok && converterNames[ts.Name.Name] {
					out = append(out, [2]string{"C11|converter-interface-survives", "the converter interface " + ts.Name.Name + " is still declared in the output"})
				}
			}
		}
	}
	// 3. no directive survives
	for _, cg := range of.Comments {
		for _, c := range cg.List {
			if reDirective.MatchString(c.Text) {
				out = append(out, [2]string{"C11|directive-survives", fmt.Sprintf("directive %q is present in the output", c.Text)})
			}
		}
	}
	// 4. function docs are the non-notation lines of the method's own comment
	for _, d := range of.Decls {
		fd, ok := d.(*ast.FuncDecl)
		if !ok {
			continue
		}
		want, isGen := wantDocs[fd.Name.Name]
		if !isGen {
			continue
		}
		var got []string
		if fd.Doc != nil {
			for _, c := range fd.Doc.List {
				got = append(got, c.Text)
			}
		}
		if strings.Join(got, "\n") != strings.Join(want, "\n") {
			out = append(out, [2]string{"C11|function-doc-differs", fmt.Sprintf("doc of %s: got %q, want %q", fd.Name.Name, got, want)})
		}
	}
	return out
}

// judgeUnmarkedInterfaces (C17): every interface of the setup file that is not a converter interface is carried
// over untouched — its declaration, its doc comment (whatever the lines look like) and the comments in its body.
func judgeUnmarkedInterfaces(setupSrc, outSrc []byte, converterNames map[string]bool) [][2]string {
	var out [][2]string
	fs1, fs2 := token.NewFileSet(), token.NewFileSet()
	sf, err1 := parser.ParseFile(fs1, "setup.go", setupSrc, parser.ParseComments)
	of, err2 := parser.ParseFile(fs2, "out.go", outSrc, parser.ParseComments)
	if err1 != nil || err2 != nil {
		return nil
	}
	outLines := map[string]int{}
	for _, cg := range of.Comments {
		for _, c := range cg.List {
			outLines[c.Text]++
		}
	}
	outIntf := map[string]string{}
	for _, d := range of.Decls {
		if gd, ok := d.(*ast.GenDecl); ok && gd.Tok == token.TYPE {
			for _, sp := range gd.Specs {
				ts := sp.(*ast.TypeSpec)
				if it, ok := ts.Type.(*ast.InterfaceType); ok {
					outIntf[ts.Name.Name] = methodListText(fs2, it)
				}
			}
		}
	}
	for _, d := range sf.Decls {
		gd, ok := d.(*ast.GenDecl)
		if !ok || gd.Tok != token.TYPE {
			continue
		}
		for _, sp := range gd.Specs {
			ts := sp.(*ast.TypeSpec)
			it, ok := ts.Type.(*ast.InterfaceType)
			if !ok || converterNames[ts.Name.Name] {
				continue
			}
			got, present := outIntf[ts.Name.Name]
			if !present {
				out = append(out, [2]string{"C17|unmarked-interface-missing", "interface " + ts.Name.Name + " is not a converter interface but is missing in the output"})
				continue
			}
			if got != methodListText(fs1, it) {
				out = append(out, [2]string{"C17|unmarked-interface-changed", "the method list of the unmarked interface " + ts.Name.Name + " changed"})
			}
			var lines []string
			for _, doc := range []*ast.CommentGroup{gd.Doc, ts.Doc} {
				if doc != nil {
					for _, c := range doc.List {
						lines = append(lines, c.Text)
					}
				}
			}
			for _, cg := range sf.Comments {
				if cg.Pos() > it.Methods.Opening && cg.End() <= it.Methods.Closing {
					for _, c := range cg.List {
						lines = append(lines, c.Text)
					}
				}
			}
			for _, l := range lines {
				if reDirective.MatchString(l) {
					continue
				}
				if outLines[l] == 0 {
					out = append(out, [2]string{"C17|unmarked-interface-comment-lost", fmt.Sprintf("comment line %q of the unmarked interface %s is missing in the output", l, ts.Name.Name)})
				} else {
					outLines[l]--
				}
			}
		}
	}
	return out
}

func methodListText(fset *token.FileSet, it *ast.InterfaceType) string {
	var parts []string
	for _, m := range it.Methods.List {
		var sb strings.Builder
		for _, n := range m.Names {
			sb.WriteString(n.Name + " ")
		}
		var buf bytes.Buffer
		_ = printer.Fprint(&buf, fset, m.Type)
		sb.WriteString(strings.Join(strings.Fields(buf.String()), " "))
		parts = append(parts, sb.String())
	}
	return strings.Join(parts, "; ")
}
