package main

// dispatchMore handles the subcommands defined in other files.
func dispatchMore(cmd string, args []string) bool {
	if f, ok := subcommands[cmd]; ok {
		f(args)
		return true
	}
	return false
}

var subcommands = map[string]func([]string){}
