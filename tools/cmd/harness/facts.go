package main

// Fact extraction: runs go/parser + go/types on a concrete setup file the way convergen's
// NewParser does and serialises exactly the answers the Lean model asks for (DESIGN.md §3.2).

import (
	"fmt"
	"go/ast"
	"go/parser"
	"go/token"
	"go/types"
	"os"
	"path/filepath"
	"regexp"
	"sort"
	"strings"
	"unicode"

	"golang.org/x/tools/go/ast/astutil"
	"golang.org/x/tools/go/packages"
)

type jLookup struct {
	K         string `json:"k"`
	Name      string `json:"name,omitempty"`
	Ty        int    `json:"ty,omitempty"`
	NParams   int    `json:"nparams,omitempty"`
	Results   []int  `json:"results,omitempty"`
	NeedsAddr bool   `json:"needsAddr,omitempty"`
}

type jField struct {
	Name string `json:"name"`
	Ty   int    `json:"ty"`
	// Foreign: the field is declared in another package than the one being generated (an unexported one is then invisible)
	Foreign bool `json:"foreign,omitempty"`
	// Embedded: an embedded field (its members are promoted); read by the specification judges only
	Embedded bool `json:"embedded,omitempty"`
}

type jMethodInfo struct {
	Name    string `json:"name"`
	NParams int    `json:"nparams"`
	Results []int  `json:"results"`
	PtrRecv bool   `json:"ptrRecv,omitempty"`
	Foreign bool   `json:"foreign,omitempty"`
}

type jTy struct {
	Kind         string        `json:"kind"`
	Str          string        `json:"str"`
	QStr         string        `json:"qstr"` // types.TypeString with every package qualifier written as \x01<path>\x02
	Name         string        `json:"name"`
	PkgPath      *string       `json:"pkgPath"`
	PkgName      string        `json:"pkgName"`
	InScope      bool          `json:"inScope"` // the setup package's scope object of that name is this very type
	HasTypeArgs  bool          `json:"hasTypeArgs"`
	Elem         int           `json:"elem"`
	IsStruct     bool          `json:"isStruct"`
	IsSlice      bool          `json:"isSlice"` // Underlying() is a slice; elem is then its element
	IsInvalid    bool          `json:"isInvalid"`
	UnderStr     string        `json:"underStr"`
	Fields       []jField      `json:"fields"`
	Methods      []jMethodInfo `json:"methods"`
	StringLookup jLookup       `json:"stringLookup"`
}

type jFuncLookup struct {
	K        string `json:"k"`
	Name     string `json:"name,omitempty"`
	PkgPath  string `json:"pkgPath,omitempty"`
	Exported bool   `json:"exported,omitempty"`
	Params   []int  `json:"params,omitempty"`
	Results  []int  `json:"results,omitempty"`
	Variadic bool   `json:"variadic,omitempty"`
}

type jComment struct {
	Pos  string `json:"pos"`
	Text string `json:"text"`
	Off  int    `json:"off"` // byte offset of the comment in the setup file
}

type jParam struct {
	Name string `json:"name"`
	Ty   int    `json:"ty"`
	Pos  string `json:"pos"`
}

type jMethodDecl struct {
	Name     string   `json:"name"`
	Pos      string   `json:"pos"`
	Params   []jParam `json:"params"`
	Results  []jParam `json:"results"`
	DocChain []int    `json:"docChain"`
}

type jScopeObj struct {
	Name        string        `json:"name"`
	Pos         string        `json:"pos"`
	IsInterface bool          `json:"isInterface"`
	// IsTypeName: the object is a declared type (not a variable, constant or function whose type happens to be an interface)
	IsTypeName bool `json:"isTypeName"`
	InSetupFile bool          `json:"inSetupFile"`
	DocChain    []int         `json:"docChain"`
	Methods     []jMethodDecl `json:"methods"`
	LBrace      int           `json:"lbrace"` // byte offsets of the interface's method list braces
	RBrace      int           `json:"rbrace"`
}

type jFile struct {
	PackagePos string       `json:"packagePos"`
	Groups     [][]jComment `json:"groups"`
	DocOf      []*int       `json:"docOf"`
	Scope      []jScopeObj  `json:"scope"`
	// layout facts for the base-code model (byte offsets in the setup file)
	GroupPos []int `json:"groupPos"`
	GroupEnd []int `json:"groupEnd"`
}

type jImport struct {
	Path    string `json:"path"`
	Alias   string `json:"alias"`
	PkgName string `json:"pkgName"`
}

type jRegex struct {
	Expr     string `json:"expr"`
	Subject  string `json:"subject"`
	Compiles bool   `json:"compiles"`
	Match    bool   `json:"match"`
}

type Facts struct {
	PkgPath       string     `json:"pkgPath"`
	PkgName       string     `json:"pkgName"`
	Imports       []jImport  `json:"imports"`
	Types         []jTy      `json:"types"`
	Assignable    []string   `json:"assignable"`
	Convertible   []string   `json:"convertible"`
	Identical     []string   `json:"identical"`
	Lookups       []jLookupE `json:"lookups"`
	ScopeNames    []string   `json:"scopeNames"`
	StringTy      int        `json:"stringTy"`
	LocalFuncs    []jLocalF  `json:"localFuncs"`
	PkgImports    []string   `json:"pkgImports"`
	ImportedFuncs []jImportF `json:"importedFuncs"`
	Regex         []jRegex   `json:"regex"`
	File          jFile      `json:"file"`
	Notes         []string   `json:"notes,omitempty"` // reasons why the model may not apply (alphabet, size)
	TypeErrors    int        `json:"typeErrors"`
}

type jLookupE struct {
	Ty   int     `json:"ty"`
	Name string  `json:"name"`
	Res  jLookup `json:"res"`
}
type jLocalF struct {
	Name string      `json:"name"`
	Res  jFuncLookup `json:"res"`
}
type jImportF struct {
	Path string      `json:"path"`
	Name string      `json:"name"`
	Res  jFuncLookup `json:"res"`
}

var reNotationH = regexp.MustCompile(`^\s*//\s*:(\S+)\s*(.*)$`)

type universe struct {
	ids   map[string]int
	types []types.Type
}

func typeKey(t types.Type) string {
	// full package paths; named types additionally carry their dynamic class so that a named
	// type and a basic type of the same spelling stay apart
	// ... and unnamed struct types with unexported fields are different types when different packages declare
	// them, although they are spelled alike (`struct{Key string; rev int}` here and in an imported package)
	return fmt.Sprintf("%T|%s|%s", t, types.TypeString(t, nil), unexportedOwners(t, 0))
}

// unexportedOwners lists the declaring packages of the unexported fields of the unnamed struct types inside t
func unexportedOwners(t types.Type, depth int) string {
	if depth > 6 {
		return ""
	}
	switch x := t.(type) {
	case *types.Pointer:
		return unexportedOwners(x.Elem(), depth+1)
	case *types.Slice:
		return unexportedOwners(x.Elem(), depth+1)
	case *types.Array:
		return unexportedOwners(x.Elem(), depth+1)
	case *types.Chan:
		return unexportedOwners(x.Elem(), depth+1)
	case *types.Map:
		return unexportedOwners(x.Key(), depth+1) + unexportedOwners(x.Elem(), depth+1)
	case *types.Struct:
		out := ""
		for i := 0; i < x.NumFields(); i++ {
			f := x.Field(i)
			if !f.Exported() && f.Pkg() != nil {
				out += f.Name() + "@" + f.Pkg().Path() + ";"
			}
			out += unexportedOwners(f.Type(), depth+1)
		}
		return out
	}
	return ""
}

func (u *universe) id(t types.Type) int {
	k := typeKey(t)
	if i, ok := u.ids[k]; ok {
		return i
	}
	i := len(u.types)
	u.ids[k] = i
	u.types = append(u.types, t)
	return i
}

func pkgOf(t types.Type) *types.Package {
	switch typ := t.(type) {
	case *types.Pointer:
		return pkgOf(typ.Elem())
	case *types.Named:
		return typ.Obj().Pkg()
	}
	return nil
}

const maxUniverse = 260

// ExtractFacts loads the package of srcPath exactly as convergen does (build tag, output file
// withheld) and extracts the facts.  rel is the directory that is stripped from positions.
func ExtractFacts(srcPath, dstPath, rel string) (*Facts, error) {
	fset := token.NewFileSet()
	var fileSrc *ast.File
	srcStat, err := os.Stat(srcPath)
	if err != nil {
		return nil, err
	}
	dstStat, _ := os.Stat(dstPath)
	cfg := &packages.Config{
		Mode: packages.NeedName | packages.NeedImports | packages.NeedDeps |
			packages.NeedTypes | packages.NeedSyntax | packages.NeedTypesInfo,
		BuildFlags: []string{"-tags", "convergen"},
		Fset:       fset,
		Dir:        filepath.Dir(srcPath),
		ParseFile: func(fset *token.FileSet, filename string, src []byte) (*ast.File, error) {
			stat, err := os.Stat(filename)
			if err != nil {
				return nil, err
			}
			if dstStat != nil && os.SameFile(stat, dstStat) {
				return nil, nil
			}
			if !os.SameFile(stat, srcStat) {
				return parser.ParseFile(fset, filename, src, 0)
			}
			f, err := parser.ParseFile(fset, filename, src, parser.ParseComments)
			if err != nil {
				return nil, err
			}
			fileSrc = f
			return f, nil
		},
	}
	pkgs, err := packages.Load(cfg, "file="+srcPath)
	if err != nil {
		return nil, err
	}
	if len(pkgs) == 0 || fileSrc == nil {
		return nil, fmt.Errorf("setup file not loaded")
	}
	pkg := pkgs[0]
	srcName := fset.Position(fileSrc.Pos()).Filename

	posStr := func(p token.Pos) string {
		if !p.IsValid() {
			return "-"
		}
		pp := fset.Position(p)
		name := pp.Filename
		if r, err := filepath.Rel(rel, name); err == nil && !strings.HasPrefix(r, "..") {
			name = r
		}
		return fmt.Sprintf("%s:%d:%d", name, pp.Line, pp.Column)
	}

	f := &Facts{PkgPath: pkg.PkgPath, PkgName: pkg.Name, TypeErrors: len(pkg.Errors)}
	for _, spec := range fileSrc.Imports {
		imp := jImport{Path: strings.ReplaceAll(spec.Path.Value, `"`, "")}
		if spec.Name != nil {
			imp.Alias = spec.Name.Name
		}
		if pkg.Types != nil {
			for _, ip := range pkg.Types.Imports() {
				if ip.Path() == imp.Path {
					imp.PkgName = ip.Name()
				}
			}
		}
		f.Imports = append(f.Imports, imp)
	}

	u := &universe{ids: map[string]int{}}
	f.StringTy = u.id(types.Universe.Lookup("string").Type())

	// ---- file facts ------------------------------------------------------------------------
	groupIdx := map[*ast.CommentGroup]int{}
	var notationWords, notationIdents []string
	seenWord := map[string]bool{}
	var skipPatterns []string
	for i, g := range fileSrc.Comments {
		groupIdx[g] = i
		var lines []jComment
		for _, c := range g.List {
			lines = append(lines, jComment{Pos: posStr(c.Pos()), Text: c.Text, Off: fset.Position(c.Pos()).Offset})
			if m := reNotationH.FindStringSubmatch(c.Text); m != nil {
				args := strings.Fields(m[2])
				if m[1] == "skip" && len(args) > 0 {
					skipPatterns = append(skipPatterns, args[0])
				}
				for _, w := range args {
					if !seenWord[w] {
						seenWord[w] = true
						notationWords = append(notationWords, w)
					}
				}
				for _, id := range strings.FieldsFunc(m[2], func(r rune) bool {
					return !(unicode.IsLetter(r) || unicode.IsDigit(r) || r == '_')
				}) {
					if !seenWord["id:"+id] {
						seenWord["id:"+id] = true
						notationIdents = append(notationIdents, id)
					}
				}
			}
		}
		f.File.Groups = append(f.File.Groups, lines)
		f.File.GroupPos = append(f.File.GroupPos, fset.Position(g.Pos()).Offset)
		f.File.GroupEnd = append(f.File.GroupEnd, fset.Position(g.End()).Offset)
	}
	f.File.PackagePos = posStr(fileSrc.Package)

	nodeIdx := map[ast.Node]int{}
	docOfNode := func(n ast.Node) (*ast.CommentGroup, bool) {
		switch x := n.(type) {
		case *ast.GenDecl:
			return x.Doc, true
		case *ast.FuncDecl:
			return x.Doc, true
		case *ast.TypeSpec:
			return x.Doc, true
		case *ast.Field:
			return x.Doc, true
		case *ast.File:
			return x.Doc, true
		}
		return nil, false
	}
	ast.Inspect(fileSrc, func(n ast.Node) bool {
		if n == nil {
			return true
		}
		if doc, ok := docOfNode(n); ok {
			nodeIdx[n] = len(f.File.DocOf)
			if doc != nil {
				gi := groupIdx[doc]
				f.File.DocOf = append(f.File.DocOf, &gi)
			} else {
				f.File.DocOf = append(f.File.DocOf, nil)
			}
		}
		return true
	})
	// doc-bearing nodes on the path, innermost first; the kind is encoded in the id:
	// id*8 + kind  (1 GenDecl, 2 FuncDecl, 3 TypeSpec, 4 Field, 5 File)
	docChain := func(obj types.Object) []int {
		chain := []int{}
		nodes, _ := astutil.PathEnclosingInterval(fileSrc, obj.Pos(), obj.Pos())
		for _, n := range nodes {
			if i, ok := nodeIdx[n]; ok {
				kind := 0
				switch n.(type) {
				case *ast.GenDecl:
					kind = 1
				case *ast.FuncDecl:
					kind = 2
				case *ast.TypeSpec:
					kind = 3
				case *ast.Field:
					kind = 4
				case *ast.File:
					kind = 5
				}
				chain = append(chain, i*8+kind)
			}
		}
		return chain
	}

	tuple := func(t *types.Tuple) []jParam {
		out := []jParam{}
		for i := 0; i < t.Len(); i++ {
			v := t.At(i)
			out = append(out, jParam{Name: v.Name(), Ty: u.id(v.Type()), Pos: posStr(v.Pos())})
		}
		return out
	}

	scope := pkg.Types.Scope()
	f.ScopeNames = scope.Names()
	// the method names of the file's interfaces are looked up on receiver types (name collisions)
	for _, name := range scope.Names() {
		if tn, ok := scope.Lookup(name).(*types.TypeName); ok {
			if it, ok := tn.Type().Underlying().(*types.Interface); ok {
				for i := 0; i < it.NumMethods(); i++ {
					id := it.Method(i).Name()
					if !seenWord["id:"+id] {
						seenWord["id:"+id] = true
						notationIdents = append(notationIdents, id)
					}
				}
			}
		}
	}
	var operandTypes []types.Type
	for _, name := range scope.Names() {
		obj := scope.Lookup(name)
		so := jScopeObj{Name: obj.Name(), Pos: posStr(obj.Pos()), DocChain: []int{}, Methods: []jMethodDecl{}}
		so.InSetupFile = fset.Position(obj.Pos()).Filename == srcName
		_, so.IsTypeName = obj.(*types.TypeName)
		if iface, ok := obj.Type().Underlying().(*types.Interface); ok {
			so.IsInterface = true
			if so.InSetupFile {
				so.DocChain = docChain(obj)
				// braces as GenerateBaseCode finds them: the first field list of the declaration
				if nodes, _ := astutil.PathEnclosingInterval(fileSrc, obj.Pos(), obj.Pos()); nodes != nil {
					for _, n := range nodes {
						if gd, ok := n.(*ast.GenDecl); ok {
							minPos, maxPos := token.NoPos, token.NoPos
							ast.Inspect(gd, func(node ast.Node) bool {
								if fl, ok := node.(*ast.FieldList); ok {
									if minPos == 0 {
										minPos, maxPos = fl.Pos(), fl.Closing
									} else if fl.Pos() < minPos {
										minPos = fl.Pos()
									} else if maxPos < fl.Closing {
										maxPos = fl.Closing
									}
								}
								return true
							})
							if minPos.IsValid() {
								so.LBrace = fset.Position(minPos).Offset
								so.RBrace = fset.Position(maxPos).Offset
							}
						}
					}
				}
				mset := types.NewMethodSet(iface)
				for i := 0; i < mset.Len(); i++ {
					m := mset.At(i).Obj()
					sig, ok := m.Type().(*types.Signature)
					if !ok {
						continue
					}
					md := jMethodDecl{Name: m.Name(), Pos: posStr(m.Pos()), Params: tuple(sig.Params()),
						Results: tuple(sig.Results()), DocChain: docChain(m)}
					so.Methods = append(so.Methods, md)
					if sig.Params().Len() > 0 {
						operandTypes = append(operandTypes, sig.Params().At(0).Type())
					}
					if sig.Results().Len() > 0 {
						operandTypes = append(operandTypes, sig.Results().At(0).Type())
					}
				}
			}
		}
		f.File.Scope = append(f.File.Scope, so)
	}

	// ---- function lookups --------------------------------------------------------------------
	sigOf := func(obj types.Object) jFuncLookup {
		if obj == nil {
			return jFuncLookup{K: "notFound"}
		}
		sig, ok := obj.Type().(*types.Signature)
		if !ok {
			return jFuncLookup{K: "notFunc"}
		}
		r := jFuncLookup{K: "func", Name: obj.Name(), Exported: obj.Exported(), Params: []int{}, Results: []int{}, Variadic: sig.Variadic()}
		if obj.Pkg() != nil {
			r.PkgPath = obj.Pkg().Path()
		}
		for i := 0; i < sig.Params().Len(); i++ {
			r.Params = append(r.Params, u.id(sig.Params().At(i).Type()))
		}
		for i := 0; i < sig.Results().Len(); i++ {
			r.Results = append(r.Results, u.id(sig.Results().At(i).Type()))
		}
		return r
	}
	for p := range pkg.Imports {
		f.PkgImports = append(f.PkgImports, p)
	}
	sort.Strings(f.PkgImports)
	lookupPos := fileSrc.End() - 1
	seenLocal := map[string]bool{}
	seenImp := map[string]bool{}
	for _, w := range notationWords {
		parts := strings.Split(w, ".")
		if len(parts) == 1 {
			if seenLocal[w] {
				continue
			}
			seenLocal[w] = true
			inner := pkg.Types.Scope().Innermost(lookupPos)
			var obj types.Object
			if inner != nil {
				_, obj = inner.LookupParent(w, lookupPos)
			}
			f.LocalFuncs = append(f.LocalFuncs, jLocalF{Name: w, Res: sigOf(obj)})
			continue
		}
		for _, p := range f.PkgImports {
			k := p + "\x00" + parts[1]
			if seenImp[k] {
				continue
			}
			seenImp[k] = true
			ip := pkg.Imports[p]
			if ip == nil || ip.Types == nil {
				continue
			}
			f.ImportedFuncs = append(f.ImportedFuncs, jImportF{Path: p, Name: parts[1], Res: sigOf(ip.Types.Scope().Lookup(parts[1]))})
		}
	}

	// ---- type universe -------------------------------------------------------------------------
	lookupRes := func(obj types.Object) jLookup {
		switch o := obj.(type) {
		case *types.Var:
			return jLookup{K: "field", Name: o.Name(), Ty: u.id(o.Type())}
		case *types.Func:
			sig := o.Type().(*types.Signature)
			r := jLookup{K: "method", Name: o.Name(), NParams: sig.Params().Len(), Results: []int{}}
			for i := 0; i < sig.Results().Len(); i++ {
				r.Results = append(r.Results, u.id(sig.Results().At(i).Type()))
			}
			return r
		}
		return jLookup{K: "none"}
	}
	describe := func(t types.Type) jTy {
		j := jTy{Str: t.String(), Fields: []jField{}, Methods: []jMethodInfo{}, StringLookup: jLookup{K: "none"}}
		j.QStr = types.TypeString(t, func(p *types.Package) string { return "\x01" + p.Path() + "\x02" })
		switch x := t.(type) {
		case *types.Basic:
			j.Kind = "basic"
			j.Name = x.Name()
		case *types.Named:
			j.Kind = "named"
			j.Name = x.Obj().Name()
			if x.Obj().Pkg() != nil {
				p := x.Obj().Pkg().Path()
				j.PkgPath = &p
				j.PkgName = x.Obj().Pkg().Name()
			}
			j.InScope = pkg.Types.Scope().Lookup(x.Obj().Name()) == x.Obj()
			j.HasTypeArgs = x.TypeArgs().Len() > 0
			for i := 0; i < x.NumMethods(); i++ {
				m := x.Method(i)
				sig := m.Type().(*types.Signature)
				mi := jMethodInfo{Name: m.Name(), NParams: sig.Params().Len(), Results: []int{}, Foreign: m.Pkg() != nil && m.Pkg().Path() != pkg.PkgPath}
				if recv := sig.Recv(); recv != nil {
					_, mi.PtrRecv = recv.Type().(*types.Pointer)
				}
				for k := 0; k < sig.Results().Len(); k++ {
					mi.Results = append(mi.Results, u.id(sig.Results().At(k).Type()))
				}
				j.Methods = append(j.Methods, mi)
			}
			obj, _, _ := types.LookupFieldOrMethod(x, false, x.Obj().Pkg(), "String")
			j.StringLookup = lookupRes(obj)
			if v, ok := obj.(*types.Var); ok {
				// CompliesStringer asks whether the member's type is a signature: a field of function type is as
				// callable as a method (`x.String()`)
				if sig, ok := v.Type().(*types.Signature); ok {
					r := jLookup{K: "method", Name: v.Name(), NParams: sig.Params().Len(), Results: []int{}}
					for i := 0; i < sig.Results().Len(); i++ {
						r.Results = append(r.Results, u.id(sig.Results().At(i).Type()))
					}
					j.StringLookup = r
				}
			}
		case *types.Pointer:
			j.Kind = "pointer"
			j.Elem = u.id(x.Elem())
		case *types.Slice:
			j.Kind = "slice"
			j.Elem = u.id(x.Elem())
		case *types.Struct:
			j.Kind = "struct"
		default:
			j.Kind = "other"
		}
		under := t.Underlying()
		j.UnderStr = under.String()
		if st, ok := under.(*types.Struct); ok {
			j.IsStruct = true
			for i := 0; i < st.NumFields(); i++ {
				fl := st.Field(i)
				j.Fields = append(j.Fields, jField{Name: fl.Name(), Ty: u.id(fl.Type()), Foreign: fl.Pkg() != nil && fl.Pkg().Path() != pkg.PkgPath, Embedded: fl.Embedded()})
			}
		}
		if b, ok := under.(*types.Basic); ok && b.Kind() == types.Invalid {
			j.IsInvalid = true
		}
		if sl, ok := under.(*types.Slice); ok {
			j.IsSlice = true
			j.Elem = u.id(sl.Elem())
		}
		return j
	}
	// describe until closed (describing registers new types)
	done := 0
	var lookupsDone int
	for {
		for done < len(u.types) && len(u.types) <= maxUniverse {
			f.Types = append(f.Types, describe(u.types[done]))
			done++
		}
		if len(u.types) > maxUniverse {
			f.Notes = append(f.Notes, "universe-too-large")
			break
		}
		// lookups for the newly described types
		for ; lookupsDone < done; lookupsDone++ {
			t := u.types[lookupsDone]
			for _, name := range notationIdents {
				obj, _, _ := types.LookupFieldOrMethod(t, true, pkgOf(t), name)
				if obj == nil {
					continue
				}
				res := lookupRes(obj)
				if o2, _, _ := types.LookupFieldOrMethod(t, false, pkgOf(t), name); o2 == nil {
					res.NeedsAddr = true
				}
				f.Lookups = append(f.Lookups, jLookupE{Ty: lookupsDone, Name: name, Res: res})
			}
		}
		if done == len(u.types) {
			break
		}
	}
	n := len(f.Types)
	for i := 0; i < n; i++ {
		var a, c, idn strings.Builder
		for k := 0; k < n; k++ {
			if types.AssignableTo(u.types[i], u.types[k]) {
				a.WriteByte('1')
			} else {
				a.WriteByte('0')
			}
			if types.ConvertibleTo(u.types[i], u.types[k]) {
				c.WriteByte('1')
			} else {
				c.WriteByte('0')
			}
			if types.Identical(u.types[i], u.types[k]) {
				idn.WriteByte('1')
			} else {
				idn.WriteByte('0')
			}
		}
		f.Assignable = append(f.Assignable, a.String())
		f.Convertible = append(f.Convertible, c.String())
		f.Identical = append(f.Identical, idn.String())
	}

	// ---- regexp oracle -------------------------------------------------------------------------
	if len(skipPatterns) > 0 {
		subjects := map[string]bool{}
		var walk func(t types.Type, prefix string, depth int)
		walk = func(t types.Type, prefix string, depth int) {
			if p, ok := t.(*types.Pointer); ok && depth == 0 {
				t = p.Elem()
			}
			st, ok := t.Underlying().(*types.Struct)
			if !ok || depth > 6 {
				return
			}
			for i := 0; i < st.NumFields(); i++ {
				fl := st.Field(i)
				p := fl.Name()
				if prefix != "" {
					p = prefix + "." + fl.Name()
				}
				subjects[p] = true
				subjects[strings.ToLower(p)] = true
				if _, isPtr := fl.Type().(*types.Pointer); !isPtr {
					walk(fl.Type(), p, depth+1)
				}
			}
		}
		for _, t := range operandTypes {
			walk(t, "", 0)
		}
		var subj []string
		for s := range subjects {
			subj = append(subj, s)
		}
		sort.Strings(subj)
		seenExpr := map[string]bool{}
		for _, p := range skipPatterns {
			for _, exact := range []bool{true, false} {
				expr := compileExprH(p, exact)
				if seenExpr[expr] {
					continue
				}
				seenExpr[expr] = true
				re, err := regexp.Compile(expr)
				if err != nil {
					f.Regex = append(f.Regex, jRegex{Expr: expr, Subject: "", Compiles: false})
					continue
				}
				f.Regex = append(f.Regex, jRegex{Expr: expr, Subject: "", Compiles: true, Match: re.MatchString("")})
				for _, s := range subj {
					f.Regex = append(f.Regex, jRegex{Expr: expr, Subject: s, Compiles: true, Match: re.MatchString(s)})
				}
			}
		}
	}

	// alphabet guard: the Lean model's ToLower/EqualFold tables cover ASCII and a few letters
	checkAlphabet := func(s string) {
		for _, r := range s {
			if r < 128 {
				continue
			}
			if !strings.ContainsRune("µΜμſςΣσÅåÉéK\u212aẞß\u00a0", r) {
				f.Notes = append(f.Notes, fmt.Sprintf("outside-model-alphabet(%q)", r))
				return
			}
		}
	}
	for _, g := range f.File.Groups {
		for _, c := range g {
			if reNotationH.MatchString(c.Text) {
				checkAlphabet(c.Text)
			}
		}
	}
	for _, t := range f.Types {
		for _, fl := range t.Fields {
			checkAlphabet(fl.Name)
		}
		for _, m := range t.Methods {
			checkAlphabet(m.Name)
		}
	}
	return f, nil
}

// compileExprH mirrors option.compileRegexp (which expression text is compiled).
func compileExprH(pattern string, exactCase bool) string {
	var expr string
	if strings.HasPrefix(pattern, "/") && strings.HasSuffix(pattern, "/") && 2 <= len(pattern) {
		expr = pattern[1 : len(pattern)-1]
	} else {
		expr = fmt.Sprintf("^%v$", regexp.QuoteMeta(pattern))
	}
	if !exactCase {
		expr = "(?i)" + expr
	}
	return expr
}
