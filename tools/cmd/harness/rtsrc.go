package main

// rtSource is the run-time support package `exp/rt` written into scratch modules: instrumentation
// for user functions (call trace, fault plan), reflection-based value construction and canonical
// dumps, and the exerciser that calls a generated function and judges what it did (C02, C07, C10,
// C16) from the outside.
const rtSource = `package rt

import (
	"fmt"
	"reflect"
	"sort"
	"strconv"
	"strings"
)

// ---- instrumentation ---------------------------------------------------------------------------

type Event struct {
	Name string
	Ptrs []uintptr // pointer arguments (identity)
	Vals []string  // dumps of the arguments at call time
}

var (
	Trace   []Event
	Tracing = true
	Plan    = map[string]bool{} // site name -> fail
	Hits    = map[string]int{}
)

type InjErr struct{ Site string }

func (e *InjErr) Error() string { return "injected failure at " + e.Site }

var injected = map[string]*InjErr{}

func Call(name string, args ...any) {
	if !Tracing {
		return
	}
	ev := Event{Name: name}
	for _, a := range args {
		v := reflect.ValueOf(a)
		if v.IsValid() && v.Kind() == reflect.Ptr {
			ev.Ptrs = append(ev.Ptrs, v.Pointer())
		} else {
			ev.Ptrs = append(ev.Ptrs, 0)
		}
		if v.IsValid() && v.Kind() == reflect.Ptr && !v.IsNil() {
			ev.Vals = append(ev.Vals, Dump(v.Elem().Interface())) // the pointee, so that it compares with values
		} else {
			ev.Vals = append(ev.Vals, Dump(a))
		}
	}
	Trace = append(Trace, ev)
}

// Err returns the injected error of a site when the plan says it fails.
func Err(name string) error {
	if !Tracing {
		return nil
	}
	if Plan[name] {
		e, ok := injected[name]
		if !ok {
			e = &InjErr{Site: name}
			injected[name] = e
		}
		return e
	}
	return nil
}

// ---- canonical dumps ------------------------------------------------------------------------------

type dumper struct {
	sb   strings.Builder
	ptrs map[uintptr]int
}

func Dump(x any) string {
	d := &dumper{ptrs: map[uintptr]int{}}
	d.val(reflect.ValueOf(x), 0)
	return d.sb.String()
}

func (d *dumper) val(v reflect.Value, depth int) {
	if !v.IsValid() {
		d.sb.WriteString("<invalid>")
		return
	}
	if depth > 12 {
		d.sb.WriteString("...")
		return
	}
	switch v.Kind() {
	case reflect.Ptr:
		if v.IsNil() {
			d.sb.WriteString("nil")
			return
		}
		id, seen := d.ptrs[v.Pointer()]
		if !seen {
			id = len(d.ptrs) + 1
			d.ptrs[v.Pointer()] = id
		}
		fmt.Fprintf(&d.sb, "&%d", id)
		if !seen {
			d.sb.WriteString("{")
			d.val(v.Elem(), depth+1)
			d.sb.WriteString("}")
		}
	case reflect.Struct:
		d.sb.WriteString("{")
		for i := 0; i < v.NumField(); i++ {
			if i > 0 {
				d.sb.WriteString(" ")
			}
			d.sb.WriteString(v.Type().Field(i).Name + ":")
			d.val(v.Field(i), depth+1)
		}
		d.sb.WriteString("}")
	case reflect.Slice:
		if v.IsNil() {
			d.sb.WriteString("nil[]")
			return
		}
		d.sb.WriteString("[")
		for i := 0; i < v.Len(); i++ {
			if i > 0 {
				d.sb.WriteString(" ")
			}
			d.val(v.Index(i), depth+1)
		}
		d.sb.WriteString("]")
	case reflect.Array:
		d.sb.WriteString("[")
		for i := 0; i < v.Len(); i++ {
			if i > 0 {
				d.sb.WriteString(" ")
			}
			d.val(v.Index(i), depth+1)
		}
		d.sb.WriteString("]")
	case reflect.Map:
		if v.IsNil() {
			d.sb.WriteString("nilmap")
			return
		}
		keys := v.MapKeys()
		strs := make([]string, len(keys))
		for i, k := range keys {
			strs[i] = fmt.Sprint(k.Interface()) + "=" + Dump(v.MapIndex(k).Interface())
		}
		sort.Strings(strs)
		d.sb.WriteString("map[" + strings.Join(strs, " ") + "]")
	case reflect.Interface:
		if v.IsNil() {
			d.sb.WriteString("nilif")
			return
		}
		d.sb.WriteString("if(")
		d.val(v.Elem(), depth+1)
		d.sb.WriteString(")")
	case reflect.Func, reflect.Chan, reflect.UnsafePointer:
		if v.IsNil() {
			d.sb.WriteString("nil")
		} else {
			d.sb.WriteString(v.Kind().String())
		}
	case reflect.String:
		d.sb.WriteString(strconv.Quote(v.String()))
	default:
		if v.CanInterface() {
			fmt.Fprint(&d.sb, v.Interface())
		} else {
			switch v.Kind() {
			case reflect.Int, reflect.Int8, reflect.Int16, reflect.Int32, reflect.Int64:
				fmt.Fprint(&d.sb, v.Int())
			case reflect.Uint, reflect.Uint8, reflect.Uint16, reflect.Uint32, reflect.Uint64:
				fmt.Fprint(&d.sb, v.Uint())
			case reflect.Bool:
				fmt.Fprint(&d.sb, v.Bool())
			case reflect.Float32, reflect.Float64:
				fmt.Fprint(&d.sb, v.Float())
			default:
				d.sb.WriteString("?")
			}
		}
	}
}

// ---- value construction -----------------------------------------------------------------------------

// settable returns a writable view of an unexported field.
func settable(v reflect.Value) reflect.Value {
	if v.CanSet() {
		return v
	}
	if v.CanAddr() {
		return reflect.NewAt(v.Type(), v.Addr().UnsafePointer()).Elem()
	}
	return v
}

// Fill sets v to a deterministic value.  variant: 0 = everything present, 1 = nested pointers nil,
// 2 = slices/maps nil, 3 = empty slices, zero scalars, 4 = extreme scalars, shared backing arrays.
func Fill(v reflect.Value, variant int, seed *int) {
	v = settable(v)
	*seed++
	s := *seed
	switch v.Kind() {
	case reflect.Int, reflect.Int8, reflect.Int16, reflect.Int32, reflect.Int64:
		n := int64(s%50 + 1)
		if variant == 3 {
			n = 0
		}
		if variant == 4 {
			n = int64(1) << (uint(v.Type().Bits()) - 2)
			if s%2 == 0 {
				n = -n
			}
		}
		v.SetInt(n)
	case reflect.Uint, reflect.Uint8, reflect.Uint16, reflect.Uint32, reflect.Uint64:
		n := uint64(s%50 + 1)
		if variant == 3 {
			n = 0
		}
		v.SetUint(n)
	case reflect.Float32, reflect.Float64:
		v.SetFloat(float64(s) + 0.5)
	case reflect.Bool:
		v.SetBool(s%2 == 0)
	case reflect.String:
		if variant == 3 {
			v.SetString("")
		} else {
			v.SetString("s" + strconv.Itoa(s))
		}
	case reflect.Ptr:
		if variant == 1 {
			v.Set(reflect.Zero(v.Type()))
			return
		}
		p := reflect.New(v.Type().Elem())
		Fill(p.Elem(), variant, seed)
		v.Set(p)
	case reflect.Struct:
		for i := 0; i < v.NumField(); i++ {
			Fill(v.Field(i), variant, seed)
		}
	case reflect.Slice:
		switch variant {
		case 2:
			v.Set(reflect.Zero(v.Type()))
		case 3:
			v.Set(reflect.MakeSlice(v.Type(), 0, 0))
		default:
			n := 2 + s%2
			// variant 4: a sub-slice of a larger backing array
			back := reflect.MakeSlice(v.Type(), n+2, n+4)
			for i := 0; i < back.Len(); i++ {
				Fill(back.Index(i), variant, seed)
			}
			if variant == 4 {
				v.Set(back.Slice(1, n+1))
			} else {
				v.Set(back.Slice(0, n))
			}
		}
	case reflect.Map:
		if variant == 2 {
			v.Set(reflect.Zero(v.Type()))
			return
		}
		m := reflect.MakeMap(v.Type())
		k := reflect.New(v.Type().Key()).Elem()
		Fill(k, 0, seed)
		e := reflect.New(v.Type().Elem()).Elem()
		Fill(e, 0, seed)
		m.SetMapIndex(k, e)
		v.Set(m)
	case reflect.Array:
		for i := 0; i < v.Len(); i++ {
			Fill(v.Index(i), variant, seed)
		}
	case reflect.Interface:
		if v.NumMethod() == 0 && variant != 1 {
			v.Set(reflect.ValueOf("if" + strconv.Itoa(s)))
		}
	}
}

// ---- the exerciser --------------------------------------------------------------------------------------

type Line struct {
	Kind  string // assign | skip | nomatch | slice | hook | alloc | errcheck | return | other
	Path  string
	Text  string
	Depth int
}

type Spec struct {
	Name     string
	Fn       any
	Style    string // "return" | "arg"
	DstIndex int    // parameter index of the destination in arg style (-1 in return style)
	SrcIndex int    // parameter index of the source (receiver counts as 0)
	RetError bool
	Lines    []Line
	Reverse  bool
	Sites    []string // instrumented error-capable functions the body may call, by name
	Hooks    []string // names of the pre/post hooks (in text order)
}

type Finding struct {
	Prop string
	Key  string
	Func string
	What string
}

type Report struct {
	Findings []Finding
	Calls    int
	Plans    int
	Funcs    int
}

func (r *Report) add(prop, key, fn, what string) {
	for _, f := range r.Findings {
		if f.Prop == prop && f.Key == key && f.Func == fn {
			return
		}
	}
	r.Findings = append(r.Findings, Finding{prop, key, fn, what})
}

// leaves lists the struct leaf paths of t (descending by-value structs only) with their values.
func leaves(v reflect.Value, prefix string, out map[string]string) {
	if v.Kind() != reflect.Struct {
		return
	}
	for i := 0; i < v.NumField(); i++ {
		p := v.Type().Field(i).Name
		if prefix != "" {
			p = prefix + "." + p
		}
		f := v.Field(i)
		if f.Kind() == reflect.Struct {
			leaves(f, p, out)
			out[p] = Dump(valueOf(f))
			continue
		}
		out[p] = Dump(valueOf(f))
	}
}

func valueOf(v reflect.Value) any {
	v = settable(v)
	if v.CanInterface() {
		return v.Interface()
	}
	return nil
}

func covered(lines []Line, path string) bool {
	for _, l := range lines {
		if l.Kind != "assign" && l.Kind != "slice" {
			continue
		}
		if l.Path == "" {
			continue
		}
		if l.Path == path || strings.HasPrefix(path, l.Path+".") || strings.HasPrefix(l.Path, path+".") {
			return true
		}
	}
	return false
}

type callResult struct {
	outs     []reflect.Value
	panicked any
	dst      reflect.Value // pointer to (or value of) the destination after the call
	src      reflect.Value
	srcDump0 string
	argDump0 []string
	dstLeaf0 map[string]string
	args     []reflect.Value
	trace    []Event
}

func (s Spec) build(variant int) ([]reflect.Value, reflect.Value, reflect.Value) {
	ft := reflect.TypeOf(s.Fn)
	seed := variant * 1000
	args := make([]reflect.Value, ft.NumIn())
	var src, dst reflect.Value
	for i := 0; i < ft.NumIn(); i++ {
		t := ft.In(i)
		v := reflect.New(t).Elem()
		if t.Kind() == reflect.Ptr && (i == s.SrcIndex || i == s.DstIndex) {
			p := reflect.New(t.Elem())
			Fill(p.Elem(), variant, &seed)
			v.Set(p)
		} else {
			Fill(v, variant, &seed)
		}
		args[i] = v
		if i == s.SrcIndex {
			src = v
		}
		if i == s.DstIndex {
			dst = v
		}
	}
	return args, src, dst
}

func (s Spec) call(variant int) callResult {
	args, src, dst := s.build(variant)
	r := callResult{args: args, src: src}
	r.srcDump0 = Dump(src.Interface())
	for i, a := range args {
		if i == s.DstIndex {
			r.argDump0 = append(r.argDump0, "")
			continue
		}
		r.argDump0 = append(r.argDump0, Dump(a.Interface()))
	}
	r.dstLeaf0 = map[string]string{}
	if dst.IsValid() {
		leaves(reflect.Indirect(dst), "", r.dstLeaf0)
	}
	Trace = nil
	func() {
		defer func() {
			if p := recover(); p != nil {
				r.panicked = p
			}
		}()
		r.outs = reflect.ValueOf(s.Fn).Call(args)
	}()
	r.trace = append([]Event{}, Trace...)
	if s.Style == "arg" {
		r.dst = dst
	} else if len(r.outs) > 0 {
		r.dst = r.outs[0]
	}
	return r
}

func errOf(s Spec, r callResult) error {
	if !s.RetError || len(r.outs) == 0 {
		return nil
	}
	last := r.outs[len(r.outs)-1]
	if last.IsNil() {
		return nil
	}
	e, _ := last.Interface().(error)
	return e
}

// Exercise calls the function on several value variants and fault plans and records what it finds.
func Exercise(rep *Report, s Spec) {
	rep.Funcs++
	for variant := 0; variant <= 4; variant++ {
		Plan = map[string]bool{}
		r := s.call(variant)
		rep.Calls++
		if r.panicked != nil {
			key := "C02|panic"
			msg := fmt.Sprint(r.panicked)
			if variant == 1 && strings.Contains(msg, "nil pointer") {
				key = "C02|panic|nil-nested-source-pointer"
			}
			rep.add("C02", key, s.Name, fmt.Sprintf("variant %d: generated function panicked: %s", variant, msg))
			continue
		}
		// the source operand and the additional arguments are left unmodified
		if d := Dump(r.src.Interface()); d != r.srcDump0 {
			rep.add("C02", "C02|source-modified", s.Name, fmt.Sprintf("variant %d: source before %s after %s", variant, r.srcDump0, d))
		}
		for i, a := range r.args {
			if i == s.DstIndex || i == s.SrcIndex {
				continue
			}
			if d := Dump(a.Interface()); d != r.argDump0[i] {
				rep.add("C02", "C02|argument-modified", s.Name, fmt.Sprintf("variant %d: argument %d before %s after %s", variant, i, r.argDump0[i], d))
			}
		}
		if e := errOf(s, r); e != nil {
			rep.add("C07", "C07|error-without-fault", s.Name, fmt.Sprintf("variant %d: non-nil error %v although nothing failed", variant, e))
			continue
		}
		if !r.dst.IsValid() || (r.dst.Kind() == reflect.Ptr && r.dst.IsNil()) {
			rep.add("C02", "C02|no-destination", s.Name, fmt.Sprintf("variant %d: nil destination without error", variant))
			continue
		}
		// frame: fields the function does not assign keep their previous value (zero in return style)
		after := map[string]string{}
		leaves(reflect.Indirect(r.dst), "", after)
		zero := map[string]string{}
		leaves(reflect.New(reflect.Indirect(r.dst).Type()).Elem(), "", zero)
		hooksPresent := len(s.Hooks) > 0
		for p, val := range after {
			if covered(s.Lines, p) {
				continue
			}
			want := zero[p]
			if s.Style == "arg" {
				want = r.dstLeaf0[p]
			}
			if val != want && !hooksPresent {
				rep.add("C02", "C02|unassigned-field-changed", s.Name, fmt.Sprintf("variant %d: %s is %s, expected %s", variant, p, val, want))
			}
		}
		// slices: fresh storage, nil stays nil (C16)
		s.checkSlices(rep, r, variant)
		// hooks (C10)
		s.checkHooks(rep, r, variant)
	}
	// fault plans (C07)
	if s.RetError && len(s.Sites) > 0 {
		Plan = map[string]bool{}
		base := s.call(0)
		var order []string
		for _, ev := range base.trace {
			for _, site := range s.Sites {
				if ev.Name == site {
					order = append(order, site)
				}
			}
		}
		plans := [][]string{}
		for _, a := range order {
			plans = append(plans, []string{a})
		}
		for i := 0; i < len(order) && len(order) <= 5; i++ {
			for j := i + 1; j < len(order); j++ {
				plans = append(plans, []string{order[i], order[j]})
			}
		}
		for _, pl := range plans {
			Plan = map[string]bool{}
			for _, p := range pl {
				Plan[p] = true
			}
			r := s.call(0)
			rep.Plans++
			if r.panicked != nil {
				rep.add("C07", "C07|panic-under-fault", s.Name, fmt.Sprintf("plan %v: panic %v", pl, r.panicked))
				continue
			}
			// the first planned site in execution order decides
			first := ""
			for _, o := range order {
				if Plan[o] {
					first = o
					break
				}
			}
			e := errOf(s, r)
			if e == nil {
				rep.add("C07", "C07|error-swallowed", s.Name, fmt.Sprintf("plan %v: the failure of %s is not returned", pl, first))
				continue
			}
			ie, ok := e.(*InjErr)
			if !ok || ie.Site != first {
				rep.add("C07", "C07|wrong-error-returned", s.Name, fmt.Sprintf("plan %v: returned %v, the first failure is %s", pl, e, first))
			}
			// nothing error-capable runs after the first failure
			seen := false
			for _, ev := range r.trace {
				if seen {
					rep.add("C07", "C07|call-after-failure", s.Name, fmt.Sprintf("plan %v: %s was called after %s had failed", pl, ev.Name, first))
					break
				}
				if ev.Name == first {
					seen = true
				}
			}
		}
		Plan = map[string]bool{}
	}
}

func (s Spec) checkSlices(rep *Report, r callResult, variant int) {
	dstV := reflect.Indirect(r.dst)
	srcV := reflect.Indirect(r.src)
	for _, l := range s.Lines {
		if l.Kind != "slice" {
			continue
		}
		// source path: the text is  if <src>.P != nil { <dst>.Q = make(...
		txt := l.Text
		i := strings.Index(txt, " != nil")
		if !strings.HasPrefix(txt, "if ") || i < 0 {
			continue
		}
		srcExpr := txt[3:i]
		j := strings.Index(srcExpr, ".")
		if j < 0 || strings.ContainsAny(srcExpr, "()") {
			continue
		}
		sf := walk(srcV, srcExpr[j+1:])
		df := walk(dstV, l.Path)
		if !sf.IsValid() || !df.IsValid() || sf.Kind() != reflect.Slice || df.Kind() != reflect.Slice {
			continue
		}
		if sf.IsNil() {
			want := "nil[]"
			if s.Style == "arg" {
				want = r.dstLeaf0[l.Path]
			}
			if got := Dump(valueOf(df)); got != want {
				rep.add("C16", "C16|nil-source-changes-destination", s.Name, fmt.Sprintf("variant %d: %s is %s after copying a nil slice (expected %s)", variant, l.Path, got, want))
			}
			continue
		}
		if df.IsNil() {
			rep.add("C16", "C16|non-nil-source-gives-nil", s.Name, fmt.Sprintf("variant %d: %s is nil although the source is not", variant, l.Path))
			continue
		}
		if df.Len() != sf.Len() {
			rep.add("C16", "C16|length-differs", s.Name, fmt.Sprintf("variant %d: %s has %d elements, the source %d", variant, l.Path, df.Len(), sf.Len()))
			continue
		}
		if sf.Len() > 0 && df.Index(0).CanAddr() && sf.Index(0).CanAddr() && df.Index(0).Addr().Pointer() == sf.Index(0).Addr().Pointer() {
			rep.add("C16", "C16|storage-shared", s.Name, fmt.Sprintf("variant %d: %s shares its backing array with the source", variant, l.Path))
		}
		// later writes to the source elements are not visible through the destination
		before := Dump(valueOf(df))
		if sf.Len() > 0 {
			e := settable(sf.Index(0))
			seed := 9000 + variant
			old := reflect.New(e.Type()).Elem()
			old.Set(e)
			if e.Kind() != reflect.Ptr && e.Kind() != reflect.Interface && e.Kind() != reflect.Map && e.Kind() != reflect.Slice {
				Fill(e, 0, &seed)
				if after := Dump(valueOf(df)); after != before {
					rep.add("C16", "C16|write-visible-through-copy", s.Name, fmt.Sprintf("variant %d: writing the source element changed %s", variant, l.Path))
				}
				e.Set(old)
			}
		}
	}
	// plain assignments of slice-typed members alias (named slice types): C16
	for _, l := range s.Lines {
		if l.Kind != "assign" || l.Path == "" {
			continue
		}
		df := walk(dstV, l.Path)
		if !df.IsValid() || df.Kind() != reflect.Slice || df.IsNil() || df.Len() == 0 {
			continue
		}
		k := strings.Index(l.Text, " = ")
		if k < 0 {
			continue
		}
		rhs := strings.TrimSpace(l.Text[k+3:])
		j := strings.Index(rhs, ".")
		if j < 0 || strings.ContainsAny(rhs, "()[]{}\"") {
			continue
		}
		sf := walk(srcV, rhs[j+1:])
		if sf.IsValid() && sf.Kind() == reflect.Slice && sf.Len() > 0 && sf.Index(0).CanAddr() && df.Index(0).CanAddr() &&
			sf.Index(0).Addr().Pointer() == df.Index(0).Addr().Pointer() {
			rep.add("C16", "C16|storage-shared|plain-assignment", s.Name, fmt.Sprintf("variant %d: %s = %s shares the backing array", variant, l.Path, rhs))
		}
	}
}

func walk(v reflect.Value, path string) reflect.Value {
	for _, seg := range strings.Split(path, ".") {
		v = reflect.Indirect(v)
		if !v.IsValid() || v.Kind() != reflect.Struct {
			return reflect.Value{}
		}
		v = v.FieldByName(seg)
		if !v.IsValid() {
			return v
		}
	}
	return v
}

func (s Spec) checkHooks(rep *Report, r callResult, variant int) {
	if len(s.Hooks) == 0 {
		return
	}
	count := map[string]int{}
	for _, ev := range r.trace {
		count[ev.Name]++
	}
	dstPtr := uintptr(0)
	if r.dst.Kind() == reflect.Ptr {
		dstPtr = r.dst.Pointer()
	}
	srcPtr := uintptr(0)
	if r.src.Kind() == reflect.Ptr {
		srcPtr = r.src.Pointer()
	}
	for hi, h := range s.Hooks {
		if count[h] != 1 {
			rep.add("C10", "C10|hook-not-called-once", s.Name, fmt.Sprintf("variant %d: %s was called %d times", variant, h, count[h]))
			continue
		}
		for ei, ev := range r.trace {
			if ev.Name != h {
				continue
			}
			isPre := hi == 0 && len(s.Hooks) == 2 || (len(s.Hooks) == 1 && strings.HasPrefix(h, "pre"))
			if isPre && ei != 0 {
				rep.add("C10", "C10|preprocess-not-first", s.Name, fmt.Sprintf("variant %d: %s ran after %s", variant, h, r.trace[0].Name))
			}
			if !isPre && ei != len(r.trace)-1 {
				rep.add("C10", "C10|postprocess-not-last", s.Name, fmt.Sprintf("variant %d: %s ran before %s", variant, h, r.trace[len(r.trace)-1].Name))
			}
			// operands: by pointer = the function's own objects
			if len(ev.Ptrs) >= 2 {
				if ev.Ptrs[0] != 0 && dstPtr != 0 && ev.Ptrs[0] != dstPtr {
					rep.add("C10", "C10|hook-destination-is-not-the-functions-own", s.Name, fmt.Sprintf("variant %d: %s got another destination object", variant, h))
				}
				if ev.Ptrs[1] != 0 && srcPtr != 0 && ev.Ptrs[1] != srcPtr {
					rep.add("C10", "C10|hook-source-is-not-the-functions-own", s.Name, fmt.Sprintf("variant %d: %s got another source object", variant, h))
				}
				// the postprocess hook sees the final destination
				if !isPre && len(ev.Vals) >= 1 {
					final := Dump(reflect.Indirect(r.dst).Interface())
					if ev.Ptrs[0] != 0 && ev.Vals[0] != final {
						rep.add("C10", "C10|postprocess-sees-unfinished-destination", s.Name, fmt.Sprintf("variant %d: %s saw %s, final %s", variant, h, ev.Vals[0], final))
					}
				}
			}
		}
	}
}
`
