package main

// Judges: verdicts on the implementation's own observation.
//
// Localisation judges (this file): the Lean theorems of Props/Cxx show that the model's output
// satisfies the property relation P_k and that P_k pins the observable in question (which
// destination path is assigned from what, which paths are skipped / unmatched, the signature,
// the hook call, the error flow).  When the implementation's output differs from the model's on
// that observable, for an input on which the model is in force, the implementation violates P_k
// on that input.  The judge attributes each localised difference to the property whose relation
// constrains it.  Independent judges (compile check, run-time driver, metamorphic runs) live in
// their own files.

import (
	"strings"
)

type Notation struct {
	Kind string // skip | map | conv | literal | other
	Dst  string // destination path/pattern the notation names
	Args []string
}

// methodNotations reads the explicit notations of every converter method from the facts.
func methodNotations(f *Facts) map[string][]Notation {
	out := map[string][]Notation{}
	if f == nil {
		return out
	}
	for _, so := range f.File.Scope {
		for _, m := range so.Methods {
			for _, enc := range m.DocChain {
				node := enc / 8
				if enc%8 != 4 {
					continue // a method's doc is the doc of its own field
				}
				if node >= len(f.File.DocOf) || f.File.DocOf[node] == nil {
					break
				}
				for _, c := range f.File.Groups[*f.File.DocOf[node]] {
					mm := reNotationH.FindStringSubmatch(c.Text)
					if mm == nil {
						continue
					}
					args := strings.Fields(mm[2])
					n := Notation{Kind: "other", Args: args}
					switch mm[1] {
					case "skip":
						if len(args) >= 1 {
							n = Notation{Kind: "skip", Dst: args[0], Args: args}
						}
					case "map":
						if len(args) >= 2 {
							n = Notation{Kind: "map", Dst: args[1], Args: args}
						}
					case "conv":
						if len(args) >= 3 {
							n = Notation{Kind: "conv", Dst: args[2], Args: args}
						} else if len(args) == 2 {
							n = Notation{Kind: "conv", Dst: args[1], Args: args}
						}
					case "literal":
						if len(args) >= 2 {
							n = Notation{Kind: "literal", Dst: args[0], Args: args}
						}
					}
					out[m.Name] = append(out[m.Name], n)
				}
				break
			}
		}
	}
	return out
}

func bareName(key string) string {
	if i := strings.LastIndex(key, "."); i >= 0 {
		return key[i+1:]
	}
	return key
}

// relation of a destination path to the explicit notations of its method
func notationRelation(ns []Notation, path string) (explicit, foldOnly, skipRelated bool) {
	for _, n := range ns {
		switch n.Kind {
		case "skip":
			skipRelated = true
		case "map", "conv", "literal":
			if n.Dst == path || strings.HasPrefix(path, n.Dst+".") || strings.HasPrefix(n.Dst, path+".") {
				explicit = true
			} else if strings.EqualFold(n.Dst, path) {
				foldOnly = true
			}
		}
	}
	return
}

func init() {
	judges = append(judges, localisationJudge, selfJudgeC14, selfJudgeC03, selfJudgeC11, selfJudgeC17)
}

// selfJudgeC14 judges the implementation's observation alone: a crash, a hang, or a non-zero exit
// without any diagnostic violates C14 whatever the model says.
func selfJudgeC14(root string, c GCase, rep *CaseReport) []Judgement {
	if judgeProp != "C14" || rep == nil {
		return nil
	}
	var out []Judgement
	switch rep.CLI.Class {
	case "panic":
		site := "unknown"
		for _, l := range strings.Split(rep.CLI.Stderr, "\n") {
			if strings.HasPrefix(l, "github.com/reedom/convergen/") {
				site = strings.TrimPrefix(strings.SplitN(l, "(", 2)[0], "github.com/reedom/convergen/")
				break
			}
		}
		out = append(out, Judgement{Property: "C14", Case: c.Name, Key: "C14|panic|" + site,
			What: "convergen crashed: " + firstLine(rep.CLI.Stderr) + " at " + site})
	case "timeout":
		out = append(out, Judgement{Property: "C14", Case: c.Name, Key: "C14|timeout", What: "convergen did not terminate within 60 s"})
	case "error":
		if strings.TrimSpace(rep.CLI.Stderr) == "" {
			out = append(out, Judgement{Property: "C14", Case: c.Name, Key: "C14|silent-failure", What: "non-zero exit without any message on stderr"})
		}
	}
	return out
}

// localisationJudge attributes model/implementation differences to judgeProp.
func localisationJudge(root string, c GCase, rep *CaseReport) []Judgement {
	if rep == nil || rep.Model == nil || len(rep.Diffs) == 0 || judgeProp == "" {
		return nil
	}
	var out []Judgement
	add := func(key, what string) {
		for _, j := range out {
			if j.Key == key {
				return
			}
		}
		out = append(out, Judgement{Property: judgeProp, Case: c.Name, Key: key, What: what})
	}
	ns := methodNotations(rep.Facts)
	// the run fails although the front half (model) accepts, or vice versa
	if (rep.Model.Status == "ok") != (rep.CLI.Class == "ok") && rep.CLI.Class != "panic" {
		switch judgeProp {
		case "C17":
			add("C17|acceptance-differs", "the set of converter interfaces differs (model "+rep.Model.Status+", run "+rep.CLI.Class+"): "+firstLine(strings.Join(rep.Diffs, " / ")))
		}
	}
	if judgeProp == "C06" && rep.Model.Status == "ok" && rep.CLI.Class == "error" {
		add("C06|valid-notations-rejected", "the notations of this setup file are valid (a :conv target may be generated in the same run), yet the run fails: "+
			firstLine(strings.Join(canonStderr(rep.CLI.Stderr, root), " / ")))
	}
	if judgeProp == "C17" {
		notFound := func(lines []string) bool {
			for _, l := range lines {
				if strings.Contains(l, "interface not found") {
					return true
				}
			}
			return false
		}
		if notFound(rep.Model.Stderr) != notFound(canonStderr(rep.CLI.Stderr, root)) {
			add("C17|selection-differs", "model and run disagree on whether the input file has a converter interface: "+firstLine(strings.Join(rep.Diffs, " / ")))
		}
	}
	// exit-class differences
	for i, cat := range rep.Cats {
		if cat != "exit" {
			continue
		}
		d := rep.Diffs[i]
		switch judgeProp {
		case "C14":
			if rep.CLI.Class == "panic" || rep.CLI.Class == "timeout" {
				add("C14|"+rep.CLI.Class, "convergen crashed or hung where the model terminates with "+rep.Model.Status+": "+d)
			} else if rep.CLI.Class == "ok" && rep.Model.Status == "error" {
				add("C14|accepted-what-must-be-rejected", "convergen reported success where a diagnostic and non-zero exit are due: "+d)
			}
		case "C03":
			if rep.Model.Status == "ok" && rep.CLI.Class != "ok" {
				add("C03|well-formed-input-rejected", "the model accepts this setup file (no error branch of L3/L4 fires) but convergen rejects it: "+d)
			}
		case "C17":
			if (rep.Model.Status == "ok") != (rep.CLI.Class == "ok") {
				add("C17|acceptance-differs", "which files have a converter interface: "+d)
			}
		case "C06":
			if rep.Model.Status == "ok" && rep.CLI.Class == "error" {
				add("C06|valid-notations-rejected", "the notations of this setup file are valid (a :conv target may be generated in the same run), yet the run fails: "+d)
			}
		case "C07", "C10", "C08":
			if rep.Model.Status == "error" && rep.CLI.Class == "ok" {
				add(judgeProp+"|illegal-combination-accepted", "a combination the property wants rejected at generation time was accepted: "+d)
			}
		}
	}
	if judgeProp == "C14" {
		for i, cat := range rep.Cats {
			if cat == "stderr" && rep.Model.Status == "error" && rep.CLI.Class == "error" {
				// positions of diagnostics are part of the property
				add("C14|diagnostic-differs", "diagnostic text/position differs: "+rep.Diffs[i])
			}
		}
	}
	if judgeProp == "C05" {
		for i, cat := range rep.Cats {
			if cat == "stderr" && rep.Model.Status == "ok" && rep.CLI.Class == "ok" {
				add("C05|warning-differs", "the `no match` warnings on stderr differ: "+rep.Diffs[i])
			}
		}
	}
	for _, d := range rep.LineDiffs {
		mn := ns[bareName(d.Func)]
		explicit, foldOnly, skipRelated := notationRelation(mn, d.Path)
		isSkipLine := strings.HasPrefix(d.Model, "// skip:") || strings.HasPrefix(d.Impl, "// skip:")
		switch judgeProp {
		case "C04":
			if (d.Cat == "body" || d.Cat == "slice") && !explicit && !isSkipLine && d.Path != "" {
				add("C04|default-match-differs", "default matching of "+d.Func+" "+d.Path+": "+d.String())
			}
		case "C05":
			if (d.Cat == "body" || d.Cat == "slice") && (d.Model == "" || d.Impl == "" ||
				strings.HasPrefix(d.Model, "//") != strings.HasPrefix(d.Impl, "//")) {
				add("C05|coverage-differs", "coverage of destination path "+d.Func+" "+d.Path+": "+d.String())
			}
		case "C06":
			if (d.Cat == "body" || d.Cat == "slice") && (explicit || isSkipLine || (skipRelated && d.Path != "")) {
				add("C06|explicit-notation-differs", "explicit notation on "+d.Func+" "+d.Path+": "+d.String())
			}
		case "C19":
			if (d.Cat == "body" || d.Cat == "slice") && (foldOnly || isSkipLine) {
				add("C19|case-rule-differs", "case handling of a notation path on "+d.Func+" "+d.Path+": "+d.String())
			}
		case "C07":
			if d.Cat == "errflow" || strings.Contains(d.Model, ", err =") != strings.Contains(d.Impl, ", err =") ||
				strings.Contains(d.Model, "err =") != strings.Contains(d.Impl, "err =") {
				add("C07|error-flow-differs", "error flow of "+d.Func+": "+d.String())
			}
		case "C08":
			if d.Cat == "header" || d.Cat == "missing-func" {
				add("C08|signature-differs", "signature of "+d.Func+": "+d.String())
			}
		case "C10":
			if d.Cat == "hook" {
				add("C10|hook-call-differs", "hook call / allocation order of "+d.Func+": "+d.String())
			}
		case "C16":
			if d.Cat == "slice" || strings.Contains(d.Model, "make(") || strings.Contains(d.Impl, "make(") {
				add("C16|slice-copy-differs", "slice copy of "+d.Func+" "+d.Path+": "+d.String())
			}
		case "C17":
			if d.Cat == "missing-func" {
				add("C17|function-set-differs", "function set: "+d.String())
			}
		case "C09":
			add("C09|effective-options-differ", "output of "+d.Func+" differs from the one determined by its effective options: "+d.String())
		case "C11":
			if d.Cat == "doc" {
				add("C11|method-doc-differs", "doc comment of "+d.Func+": "+d.String())
			}
		case "C02":
			// which value a field gets: the source its matching / notation denotes
			if (d.Cat == "body" || d.Cat == "slice") && d.Path != "" && strings.Contains(d.Model+d.Impl, " = ") {
				add("C02|assigned-from-other-source", "the value assigned to "+d.Func+" "+d.Path+" is not the one its source denotes: "+d.String())
			}
		case "C01":
			// judged independently (compiler)
		}
	}
	return out
}

// selfJudgeC03: the front half (model) accepts the setup file and nothing of it is unusual, yet the
// run fails: a well-formed setup file is rejected.
func selfJudgeC03(root string, c GCase, rep *CaseReport) []Judgement {
	if judgeProp != "C03" || rep == nil || rep.Model == nil {
		return nil
	}
	if rep.Model.Status == "ok" && rep.CLI.Class == "error" {
		return []Judgement{{Property: "C03", Case: c.Name, Key: "C03|rejected-after-front-half|" + rep.BackHalfError,
			What: "the setup file passes every check of the parser and builder, yet the run fails: " + firstLine(strings.Join(canonStderr(rep.CLI.Stderr, root), " / "))}}
	}
	if rep.Model.Status == "ok" && rep.CLI.Class == "ok" && rep.Output != "" {
		// one function per method
		fl, err := readFuncs([]byte(rep.Output))
		if err == nil {
			have := map[string]bool{}
			for _, f := range fl {
				have[bareName(f.Key)] = true
			}
			for _, b := range rep.Model.Blocks {
				for _, f := range b.Funcs {
					if !have[f.Name] {
						return []Judgement{{Property: "C03", Case: c.Name, Key: "C03|function-missing", What: "no function for method " + f.Name}}
					}
				}
			}
		}
	}
	return nil
}

// selfJudgeC11 compares the output's AST with the setup file's.
func selfJudgeC11(root string, c GCase, rep *CaseReport) []Judgement {
	if judgeProp != "C11" || rep == nil || rep.Model == nil || rep.CLI.Class != "ok" || rep.Output == "" || rep.SetupSrc == "" {
		return nil
	}
	conv := map[string]bool{}
	for _, b := range rep.Model.Blocks {
		conv[b.Intf] = true
	}
	var out []Judgement
	seen := map[string]bool{}
	for _, kw := range judgeCarryOver([]byte(rep.SetupSrc), []byte(rep.Output), conv) {
		if seen[kw[0]] {
			continue
		}
		seen[kw[0]] = true
		out = append(out, Judgement{Property: "C11", Case: c.Name, Key: kw[0], What: kw[1]})
	}
	return out
}

// selfJudgeC17: interfaces that are not converter interfaces are carried over untouched.
func selfJudgeC17(root string, c GCase, rep *CaseReport) []Judgement {
	if judgeProp != "C17" || rep == nil || rep.Model == nil || rep.CLI.Class != "ok" || rep.Output == "" || rep.SetupSrc == "" {
		return nil
	}
	conv := map[string]bool{}
	for _, b := range rep.Model.Blocks {
		conv[b.Intf] = true
	}
	var out []Judgement
	seen := map[string]bool{}
	for _, kw := range judgeUnmarkedInterfaces([]byte(rep.SetupSrc), []byte(rep.Output), conv) {
		if seen[kw[0]] {
			continue
		}
		seen[kw[0]] = true
		out = append(out, Judgement{Property: "C17", Case: c.Name, Key: kw[0], What: kw[1]})
	}
	return out
}
