package main

// Core of tie B: run the CLI as a black box, run the Lean driver on the extracted facts,
// canonicalise and compare the observations.

import (
	"bufio"
	"bytes"
	"context"
	"encoding/json"
	"fmt"
	"go/ast"
	"go/format"
	"go/parser"
	"go/printer"
	"go/token"
	"io"
	"os"
	"os/exec"
	"path/filepath"
	"sort"
	"strings"
	"sync"
	"time"
)

// ---------------------------------------------------------------------------------------------
// CLI runner

type CLIResult struct {
	Exit    int    `json:"exit"`
	Class   string `json:"class"` // ok | error | panic | timeout | usage
	Stdout  string `json:"stdout"`
	Stderr  string `json:"stderr"`
	Elapsed float64
}

func runCLI(bin, dir string, args []string, extraEnv []string) CLIResult {
	ctx, cancel := context.WithTimeout(context.Background(), 60*time.Second)
	defer cancel()
	cmd := exec.CommandContext(ctx, bin, args...)
	cmd.Dir = dir
	env := []string{}
	for _, e := range os.Environ() {
		if strings.HasPrefix(e, "GOFLAGS=") || strings.HasPrefix(e, "GOFILE=") {
			continue
		}
		env = append(env, e)
	}
	env = append(env, "GOPROXY=off", "GOTOOLCHAIN=local", "GOSUMDB=off", "GOFLAGS=")
	env = append(env, extraEnv...)
	cmd.Env = env
	var so, se bytes.Buffer
	cmd.Stdout = &so
	cmd.Stderr = &se
	for _, e := range extraEnv {
		if e == "HARNESS_STDOUT=/dev/full" {
			// a standard output on which every write fails (a full disk behind a redirection)
			if f, ferr := os.OpenFile("/dev/full", os.O_WRONLY, 0); ferr == nil {
				defer f.Close()
				cmd.Stdout = f
			}
		}
	}
	t0 := time.Now()
	err := cmd.Run()
	r := CLIResult{Stdout: so.String(), Stderr: se.String(), Elapsed: time.Since(t0).Seconds()}
	if ctx.Err() == context.DeadlineExceeded {
		r.Class = "timeout"
		r.Exit = -1
		return r
	}
	if err != nil {
		if ee, ok := err.(*exec.ExitError); ok {
			r.Exit = ee.ExitCode()
		} else {
			r.Exit = -2
			r.Stderr += "harness: " + err.Error()
		}
	}
	switch {
	case strings.Contains(r.Stderr, "goroutine ") && (strings.Contains(r.Stderr, "panic:") || strings.Contains(r.Stderr, "fatal error:")):
		r.Class = "panic"
	case r.Exit == 0:
		r.Class = "ok"
	case r.Exit == 2 && strings.Contains(r.Stderr, "Usage"):
		r.Class = "usage"
	default:
		r.Class = "error"
	}
	return r
}

// ---------------------------------------------------------------------------------------------
// Lean driver (one process per worker, line protocol)

type Driver struct {
	cmd *exec.Cmd
	in  io.WriteCloser
	out *bufio.Reader
	mu  sync.Mutex
}

func startDriver(bin string) (*Driver, error) {
	cmd := exec.Command(bin)
	in, err := cmd.StdinPipe()
	if err != nil {
		return nil, err
	}
	out, err := cmd.StdoutPipe()
	if err != nil {
		return nil, err
	}
	cmd.Stderr = os.Stderr
	if err := cmd.Start(); err != nil {
		return nil, err
	}
	return &Driver{cmd: cmd, in: in, out: bufio.NewReaderSize(out, 1<<20)}, nil
}

func (d *Driver) call(req any, resp any) error {
	d.mu.Lock()
	defer d.mu.Unlock()
	b, err := json.Marshal(req)
	if err != nil {
		return err
	}
	if _, err := d.in.Write(append(b, '\n')); err != nil {
		return err
	}
	line, err := d.out.ReadBytes('\n')
	if err != nil {
		return fmt.Errorf("driver died: %v", err)
	}
	var probe struct {
		Error string `json:"error"`
	}
	_ = json.Unmarshal(line, &probe)
	if probe.Error != "" {
		return fmt.Errorf("driver: %s", probe.Error)
	}
	return json.Unmarshal(line, resp)
}

func (d *Driver) close() {
	d.in.Close()
	_ = d.cmd.Wait()
}

type FrontFunc struct {
	Name string `json:"name"`
	Text string `json:"text"`
}
type FrontBlock struct {
	Intf  string      `json:"intf"`
	Funcs []FrontFunc `json:"funcs"`
}
type FrontResult struct {
	Status         string       `json:"status"`
	PanicSite      string       `json:"panicSite"`
	Stderr         []string     `json:"stderr"`
	Stdout         []string     `json:"stdout"`
	Blocks         []FrontBlock `json:"blocks"`
	Groups         [][]jComment `json:"groups"`
	MarkersSane    bool         `json:"markersSane"`
	DistinctFields bool         `json:"distinctFields"`
	MethodsApart   bool         `json:"methodsApart"`
	Metas          []FuncMeta   `json:"metas"`
}

type FuncMeta struct {
	Name     string `json:"name"`
	ArgStyle bool   `json:"argStyle"`
	Receiver string `json:"receiver"`
	Reverse  bool   `json:"reverse"`
	RetError bool   `json:"retError"`
	SrcPtr   bool   `json:"srcPtr"`
}

// ---------------------------------------------------------------------------------------------
// summaries of Go source

type FuncSummary struct {
	Key  string `json:"key"`  // "Name" or "RecvType.Name"
	Text string `json:"text"` // gofmt-printed declaration incl. doc comment
}

func recvKey(fd *ast.FuncDecl) string {
	if fd.Recv == nil || len(fd.Recv.List) == 0 {
		return fd.Name.Name
	}
	var buf bytes.Buffer
	_ = printer.Fprint(&buf, token.NewFileSet(), fd.Recv.List[0].Type)
	return strings.TrimPrefix(buf.String(), "*") + "." + fd.Name.Name
}

// summarizeFuncs parses src and prints every function declaration canonically.
func summarizeFuncs(src []byte) ([]FuncSummary, error) {
	fset := token.NewFileSet()
	f, err := parser.ParseFile(fset, "x.go", src, parser.ParseComments)
	if err != nil {
		return nil, err
	}
	var out []FuncSummary
	cfg := printer.Config{Mode: printer.UseSpaces | printer.TabIndent, Tabwidth: 8}
	for _, d := range f.Decls {
		fd, ok := d.(*ast.FuncDecl)
		if !ok {
			continue
		}
		var buf bytes.Buffer
		if err := cfg.Fprint(&buf, fset, &printer.CommentedNode{Node: fd, Comments: f.Comments}); err != nil {
			return nil, err
		}
		out = append(out, FuncSummary{Key: recvKey(fd), Text: buf.String()})
	}
	return out, nil
}

// modelFuncs renders the model's function texts as a file, formats it the way Generate does
// and summarises it.
func modelFuncs(pkgName string, blocks []FrontBlock) ([]FuncSummary, error) {
	var sb strings.Builder
	sb.WriteString("package " + pkgName + "\n\n")
	for _, b := range blocks {
		for _, fn := range b.Funcs {
			sb.WriteString(fn.Text)
		}
	}
	formatted, err := format.Source([]byte(sb.String()))
	if err != nil {
		return nil, err
	}
	return summarizeFuncs(formatted)
}

// ---------------------------------------------------------------------------------------------
// stderr canonicalisation

// canonStderr strips the absolute directory, drops empty lines and the lines of external tools.
func canonStderr(s, dir string) []string {
	var out []string
	abs, _ := filepath.Abs(dir)
	real, _ := filepath.EvalSymlinks(abs)
	for _, l := range strings.Split(s, "\n") {
		l = strings.TrimRight(l, "\r")
		if strings.TrimSpace(l) == "" {
			continue
		}
		l = strings.ReplaceAll(l, real+string(filepath.Separator), "")
		l = strings.ReplaceAll(l, abs+string(filepath.Separator), "")
		out = append(out, l)
	}
	return out
}

func sortedCopy(l []string) []string {
	c := append([]string{}, l...)
	sort.Strings(c)
	return c
}
