package main

// Translation of the expression builders of pkg/builder/model (node.go, struct.go):
// AssignExpr / MatcherExpr / NullCheckExpr of every node kind.
//
// These methods are small string-valued functions over the node's own fields and over what the
// same three methods return for the wrapped / parent node.  Each is translated into a Lean
// function whose parameters ("holes") are exactly the sub-expressions that reach outside the
// method body: `n.parent.AssignExpr()`, `n.field.Name()`, `util.IsPtr(n.arg.ExprType())`, …  The
// holes appear in order of first occurrence.  Bridge/Nodes.lean proves, constructor by
// constructor, that the hand-written `Node.assignExpr` / `matcherExpr` / `nullCheckExpr` of the
// model are these functions applied to the recursive results.
//
// Supported statement forms: `v := e`, `if c { v = e }`, `if c { return e }`, `return e`.
// Supported expressions: string literals, locals, `+`, `== ""`, `!`, `&&`, `||`,
// fmt.Sprintf with %v / %s verbs only, and holes (any selector / call rooted at the receiver or
// a util.* predicate over such an expression).

import (
	"fmt"
	"go/ast"
	"go/token"
	"sort"
	"strings"
)

type nodeTr struct {
	recv   string
	locals map[string]string // Go local -> current Lean expression
	holes  []string          // printed Go expressions, in order of first occurrence
	kinds  map[string]string // hole -> "String" | "Bool"
}

func (t *nodeTr) hole(e ast.Expr, kind string) string {
	key := exprKey2(e)
	if _, ok := t.kinds[key]; !ok {
		t.holes = append(t.holes, key)
		t.kinds[key] = kind
	} else if t.kinds[key] != kind {
		failf(e, "hole %s used both as %s and as %s", key, t.kinds[key], kind)
	}
	return holeName(key)
}

func holeName(key string) string {
	var sb strings.Builder
	sb.WriteString("h_")
	for _, r := range key {
		switch {
		case r >= 'a' && r <= 'z', r >= 'A' && r <= 'Z', r >= '0' && r <= '9':
			sb.WriteRune(r)
		case r == '.':
			sb.WriteRune('_')
		}
	}
	return sb.String()
}

func (t *nodeTr) rootedAtRecv(e ast.Expr) bool {
	switch x := e.(type) {
	case *ast.Ident:
		return x.Name == t.recv
	case *ast.SelectorExpr:
		return t.rootedAtRecv(x.X)
	case *ast.CallExpr:
		if sel, ok := x.Fun.(*ast.SelectorExpr); ok {
			if id, ok := sel.X.(*ast.Ident); ok && id.Name == "util" && len(x.Args) == 1 {
				return t.rootedAtRecv(x.Args[0])
			}
			return len(x.Args) == 0 && t.rootedAtRecv(sel.X)
		}
	}
	return false
}

func (t *nodeTr) str(e ast.Expr) string {
	switch x := e.(type) {
	case *ast.ParenExpr:
		return t.str(x.X)
	case *ast.BasicLit:
		if s, ok := goStringLit(x); ok {
			return leanStr(s)
		}
	case *ast.Ident:
		if v, ok := t.locals[x.Name]; ok {
			return v
		}
	case *ast.BinaryExpr:
		if x.Op == token.ADD {
			return "(" + t.str(x.X) + " ++ " + t.str(x.Y) + ")"
		}
	case *ast.CallExpr:
		if sel, ok := x.Fun.(*ast.SelectorExpr); ok {
			if id, ok := sel.X.(*ast.Ident); ok && id.Name == "fmt" && sel.Sel.Name == "Sprintf" && len(x.Args) >= 1 {
				format, ok := goStringLit(x.Args[0])
				if !ok {
					failf(x, "Sprintf with a non-literal format")
				}
				return t.sprintf(x, format, x.Args[1:])
			}
		}
	}
	if t.rootedAtRecv(e) {
		return t.hole(e, "String")
	}
	failf(e, "unsupported string expression %s", exprKey2(e))
	return ""
}

func (t *nodeTr) sprintf(n ast.Node, format string, args []ast.Expr) string {
	var parts []string
	rest := format
	ai := 0
	for {
		i := strings.Index(rest, "%")
		if i < 0 {
			if rest != "" {
				parts = append(parts, leanStr(rest))
			}
			break
		}
		if i+1 >= len(rest) || (rest[i+1] != 'v' && rest[i+1] != 's') {
			failf(n, "unsupported Sprintf verb in %q", format)
		}
		if i > 0 {
			parts = append(parts, leanStr(rest[:i]))
		}
		if ai >= len(args) {
			failf(n, "Sprintf: too few arguments for %q", format)
		}
		parts = append(parts, t.str(args[ai]))
		ai++
		rest = rest[i+2:]
	}
	if ai != len(args) {
		failf(n, "Sprintf: too many arguments for %q", format)
	}
	if len(parts) == 0 {
		return `""`
	}
	return "(" + strings.Join(parts, " ++ ") + ")"
}

func (t *nodeTr) cond(e ast.Expr) string {
	switch x := e.(type) {
	case *ast.ParenExpr:
		return t.cond(x.X)
	case *ast.UnaryExpr:
		if x.Op == token.NOT {
			return "(!" + t.cond(x.X) + ")"
		}
	case *ast.BinaryExpr:
		switch x.Op {
		case token.LAND:
			return "(" + t.cond(x.X) + " && " + t.cond(x.Y) + ")"
		case token.LOR:
			return "(" + t.cond(x.X) + " || " + t.cond(x.Y) + ")"
		case token.EQL:
			return "(" + t.str(x.X) + " == " + t.str(x.Y) + ")"
		case token.NEQ:
			return "(" + t.str(x.X) + " != " + t.str(x.Y) + ")"
		}
	}
	if t.rootedAtRecv(e) {
		return t.hole(e, "Bool")
	}
	failf(e, "unsupported condition %s", exprKey2(e))
	return ""
}

// body translates the statement list into one Lean expression
func (t *nodeTr) body(stmts []ast.Stmt) string {
	if len(stmts) == 0 {
		failf(nil, "missing return")
	}
	switch x := stmts[0].(type) {
	case *ast.ReturnStmt:
		if len(x.Results) != 1 {
			failf(x, "unsupported return")
		}
		return t.str(x.Results[0])
	case *ast.AssignStmt:
		if len(x.Lhs) != 1 || len(x.Rhs) != 1 || x.Tok != token.DEFINE {
			failf(x, "unsupported assignment")
		}
		id, ok := x.Lhs[0].(*ast.Ident)
		if !ok {
			failf(x, "unsupported assignment target")
		}
		t.locals[id.Name] = t.str(x.Rhs[0])
		return t.body(stmts[1:])
	case *ast.IfStmt:
		if x.Init != nil || x.Else != nil || len(x.Body.List) != 1 {
			failf(x, "unsupported if")
		}
		c := t.cond(x.Cond)
		switch y := x.Body.List[0].(type) {
		case *ast.ReturnStmt:
			if len(y.Results) != 1 {
				failf(y, "unsupported return")
			}
			then := t.str(y.Results[0])
			return "(if " + c + " then " + then + " else " + t.body(stmts[1:]) + ")"
		case *ast.AssignStmt:
			if len(y.Lhs) != 1 || len(y.Rhs) != 1 || y.Tok != token.ASSIGN {
				failf(y, "unsupported conditional assignment")
			}
			id, ok := y.Lhs[0].(*ast.Ident)
			if !ok {
				failf(y, "unsupported assignment target")
			}
			old, ok := t.locals[id.Name]
			if !ok {
				failf(y, "assignment to an undeclared local %s", id.Name)
			}
			t.locals[id.Name] = "(if " + c + " then " + t.str(y.Rhs[0]) + " else " + old + ")"
			return t.body(stmts[1:])
		}
		failf(x, "unsupported if body")
	}
	failf(stmts[0], "unsupported statement %T", stmts[0])
	return ""
}

func genNodes(repo string) string {
	var sb strings.Builder
	sb.WriteString("-- GENERATED by /verif/tools/cmd/extract from pkg/builder/model/{node,struct}.go — do not edit\n")
	sb.WriteString("namespace Convergen.Generated.Nodes\n\n")
	files := []*ast.File{parse(repo, "pkg/builder/model/node.go"), parse(repo, "pkg/builder/model/struct.go")}
	kinds := []string{"RootNode", "StructFieldNode", "StructMethodNode", "ConverterNode", "TypecastEntry", "StringerEntry"}
	methods := []string{"AssignExpr", "MatcherExpr", "NullCheckExpr"}
	var names []string
	for _, k := range kinds {
		for _, m := range methods {
			var fd *ast.FuncDecl
			for _, f := range files {
				for _, d := range f.Decls {
					if x, ok := d.(*ast.FuncDecl); ok && x.Name.Name == m && x.Recv != nil && len(x.Recv.List) == 1 &&
						strings.TrimPrefix(exprKey(x.Recv.List[0].Type), "*") == k {
						fd = x
					}
				}
			}
			if fd == nil {
				failf(nil, "%s.%s not found", k, m)
			}
			t := &nodeTr{recv: recvName(fd), locals: map[string]string{}, kinds: map[string]string{}}
			body := t.body(fd.Body.List)
			var params []string
			for _, h := range t.holes {
				params = append(params, fmt.Sprintf("(%s : %s)", holeName(h), t.kinds[h]))
			}
			name := lowerName(k) + "_" + m
			names = append(names, name)
			fmt.Fprintf(&sb, "/-- `%s.%s`; holes: %s -/\n", k, m, strings.Join(t.holes, ", "))
			fmt.Fprintf(&sb, "def %s %s : String :=\n  %s\n\n", name, strings.Join(params, " "), body)
		}
	}
	sort.Strings(names)
	sb.WriteString("end Convergen.Generated.Nodes\n")
	return sb.String()
}
