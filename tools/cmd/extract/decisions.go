package main

// Decision skeletons of hand-modelled functions.
//
// For a function such as `castNode`, `sliceToSlice`, `buildManipulator` or
// `matchStructFieldAndStruct` what matters to the properties is *which branch fires in which
// order*.  The skeleton of a function is a Lean function from Booleans (one per condition leaf of
// the Go code, in order of first occurrence) to a label that names the path taken: the effects on
// the path (assignments to named results, warnings) followed by the return statement.  The model's
// version of the same function is proved to take the same path for all values of the conditions
// (Bridge/Decisions.lean); reordering two tests, dropping one, or returning something else on a
// branch changes the generated skeleton and breaks that proof.
//
// Supported: `if c {…}` (with optional init and else), `return …`, bare `return` with named
// results, `for … range … { if c { return … } }` (one Boolean: "some element satisfies c"),
// assignments and calls as effects.  Conditions are split at `&&`, `||`, `!`; every other
// expression is a leaf.

import (
	"fmt"
	"go/ast"
	"go/token"
	"hash/fnv"
	"os"
	"strings"
)

type decTr struct {
	holes []string
	seen  map[string]bool
	// srcs: for every variable assigned on the current path, what it was last assigned from (conditions on a
	// variable at different program points are different conditions)
	srcs map[string]string
	// multi: the variables assigned more than once in the function (only those need a source)
	multi map[string]bool
	// defs: Boolean locals defined once (`x := a && b`): a condition that is such a local is read through its definition
	defs map[string]ast.Expr
	// closures: function literals bound to a local (`h := func(...) {...}`) with the outer variables they assign; a call
	// that is handed such a closure may change those variables
	closures map[string][]string
	// initVars/initText: the variables defined by the init statement of the `if` being translated
	initVars map[string]bool
	initText string
	// quiet: only returns, warnings and other calls matter; assignments are no effects and an `if` whose body
	// neither returns nor calls anything is skipped (used for long functions whose bookkeeping is modelled elsewhere)
	quiet bool
}

func hasReturn(stmts []ast.Stmt) bool {
	found := false
	for _, s := range stmts {
		ast.Inspect(s, func(n ast.Node) bool {
			if _, ok := n.(*ast.ReturnStmt); ok {
				found = true
			}
			return !found
		})
	}
	return found
}

func hasReturnOrCall(stmts []ast.Stmt) bool {
	found := false
	for _, s := range stmts {
		ast.Inspect(s, func(n ast.Node) bool {
			switch x := n.(type) {
			case *ast.ReturnStmt:
				found = true
			case *ast.ExprStmt:
				if c, ok := x.X.(*ast.CallExpr); ok && exprKey2(c.Fun) != "logger.Printf" {
					found = true
				}
			}
			return !found
		})
	}
	return found
}

func (t *decTr) hole(key string) string {
	key = strings.Join(strings.Fields(key), " ")
	if !t.seen[key] {
		t.seen[key] = true
		t.holes = append(t.holes, key)
	}
	for i, h := range t.holes {
		if h == key {
			return fmt.Sprintf("c%d", i)
		}
	}
	return ""
}

func (t *decTr) cond(e ast.Expr) string {
	switch x := e.(type) {
	case *ast.ParenExpr:
		return t.cond(x.X)
	case *ast.UnaryExpr:
		if x.Op == token.NOT {
			return "(!" + t.cond(x.X) + ")"
		}
	case *ast.BinaryExpr:
		switch x.Op {
		case token.LAND:
			return "(" + t.cond(x.X) + " && " + t.cond(x.Y) + ")"
		case token.LOR:
			return "(" + t.cond(x.X) + " || " + t.cond(x.Y) + ")"
		}
	}
	if id, ok := e.(*ast.Ident); ok {
		if d, ok := t.defs[id.Name]; ok && !t.multi[id.Name] {
			return t.cond(d)
		}
	}
	key := exprKey2(e)
	if t.initText != "" && mentions(e, t.initVars) {
		key = t.initText + "; " + key
	}
	return t.hole(key + t.srcSuffix(e))
}

func mentions(e ast.Node, vars map[string]bool) bool {
	found := false
	ast.Inspect(e, func(n ast.Node) bool {
		if id, ok := n.(*ast.Ident); ok && vars[id.Name] {
			found = true
		}
		return !found
	})
	return found
}

// scanLocals records the Boolean locals and the closures of the statements
func (t *decTr) scanLocals(stmts []ast.Stmt) {
	t.defs, t.closures = map[string]ast.Expr{}, map[string][]string{}
	for _, s := range stmts {
		ast.Inspect(s, func(n ast.Node) bool {
			as, ok := n.(*ast.AssignStmt)
			if !ok || as.Tok != token.DEFINE || len(as.Lhs) != 1 || len(as.Rhs) != 1 {
				return true
			}
			id, ok := as.Lhs[0].(*ast.Ident)
			if !ok {
				return true
			}
			switch r := as.Rhs[0].(type) {
			case *ast.BinaryExpr:
				if r.Op == token.LAND || r.Op == token.LOR {
					t.defs[id.Name] = r
				}
			case *ast.UnaryExpr:
				if r.Op == token.NOT {
					t.defs[id.Name] = r
				}
			case *ast.FuncLit:
				seen := map[string]bool{}
				ast.Inspect(r.Body, func(m ast.Node) bool {
					if a2, ok := m.(*ast.AssignStmt); ok && a2.Tok == token.ASSIGN {
						for _, l := range a2.Lhs {
							if lid, ok := l.(*ast.Ident); ok && lid.Name != "_" && !seen[lid.Name] {
								seen[lid.Name] = true
								t.closures[id.Name] = append(t.closures[id.Name], lid.Name)
							}
						}
					}
					return true
				})
				return false
			}
			return true
		})
	}
}

// srcSuffix names, for every variable of the expression that was assigned on the current path, where its value
// comes from
func (t *decTr) srcSuffix(e ast.Node) string {
	var out []string
	seen := map[string]bool{}
	skip := map[*ast.Ident]bool{}
	ast.Inspect(e, func(n ast.Node) bool {
		switch x := n.(type) {
		case *ast.SelectorExpr:
			skip[x.Sel] = true
		case *ast.KeyValueExpr:
			if id, ok := x.Key.(*ast.Ident); ok {
				skip[id] = true
			}
		case *ast.Ident:
			if !skip[x] && !seen[x.Name] {
				seen[x.Name] = true
				if src, ok := t.srcs[x.Name]; ok && t.multi[x.Name] {
					out = append(out, " ["+x.Name+" from "+src+"]")
				}
			}
		}
		return true
	})
	return strings.Join(out, "")
}

// multiAssigned: the variables with more than one assignment in the statements
func multiAssigned(stmts []ast.Stmt) map[string]bool {
	n := map[string]int{}
	for _, s := range stmts {
		ast.Inspect(s, func(x ast.Node) bool {
			if as, ok := x.(*ast.AssignStmt); ok {
				for _, l := range as.Lhs {
					if id, ok := l.(*ast.Ident); ok {
						n[id.Name]++
					}
				}
			}
			return true
		})
	}
	out := map[string]bool{}
	for k, c := range n {
		if c > 1 {
			out[k] = true
		}
	}
	return out
}

func withSrcName(srcs map[string]string, name, src string) map[string]string {
	out := map[string]string{}
	for k, v := range srcs {
		out[k] = v
	}
	s := src
	for strings.TrimRight(out[name], "'") == src && len(out[name]) >= len(s) {
		s += "'"
	}
	out[name] = s
	return out
}

func withSrc(srcs map[string]string, as *ast.AssignStmt) map[string]string {
	if len(as.Rhs) != 1 {
		return srcs
	}
	src := ""
	if c, ok := as.Rhs[0].(*ast.CallExpr); ok {
		if _, isLit := c.Fun.(*ast.FuncLit); isLit {
			src = "func()"
		} else {
			src = exprKey2(c.Fun) + "()"
		}
	} else {
		src = strings.Join(strings.Fields(exprKey2(as.Rhs[0])), " ")
		if len(src) > 40 {
			src = src[:40] + "…"
		}
	}
	out := map[string]string{}
	for k, v := range srcs {
		out[k] = v
	}
	for _, l := range as.Lhs {
		if id, ok := l.(*ast.Ident); ok && id.Name != "_" {
			s := src
			// a second assignment from a source with the same text is another value
			for strings.TrimRight(out[id.Name], "'") == src && len(out[id.Name]) >= len(s) {
				s += "'"
			}
			out[id.Name] = s
		}
	}
	return out
}

func effectOf(s ast.Stmt) string {
	switch x := s.(type) {
	case *ast.AssignStmt:
		if x.Tok == token.DEFINE {
			return "" // a local definition is not an effect of the path
		}
		var lhs []string
		for _, l := range x.Lhs {
			lhs = append(lhs, exprKey2(l))
		}
		rhs := ""
		if len(x.Rhs) == 1 {
			switch r := x.Rhs[0].(type) {
			case *ast.CompositeLit:
				rhs = exprKey2(r.Type) + "{}"
			case *ast.CallExpr:
				rhs = exprKey2(r.Fun) + "()"
				if exprKey2(r.Fun) == "logger.Errorf" && len(r.Args) > 0 {
					if f, ok := goStringLit(r.Args[0]); ok {
						rhs = "Errorf(" + f + ")"
					}
				}
			default:
				rhs = exprKey2(r)
			}
		}
		return strings.Join(lhs, ",") + "=" + rhs
	case *ast.ExprStmt:
		if c, ok := x.X.(*ast.CallExpr); ok {
			name := exprKey2(c.Fun)
			if name == "logger.Printf" {
				return ""
			}
			return name + "()"
		}
	case *ast.DeclStmt:
		return ""
	case *ast.IncDecStmt:
		return exprKey2(x.X) + x.Tok.String()
	}
	return "?" + fmt.Sprintf("%T", s)
}

// shortLabel keeps labels short enough for Lean's string-literal patterns: a long label is cut and
// closed with a hash of the whole text
func shortLabel(l string) string {
	if len(l) <= 100 {
		return l
	}
	h := fnv.New32a()
	_, _ = h.Write([]byte(l))
	short := fmt.Sprintf("%s …#%08x", l[:70], h.Sum32())
	if _, ok := longLabels[short]; !ok {
		longLabelOrder = append(longLabelOrder, short)
	}
	longLabels[short] = l
	return short
}

// the shortened labels of the function being translated, with their full text (for the reader of the generated file)
var longLabels = map[string]string{}
var longLabelOrder []string

func returnLabel(r *ast.ReturnStmt) string {
	if len(r.Results) == 0 {
		return "return"
	}
	var parts []string
	for _, e := range r.Results {
		if c, ok := e.(*ast.CallExpr); ok {
			name := exprKey2(c.Fun)
			if (name == "logger.Errorf" || name == "fmt.Errorf") && len(c.Args) > 0 {
				if f, ok := goStringLit(c.Args[0]); ok {
					parts = append(parts, "Errorf("+f+")")
					continue
				}
			}
			parts = append(parts, name+"()")
			continue
		}
		parts = append(parts, exprKey2(e))
	}
	return "return " + strings.Join(strings.Fields(strings.Join(parts, ", ")), " ")
}

func endsInReturn(stmts []ast.Stmt) bool {
	if len(stmts) == 0 {
		return false
	}
	switch x := stmts[len(stmts)-1].(type) {
	case *ast.ReturnStmt:
		return true
	case *ast.BranchStmt:
		return x.Tok == token.CONTINUE && x.Label == nil
	case *ast.IfStmt:
		if x.Else == nil {
			return false
		}
		eb, ok := x.Else.(*ast.BlockStmt)
		return ok && endsInReturn(x.Body.List) && endsInReturn(eb.List)
	}
	return false
}

// dec translates stmts (followed by `rest` when they fall through) with the effects collected so far
func (t *decTr) dec(stmts []ast.Stmt, effects []string, end string) string {
	return t.decE(stmts, effects, end, map[string]string{})
}

// decE: srcs names, per variable, the statement that last assigned it on this path (conditions on a variable at different
// program points are different conditions)
func (t *decTr) decE(stmts []ast.Stmt, effects []string, end string, srcs map[string]string) string {
	if len(stmts) == 0 {
		if end == "" {
			failf(nil, "a path falls off the end of the function")
		}
		return leanStr(shortLabel(strings.Join(append(append([]string{}, effects...), end), "; ")))
	}
	switch x := stmts[0].(type) {
	case *ast.ReturnStmt:
		return leanStr(shortLabel(strings.Join(append(append([]string{}, effects...), returnLabel(x)), "; ")))
	case *ast.IfStmt:
		if t.quiet && x.Else == nil && !hasReturnOrCall(x.Body.List) {
			return t.decE(stmts[1:], effects, end, srcs)
		}
		c := ""
		t.srcs = srcs
		if x.Init != nil {
			// the init statement defines variables for this `if` only: its text is part of every condition leaf that
			// mentions one of them
			t.initVars, t.initText = map[string]bool{}, exprKey2(x.Init)
			if as, ok := x.Init.(*ast.AssignStmt); ok {
				for _, l := range as.Lhs {
					if id, ok := l.(*ast.Ident); ok && id.Name != "_" {
						t.initVars[id.Name] = true
					}
				}
			}
			c = t.cond(x.Cond)
			t.initVars, t.initText = nil, ""
		} else {
			c = t.cond(x.Cond)
		}
		rest := stmts[1:]
		thenStmts := append(append([]ast.Stmt{}, x.Body.List...), restIfFallsThrough(x.Body.List, rest)...)
		var elseStmts []ast.Stmt
		if x.Else != nil {
			switch e := x.Else.(type) {
			case *ast.BlockStmt:
				elseStmts = append(append([]ast.Stmt{}, e.List...), restIfFallsThrough(e.List, rest)...)
			case *ast.IfStmt:
				elseStmts = append([]ast.Stmt{e}, rest...)
			}
		} else {
			elseStmts = rest
		}
		return "(if " + c + " then " + t.decE(thenStmts, effects, end, srcs) + " else " + t.decE(elseStmts, effects, end, srcs) + ")"
	case *ast.TypeSwitchStmt:
		// `switch v := x.(type) { case T: … }` is a chain of tests "x is T" in source order
		if x.Init != nil {
			failf(x, "unsupported type switch (init statement)")
		}
		t.srcs = srcs
		subject := ""
		switch a := x.Assign.(type) {
		case *ast.AssignStmt:
			subject = exprKey2(a.Rhs[0].(*ast.TypeAssertExpr).X)
		case *ast.ExprStmt:
			subject = exprKey2(a.X.(*ast.TypeAssertExpr).X)
		}
		rest := stmts[1:]
		deflt := rest
		type tarm struct {
			c    string
			body []ast.Stmt
		}
		var arms []tarm
		for _, cs := range x.Body.List {
			cc := cs.(*ast.CaseClause)
			for _, bs := range cc.Body {
				if br, ok := bs.(*ast.BranchStmt); ok && (br.Tok == token.FALLTHROUGH || br.Tok == token.BREAK) {
					failf(bs, "unsupported break/fallthrough in a switch")
				}
			}
			body := append(append([]ast.Stmt{}, cc.Body...), restIfFallsThrough(cc.Body, rest)...)
			if cc.List == nil {
				deflt = body
				continue
			}
			var cs2 []string
			for _, v := range cc.List {
				cs2 = append(cs2, t.hole(subject+" is "+exprKey2(v)))
			}
			c := cs2[0]
			if len(cs2) > 1 {
				c = "(" + strings.Join(cs2, " || ") + ")"
			}
			arms = append(arms, tarm{c, body})
		}
		out := t.decE(deflt, effects, end, srcs)
		for i := len(arms) - 1; i >= 0; i-- {
			out = "(if " + arms[i].c + " then " + t.decE(arms[i].body, effects, end, srcs) + " else " + out + ")"
		}
		return out
	case *ast.SwitchStmt:
		// `switch tag { case v: … }` is a chain of tests `tag == v` in source order; a clause's body falls through to
		// what follows the switch
		if x.Init != nil || x.Tag == nil {
			failf(x, "unsupported switch (init statement or no tag)")
		}
		t.srcs = srcs
		tag := exprKey2(x.Tag)
		rest := stmts[1:]
		var deflt []ast.Stmt
		deflt = rest
		type arm struct {
			c    string
			body []ast.Stmt
		}
		var arms []arm
		for _, cs := range x.Body.List {
			cc := cs.(*ast.CaseClause)
			for _, bs := range cc.Body {
				if br, ok := bs.(*ast.BranchStmt); ok && (br.Tok == token.FALLTHROUGH || br.Tok == token.BREAK) {
					failf(bs, "unsupported break/fallthrough in a switch")
				}
			}
			body := append(append([]ast.Stmt{}, cc.Body...), restIfFallsThrough(cc.Body, rest)...)
			if cc.List == nil {
				deflt = body
				continue
			}
			var cs2 []string
			for _, v := range cc.List {
				cs2 = append(cs2, t.hole(tag+" == "+exprKey2(v)+t.srcSuffix(x.Tag)))
			}
			c := cs2[0]
			if len(cs2) > 1 {
				c = "(" + strings.Join(cs2, " || ") + ")"
			}
			arms = append(arms, arm{c, body})
		}
		out := t.decE(deflt, effects, end, srcs)
		for i := len(arms) - 1; i >= 0; i-- {
			out = "(if " + arms[i].c + " then " + t.decE(arms[i].body, effects, end, srcs) + " else " + out + ")"
		}
		return out
	case *ast.RangeStmt:
		// the loop's exit: the one `if c { … return … }` of its body (other statements of the body are bookkeeping)
		var exit *ast.IfStmt
		exits := 0
		for _, bs := range x.Body.List {
			if is, ok := bs.(*ast.IfStmt); ok && is.Else == nil && is.Init == nil && endsInReturn(is.Body.List) && hasReturn(is.Body.List) {
				exit = is
				exits++
			} else if hasReturn([]ast.Stmt{bs}) {
				failf(bs, "unsupported return inside a loop body")
			}
		}
		if exits == 1 {
			loopErr := ""
			for _, bs := range x.Body.List {
				if as, ok := bs.(*ast.AssignStmt); ok && len(as.Rhs) == 1 {
					for _, l := range as.Lhs {
						if id, ok := l.(*ast.Ident); ok && id.Name == "err" {
							if c, ok := as.Rhs[0].(*ast.CallExpr); ok {
								loopErr = " [err from " + exprKey2(c.Fun) + "()]"
							}
						}
					}
				}
			}
			t.srcs = srcs
			c := t.hole("some " + exprKey2(x.Value) + " of " + exprKey2(x.X) + ": " + exprKey2(exit.Cond) + loopErr + t.srcSuffix(x.X))
			return "(if " + c + " then " + t.decE(exit.Body.List, effects, end, srcs) + " else " + t.decE(stmts[1:], effects, end, srcs) + ")"
		}
		if exits > 1 {
			failf(x, "a loop with several exits")
		}
		// a loop without an exit: an effect
		if t.quiet {
			return t.decE(stmts[1:], effects, end, srcs)
		}
		return t.decE(stmts[1:], append(append([]string{}, effects...), "for "+exprKey2(x.X)), end, srcs)
	case *ast.ForStmt:
		if t.quiet {
			return t.decE(stmts[1:], effects, end, srcs)
		}
		return t.decE(stmts[1:], append(append([]string{}, effects...), "for"), end, srcs)
	default:
		if as, ok := stmts[0].(*ast.AssignStmt); ok {
			srcs = withSrc(srcs, as)
		}
		if es, ok := stmts[0].(*ast.ExprStmt); ok {
			if c, ok := es.X.(*ast.CallExpr); ok {
				for _, a := range c.Args {
					if id, ok := a.(*ast.Ident); ok {
						for _, v := range t.closures[id.Name] {
							// the callee runs the closure: what it assigns comes from this call now
							srcs = withSrcName(srcs, v, exprKey2(c.Fun)+"()")
						}
					}
				}
			}
		}
		if br, ok := stmts[0].(*ast.BranchStmt); ok && br.Tok == token.CONTINUE && br.Label == nil {
			// the step for this element ends here
			return leanStr(shortLabel(strings.Join(append(append([]string{}, effects...), "continue"), "; ")))
		}
		if es, ok := stmts[0].(*ast.ExprStmt); ok {
			if c, ok := es.X.(*ast.CallExpr); ok && exprKey2(c.Fun) == "os.Exit" {
				// the process ends here
				return leanStr(shortLabel(strings.Join(append(append([]string{}, effects...), "os.Exit()"), "; ")))
			}
		}
		eff := effectOf(stmts[0])
		if _, isAssign := stmts[0].(*ast.AssignStmt); isAssign && t.quiet {
			eff = ""
		}
		if eff != "" {
			effects = append(append([]string{}, effects...), eff)
		}
		return t.decE(stmts[1:], effects, end, srcs)
	}
}

func restIfFallsThrough(body, rest []ast.Stmt) []ast.Stmt {
	if endsInReturn(body) {
		return nil
	}
	return rest
}

type decJob struct {
	file, recv, fn, name string
	// stop: translate only the statements before the first one whose printed text starts with this (the rest of
	// the function is the subject of other obligations); "" = the whole function
	stop  string
	quiet bool
	// lit: translate the body of the function literal that is called in place and assigned to this variable
	lit string
}

var decJobs = []decJob{
	{"pkg/builder/assignment.go", "assignmentBuilder", "castNode", "castNode", "", false, ""},
	{"pkg/builder/assignment.go", "assignmentBuilder", "sliceToSlice", "sliceToSlice", "", false, ""},
	{"pkg/builder/assignment.go", "assignmentBuilder", "matchStructFieldAndStruct", "matchStructFieldAndStruct", "", false, ""},
	{"pkg/builder/postprocess.go", "FunctionBuilder", "buildManipulator", "buildManipulator", "", true, ""},
	{"pkg/builder/method.go", "FunctionBuilder", "CreateFunction", "createFunctionChecks", "var assignments", true, ""},
	{"pkg/parser/comment.go", "Parser", "lookupConverterFunc", "lookupConverterFunc", "", false, ""},
	{"pkg/parser/comment.go", "Parser", "lookupManipulatorFunc", "lookupManipulatorFunc", "", true, ""},
	{"pkg/generator/generator.go", "Generator", "Generate", "generate", "", false, ""},
	{"pkg/builder/assignment.go", "assignmentBuilder", "createWithConverter", "converterNode", "", false, "converterNode"},
	{"pkg/builder/assignment.go", "assignmentBuilder", "createWithConverter", "createWithConverter", "", false, ""},
	{"pkg/builder/assignment.go", "assignmentBuilder", "createWithMapper", "mappedNode", "", false, "mappedNode"},
	{"pkg/builder/assignment.go", "assignmentBuilder", "createWithMapper", "createWithMapper", "", false, ""},
	{"pkg/builder/assignment.go", "assignmentBuilder", "createWithTemplatedMapper", "templatedNode", "", false, "mappedNode"},
	{"pkg/builder/assignment.go", "assignmentBuilder", "createWithTemplatedMapper", "createWithTemplatedMapper", "", false, ""},
	{"pkg/runner/runner.go", "", "Run", "run", "", false, ""},
	{"pkg/config/config.go", "Config", "ParseArgs", "parseArgs", "", false, ""},
	{"pkg/util/types.go", "", "ParseGetterReturnTypes", "parseGetterReturnTypes", "", false, ""},
	{"pkg/util/types.go", "", "CompliesGetter", "compliesGetter", "", false, ""},
	{"pkg/util/types.go", "", "CompliesStringer", "compliesStringer", "", false, ""},
	{"pkg/option/option.go", "Options", "ShouldSkip", "shouldSkip", "", false, ""},
	{"pkg/option/pattern_matcher.go", "PatternMatcher", "Match", "patternMatch", "", false, ""},
	{"pkg/option/ident_matcher.go", "IdentMatcher", "Match", "identMatch", "", false, ""},
	{"pkg/builder/assignment.go", "assignmentBuilder", "addressed", "addressed", "", false, ""},
	{"pkg/builder/assignment.go", "assignmentBuilder", "isStructFieldAccessible", "isStructFieldAccessible", "", false, ""},
	{"pkg/builder/assignment.go", "assignmentBuilder", "dispatch", "dispatch", "", false, ""},
	{"pkg/builder/assignment.go", "assignmentBuilder", "resolveExpr", "resolveStep", "", false, "%loop"},
	{"pkg/parser/interface.go", "Parser", "findConvergenEntries", "entryStep", "", false, "%loop"},
	{"pkg/parser/interface.go", "Parser", "findConvergenEntries", "findConvergenEntries", "", true, ""},
	{"pkg/parser/method.go", "Parser", "parseMethods", "parseMethodsStep", "", false, "%loop"},
	{"pkg/parser/method.go", "Parser", "parseMethods", "parseMethods", "", true, ""},
	{"pkg/builder/assignment.go", "assignmentBuilder", "structFieldAndStructGettersAndFields", "candidateHandler", "", false, "=handler"},
	{"pkg/builder/assignment.go", "assignmentBuilder", "structFieldAndStructGettersAndFields", "fieldDefault", "", false, ""},
	{"pkg/parser/comment.go", "Parser", "parseNotationInComments", "notationStep", "", false, "%loop"},
	{"pkg/parser/comment.go", "Parser", "parseNotationInComments", "parseNotationsEnd", "", false, "%afterloop"},
	{"pkg/parser/comment.go", "Parser", "lookupType", "lookupType", "", false, ""},
	{"pkg/parser/method.go", "Parser", "parseMethod", "parseMethod", "", false, ""},
	{"pkg/option/pattern_matcher.go", "", "compileRegexp", "compileRegexp", "", false, ""},
	{"pkg/option/pattern_matcher.go", "", "NewPatternMatcher", "newPatternMatcher", "", false, ""},
	{"pkg/option/option.go", "Options", "CompareFieldName", "compareFieldName", "", false, ""},
	{"pkg/builder/method.go", "FunctionBuilder", "createVar", "createVar", "", false, ""},
	{"pkg/parser/comment.go", "Parser", "resolveConverters", "resolveConvertersHead", "for _, method", false, ""},
	{"pkg/parser/comment.go", "Parser", "resolveConverters", "resolveConvertersStep", "", false, "%loop"},
	{"pkg/parser/comment.go", "Parser", "resolveConverters", "resolveConvertersEnd", "", false, "%afterloop"},
	{"pkg/builder/assignment.go", "assignmentBuilder", "structToStruct", "structToStructStep", "", false, "@IterateStructFields"},
	{"pkg/builder/assignment.go", "assignmentBuilder", "addressedBelow", "addressedBelowStep", "", false, "@IterateStructFields"},
	{"pkg/builder/assignment.go", "assignmentBuilder", "addressedBelow", "addressedBelow", "", false, ""},
	{"pkg/builder/assignment.go", "", "isAddressable", "isAddressable", "", false, ""},
	{"pkg/builder/method.go", "", "usesElementLoop", "usesElementLoopStep", "", false, "%loop"},
	{"pkg/builder/assignment.go", "assignmentBuilder", "resolveTemplatedExpr", "templatedHead", "for i := 1", false, ""},
	{"pkg/builder/assignment.go", "assignmentBuilder", "resolveTemplatedExpr", "templatedStep", "", false, "%loop"},
	{"pkg/util/import.go", "ImportNames", "TypeName", "typeName", "", false, ""},
	{"pkg/util/import.go", "ImportNames", "IsExternal", "isExternal", "", false, ""},
}

func genDecisions(repo string) string {
	var sb strings.Builder
	sb.WriteString("-- GENERATED by /verif/tools/cmd/extract (decision skeletons of hand-modelled functions) — do not edit\n")
	sb.WriteString("namespace Convergen.Generated.Decisions\n\n")
	for _, j := range decJobs {
		// a function that leaves the supported subset gets a skeleton without conditions: only the Bridge
		// theorem of that function stops compiling, not the whole translation
		text, err := run(func(string) string { return genDecision(repo, j) }, repo)
		if err != nil {
			fmt.Fprintf(os.Stderr, "extract: decisions of %s.%s: %v\n", j.recv, j.fn, err)
			text = fmt.Sprintf("/-- `%s.%s`: outside the supported subset: %s -/\ndef %s : String := \"untranslated\"\n\n",
				j.recv, j.fn, strings.ReplaceAll(strings.ReplaceAll(err.Error(), "-/", "- /"), "`", "'"), j.name)
		}
		sb.WriteString(text)
	}
	sb.WriteString("end Convergen.Generated.Decisions\n")
	return sb.String()
}

func genDecision(repo string, j decJob) string {
	var sb strings.Builder
	f := parse(repo, j.file)
	fd := findFunc(f, j.recv, j.fn)
	stmts := fd.Body.List
	litNamed, loopBody := false, false
	if j.lit != "" {
		stmts = nil
		for _, st := range fd.Body.List {
			if as, ok := st.(*ast.AssignStmt); ok && len(as.Lhs) == 1 && len(as.Rhs) == 1 {
				if id, ok := as.Lhs[0].(*ast.Ident); ok && id.Name == j.lit {
					if c, ok := as.Rhs[0].(*ast.CallExpr); ok {
						if fl, ok := c.Fun.(*ast.FuncLit); ok {
							stmts = fl.Body.List
						}
					}
				}
			}
		}
		if j.lit == "%afterloop" {
			// what follows the function's first loop (the loop itself is the subject of the step skeleton)
			for i, st := range fd.Body.List {
				switch st.(type) {
				case *ast.RangeStmt, *ast.ForStmt:
					if stmts == nil {
						stmts = fd.Body.List[i+1:]
					}
				}
			}
		} else if j.lit == "%loop" {
			// the body of the function's first loop, as the step it performs for one element: `continue` ends the step
			for _, st := range fd.Body.List {
				switch l := st.(type) {
				case *ast.RangeStmt:
					if stmts == nil {
						stmts = l.Body.List
					}
				case *ast.ForStmt:
					if stmts == nil {
						stmts = l.Body.List
					}
				}
			}
			loopBody = true
		} else if strings.HasPrefix(j.lit, "@") {
			// the function literal handed to the call of that function
			ast.Inspect(fd.Body, func(n ast.Node) bool {
				c, ok := n.(*ast.CallExpr)
				if !ok || stmts != nil {
					return stmts == nil
				}
				if strings.HasSuffix(exprKey2(c.Fun), strings.TrimPrefix(j.lit, "@")) {
					for _, a := range c.Args {
						if fl, ok := a.(*ast.FuncLit); ok {
							stmts = fl.Body.List
							litNamed = fl.Type.Results != nil && len(fl.Type.Results.List) > 0 && len(fl.Type.Results.List[0].Names) > 0
						}
					}
				}
				return true
			})
		} else if strings.HasPrefix(j.lit, "=") {
			// the function literal bound to that local
			for _, st := range fd.Body.List {
				if as, ok := st.(*ast.AssignStmt); ok && len(as.Lhs) == 1 && len(as.Rhs) == 1 {
					if id, ok := as.Lhs[0].(*ast.Ident); ok && id.Name == strings.TrimPrefix(j.lit, "=") {
						if fl, ok := as.Rhs[0].(*ast.FuncLit); ok {
							stmts = fl.Body.List
							litNamed = fl.Type.Results != nil && len(fl.Type.Results.List) > 0 && len(fl.Type.Results.List[0].Names) > 0
						}
					}
				}
			}
		}
		if stmts == nil {
			failf(fd, "function literal %q not found in %s", j.lit, j.fn)
		}
	}
	end := ""
	if j.stop != "" {
		for i, s := range stmts {
			if strings.HasPrefix(exprKey2(s), j.stop) {
				stmts = stmts[:i]
				end = "continue"
				break
			}
		}
		if end == "" {
			failf(fd, "stop statement %q not found in %s", j.stop, j.fn)
		}
	}
	if fd.Type.Results != nil && len(fd.Type.Results.List) > 0 && len(fd.Type.Results.List[0].Names) > 0 && end == "" && j.lit == "" {
		end = "return" // named results: falling off the end is impossible in Go, but a bare return may be last
	}
	if litNamed && end == "" {
		end = "return"
	}
	if loopBody {
		end = "next"
	}
	longLabels, longLabelOrder = map[string]string{}, nil
	t := &decTr{seen: map[string]bool{}, quiet: j.quiet, multi: multiAssigned(stmts)}
	t.scanLocals(stmts)
	body := t.dec(stmts, nil, end)
	var params []string
	sb.WriteString("/-- `" + j.recv + "." + j.fn + "`; conditions:\n")
	for i, h := range t.holes {
		fmt.Fprintf(&sb, "  c%d: `%s`\n", i, strings.ReplaceAll(h, "`", "'"))
		params = append(params, fmt.Sprintf("c%d", i))
	}
	if len(longLabelOrder) > 0 {
		sb.WriteString("  shortened labels:\n")
		for _, k := range longLabelOrder {
			fmt.Fprintf(&sb, "  `%s` = `%s`\n", strings.ReplaceAll(k, "`", "'"), strings.ReplaceAll(longLabels[k], "`", "'"))
		}
	}
	sb.WriteString("-/\n")
	if len(params) == 0 {
		fmt.Fprintf(&sb, "def %s : String :=\n  %s\n\n", j.name, body)
	} else {
		fmt.Fprintf(&sb, "def %s (%s : Bool) : String :=\n  %s\n\n", j.name, strings.Join(params, " "), body)
	}
	return sb.String()
}
