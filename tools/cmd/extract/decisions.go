package main

// Decision skeletons of hand-modelled functions.
//
// For a function such as `castNode`, `sliceToSlice`, `buildManipulator` or
// `matchStructFieldAndStruct` what matters to the properties is *which branch fires in which
// order*.  The skeleton of a function is a Lean function from Booleans (one per condition leaf of
// the Go code, in order of first occurrence) to a label that names the path taken: the effects on
// the path (assignments to named results, warnings) followed by the return statement.  The model's
// version of the same function is proved to take the same path for all values of the conditions
// (Bridge/Decisions.lean); reordering two tests, dropping one, or returning something else on a
// branch changes the generated skeleton and breaks that proof.
//
// Supported: `if c {…}` (with optional init and else), `return …`, bare `return` with named
// results, `for … range … { if c { return … } }` (one Boolean: "some element satisfies c"),
// assignments and calls as effects.  Conditions are split at `&&`, `||`, `!`; every other
// expression is a leaf.

import (
	"fmt"
	"go/ast"
	"go/token"
	"hash/fnv"
	"strings"
)

type decTr struct {
	holes  []string
	seen   map[string]bool
	errSrc string
	// quiet: only returns, warnings and other calls matter; assignments are no effects and an `if` whose body
	// neither returns nor calls anything is skipped (used for long functions whose bookkeeping is modelled elsewhere)
	quiet bool
}

func hasReturn(stmts []ast.Stmt) bool {
	found := false
	for _, s := range stmts {
		ast.Inspect(s, func(n ast.Node) bool {
			if _, ok := n.(*ast.ReturnStmt); ok {
				found = true
			}
			return !found
		})
	}
	return found
}

func hasReturnOrCall(stmts []ast.Stmt) bool {
	found := false
	for _, s := range stmts {
		ast.Inspect(s, func(n ast.Node) bool {
			switch x := n.(type) {
			case *ast.ReturnStmt:
				found = true
			case *ast.ExprStmt:
				if c, ok := x.X.(*ast.CallExpr); ok && exprKey2(c.Fun) != "logger.Printf" {
					found = true
				}
			}
			return !found
		})
	}
	return found
}

func (t *decTr) hole(key string) string {
	key = strings.Join(strings.Fields(key), " ")
	if t.errSrc != "" && (key == "err != nil" || key == "err == nil") {
		key += " [err from " + t.errSrc + "]"
	}
	if !t.seen[key] {
		t.seen[key] = true
		t.holes = append(t.holes, key)
	}
	for i, h := range t.holes {
		if h == key {
			return fmt.Sprintf("c%d", i)
		}
	}
	return ""
}

func (t *decTr) cond(e ast.Expr) string {
	switch x := e.(type) {
	case *ast.ParenExpr:
		return t.cond(x.X)
	case *ast.UnaryExpr:
		if x.Op == token.NOT {
			return "(!" + t.cond(x.X) + ")"
		}
	case *ast.BinaryExpr:
		switch x.Op {
		case token.LAND:
			return "(" + t.cond(x.X) + " && " + t.cond(x.Y) + ")"
		case token.LOR:
			return "(" + t.cond(x.X) + " || " + t.cond(x.Y) + ")"
		}
	}
	return t.hole(exprKey2(e))
}

func effectOf(s ast.Stmt) string {
	switch x := s.(type) {
	case *ast.AssignStmt:
		if x.Tok == token.DEFINE {
			return "" // a local definition is not an effect of the path
		}
		var lhs []string
		for _, l := range x.Lhs {
			lhs = append(lhs, exprKey2(l))
		}
		rhs := ""
		if len(x.Rhs) == 1 {
			switch r := x.Rhs[0].(type) {
			case *ast.CompositeLit:
				rhs = exprKey2(r.Type) + "{}"
			case *ast.CallExpr:
				rhs = exprKey2(r.Fun) + "()"
				if exprKey2(r.Fun) == "logger.Errorf" && len(r.Args) > 0 {
					if f, ok := goStringLit(r.Args[0]); ok {
						rhs = "Errorf(" + f + ")"
					}
				}
			default:
				rhs = exprKey2(r)
			}
		}
		return strings.Join(lhs, ",") + "=" + rhs
	case *ast.ExprStmt:
		if c, ok := x.X.(*ast.CallExpr); ok {
			name := exprKey2(c.Fun)
			if name == "logger.Printf" {
				return ""
			}
			return name + "()"
		}
	case *ast.DeclStmt:
		return ""
	}
	return "?" + fmt.Sprintf("%T", s)
}

// shortLabel keeps labels short enough for Lean's string-literal patterns: a long label is cut and
// closed with a hash of the whole text
func shortLabel(l string) string {
	if len(l) <= 100 {
		return l
	}
	h := fnv.New32a()
	_, _ = h.Write([]byte(l))
	return fmt.Sprintf("%s …#%08x", l[:70], h.Sum32())
}

func returnLabel(r *ast.ReturnStmt) string {
	if len(r.Results) == 0 {
		return "return"
	}
	var parts []string
	for _, e := range r.Results {
		if c, ok := e.(*ast.CallExpr); ok {
			name := exprKey2(c.Fun)
			if (name == "logger.Errorf" || name == "fmt.Errorf") && len(c.Args) > 0 {
				if f, ok := goStringLit(c.Args[0]); ok {
					parts = append(parts, "Errorf("+f+")")
					continue
				}
			}
			parts = append(parts, name+"()")
			continue
		}
		parts = append(parts, exprKey2(e))
	}
	return "return " + strings.Join(strings.Fields(strings.Join(parts, ", ")), " ")
}

func endsInReturn(stmts []ast.Stmt) bool {
	if len(stmts) == 0 {
		return false
	}
	switch x := stmts[len(stmts)-1].(type) {
	case *ast.ReturnStmt:
		return true
	case *ast.IfStmt:
		if x.Else == nil {
			return false
		}
		eb, ok := x.Else.(*ast.BlockStmt)
		return ok && endsInReturn(x.Body.List) && endsInReturn(eb.List)
	}
	return false
}

// dec translates stmts (followed by `rest` when they fall through) with the effects collected so far
func (t *decTr) dec(stmts []ast.Stmt, effects []string, end string) string {
	return t.decE(stmts, effects, end, "")
}

// decE: errSrc names the statement that last assigned `err` on this path (conditions on `err` at different
// program points are different conditions)
func (t *decTr) decE(stmts []ast.Stmt, effects []string, end string, errSrc string) string {
	if len(stmts) == 0 {
		if end == "" {
			failf(nil, "a path falls off the end of the function")
		}
		return leanStr(shortLabel(strings.Join(append(append([]string{}, effects...), end), "; ")))
	}
	switch x := stmts[0].(type) {
	case *ast.ReturnStmt:
		return leanStr(shortLabel(strings.Join(append(append([]string{}, effects...), returnLabel(x)), "; ")))
	case *ast.IfStmt:
		if t.quiet && x.Else == nil && !hasReturnOrCall(x.Body.List) {
			return t.decE(stmts[1:], effects, end, errSrc)
		}
		c := ""
		t.errSrc = errSrc
		if x.Init != nil {
			c = t.hole(exprKey2(x.Init) + "; " + exprKey2(x.Cond))
		} else {
			c = t.cond(x.Cond)
		}
		rest := stmts[1:]
		thenStmts := append(append([]ast.Stmt{}, x.Body.List...), restIfFallsThrough(x.Body.List, rest)...)
		var elseStmts []ast.Stmt
		if x.Else != nil {
			switch e := x.Else.(type) {
			case *ast.BlockStmt:
				elseStmts = append(append([]ast.Stmt{}, e.List...), restIfFallsThrough(e.List, rest)...)
			case *ast.IfStmt:
				elseStmts = append([]ast.Stmt{e}, rest...)
			}
		} else {
			elseStmts = rest
		}
		return "(if " + c + " then " + t.decE(thenStmts, effects, end, errSrc) + " else " + t.decE(elseStmts, effects, end, errSrc) + ")"
	case *ast.RangeStmt:
		// the loop's exit: the one `if c { … return … }` of its body (other statements of the body are bookkeeping)
		var exit *ast.IfStmt
		exits := 0
		for _, bs := range x.Body.List {
			if is, ok := bs.(*ast.IfStmt); ok && is.Else == nil && is.Init == nil && endsInReturn(is.Body.List) {
				exit = is
				exits++
			} else if hasReturn([]ast.Stmt{bs}) {
				failf(bs, "unsupported return inside a loop body")
			}
		}
		if exits == 1 {
			loopErr := ""
			for _, bs := range x.Body.List {
				if as, ok := bs.(*ast.AssignStmt); ok && len(as.Rhs) == 1 {
					for _, l := range as.Lhs {
						if id, ok := l.(*ast.Ident); ok && id.Name == "err" {
							if c, ok := as.Rhs[0].(*ast.CallExpr); ok {
								loopErr = " [err from " + exprKey2(c.Fun) + "()]"
							}
						}
					}
				}
			}
			c := t.hole("some " + exprKey2(x.Value) + " of " + exprKey2(x.X) + ": " + exprKey2(exit.Cond) + loopErr)
			return "(if " + c + " then " + t.decE(exit.Body.List, effects, end, errSrc) + " else " + t.decE(stmts[1:], effects, end, errSrc) + ")"
		}
		if exits > 1 {
			failf(x, "a loop with several exits")
		}
		// a loop without an exit: an effect
		if t.quiet {
			return t.decE(stmts[1:], effects, end, errSrc)
		}
		return t.decE(stmts[1:], append(append([]string{}, effects...), "for "+exprKey2(x.X)), end, errSrc)
	case *ast.ForStmt:
		if t.quiet {
			return t.decE(stmts[1:], effects, end, errSrc)
		}
		return t.decE(stmts[1:], append(append([]string{}, effects...), "for"), end, errSrc)
	default:
		if as, ok := stmts[0].(*ast.AssignStmt); ok {
			for _, l := range as.Lhs {
				if id, ok := l.(*ast.Ident); ok && id.Name == "err" && len(as.Rhs) == 1 {
					if c, ok := as.Rhs[0].(*ast.CallExpr); ok {
						errSrc = exprKey2(c.Fun) + "()"
					} else {
						errSrc = exprKey2(as.Rhs[0])
					}
				}
			}
		}
		eff := effectOf(stmts[0])
		if _, isAssign := stmts[0].(*ast.AssignStmt); isAssign && t.quiet {
			eff = ""
		}
		if eff != "" {
			effects = append(append([]string{}, effects...), eff)
		}
		return t.decE(stmts[1:], effects, end, errSrc)
	}
}

func restIfFallsThrough(body, rest []ast.Stmt) []ast.Stmt {
	if endsInReturn(body) {
		return nil
	}
	return rest
}

type decJob struct {
	file, recv, fn, name string
	// stop: translate only the statements before the first one whose printed text starts with this (the rest of
	// the function is the subject of other obligations); "" = the whole function
	stop  string
	quiet bool
}

var decJobs = []decJob{
	{"pkg/builder/assignment.go", "assignmentBuilder", "castNode", "castNode", "", false},
	{"pkg/builder/assignment.go", "assignmentBuilder", "sliceToSlice", "sliceToSlice", "", false},
	{"pkg/builder/assignment.go", "assignmentBuilder", "matchStructFieldAndStruct", "matchStructFieldAndStruct", "", false},
	{"pkg/builder/postprocess.go", "FunctionBuilder", "buildManipulator", "buildManipulator", "", true},
	{"pkg/builder/method.go", "FunctionBuilder", "CreateFunction", "createFunctionChecks", "var assignments", true},
	{"pkg/parser/comment.go", "Parser", "lookupConverterFunc", "lookupConverterFunc", "", false},
	{"pkg/parser/comment.go", "Parser", "lookupManipulatorFunc", "lookupManipulatorFunc", "", true},
	{"pkg/generator/generator.go", "Generator", "Generate", "generate", "", false},
}

func genDecisions(repo string) string {
	var sb strings.Builder
	sb.WriteString("-- GENERATED by /verif/tools/cmd/extract (decision skeletons of hand-modelled functions) — do not edit\n")
	sb.WriteString("namespace Convergen.Generated.Decisions\n\n")
	for _, j := range decJobs {
		f := parse(repo, j.file)
		fd := findFunc(f, j.recv, j.fn)
		stmts := fd.Body.List
		end := ""
		if j.stop != "" {
			for i, s := range stmts {
				if strings.HasPrefix(exprKey2(s), j.stop) {
					stmts = stmts[:i]
					end = "continue"
					break
				}
			}
			if end == "" {
				failf(fd, "stop statement %q not found in %s", j.stop, j.fn)
			}
		}
		if fd.Type.Results != nil && len(fd.Type.Results.List) > 0 && len(fd.Type.Results.List[0].Names) > 0 && end == "" {
			end = "return" // named results: falling off the end is impossible in Go, but a bare return may be last
		}
		t := &decTr{seen: map[string]bool{}, quiet: j.quiet}
		body := t.dec(stmts, nil, end)
		var params []string
		sb.WriteString("/-- `" + j.recv + "." + j.fn + "`; conditions:\n")
		for i, h := range t.holes {
			fmt.Fprintf(&sb, "  c%d: `%s`\n", i, strings.ReplaceAll(h, "`", "'"))
			params = append(params, fmt.Sprintf("c%d", i))
		}
		sb.WriteString("-/\n")
		fmt.Fprintf(&sb, "def %s (%s : Bool) : String :=\n  %s\n\n", j.name, strings.Join(params, " "), body)
	}
	sb.WriteString("end Convergen.Generated.Decisions\n")
	return sb.String()
}
