// Command extract is the Go-subset → Lean translator of tie A (DESIGN.md §3.5).
//
// It reads the working tree of reedom/convergen and rewrites
// Convergen/Generated/{Render,Tables}.lean.  Render.lean is a statement-by-statement
// translation of the renderers in pkg/generator; Tables.lean carries constants, tables and
// small syntactic facts of the hand-modelled layers.  Anything outside the supported subset
// makes the translator fail loudly with the source position (exit status 3).
package main

import (
	"bytes"
	"crypto/sha256"
	"encoding/hex"
	"fmt"
	"go/ast"
	"go/parser"
	"go/printer"
	"go/token"
	"os"
	"path/filepath"
	"sort"
	"strconv"
	"strings"
)

var fset = token.NewFileSet()

type failure struct{ msg string }

func failf(n ast.Node, format string, a ...any) {
	pos := ""
	if n != nil {
		pos = fset.Position(n.Pos()).String() + ": "
	}
	panic(failure{pos + fmt.Sprintf(format, a...)})
}

func main() {
	if len(os.Args) != 3 {
		fmt.Fprintln(os.Stderr, "usage: extract <repo> <outdir>")
		os.Exit(2)
	}
	repo, out := os.Args[1], os.Args[2]
	code := 0
	for _, job := range []struct {
		name string
		fn   func(string) string
	}{{"Render.lean", genRender}, {"Tables.lean", genTables}, {"Nodes.lean", genNodes}, {"Decisions.lean", genDecisions}} {
		text, err := run(job.fn, repo)
		if err != nil {
			fmt.Fprintf(os.Stderr, "extract: %s: %v\n", job.name, err)
			// Leave a file that cannot compile so that a stale translation is never used.
			text = "-- extract failed: " + strings.ReplaceAll(err.Error(), "\n", " ") + "\n#eval (translator_failed : Nat)\n"
			code = 3
		}
		writeIfChanged(filepath.Join(out, job.name), text)
	}
	os.Exit(code)
}

func run(fn func(string) string, repo string) (text string, err error) {
	defer func() {
		if r := recover(); r != nil {
			if f, ok := r.(failure); ok {
				err = fmt.Errorf("%s", f.msg)
				return
			}
			panic(r)
		}
	}()
	return fn(repo), nil
}

func writeIfChanged(path, text string) {
	old, err := os.ReadFile(path)
	if err == nil && string(old) == text {
		return
	}
	tmp := path + ".tmp"
	if err := os.WriteFile(tmp, []byte(text), 0644); err != nil {
		fmt.Fprintln(os.Stderr, err)
		os.Exit(2)
	}
	if err := os.Rename(tmp, path); err != nil {
		fmt.Fprintln(os.Stderr, err)
		os.Exit(2)
	}
}

func parse(repo, rel string) *ast.File {
	f, err := parser.ParseFile(fset, filepath.Join(repo, rel), nil, parser.ParseComments)
	if err != nil {
		panic(failure{err.Error()})
	}
	return f
}

// ---------------------------------------------------------------------------------------------
// naming

func lowerName(s string) string {
	if s == "Type" {
		return "typ"
	}
	if s == strings.ToUpper(s) {
		return strings.ToLower(s)
	}
	return strings.ToLower(s[:1]) + s[1:]
}

func leanStr(s string) string {
	var sb strings.Builder
	sb.WriteByte('"')
	for _, r := range s {
		switch r {
		case '\n':
			sb.WriteString("\\n")
		case '\t':
			sb.WriteString("\\t")
		case '\r':
			sb.WriteString("\\r")
		case '"':
			sb.WriteString("\\\"")
		case '\\':
			sb.WriteString("\\\\")
		default:
			if r < 0x20 || r == 0x7f {
				fmt.Fprintf(&sb, "\\x%02x", r)
			} else {
				sb.WriteRune(r)
			}
		}
	}
	sb.WriteByte('"')
	return sb.String()
}

func goStringLit(e ast.Expr) (string, bool) {
	lit, ok := e.(*ast.BasicLit)
	if !ok || lit.Kind != token.STRING {
		return "", false
	}
	s, err := strconv.Unquote(lit.Value)
	if err != nil {
		return "", false
	}
	return s, true
}

// ---------------------------------------------------------------------------------------------
// Render.lean: translation of the strings.Builder subset

// tr is the translation context of one function.
type tr struct {
	recv     string            // receiver variable name of a struct method ("" otherwise)
	fields   map[string]string // Go field name → Lean pattern variable (struct methods)
	subst    map[string]string // printed Go expression → Lean term (loop element, unwrapped option)
	inAssign bool              // inside Assignment.string (recursive calls go to stringList)
	inNest   bool              // inside nestStructToString (recursive calls go to assignmentToStringList)
	recList  string            // the list whose rendering is passed in as `rec__` (NestStruct)
}

func exprKey(e ast.Expr) string {
	var buf bytes.Buffer
	_ = printer.Fprint(&buf, fset, e)
	return buf.String()
}

var constMap = map[string]string{
	"model.DstVarArg":    "DstVarStyle.arg",
	"model.DstVarReturn": "DstVarStyle.ret",
	"DstVarArg":          "DstVarStyle.arg",
	"DstVarReturn":       "DstVarStyle.ret",
}

var methodMap = map[string]string{
	"FullType":        "Var.fullType",
	"PtrLessFullType": "Var.ptrLessFullType",
	"String":          "Assignment.string",
	"RetError":        "Assignment.retError",
}

var funcMap = map[string]string{
	"ManipulatorToString": "manipulatorToString",
	"AssignmentToString":  "assignmentToString",
	"FuncToString":        "funcToString",
}

func (t *tr) expr(e ast.Expr) string {
	if s, ok := t.subst[exprKey(e)]; ok {
		return s
	}
	switch x := e.(type) {
	case *ast.ParenExpr:
		return "(" + t.expr(x.X) + ")"
	case *ast.BasicLit:
		if s, ok := goStringLit(x); ok {
			return leanStr(s)
		}
		if x.Kind == token.INT {
			if _, err := strconv.ParseUint(x.Value, 10, 32); err == nil {
				return x.Value
			}
		}
		failf(e, "unsupported literal %s", x.Value)
	case *ast.Ident:
		switch x.Name {
		case "true", "false":
			return x.Name
		}
		if c, ok := constMap[x.Name]; ok {
			return c
		}
		return x.Name
	case *ast.SelectorExpr:
		if c, ok := constMap[exprKey(x)]; ok {
			return c
		}
		if id, ok := x.X.(*ast.Ident); ok && t.recv != "" && id.Name == t.recv {
			if v, ok := t.fields[x.Sel.Name]; ok {
				return v
			}
			// a whole-struct receiver (e.g. Var): ordinary projection
		}
		return t.expr(x.X) + "." + lowerName(x.Sel.Name)
	case *ast.UnaryExpr:
		if x.Op == token.NOT {
			return "(!" + t.expr(x.X) + ")"
		}
		failf(e, "unsupported unary operator %s", x.Op)
	case *ast.BinaryExpr:
		op := ""
		switch x.Op {
		case token.ADD:
			op = "++"
		case token.EQL:
			op = "=="
		case token.NEQ:
			op = "!="
		case token.LAND:
			op = "&&"
		case token.LOR:
			op = "||"
		case token.LSS:
			// loop indices and small integer literals only: decidable comparison on Nat
			return "(Nat.blt " + t.atom(x.X) + " " + t.atom(x.Y) + ")"
		case token.GTR:
			return "(Nat.blt " + t.atom(x.Y) + " " + t.atom(x.X) + ")"
		default:
			failf(e, "unsupported binary operator %s", x.Op)
		}
		if id, ok := x.Y.(*ast.Ident); ok && id.Name == "nil" {
			failf(e, "nil comparison outside an if condition")
		}
		return "(" + t.expr(x.X) + " " + op + " " + t.expr(x.Y) + ")"
	case *ast.CallExpr:
		return t.call(x)
	}
	failf(e, "unsupported expression %T", e)
	return ""
}

func (t *tr) call(c *ast.CallExpr) string {
	var name string
	var recvArg ast.Expr
	switch f := c.Fun.(type) {
	case *ast.Ident:
		name = f.Name
	case *ast.SelectorExpr:
		name = f.Sel.Name
		recvArg = f.X
	default:
		failf(c, "unsupported call")
	}
	if lean, ok := funcMap[name]; ok {
		parts := []string{lean}
		for _, a := range c.Args {
			parts = append(parts, t.atom(a))
		}
		return "(" + strings.Join(parts, " ") + ")"
	}
	if lean, ok := methodMap[name]; ok && recvArg != nil && len(c.Args) == 0 {
		return "(" + lean + " " + t.atom(recvArg) + ")"
	}
	failf(c, "unsupported call to %s", name)
	return ""
}

func (t *tr) atom(e ast.Expr) string {
	s := t.expr(e)
	if strings.ContainsAny(s, " ") && !strings.HasPrefix(s, "(") && !strings.HasPrefix(s, "\"") {
		return "(" + s + ")"
	}
	return s
}

func isWriteString(s ast.Stmt) (ast.Expr, bool) {
	es, ok := s.(*ast.ExprStmt)
	if !ok {
		return nil, false
	}
	c, ok := es.X.(*ast.CallExpr)
	if !ok || len(c.Args) != 1 {
		return nil, false
	}
	sel, ok := c.Fun.(*ast.SelectorExpr)
	if !ok || sel.Sel.Name != "WriteString" {
		return nil, false
	}
	if id, ok := sel.X.(*ast.Ident); !ok || id.Name != "sb" {
		return nil, false
	}
	return c.Args[0], true
}

// isNilCheck recognises `X != nil`.
func isNilCheck(e ast.Expr) (ast.Expr, bool) {
	b, ok := e.(*ast.BinaryExpr)
	if !ok || b.Op != token.NEQ {
		return nil, false
	}
	if id, ok := b.Y.(*ast.Ident); ok && id.Name == "nil" {
		return b.X, true
	}
	return nil, false
}

// pieces translates builder statements into the list of appended string terms.
func (t *tr) pieces(stmts []ast.Stmt) []string {
	var out []string
	for _, s := range stmts {
		if arg, ok := isWriteString(s); ok {
			out = append(out, t.expr(arg))
			continue
		}
		switch x := s.(type) {
		case *ast.IfStmt:
			if x.Init != nil {
				failf(x, "if with init statement")
			}
			thenS := t.block(x.Body.List)
			elseS := `""`
			if x.Else != nil {
				switch e := x.Else.(type) {
				case *ast.BlockStmt:
					elseS = t.block(e.List)
				case *ast.IfStmt:
					elseS = t.block([]ast.Stmt{e})
				default:
					failf(x, "unsupported else")
				}
			}
			if opt, ok := isNilCheck(x.Cond); ok {
				key := exprKey(opt)
				old, had := t.subst[key]
				t.subst[key] = "opt__"
				thenS = t.block(x.Body.List)
				if had {
					t.subst[key] = old
				} else {
					delete(t.subst, key)
				}
				out = append(out, "(match "+t.expr(opt)+" with | some opt__ => "+thenS+" | none => "+elseS+")")
				continue
			}
			out = append(out, "(if "+t.expr(x.Cond)+" then "+thenS+" else "+elseS+")")
		case *ast.RangeStmt:
			out = append(out, t.rangeStmt(x))
		default:
			failf(s, "unsupported statement %T in builder function", s)
		}
	}
	return out
}

func (t *tr) block(stmts []ast.Stmt) string {
	p := t.pieces(stmts)
	if len(p) == 0 {
		return `""`
	}
	if len(p) == 1 {
		return p[0]
	}
	return "(" + strings.Join(p, " ++ ") + ")"
}

func (t *tr) rangeStmt(r *ast.RangeStmt) string {
	if r.Tok != token.DEFINE {
		failf(r, "unsupported range form")
	}
	list := t.expr(r.X)
	key := ""
	elemVar := "it__"
	keyIdent, _ := r.Key.(*ast.Ident)
	idxVar := ""
	if r.Value != nil {
		if keyIdent == nil {
			failf(r, "unsupported range key")
		}
		if keyIdent.Name != "_" {
			idxVar = keyIdent.Name
		}
		v, ok := r.Value.(*ast.Ident)
		if !ok {
			failf(r, "unsupported range value")
		}
		key = v.Name
		elemVar = v.Name
	} else {
		if keyIdent == nil {
			failf(r, "unsupported range key")
		}
		key = exprKey(r.X) + "[" + keyIdent.Name + "]"
	}
	// the recursive loop of nestStructToString: AssignmentToString(f, content) over the contents
	if t.inNest && len(r.Body.List) == 1 {
		if arg, ok := isWriteString(r.Body.List[0]); ok {
			if c, ok := arg.(*ast.CallExpr); ok && len(c.Args) == 2 {
				if id, ok := c.Fun.(*ast.Ident); ok && id.Name == "AssignmentToString" && exprKey(c.Args[1]) == key {
					if t.recList != "" && t.recList != list {
						failf(r, "two different recursive loops")
					}
					t.recList = list
					return "rec__"
				}
			}
		}
	}
	// the recursive case of NestStruct.String
	if t.inAssign && len(r.Body.List) == 1 {
		if arg, ok := isWriteString(r.Body.List[0]); ok {
			if c, ok := arg.(*ast.CallExpr); ok && len(c.Args) == 0 {
				if sel, ok := c.Fun.(*ast.SelectorExpr); ok && sel.Sel.Name == "String" && exprKey(sel.X) == key {
					if t.recList != "" && t.recList != list {
						failf(r, "two different recursive loops")
					}
					t.recList = list
					return "rec__"
				}
			}
		}
	}
	old, had := t.subst[key]
	t.subst[key] = elemVar
	body := t.block(r.Body.List)
	if had {
		t.subst[key] = old
	} else {
		delete(t.subst, key)
	}
	if t.inAssign && strings.Contains(body, "Assignment.string") {
		failf(r, "recursive rendering inside a loop that is not the plain contents loop")
	}
	if idxVar != "" {
		return "(concatMapIdx (fun " + idxVar + " " + elemVar + " => " + body + ") " + list + ")"
	}
	return "(concatMap (fun " + elemVar + " => " + body + ") " + list + ")"
}

// builderBody translates `var sb strings.Builder; …; return sb.String()`.
func (t *tr) builderBody(fn *ast.FuncDecl) string {
	l := fn.Body.List
	if len(l) < 2 {
		failf(fn, "not a builder function")
	}
	if d, ok := l[0].(*ast.DeclStmt); !ok || !strings.Contains(exprKey2(d), "strings.Builder") {
		failf(l[0], "expected `var sb strings.Builder`")
	}
	ret, ok := l[len(l)-1].(*ast.ReturnStmt)
	if !ok || len(ret.Results) != 1 || exprKey(ret.Results[0]) != "sb.String()" {
		failf(l[len(l)-1], "expected `return sb.String()`")
	}
	return t.block(l[1 : len(l)-1])
}

func exprKey2(n ast.Node) string {
	var buf bytes.Buffer
	_ = printer.Fprint(&buf, fset, n)
	return buf.String()
}

// valueBody translates `if c { return a }; …; return b`.
func (t *tr) valueBody(stmts []ast.Stmt) string {
	if len(stmts) == 0 {
		failf(nil, "missing return")
	}
	switch x := stmts[0].(type) {
	case *ast.ReturnStmt:
		if len(x.Results) != 1 {
			failf(x, "unsupported return")
		}
		return t.expr(x.Results[0])
	case *ast.IfStmt:
		if x.Init != nil || x.Else != nil {
			failf(x, "unsupported if in value function")
		}
		return "(if " + t.expr(x.Cond) + " then " + t.valueBody(x.Body.List) + " else " + t.valueBody(stmts[1:]) + ")"
	}
	failf(stmts[0], "unsupported statement %T in value function", stmts[0])
	return ""
}

func findFunc(f *ast.File, recvType, name string) *ast.FuncDecl {
	for _, d := range f.Decls {
		fd, ok := d.(*ast.FuncDecl)
		if !ok || fd.Name.Name != name {
			continue
		}
		rt := ""
		if fd.Recv != nil && len(fd.Recv.List) == 1 {
			rt = strings.TrimPrefix(exprKey(fd.Recv.List[0].Type), "*")
		}
		if rt == recvType {
			return fd
		}
	}
	failf(f, "function %s.%s not found", recvType, name)
	return nil
}

func recvName(fd *ast.FuncDecl) string {
	if fd.Recv == nil || len(fd.Recv.List) != 1 || len(fd.Recv.List[0].Names) != 1 {
		return ""
	}
	return fd.Recv.List[0].Names[0].Name
}

func structFields(f *ast.File, name string) []string {
	for _, d := range f.Decls {
		gd, ok := d.(*ast.GenDecl)
		if !ok {
			continue
		}
		for _, s := range gd.Specs {
			ts, ok := s.(*ast.TypeSpec)
			if !ok || ts.Name.Name != name {
				continue
			}
			st, ok := ts.Type.(*ast.StructType)
			if !ok {
				failf(ts, "%s is not a struct", name)
			}
			var out []string
			for _, fl := range st.Fields.List {
				for _, n := range fl.Names {
					out = append(out, n.Name+" "+exprKey(fl.Type))
				}
			}
			return out
		}
	}
	failf(f, "struct %s not found", name)
	return nil
}

var assignmentStructs = []string{"SkipField", "NoMatchField", "SimpleField", "NestStruct",
	"SliceAssignment", "SliceLoopAssignment", "SliceTypecastAssignment"}

func genRender(repo string) string {
	fa := parse(repo, "pkg/generator/model/assignment.go")
	fv := parse(repo, "pkg/generator/model/var.go")
	fga := parse(repo, "pkg/generator/assignment.go")
	fgm := parse(repo, "pkg/generator/manipulator.go")
	fgf := parse(repo, "pkg/generator/function.go")

	var sb strings.Builder
	sb.WriteString("-- GENERATED by /verif/tools/cmd/extract from /repo/pkg/generator — do not edit.\n")
	sb.WriteString("import Convergen.Model.GModel\nset_option linter.unusedVariables false\nnamespace Convergen.Generated\nopen Convergen\n\n")

	// Var methods
	for _, m := range []string{"FullType", "PtrLessFullType"} {
		fd := findFunc(fv, "Var", m)
		t := &tr{subst: map[string]string{}}
		fmt.Fprintf(&sb, "def Var.%s (%s : Var) : String :=\n  %s\n\n", lowerName(m), recvName(fd), t.valueBody(fd.Body.List))
	}

	// Assignment.string / retError
	var strCases, errCases []string
	var helpers strings.Builder
	for _, st := range assignmentStructs {
		fields := structFields(fa, st)
		fmap := map[string]string{}
		var pats []string
		for _, f := range fields {
			n := strings.Fields(f)[0]
			fmap[n] = lowerName(n) + "_"
			pats = append(pats, lowerName(n)+"_")
		}
		ctor := lowerName(st)
		fd := findFunc(fa, st, "String")
		t := &tr{recv: recvName(fd), fields: fmap, subst: map[string]string{}, inAssign: true}
		body := t.builderBody(fd)
		sig := ""
		for _, p := range pats {
			sig += " (" + p + " : " + leanFieldType(fields, p) + ")"
		}
		call := st + ".string " + strings.Join(pats, " ")
		if t.recList != "" {
			sig += " (rec__ : String)"
			call += " (Assignment.stringList " + t.recList + ")"
		}
		fmt.Fprintf(&helpers, "def %s.string%s : String :=\n  %s\n\n", st, sig, body)
		strCases = append(strCases, fmt.Sprintf("  | .%s %s => %s", ctor, strings.Join(pats, " "), call))
		fe := findFunc(fa, st, "RetError")
		te := &tr{recv: recvName(fe), fields: fmap, subst: map[string]string{}}
		errCases = append(errCases, fmt.Sprintf("  | .%s %s => %s", ctor, strings.Join(pats, " "), te.valueBody(fe.Body.List)))
	}
	sb.WriteString(helpers.String())
	sb.WriteString("mutual\ndef Assignment.string : Assignment → String\n")
	sb.WriteString(strings.Join(strCases, "\n"))
	sb.WriteString("\ndef Assignment.stringList : List Assignment → String\n  | [] => \"\"\n  | c :: cs => Assignment.string c ++ Assignment.stringList cs\nend\n\n")
	sb.WriteString("def Assignment.retError : Assignment → Bool\n")
	sb.WriteString(strings.Join(errCases, "\n"))
	sb.WriteString("\n\n")

	// AssignmentToString(f, a): optionally starts with the dispatch
	//     if nest, ok := a.(model.NestStruct); ok { return nestStructToString(f, nest) }
	{
		fd := findFunc(fga, "", "AssignmentToString")
		body := fd.Body.List
		nestCase := ""
		if len(body) > 0 {
			if is, ok := body[0].(*ast.IfStmt); ok && is.Init != nil {
				as, ok1 := is.Init.(*ast.AssignStmt)
				if !ok1 || len(as.Rhs) != 1 {
					failf(is, "unsupported if-init")
				}
				ta, ok2 := as.Rhs[0].(*ast.TypeAssertExpr)
				if !ok2 || exprKey(ta.Type) != "model.NestStruct" || exprKey(ta.X) != "a" || exprKey(is.Cond) != "ok" {
					failf(is, "unsupported type assertion dispatch")
				}
				ret, ok3 := is.Body.List[0].(*ast.ReturnStmt)
				if !ok3 || len(is.Body.List) != 1 || len(ret.Results) != 1 {
					failf(is, "unsupported dispatch body")
				}
				call, ok4 := ret.Results[0].(*ast.CallExpr)
				if !ok4 || exprKey(call.Fun) != "nestStructToString" || len(call.Args) != 2 {
					failf(is, "dispatch must return nestStructToString(f, nest)")
				}
				// translate nestStructToString with the receiver-like variable bound to pattern variables
				nfd := findFunc(fga, "", "nestStructToString")
				if len(nfd.Type.Params.List) != 2 || len(nfd.Type.Params.List[1].Names) != 1 {
					failf(nfd, "unexpected parameters of nestStructToString")
				}
				sv := nfd.Type.Params.List[1].Names[0].Name
				fields := structFields(fa, "NestStruct")
				fmap := map[string]string{}
				var pats []string
				for _, f := range fields {
					n := strings.Fields(f)[0]
					fmap[n] = lowerName(n) + "_"
					pats = append(pats, lowerName(n)+"_")
				}
				tn := &tr{recv: sv, fields: fmap, subst: map[string]string{}, inNest: true}
				nbody := tn.builderBody(nfd)
				if tn.recList == "" {
					failf(nfd, "nestStructToString does not render its contents recursively")
				}
				fmt.Fprintf(&sb, "def nestStructToString.body (f : Function) (%s : String) (%s : String) (%s : List Assignment) (rec__ : String) : String :=\n  %s\n\n",
					pats[0], pats[1], pats[2], nbody)
				nestCase = fmt.Sprintf("  | .nestStruct %s => nestStructToString.body f %s (assignmentToStringList f %s)\n", strings.Join(pats, " "), strings.Join(pats, " "), tn.recList)
				body = body[1:]
			}
		}
		t := &tr{subst: map[string]string{}}
		rest := &ast.FuncDecl{Name: fd.Name, Type: fd.Type, Body: &ast.BlockStmt{List: body}}
		plain := t.builderBody(rest)
		fmt.Fprintf(&sb, "def assignmentToString.plain (%s) : String :=\n  %s\n\n", params(fd, map[string]string{"*model.Function": "Function", "model.Assignment": "Assignment"}), plain)
		if nestCase == "" {
			sb.WriteString("def assignmentToString (f : Function) (a : Assignment) : String := assignmentToString.plain f a\n\n")
		} else {
			otherCases := ""
			for _, st := range assignmentStructs {
				if st == "NestStruct" {
					continue
				}
				var ps []string
				for range structFields(fa, st) {
					ps = append(ps, fmt.Sprintf("x%d", len(ps)))
				}
				otherCases += fmt.Sprintf("  | .%s %s => assignmentToString.plain f (.%s %s)\n", lowerName(st), strings.Join(ps, " "), lowerName(st), strings.Join(ps, " "))
			}
			sb.WriteString("mutual\ndef assignmentToString (f : Function) : Assignment → String\n" + nestCase + otherCases +
				"def assignmentToStringList (f : Function) : List Assignment → String\n  | [] => \"\"\n  | c :: cs => assignmentToString f c ++ assignmentToStringList f cs\nend\n\n")
		}
	}
	// ManipulatorToString(m, src, dst, args)
	{
		fd := findFunc(fgm, "Generator", "ManipulatorToString")
		t := &tr{subst: map[string]string{}}
		fmt.Fprintf(&sb, "def manipulatorToString (%s) : String :=\n  %s\n\n", params(fd, map[string]string{"*model.Manipulator": "Manipulator", "model.Var": "Var", "[]model.Var": "List Var"}), t.builderBody(fd))
	}
	// FuncToString(f)
	{
		fd := findFunc(fgf, "Generator", "FuncToString")
		t := &tr{subst: map[string]string{}}
		fmt.Fprintf(&sb, "def funcToString (%s) : String :=\n  %s\n\n", params(fd, map[string]string{"*model.Function": "Function"}), t.builderBody(fd))
	}
	sb.WriteString("end Convergen.Generated\n")
	return sb.String()
}

func leanFieldType(fields []string, pat string) string {
	for _, f := range fields {
		p := strings.SplitN(f, " ", 2)
		if lowerName(p[0])+"_" == pat {
			switch p[1] {
			case "string":
				return "String"
			case "bool":
				return "Bool"
			case "[]Assignment":
				return "List Assignment"
			}
			panic(failure{"unsupported field type " + p[1] + " of " + p[0]})
		}
	}
	panic(failure{"unknown field " + pat})
}

func params(fd *ast.FuncDecl, types map[string]string) string {
	var out []string
	for _, fl := range fd.Type.Params.List {
		ty, ok := types[exprKey(fl.Type)]
		if !ok {
			failf(fl, "unexpected parameter type %s", exprKey(fl.Type))
		}
		for _, n := range fl.Names {
			out = append(out, fmt.Sprintf("%s : %s", n.Name, ty))
		}
	}
	return strings.Join(out, ") (")
}

// ---------------------------------------------------------------------------------------------
// Tables.lean

func leanStrList(l []string) string {
	q := make([]string, len(l))
	for i, s := range l {
		q[i] = leanStr(s)
	}
	return "[" + strings.Join(q, ", ") + "]"
}

func findVarValue(f *ast.File, name string) ast.Expr {
	var out ast.Expr
	ast.Inspect(f, func(n ast.Node) bool {
		vs, ok := n.(*ast.ValueSpec)
		if !ok {
			return true
		}
		for i, id := range vs.Names {
			if id.Name == name && i < len(vs.Values) {
				out = vs.Values[i]
			}
		}
		return true
	})
	if out == nil {
		failf(f, "variable %s not found", name)
	}
	return out
}

func mapKeys(e ast.Expr) []string {
	cl, ok := e.(*ast.CompositeLit)
	if !ok {
		failf(e, "expected composite literal")
	}
	var keys []string
	for _, el := range cl.Elts {
		kv, ok := el.(*ast.KeyValueExpr)
		if !ok {
			failf(el, "expected key: value")
		}
		s, ok := goStringLit(kv.Key)
		if !ok {
			failf(kv, "expected string key")
		}
		keys = append(keys, s)
	}
	sort.Strings(keys)
	return keys
}

func regexpLiteral(e ast.Expr) string {
	c, ok := e.(*ast.CallExpr)
	if !ok || exprKey(c.Fun) != "regexp.MustCompile" || len(c.Args) != 1 {
		failf(e, "expected regexp.MustCompile(literal)")
	}
	s, ok := goStringLit(c.Args[0])
	if !ok {
		failf(e, "expected a string literal")
	}
	return s
}

// fingerprint hashes the comment-free, position-free printed form of a declaration.
func fingerprint(n ast.Node) string {
	var buf bytes.Buffer
	cfg := printer.Config{Mode: printer.RawFormat}
	switch d := n.(type) {
	case *ast.FuncDecl:
		c := *d
		c.Doc = nil
		_ = cfg.Fprint(&buf, token.NewFileSet(), &c)
	default:
		_ = cfg.Fprint(&buf, token.NewFileSet(), n)
	}
	// drop comments that the printer may still emit inside bodies: none are attached without
	// a CommentMap, so the text is already comment-free.
	h := sha256.Sum256(buf.Bytes())
	return hex.EncodeToString(h[:8])
}

func genTables(repo string) string {
	var sb strings.Builder
	sb.WriteString("-- GENERATED by /verif/tools/cmd/extract from /repo — do not edit.\n")
	sb.WriteString("namespace Convergen.Generated\n\n")

	// option tables and defaults
	fo := parse(repo, "pkg/option/option.go")
	fmt.Fprintf(&sb, "def validOpsIntf : List String := %s\n", leanStrList(mapKeys(findVarValue(fo, "ValidOpsIntf"))))
	fmt.Fprintf(&sb, "def validOpsMethod : List String := %s\n", leanStrList(mapKeys(findVarValue(fo, "ValidOpsMethod"))))
	{
		fd := findFunc(fo, "", "NewOptions")
		ret, ok := fd.Body.List[len(fd.Body.List)-1].(*ast.ReturnStmt)
		if !ok || len(ret.Results) != 1 {
			failf(fd, "NewOptions: expected a single return")
		}
		cl, ok := ret.Results[0].(*ast.CompositeLit)
		if !ok {
			failf(fd, "NewOptions: expected a composite literal")
		}
		var kv []string
		for _, el := range cl.Elts {
			p, ok := el.(*ast.KeyValueExpr)
			if !ok {
				failf(el, "NewOptions: expected key: value")
			}
			kv = append(kv, "("+leanStr(exprKey(p.Key))+", "+leanStr(exprKey(p.Value))+")")
		}
		fmt.Fprintf(&sb, "def newOptions : List (String × String) := [%s]\n", strings.Join(kv, ", "))
	}

	// notation switch
	fc := parse(repo, "pkg/parser/comment.go")
	{
		fd := findFunc(fc, "Parser", "parseNotationInComments")
		var sw *ast.SwitchStmt
		ast.Inspect(fd, func(n ast.Node) bool {
			if s, ok := n.(*ast.SwitchStmt); ok && sw == nil {
				sw = s
			}
			return true
		})
		if sw == nil {
			failf(fd, "notation switch not found")
		}
		var toggles, minArgs, cases []string
		for _, c := range sw.Body.List {
			cc := c.(*ast.CaseClause)
			for _, le := range cc.List {
				name, ok := goStringLit(le)
				if !ok {
					failf(le, "case label is not a string literal")
				}
				cases = append(cases, name)
				// single `opts.F = true|false`
				if len(cc.Body) == 1 {
					if as, ok := cc.Body[0].(*ast.AssignStmt); ok && len(as.Lhs) == 1 && len(as.Rhs) == 1 {
						l, r := exprKey(as.Lhs[0]), exprKey(as.Rhs[0])
						if strings.HasPrefix(l, "opts.") && (r == "true" || r == "false") {
							toggles = append(toggles, fmt.Sprintf("(%s, %s, %s)", leanStr(name), leanStr(strings.TrimPrefix(l, "opts.")), r))
						}
					}
				}
				// first statement `if len(args) == 0` / `if len(args) < n`
				if len(cc.Body) > 0 {
					if is, ok := cc.Body[0].(*ast.IfStmt); ok {
						cond := exprKey(is.Cond)
						switch {
						case cond == "len(args) == 0":
							minArgs = append(minArgs, fmt.Sprintf("(%s, 1)", leanStr(name)))
						case strings.HasPrefix(cond, "len(args) < "):
							minArgs = append(minArgs, fmt.Sprintf("(%s, %s)", leanStr(name), strings.TrimPrefix(cond, "len(args) < ")))
						}
					}
				}
			}
		}
		fmt.Fprintf(&sb, "def notationCases : List String := %s\n", leanStrList(cases))
		fmt.Fprintf(&sb, "def toggleTable : List (String × String × Bool) := [%s]\n", strings.Join(toggles, ", "))
		fmt.Fprintf(&sb, "def minArgs : List (String × Nat) := [%s]\n", strings.Join(minArgs, ", "))
		fmt.Fprintf(&sb, "def reNotation : String := %s\n", leanStr(regexpLiteral(findVarValue(fc, "reNotation"))))
		fmt.Fprintf(&sb, "def reConvergen : String := %s\n", leanStr(regexpLiteral(findVarValue(fc, "reConvergen"))))
		fmt.Fprintf(&sb, "def reLiteral : String := %s\n", leanStr(regexpLiteral(findVarValue(fc, "reLiteral"))))
	}
	fm := parse(repo, "pkg/parser/method.go")
	fmt.Fprintf(&sb, "def reGoBuildGen : String := %s\n", leanStr(regexpLiteral(findVarValue(fm, "reGoBuildGen"))))

	fi := parse(repo, "pkg/parser/interface.go")
	{
		s, ok := goStringLit(findVarValue(fi, "intfName"))
		if !ok {
			failf(fi, "intfName is not a string literal")
		}
		fmt.Fprintf(&sb, "def intfName : String := %s\n", leanStr(s))
		// which options value an interface entry stores
		stored := ""
		ast.Inspect(findFunc(fi, "Parser", "findConvergenEntries"), func(n ast.Node) bool {
			cl, ok := n.(*ast.CompositeLit)
			if !ok || exprKey(cl.Type) != "intfEntry" {
				return true
			}
			for _, el := range cl.Elts {
				if kv, ok := el.(*ast.KeyValueExpr); ok && exprKey(kv.Key) == "opts" {
					stored = exprKey(kv.Value)
				}
			}
			return true
		})
		if stored == "" {
			failf(fi, "intfEntry{opts: …} not found")
		}
		fmt.Fprintf(&sb, "def intfEntryOpts : String := %s\n", leanStr(stored))
	}
	fp := parse(repo, "pkg/parser/parser.go")
	{
		s, ok := goStringLit(findVarValue(fp, "buildTag"))
		if !ok {
			failf(fp, "buildTag is not a string literal")
		}
		fmt.Fprintf(&sb, "def buildTag : String := %s\n", leanStr(s))
		// the cut pattern pieces of GenerateBaseCode
		var pieces []string
		ast.Inspect(findFunc(fp, "Parser", "GenerateBaseCode"), func(n ast.Node) bool {
			c, ok := n.(*ast.CallExpr)
			if !ok || exprKey(c.Fun) != "regexp.MustCompile" {
				return true
			}
			var walk func(e ast.Expr)
			walk = func(e ast.Expr) {
				switch x := e.(type) {
				case *ast.BinaryExpr:
					walk(x.X)
					walk(x.Y)
				case *ast.BasicLit:
					s, _ := goStringLit(x)
					pieces = append(pieces, s)
				default:
					pieces = append(pieces, "<"+exprKey(e)+">")
				}
			}
			walk(c.Args[0])
			return true
		})
		fmt.Fprintf(&sb, "def cutPattern : List String := %s\n", leanStrList(pieces))
	}

	// precedence chain of matchStructFieldAndStruct
	fb := parse(repo, "pkg/builder/assignment.go")
	{
		fd := findFunc(fb, "assignmentBuilder", "matchStructFieldAndStruct")
		var order []string
		for _, s := range fd.Body.List {
			switch x := s.(type) {
			case *ast.IfStmt:
				order = append(order, "if "+exprKey(x.Cond))
			case *ast.RangeStmt:
				order = append(order, "range "+exprKey(x.X))
			case *ast.ReturnStmt:
				if len(x.Results) > 0 {
					if c, ok := x.Results[0].(*ast.CallExpr); ok {
						order = append(order, "return "+exprKey(c.Fun))
					}
				}
			}
		}
		fmt.Fprintf(&sb, "def precedence : List String := %s\n", leanStrList(order))
	}

	// header comment and write/print protocol of the generator
	fg := parse(repo, "pkg/generator/generator.go")
	{
		var lits []string
		ast.Inspect(findFunc(fg, "Generator", "generateContent"), func(n ast.Node) bool {
			if s, ok := n.(*ast.BasicLit); ok && s.Kind == token.STRING {
				v, _ := goStringLit(s)
				lits = append(lits, v)
			}
			return true
		})
		fmt.Fprintf(&sb, "def generateContentLiterals : List String := %s\n", leanStrList(lits))
	}

	// CLI flags
	fcfg := parse(repo, "pkg/config/config.go")
	{
		var flags []string
		ast.Inspect(findFunc(fcfg, "Config", "ParseArgs"), func(n ast.Node) bool {
			c, ok := n.(*ast.CallExpr)
			if !ok {
				return true
			}
			fn := exprKey(c.Fun)
			if (fn == "flag.String" || fn == "flag.Bool") && len(c.Args) == 3 {
				name, _ := goStringLit(c.Args[0])
				flags = append(flags, fmt.Sprintf("(%s, %s, %s)", leanStr(strings.TrimPrefix(fn, "flag.")), leanStr(name), leanStr(exprKey(c.Args[1]))))
			}
			return true
		})
		fmt.Fprintf(&sb, "def cliFlags : List (String × String × String) := [%s]\n", strings.Join(flags, ", "))
	}

	// generator-model struct shapes
	fa := parse(repo, "pkg/generator/model/assignment.go")
	fv := parse(repo, "pkg/generator/model/var.go")
	ff := parse(repo, "pkg/generator/model/function.go")
	fmn := parse(repo, "pkg/generator/model/manipulator.go")
	var shapes []string
	for _, st := range assignmentStructs {
		shapes = append(shapes, fmt.Sprintf("(%s, %s)", leanStr(st), leanStrList(structFields(fa, st))))
	}
	shapes = append(shapes, fmt.Sprintf("(%s, %s)", leanStr("Var"), leanStrList(structFields(fv, "Var"))))
	shapes = append(shapes, fmt.Sprintf("(%s, %s)", leanStr("Function"), leanStrList(structFields(ff, "Function"))))
	shapes = append(shapes, fmt.Sprintf("(%s, %s)", leanStr("Manipulator"), leanStrList(structFields(fmn, "Manipulator"))))
	fmt.Fprintf(&sb, "def structShapes : List (String × List String) := [\n  %s]\n", strings.Join(shapes, ",\n  "))

	// fingerprints of the hand-modelled functions (comment- and layout-insensitive)
	var fps []string
	for _, rel := range handModelled {
		f := parse(repo, rel)
		for _, d := range f.Decls {
			fd, ok := d.(*ast.FuncDecl)
			if !ok || fd.Body == nil {
				continue
			}
			rt := ""
			if fd.Recv != nil && len(fd.Recv.List) == 1 {
				rt = strings.TrimPrefix(exprKey(fd.Recv.List[0].Type), "*") + "."
			}
			fps = append(fps, fmt.Sprintf("(%s, %s)", leanStr(rel+":"+rt+fd.Name.Name), leanStr(fingerprint(fd))))
		}
	}
	sort.Strings(fps)
	fmt.Fprintf(&sb, "def fingerprints : List (String × String) := [\n  %s]\n", strings.Join(fps, ",\n  "))

	sb.WriteString("\nend Convergen.Generated\n")
	return sb.String()
}

var handModelled = []string{
	"main.go",
	"pkg/config/config.go",
	"pkg/runner/runner.go",
	"pkg/parser/parser.go",
	"pkg/parser/interface.go",
	"pkg/parser/method.go",
	"pkg/parser/comment.go",
	"pkg/option/option.go",
	"pkg/option/pattern_matcher.go",
	"pkg/option/ident_matcher.go",
	"pkg/option/name_matcher.go",
	"pkg/option/field_converter.go",
	"pkg/option/literal_setter.go",
	"pkg/builder/method.go",
	"pkg/builder/assignment.go",
	"pkg/builder/postprocess.go",
	"pkg/builder/model/node.go",
	"pkg/builder/model/struct.go",
	"pkg/builder/model/util.go",
	"pkg/builder/model/method.go",
	"pkg/util/types.go",
	"pkg/util/import.go",
	"pkg/util/ast.go",
	"pkg/generator/generator.go",
	"pkg/logger/logger.go",
}
