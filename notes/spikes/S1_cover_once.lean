/-! Spike S1: shape of the C05 "covered exactly once" theorem over a generic per-field decision. -/
abbrev TyId := Nat
abbrev Path := List String

structure Field where
  name : String
  ty : TyId

structure Env where
  fields : TyId → List Field            -- accessible fields of (the struct under) a type; [] otherwise

inductive Kind | assign | skip | noMatch
  deriving DecidableEq, Repr

inductive Stmt where
  | line (k : Kind) (path : Path)
  | nest (path : Path) (body : List Stmt)

inductive Decision | line (k : Kind) | descend

def blockWith (dec : Path → TyId → Decision) (rec : TyId → Path → List Stmt) (path : Path) (f : Field) : List Stmt :=
  match dec (path ++ [f.name]) f.ty with
  | .line k => [.line k (path ++ [f.name])]
  | .descend =>
    match rec f.ty (path ++ [f.name]) with
    | [] => [.line .noMatch (path ++ [f.name])]
    | b :: bs => [.nest (path ++ [f.name]) (b :: bs)]

def build (env : Env) (dec : Path → TyId → Decision) : Nat → TyId → Path → List Stmt
  | 0, _, _ => []
  | fuel+1, ty, path => (env.fields ty).flatMap (blockWith dec (build env dec fuel) path)

def fieldLeavesWith (env : Env) (rec : TyId → Path → List Path) (path : Path) (f : Field) : List Path :=
  match env.fields f.ty with
  | [] => [path ++ [f.name]]
  | _ :: _ => match rec f.ty (path ++ [f.name]) with
         | [] => [path ++ [f.name]]
         | l :: ls => l :: ls

def leaves (env : Env) : Nat → TyId → Path → List Path
  | 0, _, _ => []
  | fuel+1, ty, path => (env.fields ty).flatMap (fieldLeavesWith env (leaves env fuel) path)

mutual
def Stmt.count (q : Path) : Stmt → Nat
  | .line _ p => if p <+: q then 1 else 0
  | .nest _ body => Stmt.countL q body
def Stmt.countL (q : Path) : List Stmt → Nat
  | [] => 0
  | s :: ss => s.count q + Stmt.countL q ss
end

mutual
def Stmt.under (r : Path) : Stmt → Prop
  | .line _ p => r <+: p
  | .nest _ body => Stmt.underL r body
def Stmt.underL (r : Path) : List Stmt → Prop
  | [] => True
  | s :: ss => s.under r ∧ Stmt.underL r ss
end

theorem countL_append (q : Path) (xs ys : List Stmt) :
    Stmt.countL q (xs ++ ys) = Stmt.countL q xs + Stmt.countL q ys := by
  induction xs with
  | nil => simp [Stmt.countL]
  | cons a as ih => simp [Stmt.countL, ih, Nat.add_assoc]

theorem countL_flatMap {α} (q : Path) (xs : List α) (g : α → List Stmt) :
    Stmt.countL q (xs.flatMap g) = (xs.map fun a => Stmt.countL q (g a)).sum := by
  induction xs with
  | nil => simp [Stmt.countL]
  | cons a as ih => simp [List.flatMap_cons, countL_append, ih]

theorem underL_append (r : Path) (xs ys : List Stmt) :
    Stmt.underL r (xs ++ ys) ↔ Stmt.underL r xs ∧ Stmt.underL r ys := by
  induction xs with
  | nil => simp [Stmt.underL]
  | cons a as ih => simp [Stmt.underL, ih, and_assoc]

theorem underL_flatMap {α} (r : Path) (xs : List α) (g : α → List Stmt)
    (h : ∀ a ∈ xs, Stmt.underL r (g a)) : Stmt.underL r (xs.flatMap g) := by
  induction xs with
  | nil => simp [Stmt.underL]
  | cons a as ih =>
    rw [List.flatMap_cons, underL_append]
    exact ⟨h a List.mem_cons_self, ih (fun b hb => h b (List.mem_cons_of_mem _ hb))⟩

mutual
theorem under_mono (r r' : Path) (h : r' <+: r) : ∀ s : Stmt, s.under r → s.under r'
  | .line _ p, hs => by simp only [Stmt.under] at *; exact List.IsPrefix.trans h hs
  | .nest _ body, hs => by simp only [Stmt.under] at *; exact underL_mono r r' h body hs
theorem underL_mono (r r' : Path) (h : r' <+: r) : ∀ ss : List Stmt, Stmt.underL r ss → Stmt.underL r' ss
  | [], _ => by simp [Stmt.underL]
  | s :: ss, hs => by
    simp only [Stmt.underL] at *
    exact ⟨under_mono r r' h s hs.1, underL_mono r r' h ss hs.2⟩
end

mutual
theorem count_zero (r q : Path) (h : ¬ r <+: q) : ∀ s : Stmt, s.under r → s.count q = 0
  | .line _ p, hs => by
    simp only [Stmt.under] at hs
    simp only [Stmt.count]
    split
    · rename_i hpq; exact absurd (List.IsPrefix.trans hs hpq) h
    · rfl
  | .nest _ body, hs => by
    simp only [Stmt.under] at hs
    simp only [Stmt.count]; exact countL_zero r q h body hs
theorem countL_zero (r q : Path) (h : ¬ r <+: q) : ∀ ss : List Stmt, Stmt.underL r ss → Stmt.countL q ss = 0
  | [], _ => by simp [Stmt.countL]
  | s :: ss, hs => by
    simp only [Stmt.underL] at hs
    simp [Stmt.countL, count_zero r q h s hs.1, countL_zero r q h ss hs.2]
end

/-- what a block can be -/
theorem blockWith_cases (dec rec path) (f : Field) :
    (∃ k, blockWith dec rec path f = [.line k (path ++ [f.name])]) ∨
    (∃ b bs, rec f.ty (path ++ [f.name]) = b :: bs ∧
        blockWith dec rec path f = [.nest (path ++ [f.name]) (b :: bs)]) := by
  unfold blockWith
  cases dec (path ++ [f.name]) f.ty with
  | line k => exact Or.inl ⟨k, rfl⟩
  | descend =>
    cases hb : rec f.ty (path ++ [f.name]) with
    | nil => exact Or.inl ⟨.noMatch, rfl⟩
    | cons b bs => exact Or.inr ⟨b, bs, rfl, rfl⟩

theorem fieldLeavesWith_cases (env rec path) (f : Field) :
    fieldLeavesWith env rec path f = [path ++ [f.name]] ∨
    (env.fields f.ty ≠ [] ∧ rec f.ty (path ++ [f.name]) ≠ [] ∧
       fieldLeavesWith env rec path f = rec f.ty (path ++ [f.name])) := by
  unfold fieldLeavesWith
  cases hf : env.fields f.ty with
  | nil => exact Or.inl rfl
  | cons g gs =>
    cases hl : rec f.ty (path ++ [f.name]) with
    | nil => exact Or.inl rfl
    | cons l ls => exact Or.inr ⟨by simp, by simp, rfl⟩

theorem build_under (env : Env) (dec) : ∀ fuel ty path, Stmt.underL path (build env dec fuel ty path) := by
  intro fuel
  induction fuel with
  | zero => intro ty path; simp [build, Stmt.underL]
  | succ n ih =>
    intro ty path
    apply underL_flatMap
    intro f _
    have hp : path <+: path ++ [f.name] := List.prefix_append _ _
    rcases blockWith_cases dec (build env dec n) path f with ⟨k, hk⟩ | ⟨b, bs, hb, hk⟩
    · rw [hk]; simp [Stmt.underL, Stmt.under, hp]
    · rw [hk]
      have h1 := underL_mono _ _ hp _ (ih f.ty (path ++ [f.name]))
      rw [hb] at h1
      simpa [Stmt.underL, Stmt.under] using h1

theorem block_under (env : Env) (dec n path) (f : Field) :
    Stmt.underL (path ++ [f.name]) (blockWith dec (build env dec n) path f) := by
  rcases blockWith_cases dec (build env dec n) path f with ⟨k, hk⟩ | ⟨b, bs, hb, hk⟩
  · rw [hk]; simp [Stmt.underL, Stmt.under]
  · rw [hk]
    have h1 := build_under env dec n f.ty (path ++ [f.name])
    rw [hb] at h1
    simpa [Stmt.underL, Stmt.under] using h1

theorem leaves_prefix (env : Env) : ∀ fuel ty path q, q ∈ leaves env fuel ty path → path <+: q := by
  intro fuel
  induction fuel with
  | zero => intro ty path q h; simp [leaves] at h
  | succ n ih =>
    intro ty path q h
    simp only [leaves, List.mem_flatMap] at h
    obtain ⟨f, _, hq⟩ := h
    have hp : path <+: path ++ [f.name] := List.prefix_append _ _
    rcases fieldLeavesWith_cases env (leaves env n) path f with h1 | ⟨_, _, h1⟩
    · rw [h1] at hq; simp at hq; subst hq; exact hp
    · rw [h1] at hq; exact List.IsPrefix.trans hp (ih _ _ _ hq)

theorem fieldLeaves_prefix (env : Env) (n path) (f : Field) (q)
    (h : q ∈ fieldLeavesWith env (leaves env n) path f) : path ++ [f.name] <+: q := by
  rcases fieldLeavesWith_cases env (leaves env n) path f with h1 | ⟨_, _, h1⟩
  · rw [h1] at h; simp at h; subst h; exact List.prefix_refl _
  · rw [h1] at h; exact leaves_prefix env n _ _ q h

theorem prefix_snoc_inj {path q : Path} {a b : String}
    (ha : path ++ [a] <+: q) (hb : path ++ [b] <+: q) : a = b := by
  have h := List.prefix_of_prefix_length_le ha hb (by simp)
  have h2 : (path ++ [a]).length = (path ++ [b]).length := by simp
  have := List.IsPrefix.eq_of_length h h2
  simpa using this

theorem build_nil_of_fields_nil (env : Env) (dec n ty path) (h : env.fields ty = []) :
    build env dec n ty path = [] := by
  cases n with
  | zero => rfl
  | succ m => simp [build, h]

theorem leaves_ne_nil (env : Env) (n : Nat) (ty : TyId) (path : Path)
    (h : env.fields ty ≠ []) : leaves env (n+1) ty path ≠ [] := by
  simp only [leaves]
  cases hf : env.fields ty with
  | nil => exact absurd hf h
  | cons f fs =>
    rw [List.flatMap_cons]
    intro hnil
    have h0 := (List.append_eq_nil_iff.mp hnil).1
    rcases fieldLeavesWith_cases env (leaves env n) path f with h1 | ⟨_, h2, h1⟩
    · rw [h1] at h0; simp at h0
    · rw [h1] at h0; exact h2 h0

theorem sum_single {α} (xs : List α) (c : α → Nat) (f : α) (key : α → String)
    (hnd : (xs.map key).Nodup) (hf : f ∈ xs) (hz : ∀ g ∈ xs, key g ≠ key f → c g = 0) :
    (xs.map c).sum = c f := by
  induction xs with
  | nil => cases hf
  | cons x xs ih =>
    simp only [List.map_cons, List.nodup_cons, List.mem_map, not_exists, not_and] at hnd
    simp only [List.map_cons, List.sum_cons]
    cases hf with
    | head =>
      have hall : ∀ g ∈ xs, c g = 0 := fun g hg =>
        hz g (List.mem_cons_of_mem _ hg) (fun e => hnd.1 g hg e)
      have : (xs.map c).sum = 0 := by
        clear ih hz hnd
        induction xs with
        | nil => rfl
        | cons y ys ihy =>
          simp only [List.map_cons, List.sum_cons]
          rw [hall y List.mem_cons_self, ihy (fun g hg => hall g (List.mem_cons_of_mem _ hg))]
      omega
    | tail _ hf' =>
      have hx : c x = 0 := hz x (List.mem_cons_self) (fun e => hnd.1 f hf' e.symm)
      rw [hx, ih hnd.2 hf' (fun g hg => hz g (List.mem_cons_of_mem _ hg))]
      simp

/-- C05 shape theorem: every leaf is covered by exactly one line. -/
theorem cover_once (env : Env) (dec : Path → TyId → Decision)
    (hnd : ∀ ty, ((env.fields ty).map (·.name)).Nodup) :
    ∀ fuel ty path q, q ∈ leaves env fuel ty path →
      Stmt.countL q (build env dec fuel ty path) = 1 := by
  intro fuel
  induction fuel with
  | zero => intro ty path q h; simp [leaves] at h
  | succ n ih =>
    intro ty path q h
    simp only [leaves, List.mem_flatMap] at h
    obtain ⟨f, hf, hq⟩ := h
    have hpre := fieldLeaves_prefix env n path f q hq
    simp only [build]
    rw [countL_flatMap,
      sum_single (env.fields ty) (fun a => Stmt.countL q (blockWith dec (build env dec n) path a)) f
        (·.name) (hnd ty) hf]
    · rcases blockWith_cases dec (build env dec n) path f with ⟨k, hk⟩ | ⟨b, bs, hb, hk⟩
      · rw [hk]; simp [Stmt.countL, Stmt.count, hpre]
      · rw [hk]
        have hgoal : Stmt.countL q (build env dec n f.ty (path ++ [f.name])) = 1 := by
          apply ih
          rcases fieldLeavesWith_cases env (leaves env n) path f with h1 | ⟨_, _, h1⟩
          · -- q = path ++ [f]: then f.ty has no members or no fuel, so build would be empty
            exfalso
            cases hfs : env.fields f.ty with
            | nil => rw [build_nil_of_fields_nil env dec n f.ty _ hfs] at hb; cases hb
            | cons g gs =>
              cases n with
              | zero => simp [build] at hb
              | succ m =>
                have hne := leaves_ne_nil env m f.ty (path ++ [f.name]) (by rw [hfs]; simp)
                unfold fieldLeavesWith at h1
                rw [hfs] at h1
                cases hl : leaves env (m+1) f.ty (path ++ [f.name]) with
                | nil => exact hne hl
                | cons l ls =>
                  rw [hl] at h1
                  -- l :: ls = [path ++ [f.name]] but every leaf below strictly extends it
                  have hmem : l ∈ leaves env (m+1) f.ty (path ++ [f.name]) := by rw [hl]; simp
                  simp only [leaves, List.mem_flatMap] at hmem
                  obtain ⟨g', _, hg'⟩ := hmem
                  have := fieldLeaves_prefix env m (path ++ [f.name]) g' l hg'
                  have hl' : l = path ++ [f.name] := by simpa using congrArg List.head? h1
                  rw [hl'] at this
                  have hlen := this.length_le
                  simp at hlen
          · rw [h1] at hq; exact hq
        rw [hb] at hgoal
        simpa [Stmt.countL, Stmt.count] using hgoal
    · intro g _ hne
      apply countL_zero (path ++ [g.name]) q _ _ (block_under env dec n path g)
      intro hpg
      exact hne (prefix_snoc_inj hpg hpre)

#print axioms cover_once

-- non-vacuity: a two-level example
def env0 : Env := { fields := fun t => match t with
  | 0 => [⟨"A", 1⟩, ⟨"In", 2⟩]
  | 2 => [⟨"X", 1⟩, ⟨"Y", 1⟩]
  | _ => [] }
def dec0 : Path → TyId → Decision := fun p t => if t = 2 then .descend else if p = ["In","Y"] then .line .noMatch else .line .assign
example : leaves env0 3 0 [] = [["A"], ["In","X"], ["In","Y"]] := by decide
example : (build env0 dec0 3 0 []).length = 2 := by decide
