structure Var where
  name : String
  typ : String
  pointer : Bool

def Var.fullType (v : Var) : String := if v.pointer then "*" ++ v.typ else v.typ

structure Fn where
  name : String
  receiver : String
  src : Var
  dst : Var
  additionalArgs : List Var
  retError : Bool
  styleArg : Bool

def concatMap (f : α → String) : List α → String
  | [] => ""
  | x :: xs => f x ++ concatMap f xs

def Gen.header (f : Fn) : String :=
  "" ++ "func " ++
  (if f.receiver != "" then "(" ++ f.receiver ++ " " ++ f.src.fullType ++ ") " else "") ++
  f.name ++ "(" ++
  (if f.styleArg then f.dst.name ++ " *" ++ f.dst.typ ++ (if f.receiver == "" then ", " else "") else "") ++
  (if f.receiver == "" then f.src.name ++ " " ++ f.src.fullType else "") ++
  concatMap (fun args => ", " ++ args.name ++ " " ++ args.fullType) f.additionalArgs ++
  ") "

def joinSep (sep : String) : List String → String
  | [] => ""
  | [x] => x
  | x :: y :: ys => x ++ sep ++ joinSep sep (y :: ys)

def param (v : Var) : String := v.name ++ " " ++ v.fullType
def Spec.params (f : Fn) : List String :=
  (if f.styleArg then [f.dst.name ++ " *" ++ f.dst.typ] else []) ++
  (if f.receiver == "" then [param f.src] else []) ++
  f.additionalArgs.map param
def Spec.header (f : Fn) : String :=
  "func " ++ (if f.receiver != "" then "(" ++ f.receiver ++ " " ++ f.src.fullType ++ ") " else "") ++
  f.name ++ "(" ++ joinSep ", " (Spec.params f) ++ ") "

theorem joinSep_cons_prefixed (x : String) (xs : List Var) :
    joinSep ", " (x :: xs.map param) = x ++ concatMap (fun a => ", " ++ a.name ++ " " ++ a.fullType) xs := by
  induction xs generalizing x with
  | nil => simp [joinSep, concatMap]
  | cons y ys ih => simp [joinSep, concatMap, ih, param, String.append_assoc]

-- the Bridge lemma needs the (known-defect) exclusion: receiver ≠ "" → no additional args, or no receiver
theorem header_bridge (f : Fn) (h : f.receiver = "" ∨ (f.styleArg = true) ∨ f.additionalArgs = []) :
    Gen.header f = Spec.header f := by
  unfold Gen.header Spec.header Spec.params
  by_cases hr : f.receiver = "" <;> by_cases hs : f.styleArg = true <;>
    simp [hr, hs, joinSep_cons_prefixed, String.append_assoc, param, joinSep]
  -- remaining case: receiver, return style: only provable when there are no additional arguments
  rcases h with h | h | h
  · exact absurd h hr
  · exact absurd h hs
  · simp [h, concatMap, joinSep]

-- the excluded case is a real difference (the stray comma of DESIGN §5 #13):
example : Gen.header ⟨"F", "r", ⟨"s", "S", false⟩, ⟨"d", "D", false⟩, [⟨"a", "int", false⟩], false, false⟩
    = "func (r S) F(, a int) " := by decide
