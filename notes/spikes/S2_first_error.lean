/-! Spike S2: shape of the C07 theorem (first error returned, nothing runs after it). -/
abbrev Site := Nat
abbrev Err := Nat

inductive Stmt where
  | call (site : Site) (errCapable checked : Bool)
  | nest (body : List Stmt)

structure St where
  trace : List Site := []
  err : Option Err := none
  returned : Bool := false
  deriving Repr, DecidableEq

def stepCall (φ : Site → Option Err) (site : Site) (cap chk : Bool) (s : St) : St :=
  if s.returned then s else
  let err' := if cap then φ site else s.err        -- `x, err = f()` overwrites err
  let s' := { s with trace := s.trace ++ [site], err := err' }
  if chk && err'.isSome then { s' with returned := true } else s'

mutual
def exec (φ : Site → Option Err) : Stmt → St → St
  | .call site cap chk, s => stepCall φ site cap chk s
  | .nest body, s => execL φ body s
def execL (φ : Site → Option Err) : List Stmt → St → St
  | [], s => s
  | x :: xs, s => execL φ xs (exec φ x s)
end

-- execution-order call sites with their capability
mutual
def sites : Stmt → List (Site × Bool)
  | .call site cap _ => [(site, cap)]
  | .nest body => sitesL body
def sitesL : List Stmt → List (Site × Bool)
  | [] => []
  | x :: xs => sites x ++ sitesL xs
end

mutual
def allChecked : Stmt → Bool
  | .call _ cap chk => !cap || chk
  | .nest body => allCheckedL body
def allCheckedL : List Stmt → Bool
  | [] => true
  | x :: xs => allChecked x && allCheckedL xs
end

/-- the specification: run until the first error-capable site whose plan says "fail" -/
def spec (φ : Site → Option Err) : List (Site × Bool) → St → St
  | [], s => s
  | (site, cap) :: rest, s =>
    if s.returned then s else
    match (if cap then φ site else none) with
    | some e => { trace := s.trace ++ [site], err := some e, returned := true }
    | none => spec φ rest { s with trace := s.trace ++ [site], err := if cap then none else s.err }

theorem spec_returned (φ) : ∀ l s, s.returned = true → spec φ l s = s
  | [], _, _ => rfl
  | (_, _) :: _, s, h => by simp [spec, h]

theorem spec_append (φ) : ∀ l₁ l₂ s, spec φ (l₁ ++ l₂) s = spec φ l₂ (spec φ l₁ s)
  | [], _, _ => rfl
  | (site, cap) :: rest, l₂, s => by
    simp only [List.cons_append, spec]
    split
    · rename_i h; simp [spec_returned φ l₂ s h]
    · split
      · simp [spec_returned]
      · exact spec_append φ rest l₂ _

mutual
theorem exec_returned (φ) : ∀ (x : Stmt) (s : St), s.returned = true → exec φ x s = s
  | .call site cap chk, s, h => by simp [exec, stepCall, h]
  | .nest body, s, h => by simp only [exec]; exact execL_returned φ body s h
theorem execL_returned (φ) : ∀ (xs : List Stmt) (s : St), s.returned = true → execL φ xs s = s
  | [], _, _ => rfl
  | x :: xs, s, h => by
    simp only [execL]
    rw [exec_returned φ x s h]; exact execL_returned φ xs s h
end

mutual
theorem exec_eq_spec (φ) : ∀ (x : Stmt) (s : St), allChecked x = true → s.err = none →
    exec φ x s = spec φ (sites x) s ∧ ((exec φ x s).returned = false → (exec φ x s).err = none)
  | .call site cap chk, s, hc, he => by
    simp only [allChecked, Bool.or_eq_true, Bool.not_eq_true'] at hc
    simp only [exec, sites, spec, stepCall]
    by_cases hr : s.returned = true
    · simp [hr, he]
    · simp only [hr, Bool.false_eq_true, ↓reduceIte]
      cases cap with
      | false => simp [he]
      | true =>
        have hchk : chk = true := by cases hc with | inl h => cases h | inr h => exact h
        subst hchk
        cases hφ : φ site with
        | none => simp [hφ]
        | some e => simp [hφ]
  | .nest body, s, hc, he => by
    simp only [allChecked] at hc
    simp only [exec, sites]
    exact execL_eq_spec φ body s hc he
theorem execL_eq_spec (φ) : ∀ (xs : List Stmt) (s : St), allCheckedL xs = true → s.err = none →
    execL φ xs s = spec φ (sitesL xs) s ∧ ((execL φ xs s).returned = false → (execL φ xs s).err = none)
  | [], s, _, he => by simp [execL, sitesL, spec, he]
  | x :: xs, s, hc, he => by
    simp only [allCheckedL, Bool.and_eq_true] at hc
    obtain ⟨h1, h1'⟩ := exec_eq_spec φ x s hc.1 he
    simp only [execL, sitesL, spec_append]
    rw [← h1]
    by_cases hr : (exec φ x s).returned = true
    · -- already returned: the rest does nothing on either side
      rw [execL_returned φ xs _ hr, spec_returned φ _ _ hr]
      exact ⟨rfl, fun h => by rw [hr] at h; cases h⟩
    · have hr' : (exec φ x s).returned = false := by simpa using hr
      exact execL_eq_spec φ xs _ hc.2 (h1' hr')
end

#print axioms execL_eq_spec

/-- corollary in the words of C07 -/
theorem first_error_returned (φ) (body : List Stmt) (h : allCheckedL body = true) :
    execL φ body {} = spec φ (sitesL body) {} := (execL_eq_spec φ body {} h rfl).1

-- negative witness: an unchecked error-capable call inside a nest lets a later call overwrite the error
def bad : List Stmt := [.nest [.call 1 true false, .call 2 true false], .call 3 true true]
def plan : Site → Option Err := fun s => if s = 1 then some 7 else none
example : (execL plan bad {}).err = none ∧ (execL plan bad {}).trace = [1, 2, 3] := by decide
example : (spec plan (sitesL bad) {}).err = some 7 ∧ (spec plan (sitesL bad) {}).trace = [1] := by decide
-- non-vacuity
def good : List Stmt := [.nest [.call 1 true true, .call 2 true true], .call 3 true true]
example : allCheckedL good = true ∧ (execL plan good {}).trace = [1] ∧ (execL plan good {}).err = some 7 := by decide
