#!/bin/sh
# Build the framework from files on disk only (offline): Go tools, Lean project incl. the driver.
set -e
cd "$(dirname "$0")"
export GOFLAGS=-mod=mod GOPROXY=off GOSUMDB=off GOTOOLCHAIN=local
mkdir -p tools/bin evidence replays
(cd tools && go build -o bin/extract ./cmd/extract && go build -o bin/harness ./cmd/harness)
tools/bin/extract "${VERIF_REPO:-/repo}" lean/Convergen/Generated || true
(cd lean && lake build Convergen driver)
echo "setup done"
