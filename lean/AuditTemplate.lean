import Lean
--IMPORTS--
/-!
Audit: lists every theorem of the given modules with the axioms it depends on.
`./check` instantiates this template (imports + module list) and parses the output.
-/
open Lean Elab Command

def auditModules : List Name := [--MODULES--]

run_cmd do
  let env ← getEnv
  let names := env.header.moduleNames
  let mut out : Array (Name × Array Name) := #[]
  for (n, ci) in env.constants.toList do
    if n.isInternal then continue
    match ci with
    | .thmInfo _ =>
      match env.getModuleIdxFor? n with
      | some idx =>
        if auditModules.contains (names[idx.toNat]!) then
          let axs ← collectAxioms n
          out := out.push (n, axs)
      | none => pure ()
    | _ => pure ()
  for (n, axs) in out.qsort (fun a b => a.1.toString < b.1.toString) do
    IO.println s!"AXIOMS {n} {axs.toList}"
