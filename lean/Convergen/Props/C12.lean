import Convergen.Props.C15
/-!
# C12 — regeneration ignores whatever is already at the output path   (partial)

The theorems hold for every `core` that is a function of the *visible* world (the output path
withheld) — which is what `NewParser`'s `ParseFile` filter is meant to guarantee.  What `go list`
reads of the withheld file (its package clause and imports) is outside the model: the history
sweep explores it (every truncation of the previous output).
-/
namespace Convergen.Props.C12
open Convergen

variable (cfg : Config) (core : World → Config → CoreResult)

/-- two worlds that differ at most at the output path -/
def SameExceptOutput (w₁ w₂ : World) : Prop := w₁.remove cfg.output = w₂.remove cfg.output

theorem same_get (w₁ w₂ : World) (h : SameExceptOutput cfg w₁ w₂) (p : String) (hp : p ≠ cfg.output) :
    w₁.get p = w₂.get p := by
  have := congrArg (fun w => w.get p) h
  simpa [hp] using this

theorem same_dirs (w₁ w₂ : World) (h : SameExceptOutput cfg w₁ w₂) : w₁.dirs = w₂.dirs := by
  have := congrArg World.dirs h
  simpa using this

theorem same_visible (w₁ w₂ : World) (h : SameExceptOutput cfg w₁ w₂) : visible w₁ cfg = visible w₂ cfg := h

/-- what a run *delivers*: exit status, both streams and the bytes at the output path afterwards
when it wrote them -/
theorem afterCore_same (r : CoreResult) (w₁ w₂ : World) (hd : w₁.dirs = w₂.dirs) :
    (afterCore cfg r w₁).exit = (afterCore cfg r w₂).exit ∧
    (afterCore cfg r w₁).stdout = (afterCore cfg r w₂).stdout ∧
    (afterCore cfg r w₁).stderr = (afterCore cfg r w₂).stderr ∧
    ((afterCore cfg r w₁).exit = 0 → cfg.dryRun = false →
      (afterCore cfg r w₁).world.get cfg.output = (afterCore cfg r w₂).world.get cfg.output) := by
  have hw : w₁.writable cfg.output = w₂.writable cfg.output := by unfold World.writable; rw [hd]
  unfold afterCore
  cases r with
  | panic e o => simp
  | error e o => simp
  | formatError c e o => simp
  | ok bytes e o =>
    simp only [hw]
    by_cases hdry : cfg.dryRun = true
    · simp [hdry]
    · by_cases hwr : w₂.writable cfg.output = true
      · simp [hdry, hwr]
      · simp [hdry, hwr]

/-- **T12.1 (the run ignores the output path).** For worlds that differ only at the output path
(input, output and log pairwise distinct) a run ends with the same exit status, the same stdout and
stderr, and — when it succeeds and is not dry — the same bytes at the output path. -/
theorem run_ignores_output (w₁ w₂ : World) (h : SameExceptOutput cfg w₁ w₂)
    (hio : cfg.input ≠ cfg.output) (hlo : cfg.log ≠ cfg.output) :
    (run cfg core w₁).exit = (run cfg core w₂).exit ∧
    (run cfg core w₁).stdout = (run cfg core w₂).stdout ∧
    (run cfg core w₁).stderr = (run cfg core w₂).stderr ∧
    ((run cfg core w₁).exit = 0 → cfg.dryRun = false →
      (run cfg core w₁).world.get cfg.output = (run cfg core w₂).world.get cfg.output) := by
  have hd := same_dirs cfg w₁ w₂ h
  unfold run openLog
  have hwl : w₁.writable cfg.log = w₂.writable cfg.log := by unfold World.writable; rw [hd]
  by_cases hl : cfg.log = ""
  · simp only [hl, beq_self_eq_true, ↓reduceIte]
    unfold runFrom
    rw [same_get cfg w₁ w₂ h cfg.input hio, same_visible cfg w₁ w₂ h]
    cases w₂.get cfg.input with
    | none => simp
    | some _ =>
      simp only
      split
      · simp
      · exact afterCore_same cfg _ w₁ w₂ hd
  · have hl' : (cfg.log == "") = false := by simpa using hl
    simp only [hl', Bool.false_eq_true, ↓reduceIte, hwl]
    by_cases hw : w₂.writable cfg.log = true
    · simp only [hw, ↓reduceIte]
      have h' : SameExceptOutput cfg (w₁.put cfg.log "") (w₂.put cfg.log "") := by
        unfold SameExceptOutput
        rw [World.remove_put_comm _ _ _ _ hlo, World.remove_put_comm _ _ _ _ hlo, h]
      unfold runFrom
      rw [same_get cfg _ _ h' cfg.input hio, same_visible cfg _ _ h']
      cases (w₂.put cfg.log "").get cfg.input with
      | none => simp
      | some _ =>
        simp only
        split
        · simp
        · exact afterCore_same cfg _ _ _ (by simp [hd])
    · simp [hw]

/-- **T12.3 (repair).** Whatever an interrupted write left at the output path — any content `t` —
the next run behaves as on the original world. -/
theorem repair (w : World) (t : String) (hio : cfg.input ≠ cfg.output) (hlo : cfg.log ≠ cfg.output) :
    (run cfg core (w.put cfg.output t)).exit = (run cfg core w).exit ∧
    (run cfg core (w.put cfg.output t)).stdout = (run cfg core w).stdout ∧
    (run cfg core (w.put cfg.output t)).stderr = (run cfg core w).stderr ∧
    ((run cfg core (w.put cfg.output t)).exit = 0 → cfg.dryRun = false →
      (run cfg core (w.put cfg.output t)).world.get cfg.output = (run cfg core w).world.get cfg.output) := by
  apply run_ignores_output cfg core _ _ _ hio hlo
  unfold SameExceptOutput World.remove World.put
  congr 1
  funext q
  by_cases hq : q = cfg.output <;> simp [hq]

/-- a successful, non-dry run has written its bytes at the output path -/
theorem success_writes (w : World) (hl : cfg.log = "") (h0 : (run cfg core w).exit = 0) (hd : cfg.dryRun = false) :
    ∃ bytes, (run cfg core w).world = w.put cfg.output bytes := by
  unfold run openLog at h0 ⊢
  simp only [hl, beq_self_eq_true, ↓reduceIte] at h0 ⊢
  unfold runFrom at h0 ⊢
  cases hi : w.get cfg.input with
  | none => simp [hi] at h0
  | some _ =>
    simp only [hi] at h0 ⊢
    split at h0
    · simp at h0
    · rename_i hne
      simp only [hne, Bool.false_eq_true, ↓reduceIte]
      unfold afterCore at h0 ⊢
      cases hc : core (visible w cfg) cfg with
      | panic e o => simp [hc] at h0
      | error e o => simp [hc] at h0
      | formatError c e o => simp [hc] at h0
      | ok bytes e o =>
        simp only [hc, hd, Bool.false_eq_true, ↓reduceIte] at h0 ⊢
        by_cases hw : w.writable cfg.output = true
        · exact ⟨bytes, by simp [hw]⟩
        · simp [hw] at h0

/-- **T12.2 (idempotence).** Running the generator again right after a successful run (no `-log`)
succeeds again and leaves the same bytes at the output path. -/
theorem idempotent (w : World) (hio : cfg.input ≠ cfg.output) (hl : cfg.log = "") (hout : cfg.output ≠ "")
    (h0 : (run cfg core w).exit = 0) (hd : cfg.dryRun = false) :
    (run cfg core (run cfg core w).world).exit = 0 ∧
    (run cfg core (run cfg core w).world).world.get cfg.output = (run cfg core w).world.get cfg.output := by
  obtain ⟨bytes, hw⟩ := success_writes cfg core w hl h0 hd
  have hlo : cfg.log ≠ cfg.output := by rw [hl]; exact fun h => hout h.symm
  obtain ⟨h1, _, _, h4⟩ := repair cfg core w bytes hio hlo
  have e1 : (run cfg core (run cfg core w).world).exit = 0 := by rw [hw, h1]; exact h0
  refine ⟨e1, ?_⟩
  rw [hw] at e1 ⊢
  rw [h4 e1 hd, hw]

/-- the premise `input ≠ output` is needed: with `-out` equal to the input the loader withholds the
setup file itself; the run is rejected (exit 1; before the repair of DESIGN §5 #26 it crashed) -/
def wIn : World := { files := fun p => if p = "a.go" then some "src" else none, dirs := fun d => d == "." }
example : (run { input := "a.go", output := "a.go", log := "", dryRun := false, prints := false }
    (fun _ _ => .ok "X" [] []) wIn).exit = 1 := by decide

/-- non-vacuity of T12.3: stale content at the output path is replaced by the same bytes -/
example : (run { input := "a.go", output := "a.gen.go", log := "", dryRun := false, prints := false }
    (fun _ _ => .ok "X" [] []) (wIn.put "a.gen.go" "pack")).world.get "a.gen.go" = some "X" := by decide

end Convergen.Props.C12
