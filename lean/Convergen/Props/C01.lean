import Convergen.Props.C04
import Convergen.Props.C16
/-!
# C01 — every successfully generated file is valid Go that compiles in its package   (partial)

The typing facts that are convergen's own responsibility, over the `go/types` oracle relations:
what `castNode` hands to an assignment fits the destination type, and the slice statements are
chosen only for assignable (or, opted in, convertible) element types.  Whether the *text* then
type-checks is judged by the Go compiler on every swept case; the deviations found there are listed
as findings with witnesses here.
-/
namespace Convergen.Props.C01
open Convergen

variable (ctx : BCtx)

/-- the type an expression node has for Go (a conversion has its target type, `String()` a string) -/
def nodeType (env : Env) (n : Node) : TyId := n.exprType env

/-- **T1.1.** Whatever `castNode` returns for a destination type is assignable to it — given that a
conversion `T(x)` between convertible types has type `T` and `x.String()` has type `string`. -/
theorem castNode_assignable (lhsT : TyId) (rhs n : Node) (w : List String)
    (h : ctx.castNode lhsT rhs = .ok (some n, w)) (hrefl : ∀ t, ctx.env.assignable t t = true) :
    ctx.env.assignable (nodeType ctx.env n) lhsT = true := by
  rcases C04.castNode_cases ctx lhsT rhs n w h with ⟨hn, ha⟩ | ⟨hn, _, ha, _⟩ | ⟨⟨e, hn⟩, _, _⟩
  · rw [hn]; exact ha
  · rw [hn]; exact ha
  · rw [hn]; exact hrefl lhsT

/-- the slice statements are emitted only for element types the loop body can assign / convert -/
theorem slice_statement_elements (lhs rhs : Node) (s : Stmt) (h : ctx.sliceToSlice lhs rhs = .ok (some s)) :
    ctx.env.assignable (ctx.env.sliceElem (rhs.exprType ctx.env)) (ctx.env.sliceElem (lhs.exprType ctx.env)) = true ∨
    (ctx.opts.typecast = true ∧
      ctx.env.convertible (ctx.env.sliceElem (rhs.exprType ctx.env)) (ctx.env.sliceElem (lhs.exprType ctx.env)) = true) := by
  rcases C16.slice_branch_spec ctx lhs rhs s h with h1 | h2 | h3
  · exact Or.inl h1.1
  · exact Or.inl h2.1
  · exact Or.inr ⟨h3.2.1, h3.2.2.1⟩

/-- `copy(dst, src)` is emitted only for identical element types (what the Go spec demands of
`copy`), `C16.copy_needs_identical` -/
theorem copy_elements_identical (lhs rhs : Node) (t : String)
    (h : ctx.sliceToSlice lhs rhs = .ok (some (.sliceCopy lhs rhs t))) :
    ctx.env.identical (ctx.env.sliceElem (rhs.exprType ctx.env)) (ctx.env.sliceElem (lhs.exprType ctx.env)) = true :=
  C16.copy_needs_identical ctx lhs rhs t h

/-- a conversion to a pointer type is parenthesised (the repaired DESIGN §5 #3) -/
example : BCtx.castOperator true "B" = "(*B)" ∧ BCtx.castOperator true "*int" = "(*int)" ∧ BCtx.castOperator false "ext.B" = "ext.B" := by
  decide

/-! ### regression witness of the repaired `copy()` defect: `[]string` into `[]interface{}` goes
through the element loop -/

def envCopy : Env :=
  { tys := #[ { kind := .basic, str := "string", name := "string" },
              { kind := .other, str := "interface{}", qstr := "interface{}" },
              { kind := .slice, str := "[]string", elem := 0 },
              { kind := .slice, str := "[]interface{}", elem := 1 } ],
    assignable := fun a b => a == b || (a == 0 && b == 1), convertible := fun _ _ => false,
    lookup := fun _ _ => .none, pkgPath := "p", imports := [], stringTy := 0 }

def ctxCopy : BCtx := { env := envCopy, eng := { compiles := fun _ => true, search := fun _ _ => false },
                        methodPos := "f.go:1:1", opts := {} }

example : (match ctxCopy.sliceToSlice (.field (.root "dst" 9) "Q" 3) (.field (.root "src" 9) "Q" 2) with
    | .ok (some (.sliceLoop _ _ t)) => t
    | _ => "other") = "[]interface{}" := by decide

/-! ## calls that would not compile are never built (repairs #8, #9, #32 and the error-getter argument) -/

/-- a converter's argument is never a `(value, error)` getter call, and its address is taken only
when it has one: whatever `convArg` returns either fits the parameter type as it is, or the
parameter is a pointer, the argument fits the pointed-to type and is addressable -/
theorem convArg_sound (c : FieldConverter) (rhsNode a : Node) (w : List String)
    (h : ctx.convArg c rhsNode = .ok (some a, w)) :
    rhsNode.returnsError = false ∧
    ((∃ w1, ctx.castNode c.argTy rhsNode = .ok (some a, w1)) ∨
     (ctx.env.isPtr c.argTy = true ∧ a.addressable ctx.env = true ∧
        ∃ w2, ctx.castNode (ctx.env.derefPtr c.argTy) rhsNode = .ok (some a, w2))) := by
  unfold BCtx.convArg at h
  split at h
  · cases h
  · rename_i hre
    refine ⟨by simpa using hre, ?_⟩
    cases h1 : ctx.castNode c.argTy rhsNode with
    | error e => simp only [h1] at h; cases h
    | panic p => simp only [h1] at h; cases h
    | ok r =>
      obtain ⟨a1?, w1⟩ := r
      cases a1? with
      | some a1 =>
        simp only [h1] at h
        cases h
        exact Or.inl ⟨_, rfl⟩
      | none =>
        simp only [h1] at h
        split at h
        · cases h
        · rename_i hptr
          cases h2 : ctx.castNode (ctx.env.derefPtr c.argTy) rhsNode with
          | error e => simp only [h2] at h; cases h
          | panic p => simp only [h2] at h; cases h
          | ok r2 =>
            obtain ⟨a2?, w2⟩ := r2
            cases a2? with
            | none => simp only [h2] at h; cases h
            | some a2 =>
              simp only [h2] at h
              split at h
              · rename_i hadr
                cases h
                exact Or.inr ⟨by simpa using hptr, hadr, _, rfl⟩
              · cases h

/-- a path never calls a method that needs an addressable operand on an operand that has no
address, never a method with parameters, never one whose results are not `T` or `(T, error)` -/
theorem walkPath_calls_callable (seg : String) (rest : List String) (node : Node) (typ : TyId) (m : MethodInfo)
    (n : Node) (hl : ctx.env.lookup typ (nameAt seg) = .method m)
    (h : ctx.walkPath (seg :: rest) node typ = some n) :
    (m.needsAddr = true → node.addressable ctx.env = true) ∧ (ctx.env.parseGetterReturnTypes m).isSome = true := by
  simp only [BCtx.walkPath, hl] at h
  split at h
  · cases h
  · rename_i hna
    refine ⟨?_, ?_⟩
    · intro hm
      simp only [hm, Bool.true_and, Bool.not_eq_true', Bool.not_eq_false] at hna
      exact hna
    · split at h
      · cases h
      · split at h
        · cases h
        · split at h
          · cases h
          · rename_i heq
            simp [heq]

/-- `ParseGetterReturnTypes` accepts no method with parameters -/
theorem getter_takes_no_parameters (env : Env) (m : MethodInfo) (h : (env.parseGetterReturnTypes m).isSome = true) :
    m.nparams = 0 := by
  unfold Env.parseGetterReturnTypes at h
  split at h
  · cases h
  · rename_i hn
    simpa using hn

/-- a call that also returns an error is never wrapped: whatever `castNode` returns for it is the
call itself (repair of the `string(cvE(x))` defect) -/
theorem castNode_never_wraps_error_call (lhsT : TyId) (rhs n : Node) (w : List String)
    (h : ctx.castNode lhsT rhs = .ok (some n, w)) (he : rhs.returnsError = true) : n = rhs := by
  rcases C04.castNode_cases ctx lhsT rhs n w h with h1 | h2 | h3
  · exact h1.1
  · rw [h2.2.2.2.2] at he; cases he
  · rw [h3.2.2.2] at he; cases he

/-- a function accepted for `:conv` is not variadic: the generated call `f(x)` passes one value
(repair of the `Join(s.X)` defect: `xs ...int` cannot take a `[]int` without `...`) -/
theorem converter_not_variadic (env : Env) (sc : Scope) (name : String) (sig : FuncSig) (r : TyId × TyId × Bool)
    (hl : lookupType env sc name = .func sig) (h : lookupConverterFunc env sc name = .ok r) :
    sig.variadic = false := by
  unfold lookupConverterFunc at h
  rw [hl] at h
  simp only at h
  cases hv : sig.variadic
  · rfl
  · rcases hp : sig.params with _ | ⟨a, _ | ⟨b, ps⟩⟩ <;> rcases hr : sig.results with _ | ⟨x, _ | ⟨e, _ | ⟨y, rs⟩⟩⟩ <;>
      simp [hp, hr, hv] at h

/-- a function accepted as `:preprocess` / `:postprocess` hook is not variadic: the generated call
passes each additional argument as it is -/
theorem hook_not_variadic (env : Env) (sc : Scope) (name optName pos : String) (sig : FuncSig) (m : ManipOpt)
    (hl : lookupType env sc name = .func sig) (h : lookupManipulatorFunc env sc name optName pos = .ok m) :
    sig.variadic = false := by
  unfold lookupManipulatorFunc at h
  rw [hl] at h
  simp only at h
  cases hv : sig.variadic
  · rfl
  · split at h
    · cases h
    · rcases hp : sig.params with _ | ⟨a, _ | ⟨b, ps⟩⟩ <;> simp [hp, hv] at h

end Convergen.Props.C01
