import Convergen.Props.C04
import Convergen.Props.C16
/-!
# C01 — every successfully generated file is valid Go that compiles in its package   (partial)

The typing facts that are convergen's own responsibility, over the `go/types` oracle relations:
what `castNode` hands to an assignment fits the destination type, and the slice statements are
chosen only for assignable (or, opted in, convertible) element types.  Whether the *text* then
type-checks is judged by the Go compiler on every swept case; the deviations found there are listed
as findings with witnesses here.
-/
namespace Convergen.Props.C01
open Convergen

variable (ctx : BCtx)

/-- the type an expression node has for Go (a conversion has its target type, `String()` a string) -/
def nodeType (env : Env) (n : Node) : TyId := n.exprType env

/-- **T1.1.** Whatever `castNode` returns for a destination type is assignable to it — given that a
conversion `T(x)` between convertible types has type `T` and `x.String()` has type `string`. -/
theorem castNode_assignable (lhsT : TyId) (rhs n : Node) (w : List String)
    (h : ctx.castNode lhsT rhs = .ok (some n, w)) (hrefl : ∀ t, ctx.env.assignable t t = true) :
    ctx.env.assignable (nodeType ctx.env n) lhsT = true := by
  rcases C04.castNode_cases ctx lhsT rhs n w h with ⟨hn, ha⟩ | ⟨hn, _, ha, _⟩ | ⟨⟨e, hn⟩, _, _⟩
  · rw [hn]; exact ha
  · rw [hn]; exact ha
  · rw [hn]; exact hrefl lhsT

/-- the slice statements are emitted only for element types the loop body can assign / convert -/
theorem slice_statement_elements (lhs rhs : Node) (s : Stmt) (h : ctx.sliceToSlice lhs rhs = .ok (some s)) :
    ctx.env.assignable (ctx.env.sliceElem (rhs.exprType ctx.env)) (ctx.env.sliceElem (lhs.exprType ctx.env)) = true ∨
    (ctx.opts.typecast = true ∧
      ctx.env.convertible (ctx.env.sliceElem (rhs.exprType ctx.env)) (ctx.env.sliceElem (lhs.exprType ctx.env)) = true) := by
  rcases C16.slice_branch_spec ctx lhs rhs s h with h1 | h2 | h3
  · exact Or.inl h1.1
  · exact Or.inl h2.1
  · exact Or.inr ⟨h3.2.1, h3.2.2.1⟩

/-- `copy(dst, src)` is emitted only for identical element types (what the Go spec demands of
`copy`), `C16.copy_needs_identical` -/
theorem copy_elements_identical (lhs rhs : Node) (t : String)
    (h : ctx.sliceToSlice lhs rhs = .ok (some (.sliceCopy lhs rhs t))) :
    ctx.env.identical (ctx.env.sliceElem (rhs.exprType ctx.env)) (ctx.env.sliceElem (lhs.exprType ctx.env)) = true :=
  C16.copy_needs_identical ctx lhs rhs t h

/-- a conversion to a pointer type is parenthesised (the repaired DESIGN §5 #3) -/
example : BCtx.castOperator true "B" = "(*B)" ∧ BCtx.castOperator true "*int" = "(*int)" ∧ BCtx.castOperator false "ext.B" = "ext.B" := by
  decide

/-! ### regression witness of the repaired `copy()` defect: `[]string` into `[]interface{}` goes
through the element loop -/

def envCopy : Env :=
  { tys := #[ { kind := .basic, str := "string", name := "string" },
              { kind := .other, str := "interface{}", qstr := "interface{}" },
              { kind := .slice, str := "[]string", elem := 0 },
              { kind := .slice, str := "[]interface{}", elem := 1 } ],
    assignable := fun a b => a == b || (a == 0 && b == 1), convertible := fun _ _ => false,
    lookup := fun _ _ => .none, scopeHas := fun _ => false, pkgPath := "p", imports := [], stringTy := 0 }

def ctxCopy : BCtx := { env := envCopy, eng := { compiles := fun _ => true, search := fun _ _ => false },
                        methodPos := "f.go:1:1", opts := {} }

example : (match ctxCopy.sliceToSlice (.field (.root "dst" 9) "Q" 3) (.field (.root "src" 9) "Q" 2) with
    | .ok (some (.sliceLoop _ _ t)) => t
    | _ => "other") = "[]interface{}" := by decide

end Convergen.Props.C01
