import Convergen.Model.Render
import Convergen.Model.Method
/-!
# C08 — function signatures follow the documented style / recv / reverse / error shapes

`specParams`/`specHeader` is the README table written as a function of the method shape; the
theorems relate the rendered header (`sigHead`/`sigTail`, tied to `FuncToString` by
`Bridge.funcToString_eq`) to it.
-/
namespace Convergen.Props.C08
open Convergen

def param (v : Var) : String := v.name ++ " " ++ v.fullType

/-- documented parameter list: destination first (as a pointer) in arg style, then the source
unless it is the receiver, then the additional arguments in order -/
def specParams (f : Function) : List String :=
  (if f.dstVarStyle == .arg then [f.dst.name ++ " *" ++ f.dst.typ] else []) ++
  (if f.receiver == "" then [param f.src] else []) ++
  f.additionalArgs.map param

/-- documented results: destination first in return style, `err error` last -/
def specResults (f : Function) : List String :=
  (if f.dstVarStyle == .ret then [f.dst.name ++ " " ++ f.dst.fullType] else []) ++
  (if f.retError then ["err error"] else [])

def specHead (f : Function) : String :=
  "func " ++ (if f.receiver != "" then "(" ++ f.receiver ++ " " ++ f.src.fullType ++ ") " else "") ++
  f.name ++ "(" ++ joinSep ", " (specParams f) ++ ") "

theorem joinSep_cons_prefixed (x : String) (xs : List Var) :
    joinSep ", " (x :: xs.map param) = x ++ concatMap (fun a => ", " ++ a.name ++ " " ++ a.fullType) xs := by
  induction xs generalizing x with
  | nil => simp [joinSep, concatMap]
  | cons y ys ih => simp [joinSep, concatMap, ih, param, String.append_assoc]

/-- the only shape on which the rendered parameter list is not the documented one: a receiver
(so the source is not a parameter), return style (so the destination is not one either) and at
least one additional argument — the separator logic then emits `Name(, arg0 T)`. -/
def strayComma (f : Function) : Bool :=
  f.receiver != "" && f.dstVarStyle == .ret && !f.additionalArgs.isEmpty

/-- **T8.1 (partial).** For every function shape outside `strayComma` the rendered signature head
is the documented one. -/
theorem header_eq_spec_partial (f : Function) (h : strayComma f = false) : sigHead f = specHead f := by
  unfold sigHead specHead specParams Var.ptrLessFullType
  unfold strayComma at h
  by_cases hr : f.receiver = ""
  · cases hs : f.dstVarStyle <;>
      simp [hr, joinSep_cons_prefixed, String.append_assoc, param, joinSep]
  · cases hs : f.dstVarStyle
    · -- receiver, return style: no additional arguments by `h`
      have hargs : f.additionalArgs = [] := by
        cases hl : f.additionalArgs with
        | nil => rfl
        | cons a as => simp [hr, hs, hl] at h
      simp [hr, hargs, joinSep]
    · -- receiver, arg style: the destination is the first parameter
      simp [hr, joinSep_cons_prefixed, param, String.append_assoc]

/-- the full statement (every legal shape) -/
def C08_header_full_statement : Prop := ∀ f : Function, sigHead f = specHead f

/-- it is false of the code as it is: receiver + additional argument in return style -/
def witnessFn : Function :=
  { comments := [], name := "F", receiver := "r", src := ⟨"s", "S", false, false⟩, dst := ⟨"d", "D", false, false⟩,
    additionalArgs := [⟨"a", "int", false, false⟩], retError := false, dstVarStyle := .ret, assignments := [],
    preProcess := none, postProcess := none }
example : strayComma witnessFn = true ∧ sigHead witnessFn = "func (r S) F(, a int) " ∧
    specHead witnessFn = "func (r S) F(a int) " := by decide

/-- **results.** The result list and the opening of the body are the documented ones. -/
theorem results_eq_spec (f : Function) :
    sigTail f =
      (if specResults f = [] then "" else "(" ++ joinSep ", " (specResults f) ++ ") ") ++ "{\n" ++
      (if f.dstVarStyle == .ret && f.dst.pointer then f.dst.name ++ " = &" ++ f.dst.typ ++ "{}\n" else "") := by
  unfold sigTail specResults Var.ptrLessFullType
  cases f.dstVarStyle <;> cases f.retError <;> cases f.dst.pointer <;> simp [joinSep] <;> str_eq

/-! ## names, pointer-ness and qualified types are those of the method (`createVar`) -/

/-- declared names win, defaults `src`/`dst` (swapped under `:reverse`) and `arg<i>` otherwise -/
theorem createVar_name (env : Env) (v : ParamVar) (d : String) :
    (createVar env v d).name = (if v.name == "" then d else v.name) ∧
    (createVar env v d).pointer = env.isPtr v.ty ∧
    (createVar env v d).typ = env.typeNameF (env.derefPtr v.ty) := ⟨rfl, rfl, rfl⟩

/-- the type text is the package-qualified name of the operand type: the import's name in the setup
file for an imported named type, the bare name for a local one -/
theorem typeName_named (env : Env) (fuel : Nat) (t : TyId) (hk : env.kind t = .named) (p : String)
    (hp : (env.ty t).pkgPath = some p) :
    env.typeName (fuel + 1) t =
      (match env.importName p with
       | some n => n ++ "." ++ (env.ty t).name
       | none => (env.ty t).name) := by
  simp only [Env.typeName, hk, hp]
  cases env.importName p <;> rfl

/-- illegal: `:reverse` together with additional arguments is rejected before anything is built -/
theorem reverse_with_args_rejected (env : Env) (eng : Engine) (m : MethodEntry)
    (src dst a : ParamVar) (rest : List ParamVar) (more : List ParamVar)
    (hp : m.decl.params = src :: a :: rest) (hr : m.decl.results = dst :: more) (hrev : m.opts.reverse = true) :
    ∃ msg, createFunction env eng m = .error [msg] := by
  unfold createFunction
  simp [hp, hr, hrev]

/-- illegal: `:reverse` without `:style arg` is rejected by the notation parser -/
theorem reverse_needs_style_arg (env : Env) (sc : Scope) (eng : Engine) (ops : List String)
    (ns : List Comment) (o : Options) (res : ParseResult)
    (h : parseNotations env sc eng ops ns o = .ok res) : ¬ (res.opts.reverse = true ∧ res.opts.style = .ret) := by
  unfold parseNotations at h
  split at h
  · rename_i r pr heq
    split at h
    · cases h
    · rename_i hc
      cases h
      intro ⟨h1, h2⟩
      apply hc
      simp [h1, h2]
  · cases h
  · cases h

/-- non-vacuity: an ordinary shape satisfies the hypothesis and renders as documented -/
def plainFn : Function :=
  { comments := [], name := "ToDst", receiver := "", src := ⟨"src", "S", true, false⟩, dst := ⟨"dst", "D", true, false⟩,
    additionalArgs := [⟨"n", "int", false, false⟩], retError := true, dstVarStyle := .arg, assignments := [],
    preProcess := none, postProcess := none }
example : strayComma plainFn = false ∧ sigHead plainFn = "func ToDst(dst *D, src *S, n int) " ∧
    sigTail plainFn = "(err error) {\n" := by decide

end Convergen.Props.C08
