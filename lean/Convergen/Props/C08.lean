import Convergen.Model.Render
import Convergen.Model.Method
/-!
# C08 — function signatures follow the documented style / recv / reverse / error shapes

`specParams`/`specHeader` is the README table written as a function of the method shape; the
theorems relate the rendered header (`sigHead`/`sigTail`, tied to `FuncToString` by
`Bridge.funcToString_eq`) to it.
-/
namespace Convergen.Props.C08
open Convergen

/-- documented parameter list: destination first (as a pointer) in arg style, then the source
unless it is the receiver, then the additional arguments in order -/
def specParams (f : Function) : List String :=
  (if f.dstVarStyle == .arg then [f.dst.name ++ " *" ++ f.dst.typ] else []) ++
  (if f.receiver == "" then [param f.src] else []) ++
  f.additionalArgs.map param

/-- documented results: destination first in return style, `err error` last -/
def specResults (f : Function) : List String :=
  (if f.dstVarStyle == .ret then [f.dst.name ++ " " ++ f.dst.fullType] else []) ++
  (if f.retError then ["err error"] else [])

def specHead (f : Function) : String :=
  "func " ++ (if f.receiver != "" then "(" ++ f.receiver ++ " " ++ f.src.fullType ++ ") " else "") ++
  f.name ++ "(" ++ joinSep ", " (specParams f) ++ ") "

/-- **T8.1 (every shape).** The rendered signature head is the documented one: receiver first when
there is one, then `Name(` and the parameters separated by `", "` — destination (arg style), source
(unless receiver), additional arguments in order.  (`Bridge.funcToString_eq` + `Bridge.params_eq` tie
`sigHead` to the separator logic of `FuncToString`; before the repair of DESIGN §5 #13 the shape
"receiver, return style, additional arguments" rendered `Name(, arg0 T)`.) -/
theorem header_eq_spec (f : Function) : sigHead f = specHead f := rfl

/-- regression witness of the stray comma -/
def witnessFn : Function :=
  { comments := [], name := "F", receiver := "r", src := ⟨"s", "S", false, false⟩, dst := ⟨"d", "D", false, false⟩,
    additionalArgs := [⟨"a", "int", false, false⟩, ⟨"b", "string", true, false⟩], retError := false, dstVarStyle := .ret,
    assignments := [], preProcess := none, postProcess := none }
example : sigHead witnessFn = "func (r S) F(a int, b *string) " := by decide

/-- parameters are never empty and never start with a separator -/
theorem params_nonempty_items (f : Function) : ∀ p ∈ specParams f, p ≠ "" := by
  intro p hp
  unfold specParams at hp
  simp only [List.mem_append, List.mem_map] at hp
  have ne : ∀ (a b : String), a ++ " " ++ b ≠ "" := by
    intro a b h
    have := congrArg String.length h
    simp [String.length_append] at this
  rcases hp with (hp | hp) | ⟨a, _, hp⟩
  · split at hp
    · simp only [List.mem_singleton] at hp
      subst hp
      intro h
      have := congrArg String.length h
      simp [String.length_append] at this
    · cases hp
  · split at hp
    · simp only [List.mem_singleton] at hp
      subst hp; exact ne _ _
    · cases hp
  · subst hp; exact ne _ _

/-- **results.** The result list and the opening of the body are the documented ones. -/
theorem results_eq_spec (f : Function) :
    sigTail f =
      (if specResults f = [] then "" else "(" ++ joinSep ", " (specResults f) ++ ") ") ++ "{\n" ++
      (if f.dstVarStyle == .ret && f.dst.pointer then f.dst.name ++ " = &" ++ f.dst.typ ++ "{}\n" else "") := by
  unfold sigTail specResults Var.ptrLessFullType
  cases f.dstVarStyle <;> cases f.retError <;> cases f.dst.pointer <;> simp [joinSep] <;> str_eq

/-! ## names, pointer-ness and qualified types are those of the method (`createVar`) -/

/-- declared names win, defaults `src`/`dst` (swapped under `:reverse`) and `arg<i>` otherwise — also
for the blank name `_`, which a function body cannot refer to -/
theorem createVar_name (env : Env) (v : ParamVar) (d : String) :
    (createVar env v d).name = (if v.name == "" || v.name == "_" then d else v.name) ∧
    (createVar env v d).pointer = env.isPtr v.ty ∧
    (createVar env v d).typ = env.typeNameF (env.derefPtr v.ty) := ⟨rfl, rfl, rfl⟩

/-- no variable of a generated function is called `_` unless its default name is -/
theorem createVar_not_blank (env : Env) (v : ParamVar) (d : String) (hd : d ≠ "_") :
    (createVar env v d).name ≠ "_" := by
  simp only [createVar]
  split
  · exact hd
  · rename_i h
    simp only [Bool.or_eq_true, beq_iff_eq, not_or] at h
    exact h.2

/-- the type text is the package-qualified name of the operand type: the import's name in the setup
file for an imported named type, the bare name for a local one and for one of a dot-imported package -/
theorem typeName_named (env : Env) (fuel : Nat) (t : TyId) (hk : env.kind t = .named) (p : String)
    (hg : (env.ty t).hasTypeArgs = false) (hp : (env.ty t).pkgPath = some p) :
    env.typeName (fuel + 1) t =
      (match env.importName p with
       | some n => if n == "." then (env.ty t).name else n ++ "." ++ (env.ty t).name
       | none => (env.ty t).name) := by
  simp only [Env.typeName, hk, hp, hg, Bool.false_eq_true, ↓reduceIte]
  cases env.importName p <;> rfl

/-- illegal: `:reverse` together with additional arguments is rejected before anything is built -/
theorem reverse_with_args_rejected (env : Env) (eng : Engine) (m : MethodEntry)
    (src dst a : ParamVar) (rest : List ParamVar) (more : List ParamVar)
    (hp : m.decl.params = src :: a :: rest) (hr : m.decl.results = dst :: more) (hrev : m.opts.reverse = true) :
    ∃ msg, createFunction env eng m = .error [msg] := by
  unfold createFunction
  simp [hp, hr, hrev]

/-- illegal: `:reverse` without `:style arg` is rejected by the notation parser -/
theorem reverse_needs_style_arg (env : Env) (sc : Scope) (eng : Engine) (ops : List String)
    (ns : List Comment) (o : Options) (res : ParseResult)
    (h : parseNotations env sc eng ops ns o = .ok res) : ¬ (res.opts.reverse = true ∧ res.opts.style = .ret) := by
  unfold parseNotations at h
  split at h
  · rename_i r pr heq
    split at h
    · cases h
    · rename_i hc
      cases h
      intro ⟨h1, h2⟩
      apply hc
      simp [h1, h2]
  · cases h
  · cases h

/-- non-vacuity: an ordinary shape satisfies the hypothesis and renders as documented -/
def plainFn : Function :=
  { comments := [], name := "ToDst", receiver := "", src := ⟨"src", "S", true, false⟩, dst := ⟨"dst", "D", true, false⟩,
    additionalArgs := [⟨"n", "int", false, false⟩], retError := true, dstVarStyle := .arg, assignments := [],
    preProcess := none, postProcess := none }
example : sigHead plainFn = "func ToDst(dst *D, src *S, n int) " ∧
    sigTail plainFn = "(err error) {\n" := by decide

end Convergen.Props.C08

namespace Convergen.Props.C08
open Convergen

/-! ## no name is declared twice in a generated signature (repair of the `redeclared` finding) -/

theorem firstDuplicate_none (seen l : List String) (h : firstDuplicate seen l = none) :
    ∀ n ∈ l, n ≠ "_" → n ∉ seen := by
  induction l generalizing seen with
  | nil => intro n hn; cases hn
  | cons a rest ih =>
    intro n hn hne
    simp only [firstDuplicate] at h
    split at h
    · cases h
    · rename_i hc
      rcases List.mem_cons.mp hn with rfl | hn'
      · intro hmem
        apply hc
        simp [hne, hmem]
      · have := ih (a :: seen) h n hn' hne
        intro hmem
        exact this (List.mem_cons_of_mem _ hmem)

/-- if `firstDuplicate` finds nothing, the names other than `_` are pairwise distinct -/
theorem firstDuplicate_none_nodup (seen l : List String) (h : firstDuplicate seen l = none) :
    (l.filter (· != "_")).Nodup := by
  induction l generalizing seen with
  | nil => exact List.nodup_nil
  | cons a rest ih =>
    simp only [firstDuplicate] at h
    split at h
    · cases h
    · have hrest := ih (a :: seen) h
      by_cases ha : a = "_"
      · simp [ha, hrest]
      · have : (a != "_") = true := by simpa using ha
        simp only [List.filter_cons, this, ↓reduceIte, List.nodup_cons]
        refine ⟨?_, hrest⟩
        intro hmem
        have hmem' : a ∈ rest := (List.mem_filter.mp hmem).1
        exact firstDuplicate_none (a :: seen) rest h a hmem' ha List.mem_cons_self

example : firstDuplicate [] ["x1", "d", "x0", "x1"] = some "x1" ∧ firstDuplicate [] ["src", "dst", "_", "_", "err"] = none := by
  decide

end Convergen.Props.C08

namespace Convergen.Props.C08
open Convergen

/-- the names a generated function declares in its outermost scope -/
def declaredNames (f : Function) : List String :=
  [f.src.name, f.dst.name] ++ f.additionalArgs.map (·.name) ++ (if f.retError then ["err"] else [])

theorem buildFunction_fn (env : Env) (eng : Engine) (m : MethodEntry) (src dst : ParamVar) (additional : List ParamVar)
    (srcVar dstVar : Var) (argVars : List Var) (b : Built)
    (h : buildFunction env eng m src dst additional srcVar dstVar argVars = .ok b) (hl : b.lateError = none) :
    declaredNames b.fn = scopeNames srcVar dstVar argVars (m.retError env) := by
  unfold buildFunction at h
  simp only [bind, Outcome.bind, pure] at h
  split at h
  · split at h
    · cases h; simp at hl
    · split at h
      · cases h; simp at hl
      · cases h
      · split at h
        · cases h; simp at hl
        · cases h
        · cases h; rfl
  · cases h
  · cases h

/-- a function that copies slice elements in a loop has no operand called `i` or `e` (the repaired
shadowing: `for i, e := range src.Items { i.Items[i] = e }`) -/
theorem loop_names_free (env : Env) (eng : Engine) (m : MethodEntry) (src dst : ParamVar) (additional : List ParamVar)
    (srcVar dstVar : Var) (argVars : List Var) (b : Built)
    (h : buildFunction env eng m src dst additional srcVar dstVar argVars = .ok b) (hl : b.lateError = none)
    (hloop : Stmt.listUsesLoop b.stmts = true) :
    ∀ n ∈ scopeNames srcVar dstVar argVars (m.retError env), n ≠ "i" ∧ n ≠ "e" := by
  unfold buildFunction at h
  simp only [bind, Outcome.bind, pure] at h
  split at h
  · rename_i stmts _
    split at h
    · cases h; simp at hl
    · rename_i hsh
      have hstmts : b.stmts = stmts := by
        split at h
        · cases h; rfl
        · cases h
        · split at h
          · cases h; rfl
          · cases h
          · cases h; rfl
      rw [hstmts] at hloop
      unfold shadowedByLoop at hsh
      simp only [hloop, if_true] at hsh
      intro n hn
      have := List.find?_eq_none.mp hsh n hn
      simpa using this
  · cases h
  · cases h

/-- **every function `CreateFunction` hands to the generator declares each name once** (`_` aside) -/
theorem checked_names_distinct (env : Env) (eng : Engine) (m : MethodEntry) (src dst : ParamVar)
    (additional : List ParamVar) (srcVar dstVar : Var) (argVars : List Var) (b : Built)
    (h : checkNamesAndBuild env eng m src dst additional srcVar dstVar argVars = .ok b) (hl : b.lateError = none) :
    ((declaredNames b.fn).filter (· != "_")).Nodup := by
  unfold checkNamesAndBuild at h
  split at h
  · cases h
  · rename_i hnone
    rw [buildFunction_fn env eng m src dst additional srcVar dstVar argVars b h hl]
    exact firstDuplicate_none_nodup [] _ hnone

/-- and `CreateFunction` reaches the generator only through that check -/
theorem createFunction_through_check (env : Env) (eng : Engine) (m : MethodEntry) (b : Built)
    (built : List String := []) (h : createFunction env eng m built = .ok b) :
    ∃ src dst additional srcVar dstVar argVars,
      checkNamesAndBuild env eng m src dst additional srcVar dstVar argVars = .ok b := by
  unfold createFunction at h
  split at h
  · simp only at h
    repeat' (split at h)
    all_goals first
      | cases h
      | exact ⟨_, _, _, _, _, _, h⟩
  · cases h

end Convergen.Props.C08
