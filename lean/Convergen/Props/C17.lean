import Convergen.Model.Parse
/-!
# C17 — exactly the marked interfaces of the input file are converted
-/
namespace Convergen.Props.C17
open Convergen

variable (env : Env) (sc : Scope) (eng : Engine) (file : FileFacts) (intfName : String)

/-- an entry made by one loop iteration is for the visited object, and that object satisfied the
selection rule in the state of that moment -/
theorem entryStep_entry (obj : ScopeObj) (st st' : PState) (e : IntfEntry)
    (h : entryStep env sc eng intfName obj st = .entry e st') :
    e.obj = obj ∧ isTargetIntf intfName st obj = true := by
  unfold entryStep at h
  by_cases ht : isTargetIntf intfName st obj = true
  · simp only [ht, Bool.not_true, Bool.false_eq_true, ↓reduceIte] at h
    split at h
    · cases h
    · cases h
    · cases h; exact ⟨rfl, ht⟩
  · simp [ht] at h

/-- an object that does not satisfy the selection rule is passed over and nothing changes -/
theorem entryStep_notTarget (obj : ScopeObj) (st : PState) (h : isTargetIntf intfName st obj = false) :
    entryStep env sc eng intfName obj st = .notTarget := by
  unfold entryStep; simp [h]

/-- an object that satisfies the rule is never passed over: it becomes an entry or the run stops -/
theorem entryStep_target (obj : ScopeObj) (st : PState) (h : isTargetIntf intfName st obj = true) :
    entryStep env sc eng intfName obj st ≠ .notTarget := by
  unfold entryStep
  simp only [h, Bool.not_true, Bool.false_eq_true, ↓reduceIte]
  split <;> simp

/-- **T17.1 (selection).** Every entry is a declared interface type of the setup file that is named
`Convergen` or was marked — i.e. satisfied `isTargetIntf` when it was visited; entries keep scope
order. -/
theorem entries_are_file_interfaces :
    ∀ (objs : List ScopeObj) (acc : List IntfEntry) (st : PState) (res : List IntfEntry) (st' : PState),
      (∀ e ∈ acc, e.obj.isType = true ∧ e.obj.isInterface = true ∧ e.obj.inSetupFile = true) →
      findConvergenEntries env sc eng file intfName objs acc st = .ok (res, st') →
      ∀ e ∈ res, e.obj.isType = true ∧ e.obj.isInterface = true ∧ e.obj.inSetupFile = true := by
  intro objs
  induction objs with
  | nil =>
    intro acc st res st' hacc h
    unfold findConvergenEntries at h
    split at h
    · unfold failTwice at h; cases h
    · cases h; exact hacc
  | cons obj rest ih =>
    intro acc st res st' hacc h
    unfold findConvergenEntries at h
    cases hs : entryStep env sc eng intfName obj st with
    | notTarget => simp only [hs] at h; exact ih acc st res st' hacc h
    | halt hh st2 => simp only [hs] at h; cases h
    | entry e st2 =>
      simp only [hs] at h
      obtain ⟨he, ht⟩ := entryStep_entry env sc eng intfName obj st st2 e hs
      refine ih _ _ res st' ?_ h
      intro e' he'
      simp only [List.mem_append, List.mem_singleton] at he'
      rcases he' with he' | he'
      · exact hacc e' he'
      · subst he'
        unfold isTargetIntf at ht
        simp only [Bool.and_eq_true] at ht
        rw [he]; exact ⟨ht.1.1.1, ht.1.1.2, ht.1.2⟩

/-- the entries are exactly the visited objects that satisfied the rule, in order: the object
list of the result is a sublist of the scope -/
theorem entries_sublist :
    ∀ (objs : List ScopeObj) (acc : List IntfEntry) (st : PState) (res : List IntfEntry) (st' : PState),
      findConvergenEntries env sc eng file intfName objs acc st = .ok (res, st') →
      ∃ more, res = acc ++ more ∧ List.Sublist (more.map (·.obj)) objs := by
  intro objs
  induction objs with
  | nil =>
    intro acc st res st' h
    unfold findConvergenEntries at h
    split at h
    · unfold failTwice at h; cases h
    · cases h; exact ⟨[], by simp, by simp⟩
  | cons obj rest ih =>
    intro acc st res st' h
    unfold findConvergenEntries at h
    cases hs : entryStep env sc eng intfName obj st with
    | notTarget =>
      simp only [hs] at h
      obtain ⟨more, h1, h2⟩ := ih acc st res st' h
      exact ⟨more, h1, List.Sublist.cons _ h2⟩
    | halt hh st2 => simp only [hs] at h; cases h
    | entry e st2 =>
      simp only [hs] at h
      obtain ⟨he, _⟩ := entryStep_entry env sc eng intfName obj st st2 e hs
      obtain ⟨more, h1, h2⟩ := ih _ _ res st' h
      refine ⟨e :: more, by simp [h1], ?_⟩
      simp only [List.map_cons, he]
      exact List.Sublist.cons_cons _ h2

/-- **T17.4 (a file without converter interface is rejected).** -/
theorem none_rejected (st : PState) :
    ∃ st', findConvergenEntries env sc eng file intfName [] [] st = .error (.error, st') := by
  unfold findConvergenEntries
  simp [failTwice]

/-- interfaces of other files, even when marked or named `Convergen`, and objects that are not
interfaces never satisfy the rule -/
theorem other_file_ignored (st : PState) (obj : ScopeObj) (h : obj.inSetupFile = false) :
    isTargetIntf intfName st obj = false := by
  unfold isTargetIntf; simp [h]

theorem non_interface_ignored (st : PState) (obj : ScopeObj) (h : obj.isInterface = false) :
    isTargetIntf intfName st obj = false := by
  unfold isTargetIntf; simp [h]

/-- a package-level variable (or function) whose type is an interface is no interface declaration:
it is never converted, whatever its name or doc comment says (since the repair of the var-as-converter
defect) -/
theorem non_type_ignored (st : PState) (obj : ScopeObj) (h : obj.isType = false) :
    isTargetIntf intfName st obj = false := by
  unfold isTargetIntf; simp [h]

/-- … and so it is passed over by the loop: the run goes on as if it were not there -/
theorem non_type_passed_over (obj : ScopeObj) (rest : List ScopeObj) (acc : List IntfEntry) (st : PState)
    (h : obj.isType = false) :
    findConvergenEntries env sc eng file intfName (obj :: rest) acc st =
      findConvergenEntries env sc eng file intfName rest acc st := by
  have ht : isTargetIntf intfName st obj = false := non_type_ignored intfName st obj h
  conv => lhs; unfold findConvergenEntries
  simp [entryStep, ht]

/-- the `:convergen` marker: `// :convergen` matches, a commented-out or quoted one does not,
nor does a longer word (`\b`) -/
example : matchConvergen "// :convergen" = true ∧ matchConvergen "//:convergen" = true ∧
    matchConvergen "  // :convergen extra" = true ∧ matchConvergen "// // :convergen" = false ∧
    matchConvergen "// see :convergen" = false ∧ matchConvergen "// :convergence" = false ∧
    matchConvergen "/* :convergen */" = false := by decide

end Convergen.Props.C17
