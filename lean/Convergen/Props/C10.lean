import Convergen.Model.Render
import Convergen.Model.Method
/-!
# C10 — pre/post hooks run once, in order, on the real operands (text and acceptance)
-/
namespace Convergen.Props.C10
open Convergen

/-- **T10.1 (order, once).** The function text is: doc, signature, allocation of the destination,
then the preprocess call (if any) *once*, then all assignments, then the postprocess call (if
any) *once*, then `return`.  (`Bridge.funcToString_eq` ties this to `FuncToString`.) -/
theorem hook_order_once (f : Function) :
    funcToString f = docLines f ++ sigHead f ++ sigTail f ++ optManip f.preProcess f ++
      bodyAssignments f ++ optManip f.postProcess f ++ funcTail f := rfl

/-- no hook, no call -/
theorem no_hook_no_call (f : Function) (h1 : f.preProcess = none) (h2 : f.postProcess = none) :
    funcToString f = docLines f ++ sigHead f ++ sigTail f ++ bodyAssignments f ++ funcTail f := by
  unfold funcToString optManip
  simp [h1, h2]

/-- how an operand is adapted to the hook's declared pointer-ness -/
theorem hookArg_cases (v : Var) (isPtr : Bool) :
    hookArg v isPtr =
      (if v.pointer = isPtr then v.name else if v.pointer then "*" ++ v.name else "&" ++ v.name) := by
  unfold hookArg
  cases v.pointer <;> cases isPtr <;> simp

/-- **T10.2 (arguments).** The call passes destination, source, then the additional arguments in
order — the latter exactly when the hook declares them. -/
theorem call_args (m : Manipulator) (src dst : Var) (args : List Var) :
    manipulatorToString m src dst args =
      (if m.retError then "err = " else "") ++ (if m.pkg != "" then m.pkg ++ "." else "") ++ m.name ++ "(" ++
      joinSep ", " ([hookArg dst m.isDstPtr, hookArg src m.isSrcPtr] ++
        (if m.hasAdditionalArgs then args.map (·.name) else [])) ++ ")\n" ++
      (if m.retError then "if err != nil {\nreturn\n}\n" else "") := by
  have hj : ∀ (x : String) (l : List Var), joinSep ", " (x :: l.map (·.name)) = x ++ concatMap (fun a => ", " ++ a.name) l := by
    intro x l
    induction l generalizing x with
    | nil => simp [joinSep, concatMap]
    | cons y ys ih => simp [joinSep, concatMap, ih, String.append_assoc]
  unfold manipulatorToString
  cases m.hasAdditionalArgs
  · simp [joinSep, String.append_assoc]
  · simp only [↓reduceIte, List.cons_append, List.nil_append]
    have : joinSep ", " (hookArg dst m.isDstPtr :: hookArg src m.isSrcPtr :: args.map (·.name)) =
        hookArg dst m.isDstPtr ++ ", " ++ (hookArg src m.isSrcPtr ++ concatMap (fun a => ", " ++ a.name) args) := by
      cases args with
      | nil => simp [joinSep, concatMap]
      | cons a as =>
        have := hj (hookArg src m.isSrcPtr) (a :: as)
        simp only [List.map_cons] at this
        simp [joinSep, this, List.map_cons]
    rw [this]
    simp [String.append_assoc]

/-- the pointer-ness the operand *variable* really has inside the generated function: in arg style
the destination parameter is always a pointer, whatever the method declares -/
def effectivePointer (style : DstVarStyle) (declaredPtr : Bool) : Bool :=
  if style == .arg then true else declaredPtr

/-- **T10.2' (the adaptation uses the real pointer-ness).** `CreateFunction` hands the generator a
destination `Var` whose `pointer` flag is the effective one (the repaired DESIGN §5 #12), so the
hook argument is `dst` when hook and variable agree, `*dst` / `&dst` otherwise. -/
theorem dst_adaptation (v : Var) (style : DstVarStyle) (isPtr : Bool) :
    hookArg (if style == .arg then { v with pointer := true } else v) isPtr =
      (if effectivePointer style v.pointer = isPtr then v.name
       else if effectivePointer style v.pointer then "*" ++ v.name else "&" ++ v.name) := by
  unfold effectivePointer
  cases style <;> simp [hookArg_cases]

/-- regression witness: arg style, destination declared by value, hook takes `*D`: plain `dst` -/
example : hookArg { (⟨"dst", "D", false, false⟩ : Var) with pointer := true } true = "dst" := by decide

/-! ## acceptance (`buildManipulator`) -/

/-- **T10.3 (rejected at generation time).** An error-returning hook is never accepted for a
method without error result. -/
theorem error_hook_needs_error_result (env : Env) (m : ManipOpt) (src dst : ParamVar) (args : List ParamVar)
    (h : m.retError = true) : ∃ msg, buildManipulator env (some m) src dst args false = .error [msg] := by
  unfold buildManipulator
  simp only
  split
  · exact ⟨_, rfl⟩
  · simp [h]

/-- a hook is accepted only if the method's operands fit its parameters — in the direction of the
generated call (operand assignable to parameter; repaired direction, DESIGN §5 #33) — and, when it
declares additional parameters, only if there is one per additional argument and each argument fits -/
theorem accepted_fits (env : Env) (m : ManipOpt) (src dst : ParamVar) (args : List ParamVar) (retErr : Bool)
    (r : Manipulator) (h : buildManipulator env (some m) src dst args retErr = .ok (some r)) :
    env.assignable (env.derefPtr dst.ty) (env.derefPtr m.dstSide) = true ∧
    env.assignable (env.derefPtr src.ty) (env.derefPtr m.srcSide) = true ∧
    r.isDstPtr = env.isPtr m.dstSide ∧ r.isSrcPtr = env.isPtr m.srcSide ∧ r.retError = m.retError ∧
    (m.retError = true → retErr = true) ∧
    (r.hasAdditionalArgs = true → m.additionalArgs.length = args.length ∧
      ∀ p ∈ m.additionalArgs.zip args, env.assignable p.2.ty p.1 = true) := by
  unfold buildManipulator at h
  simp only at h
  split at h
  · cases h
  · split at h
    · cases h
    · rename_i he
      split at h
      · cases h
      · rename_i hd
        split at h
        · cases h
        · rename_i hs
          have hd' : env.assignable (env.derefPtr dst.ty) (env.derefPtr m.dstSide) = true := by simpa using hd
          have hs' : env.assignable (env.derefPtr src.ty) (env.derefPtr m.srcSide) = true := by simpa using hs
          have he' : m.retError = true → retErr = true := by
            intro hm
            cases hr : retErr
            · simp [hm, hr] at he
            · rfl
          split at h
          · cases h; exact ⟨hd', hs', rfl, rfl, rfl, he', fun hx => by cases hx⟩
          · split at h
            · cases h
            · rename_i hlen
              split at h
              · cases h
              · rename_i hfind
                cases h
                refine ⟨hd', hs', rfl, rfl, rfl, he', fun _ => ⟨by simpa using hlen, ?_⟩⟩
                intro p hp
                have hnone := List.find?_eq_none.mp hfind
                obtain ⟨i, hi⟩ : ∃ i, (p, i) ∈ (m.additionalArgs.zip args).zipIdx := by
                  obtain ⟨i, hlt, hget⟩ := List.getElem_of_mem hp
                  exact ⟨i, by
                    rw [List.mem_zipIdx_iff_getElem?]
                    rw [List.getElem?_eq_getElem hlt, hget]⟩
                have := hnone (p, i) hi
                simpa using this

end Convergen.Props.C10
