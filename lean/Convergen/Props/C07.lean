import Convergen.Model.Render
import Convergen.Model.Builder
/-!
# C07 — errors from user functions are returned, never swallowed or outrun

Part 1 (this file, text level): where the renderer puts the `if err != nil` checks.
Part 2 (`Props/C07Sem.lean`): execution semantics — the first failing call site decides.
-/
namespace Convergen.Props.C07
open Convergen

/-- **check after every error-capable top-level assignment.**  (`Bridge.assignmentToString_eq`) -/
theorem check_iff_retError (f : Function) (a : Assignment) :
    assignmentToString f a = a.render ++ (if a.retError then errCheck f else "") := rfl

/-- the check returns: `return nil, err` when the destination is an allocated pointer result,
a bare `return` (named results carry `err`) otherwise -/
theorem errCheck_cases (f : Function) :
    errCheck f = "if err != nil {\nreturn nil, err\n}\n" ∨ errCheck f = "if err != nil {\nreturn\n}\n" := by
  unfold errCheck; split <;> simp

/-- an error-returning hook is followed by its own check -/
theorem hook_check (m : Manipulator) (src dst : Var) (args : List Var) (h : m.retError = true) :
    ∃ call, manipulatorToString m src dst args = "err = " ++ call ++ ")\n" ++ "if err != nil {\nreturn\n}\n" := by
  unfold manipulatorToString
  refine ⟨(if m.pkg != "" then m.pkg ++ "." else "") ++ m.name ++ "(" ++ hookArg dst m.isDstPtr ++ ", " ++
    hookArg src m.isSrcPtr ++ (if m.hasAdditionalArgs then concatMap (fun a => ", " ++ a.name) args else ""), ?_⟩
  simp [h, String.append_assoc]

/-- which statements can set `err`: only a simple field whose `error` flag is on -/
theorem retError_iff (a : Assignment) :
    a.retError = true ↔ ∃ l r, a = .simpleField l r true := by
  cases a <;> simp [Assignment.retError]

/-! ## static half: nothing error-capable in a function without error result

(the repaired DESIGN §5 #10: an error-returning converter or `:map` getter used to be wired into
functions without error result; hooks were always checked by `buildManipulator`, see `Props/C10`) -/

/-- a converter that can fail is never assigned from in a function without error result -/
theorem conv_needs_error_result (ctx : BCtx) (lhs rhs : Node) (c : FieldConverter) (s : Stmt)
    (hc : c.retError = true) (hf : ctx.retError = false) (h : ctx.createWithConverter lhs rhs c = .ok s) :
    ∃ w, s = .noMatch lhs w := by
  have nm : ∀ pos pre, ctx.noMatchAt pos lhs pre = .ok s → ∃ w, s = .noMatch lhs w := by
    intro pos pre hh; unfold BCtx.noMatchAt at hh; cases hh; exact ⟨_, rfl⟩
  unfold BCtx.createWithConverter at h
  cases h1 : ctx.resolveExpr c.src rhs.rootOf with
  | none => simp only [h1] at h; exact nm _ _ h
  | some rhsNode =>
    simp only [h1] at h
    cases h2 : ctx.convArg c rhsNode with
    | error e => simp only [h2] at h; cases h
    | panic p => simp only [h2] at h; cases h
    | ok r =>
      obtain ⟨a?, w⟩ := r
      cases a? with
      | none => simp only [h2] at h; exact nm _ _ h
      | some argNode =>
        simp only [h2] at h
        cases h3 : ctx.castNode (lhs.exprType ctx.env) (.conv argNode c) with
        | error e => simp only [h3] at h; cases h
        | panic p => simp only [h3] at h; cases h
        | ok r3 =>
          obtain ⟨casted?, w3⟩ := r3
          simp only [h3] at h
          unfold BCtx.convAssign at h
          cases casted? with
          | none => exact nm _ _ h
          | some n =>
            simp only [hc, hf, Bool.not_false, Bool.and_self, ↓reduceIte] at h
            exact nm _ _ h

/-- an error-returning getter reached through `:map` likewise -/
theorem mapped_needs_error_result (ctx : BCtx) (lhs : Node) (pos : String) (n? : Option Node) (s : Stmt)
    (hf : ctx.retError = false) (h : ctx.createMapped lhs pos n? = .ok s) :
    (∃ w, s = .noMatch lhs w) ∨ (∃ r w, s = .simple lhs r false w) := by
  unfold BCtx.createMapped at h
  have nm : ∀ pre, ctx.noMatchAt pos lhs pre = .ok s → ∃ w, s = .noMatch lhs w := by
    intro pre hh; unfold BCtx.noMatchAt at hh; cases hh; exact ⟨_, rfl⟩
  cases n? with
  | none => exact Or.inl (nm _ h)
  | some n =>
    simp only [bind, Outcome.bind, pure] at h
    split at h
    · rename_i r hr
      obtain ⟨c?, w⟩ := r
      simp only at h
      cases c? with
      | none => exact Or.inl (nm _ h)
      | some c =>
        simp only at h
        by_cases he : c.returnsError = true
        · simp only [he, hf, Bool.not_false, Bool.and_self, ↓reduceIte] at h
          exact Or.inl (nm _ h)
        · have he' : c.returnsError = false := by simpa using he
          simp only [he', Bool.false_and, Bool.false_eq_true, ↓reduceIte] at h
          cases h
          exact Or.inr ⟨_, _, rfl⟩
    · cases h
    · cases h

/-! ### finding (DESIGN §5 #11): a nested struct block is rendered with the plain `String()` of its
contents — `NestStruct.RetError()` is false and nothing inside is followed by a check — so an
error-capable assignment on a nested path is unchecked and a later call overwrites `err`. -/

def nestedTwo : Assignment :=
  .nestStruct "" "" [.simpleField "dst.In.X" "Atoi(src.In.X)" true, .simpleField "dst.In.Y" "Atoi(src.In.Y)" true]

def fn0 : Function :=
  { comments := [], name := "F", receiver := "", src := ⟨"src", "S", true, false⟩, dst := ⟨"dst", "D", true, false⟩,
    additionalArgs := [], retError := true, dstVarStyle := .ret, assignments := [nestedTwo],
    preProcess := none, postProcess := none }

example : assignmentToString fn0 nestedTwo =
    "dst.In.X, err = Atoi(src.In.X)\ndst.In.Y, err = Atoi(src.In.Y)\n" := by decide

/-- non-vacuity: the same call at top level is checked -/
example : assignmentToString fn0 (.simpleField "dst.X" "Atoi(src.X)" true) =
    "dst.X, err = Atoi(src.X)\nif err != nil {\nreturn nil, err\n}\n" := by decide

end Convergen.Props.C07
