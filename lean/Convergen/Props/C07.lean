import Convergen.Model.Render
import Convergen.Model.Builder
/-!
# C07 — errors from user functions are returned, never swallowed or outrun

Part 1 (this file, text level): where the renderer puts the `if err != nil` checks.
Part 2 (`Props/C07Sem.lean`): execution semantics — the first failing call site decides.
-/
namespace Convergen.Props.C07
open Convergen

/-- **check after every error-capable top-level assignment.**  (`Bridge.assignmentToString_eq`) -/
theorem check_iff_retError (f : Function) (a : Assignment) :
    assignmentToString f a = a.render ++ (if a.retError then errCheck f else "") := rfl

/-- the check returns: `return nil, err` when the destination is an allocated pointer result,
a bare `return` (named results carry `err`) otherwise -/
theorem errCheck_cases (f : Function) :
    errCheck f = "if err != nil {\nreturn nil, err\n}\n" ∨ errCheck f = "if err != nil {\nreturn\n}\n" := by
  unfold errCheck; split <;> simp

/-- an error-returning hook is followed by its own check -/
theorem hook_check (m : Manipulator) (src dst : Var) (args : List Var) (h : m.retError = true) :
    ∃ call, manipulatorToString m src dst args = "err = " ++ call ++ ")\n" ++ "if err != nil {\nreturn\n}\n" := by
  unfold manipulatorToString
  refine ⟨(if m.pkg != "" then m.pkg ++ "." else "") ++ m.name ++ "(" ++ hookArg dst m.isDstPtr ++ ", " ++
    hookArg src m.isSrcPtr ++ (if m.hasAdditionalArgs then concatMap (fun a => ", " ++ a.name) args else ""), ?_⟩
  simp [h, String.append_assoc]

/-- which statements can set `err`: only a simple field whose `error` flag is on -/
theorem retError_iff (a : Assignment) :
    a.retError = true ↔ ∃ l r, a = .simpleField l r true := by
  cases a <;> simp [Assignment.retError]

/-! ### finding (DESIGN §5 #11): a nested struct block is rendered with the plain `String()` of its
contents — `NestStruct.RetError()` is false and nothing inside is followed by a check — so an
error-capable assignment on a nested path is unchecked and a later call overwrites `err`. -/

def nestedTwo : Assignment :=
  .nestStruct "" "" [.simpleField "dst.In.X" "Atoi(src.In.X)" true, .simpleField "dst.In.Y" "Atoi(src.In.Y)" true]

def fn0 : Function :=
  { comments := [], name := "F", receiver := "", src := ⟨"src", "S", true, false⟩, dst := ⟨"dst", "D", true, false⟩,
    additionalArgs := [], retError := true, dstVarStyle := .ret, assignments := [nestedTwo],
    preProcess := none, postProcess := none }

example : assignmentToString fn0 nestedTwo =
    "dst.In.X, err = Atoi(src.In.X)\ndst.In.Y, err = Atoi(src.In.Y)\n" := by decide

/-- non-vacuity: the same call at top level is checked -/
example : assignmentToString fn0 (.simpleField "dst.X" "Atoi(src.X)" true) =
    "dst.X, err = Atoi(src.X)\nif err != nil {\nreturn nil, err\n}\n" := by decide

end Convergen.Props.C07
