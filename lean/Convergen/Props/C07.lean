import Convergen.Model.Render
import Convergen.Model.Builder
/-!
# C07 — errors from user functions are returned, never swallowed or outrun

Part 1 (this file, text level): where the renderer puts the `if err != nil` checks.
Part 2 (`Props/C07Sem.lean`): execution semantics — the first failing call site decides.
-/
namespace Convergen.Props.C07
open Convergen

/-- **a check after every error-capable assignment, at every nesting depth.**  (`Bridge.assignmentToString_eq`
ties this to `AssignmentToString` / `nestStructToString`.) -/
theorem simple_checked (f : Function) (l r : String) (e : Bool) :
    assignmentToString f (.simpleField l r e) = renderSimple l r e ++ (if e then errCheck f else "") := by
  rw [assignmentToString]

/-- a nested struct block renders its contents with the same function — checks included -/
theorem nest_recurses (f : Function) (i n : String) (cs : List Assignment) :
    assignmentToString f (.nestStruct i n cs) = renderNest i n (assignmentToStringList f cs) := by
  rw [assignmentToString]

/-- the check returns: `return nil, err` when the destination is an allocated pointer result,
a bare `return` (named results carry `err`) otherwise -/
theorem errCheck_cases (f : Function) :
    errCheck f = "if err != nil {\nreturn nil, err\n}\n" ∨ errCheck f = "if err != nil {\nreturn\n}\n" := by
  unfold errCheck; split <;> simp

/-- an error-returning hook is followed by its own check -/
theorem hook_check (m : Manipulator) (src dst : Var) (args : List Var) (h : m.retError = true) :
    ∃ call, manipulatorToString m src dst args = "err = " ++ call ++ ")\n" ++ "if err != nil {\nreturn\n}\n" := by
  unfold manipulatorToString
  refine ⟨(if m.pkg != "" then m.pkg ++ "." else "") ++ m.name ++ "(" ++ hookArg dst m.isDstPtr ++ ", " ++
    hookArg src m.isSrcPtr ++ (if m.hasAdditionalArgs then concatMap (fun a => ", " ++ a.name) args else ""), ?_⟩
  simp [h, String.append_assoc]

/-- which statements can set `err`: only a simple field whose `error` flag is on -/
theorem retError_iff (a : Assignment) :
    a.retError = true ↔ ∃ l r, a = .simpleField l r true := by
  cases a <;> simp [Assignment.retError]

/-! ## static half: nothing error-capable in a function without error result

(the repaired DESIGN §5 #10: an error-returning converter or `:map` getter used to be wired into
functions without error result; hooks were always checked by `buildManipulator`, see `Props/C10`) -/

/-- a converter that can fail is never assigned from in a function without error result -/
theorem conv_needs_error_result (ctx : BCtx) (lhs rhs : Node) (c : FieldConverter) (s : Stmt)
    (hc : c.retError = true) (hf : ctx.retError = false) (h : ctx.createWithConverter lhs rhs c = .ok s) :
    ∃ w, s = .noMatch lhs w := by
  have nm : ∀ pos pre, ctx.noMatchAt pos lhs pre = .ok s → ∃ w, s = .noMatch lhs w := by
    intro pos pre hh; unfold BCtx.noMatchAt at hh; cases hh; exact ⟨_, rfl⟩
  unfold BCtx.createWithConverter at h
  cases h1 : ctx.resolveExpr c.src rhs.rootOf with
  | none => simp only [h1] at h; exact nm _ _ h
  | some rhsNode =>
    simp only [h1] at h
    cases h2 : ctx.convArg c rhsNode with
    | error e => simp only [h2] at h; cases h
    | panic p => simp only [h2] at h; cases h
    | ok r =>
      obtain ⟨a?, w⟩ := r
      cases a? with
      | none => simp only [h2] at h; exact nm _ _ h
      | some argNode =>
        simp only [h2] at h
        cases h3 : ctx.castNode (lhs.exprType ctx.env) (.conv argNode c) with
        | error e => simp only [h3] at h; cases h
        | panic p => simp only [h3] at h; cases h
        | ok r3 =>
          obtain ⟨casted?, w3⟩ := r3
          simp only [h3] at h
          unfold BCtx.convAssign at h
          cases casted? with
          | none => exact nm _ _ h
          | some n =>
            simp only [hc, hf, Bool.not_false, Bool.and_self, ↓reduceIte] at h
            exact nm _ _ h

/-- an error-returning getter reached through `:map` likewise -/
theorem mapped_needs_error_result (ctx : BCtx) (lhs : Node) (pos : String) (n? : Option Node) (s : Stmt)
    (hf : ctx.retError = false) (h : ctx.createMapped lhs pos n? = .ok s) :
    (∃ w, s = .noMatch lhs w) ∨ (∃ r w, s = .simple lhs r false w) := by
  unfold BCtx.createMapped at h
  have nm : ∀ pre, ctx.noMatchAt pos lhs pre = .ok s → ∃ w, s = .noMatch lhs w := by
    intro pre hh; unfold BCtx.noMatchAt at hh; cases hh; exact ⟨_, rfl⟩
  cases n? with
  | none => exact Or.inl (nm _ h)
  | some n =>
    simp only [bind, Outcome.bind, pure] at h
    split at h
    · rename_i r hr
      obtain ⟨c?, w⟩ := r
      simp only at h
      cases c? with
      | none => exact Or.inl (nm _ h)
      | some c =>
        simp only at h
        by_cases he : c.returnsError = true
        · simp only [he, hf, Bool.not_false, Bool.and_self, ↓reduceIte] at h
          exact Or.inl (nm _ h)
        · have he' : c.returnsError = false := by simpa using he
          simp only [he', Bool.false_and, Bool.false_eq_true, ↓reduceIte] at h
          cases h
          exact Or.inr ⟨_, _, rfl⟩
    · cases h
    · cases h

/-! ### regression witness of the repaired DESIGN §5 #11: error-capable assignments inside a nested
struct block are followed by their check (before the repair the block was rendered with the plain
`String()` of its contents and the second call overwrote `err`) -/

def nestedTwo : Assignment :=
  .nestStruct "" "" [.simpleField "dst.In.X" "Atoi(src.In.X)" true, .simpleField "dst.In.Y" "Atoi(src.In.Y)" true]

def fn0 : Function :=
  { comments := [], name := "F", receiver := "", src := ⟨"src", "S", true, false⟩, dst := ⟨"dst", "D", true, false⟩,
    additionalArgs := [], retError := true, dstVarStyle := .ret, assignments := [nestedTwo],
    preProcess := none, postProcess := none }

example : assignmentToString fn0 nestedTwo =
    "dst.In.X, err = Atoi(src.In.X)\nif err != nil {\nreturn nil, err\n}\n" ++
    "dst.In.Y, err = Atoi(src.In.Y)\nif err != nil {\nreturn nil, err\n}\n" := by decide

/-! ## execution: the first failing call site decides

The generated body is a tree of statements; an error-capable statement `x, err = f()` is a *call
site*.  By `simple_checked` / `nest_recurses` each one is immediately followed by
`if err != nil { return … }`.  `exec` is the small-step reading of that text: a fault plan `φ` says
which sites fail; `spec` is the property statement. -/

abbrev Site := Nat

structure St where
  trace : List Site := []
  err : Option Site := none
  returned : Bool := false
  next : Site := 0
  deriving Repr, DecidableEq

/-- `x, err = f()` followed by the check: run the call, record it; a failure returns -/
def stepCall (φ : Site → Bool) (s : St) : St :=
  if s.returned then s else
  let k := s.next
  let failed := φ k
  { trace := s.trace ++ [k], err := if failed then some k else none, returned := failed, next := k + 1 }

mutual
def exec (φ : Site → Bool) : Assignment → St → St
  | .simpleField _ _ true, s => stepCall φ s
  | .simpleField _ _ false, s => s
  | .nestStruct _ _ cs, s => execList φ cs s
  | .skipField _, s => s
  | .noMatchField _, s => s
  | .sliceAssignment .., s => s
  | .sliceLoopAssignment .., s => s
  | .sliceTypecastAssignment .., s => s
def execList (φ : Site → Bool) : List Assignment → St → St
  | [], s => s
  | a :: as, s => execList φ as (exec φ a s)
end

mutual
/-- number of error-capable call sites, in execution order -/
def sites : Assignment → Nat
  | .simpleField _ _ true => 1
  | .nestStruct _ _ cs => sitesList cs
  | _ => 0
def sitesList : List Assignment → Nat
  | [] => 0
  | a :: as => sites a + sitesList as
end

/-- the specification: with `n` sites numbered from `s.next`, run them in order until the first
one that the plan fails; that one's error is returned and nothing after it is called -/
def spec (φ : Site → Bool) : Nat → St → St
  | 0, s => s
  | n + 1, s => spec φ n (stepCall φ s)

theorem stepCall_returned (φ : Site → Bool) (s : St) (h : s.returned = true) : stepCall φ s = s := by
  simp [stepCall, h]

theorem spec_returned (φ : Site → Bool) : ∀ n s, s.returned = true → spec φ n s = s
  | 0, _, _ => rfl
  | n + 1, s, h => by rw [spec, stepCall_returned φ s h]; exact spec_returned φ n s h

theorem spec_add (φ : Site → Bool) : ∀ m n s, spec φ (m + n) s = spec φ n (spec φ m s)
  | 0, n, s => by simp [spec]
  | m + 1, n, s => by
    have : m + 1 + n = (m + n) + 1 := by omega
    rw [this, spec, spec, spec_add φ m n]

mutual
theorem exec_eq_spec (φ : Site → Bool) : ∀ (a : Assignment) (s : St), exec φ a s = spec φ (sites a) s
  | .simpleField _ _ true, s => by simp [exec, sites, spec]
  | .simpleField _ _ false, s => by simp [exec, sites, spec]
  | .nestStruct _ _ cs, s => by rw [exec, sites]; exact execList_eq_spec φ cs s
  | .skipField _, s => by simp [exec, sites, spec]
  | .noMatchField _, s => by simp [exec, sites, spec]
  | .sliceAssignment .., s => by simp [exec, sites, spec]
  | .sliceLoopAssignment .., s => by simp [exec, sites, spec]
  | .sliceTypecastAssignment .., s => by simp [exec, sites, spec]
theorem execList_eq_spec (φ : Site → Bool) : ∀ (as : List Assignment) (s : St), execList φ as s = spec φ (sitesList as) s
  | [], s => by simp [execList, sitesList, spec]
  | a :: as, s => by
    rw [execList, sitesList, spec_add, ← exec_eq_spec φ a s]
    exact execList_eq_spec φ as _
end

/-- what `spec` means: if site `k` is the first one the plan fails, the function returns exactly
that error, the trace is the sites `0..k`, and no later site is called -/
theorem spec_first_failure (φ : Site → Bool) (n k : Nat) (hk : k < n) (hf : φ k = true)
    (hbefore : ∀ j, j < k → φ j = false) :
    (spec φ n {}).err = some k ∧ (spec φ n {}).trace = List.range (k + 1) ∧ (spec φ n {}).returned = true := by
  have run : ∀ m, m ≤ k → spec φ m {} = { trace := List.range m, err := none, returned := false, next := m } := by
    intro m
    induction m with
    | zero => intro _; simp [spec]
    | succ m ih =>
      intro hm
      have hm' : m ≤ k := by omega
      rw [spec_add φ m 1, ih hm']
      simp [spec, stepCall, hbefore m (by omega), List.range_succ]
  have hk1 : spec φ (k + 1) {} = { trace := List.range (k + 1), err := some k, returned := true, next := k + 1 } := by
    rw [spec_add, run k (Nat.le_refl k)]
    simp [spec, stepCall, hf, List.range_succ]
  have hsplit : n = (k + 1) + (n - (k + 1)) := by omega
  rw [hsplit, spec_add, hk1, spec_returned]
  · exact ⟨rfl, rfl, rfl⟩
  · rfl

/-- … and if no site fails the error is nil and every site has been called once, in order -/
theorem spec_no_failure (φ : Site → Bool) (n : Nat) (h : ∀ j, j < n → φ j = false) :
    spec φ n {} = { trace := List.range n, err := none, returned := false, next := n } := by
  induction n with
  | zero => simp [spec]
  | succ n ih =>
    rw [spec_add, ih (fun j hj => h j (by omega))]
    simp [spec, stepCall, h n (by omega), List.range_succ]

/-- **T7.1 (first error returned, nothing outrun).** For every body — statements at top level and in
nested struct blocks alike — and every fault plan: the function returns the error of the first
failing call site in execution order and calls none after it; with no failure it returns a nil
error after calling every site once. -/
theorem first_error_returned (φ : Site → Bool) (body : List Assignment) (k : Nat) (hk : k < sitesList body)
    (hf : φ k = true) (hbefore : ∀ j, j < k → φ j = false) :
    (execList φ body {}).err = some k ∧ (execList φ body {}).trace = List.range (k + 1) := by
  rw [execList_eq_spec]
  exact ⟨(spec_first_failure φ _ k hk hf hbefore).1, (spec_first_failure φ _ k hk hf hbefore).2.1⟩

theorem no_error_without_failure (φ : Site → Bool) (body : List Assignment) (h : ∀ j, j < sitesList body → φ j = false) :
    (execList φ body {}).err = none ∧ (execList φ body {}).trace = List.range (sitesList body) := by
  rw [execList_eq_spec, spec_no_failure φ _ h]
  exact ⟨rfl, rfl⟩

/-- non-vacuity: two sites in a nested block and one after it; the first one fails -/
example : (execList (fun k => k == 0) [nestedTwo, .simpleField "dst.N" "f()" true] {}).trace = [0] ∧
    (execList (fun k => k == 0) [nestedTwo, .simpleField "dst.N" "f()" true] {}).err = some 0 ∧
    sitesList [nestedTwo, .simpleField "dst.N" "f()" true] = 3 := by decide

end Convergen.Props.C07
