import Convergen.Model.Types
import Convergen.Model.Runner
/-!
# C13 — output is a deterministic function of the sources and flags   (partial)

The model is a function: no clock, process id or working directory enters it.  The two places
where the Go code is *not* a priori a function of its input are made explicit here:
the iteration order of the import map (`LookupPath`) and the random marker strings (the latter is
handled with the base-code model in `Props/C03`).
-/
namespace Convergen.Props.C13
open Convergen

/-- `LookupPath` characterised by membership when the names are pairwise distinct -/
theorem lookupPath_of_mem (m : List (String × String)) (hnd : (m.map (·.2)).Nodup) (p name : String)
    (hmem : (p, name) ∈ m) : lookupPath m name = some p := by
  unfold lookupPath
  induction m with
  | nil => cases hmem
  | cons e rest ih =>
    simp only [List.map_cons, List.nodup_cons] at hnd
    simp only [List.mem_cons] at hmem
    rcases hmem with h | h
    · subst h; simp [List.find?]
    · have hne : e.2 ≠ name := by
        intro he
        apply hnd.1
        rw [he]
        exact List.mem_map.mpr ⟨(p, name), h, rfl⟩
      have : (e.2 == name) = false := by simpa using hne
      simp only [List.find?, this]
      exact ih hnd.2 h

theorem lookupPath_none_of_not_mem (m : List (String × String)) (name : String)
    (h : ∀ e ∈ m, e.2 ≠ name) : lookupPath m name = none := by
  unfold lookupPath
  induction m with
  | nil => rfl
  | cons e rest ih =>
    have hne : (e.2 == name) = false := by simpa using h e (by simp)
    simp only [List.find?, hne]
    exact ih (fun e' he' => h e' (by simp [he']))

/-- **T13.2 (`LookupPath` does not depend on the map's iteration order)** as long as the names of
the import map are pairwise distinct. -/
theorem lookupPath_order_independent (m m' : List (String × String)) (hperm : m.Perm m')
    (hnd : (m.map (·.2)).Nodup) (name : String) : lookupPath m' name = lookupPath m name := by
  have hnd' : (m'.map (·.2)).Nodup := (hperm.map (·.2)).nodup_iff.mp hnd
  by_cases hex : ∃ e ∈ m, e.2 = name
  · obtain ⟨e, he, hen⟩ := hex
    have h1 : (e.1, name) ∈ m := by rw [← hen]; exact he
    rw [lookupPath_of_mem m hnd e.1 name h1, lookupPath_of_mem m' hnd' e.1 name (hperm.mem_iff.mp h1)]
  · have hno : ∀ e ∈ m, e.2 ≠ name := fun e he hn => hex ⟨e, he, hn⟩
    rw [lookupPath_none_of_not_mem m name hno,
        lookupPath_none_of_not_mem m' name (fun e he => hno e (hperm.mem_iff.mpr he))]

/-- witness that the premise is needed: two blank imports with the same last element keep the
name `_` … and then the answer depends on the order -/
example : lookupPath [("a/x", "x"), ("b/x", "_"), ("c/x", "_")] "_" = some "b/x" ∧
    lookupPath [("a/x", "x"), ("c/x", "_"), ("b/x", "_")] "_" = some "c/x" := by decide

/-- `NewImportNames` itself is order-deterministic: it is a function of the import specs in
source order (the first blank import whose base name is free gets it) -/
example : newImportNames [{ path := "exp/hooks/conv", alias := "_" }, { path := "exp/plugins/conv", alias := "_" }] =
    [("exp/hooks/conv", "conv"), ("exp/plugins/conv", "_")] := by decide

/-- an import without an explicit name goes by the name its package declares (repaired, DESIGN §5 #7) -/
example : importNamesOf [{ path := "exp/go-foo", pkgName := "foo" }, { path := "exp/bar/v2", pkgName := "bar" },
      { path := "exp/x", alias := "y", pkgName := "x" }] =
    [("exp/go-foo", "foo"), ("exp/bar/v2", "bar"), ("exp/x", "y")] := by decide

/-- **T13.3.** The run is a function of (configuration, core, world): trivially so in the model —
stated to make explicit what is *assumed* of `core` (`go list`, `goimports`, the printer). -/
theorem run_deterministic (cfg : Config) (core : World → Config → CoreResult) (w : World) :
    ∀ r₁ r₂, run cfg core w = r₁ → run cfg core w = r₂ → r₁.exit = r₂.exit ∧ r₁.stdout = r₂.stdout ∧
      r₁.stderr = r₂.stderr := by
  intro r₁ r₂ h₁ h₂; subst h₁; subst h₂; exact ⟨rfl, rfl, rfl⟩

end Convergen.Props.C13
