import Convergen.Model.Types
import Convergen.Model.Runner
/-!
# C13 — output is a deterministic function of the sources and flags   (partial)

The model is a function: no clock, process id or working directory enters it.  The two places
where the Go code is *not* a priori a function of its input are made explicit here:
the iteration order of the import map (`LookupPath`) and the random marker strings (the latter is
handled with the base-code model in `Props/C03`).
-/
namespace Convergen.Props.C13
open Convergen

/-- the least path is a member and a lower bound -/
theorem leastPath_spec (l : List String) (p : String) (h : leastPath l = some p) :
    p ∈ l ∧ ∀ q ∈ l, p ≤ q := by
  induction l generalizing p with
  | nil => simp [leastPath] at h
  | cons a rest ih =>
    unfold leastPath at h
    cases hr : leastPath rest with
    | none =>
      simp only [hr] at h
      cases rest with
      | nil => simp at h; subst h; simp
      | cons b bs =>
        exfalso
        unfold leastPath at hr
        cases hb : leastPath bs <;> simp only [hb] at hr
        · cases hr
        · split at hr <;> cases hr
    | some q =>
      simp only [hr] at h
      obtain ⟨hq, hlb⟩ := ih q hr
      by_cases hle : a ≤ q
      · simp only [hle, if_true, Option.some.injEq] at h
        rw [← h]
        refine ⟨by simp, fun x hx => ?_⟩
        rcases List.mem_cons.mp hx with hxa | hx
        · rw [hxa]; exact String.le_refl _
        · exact String.le_trans hle (hlb x hx)
      · simp only [hle, if_false, Option.some.injEq] at h
        rw [← h]
        refine ⟨by simp [hq], fun x hx => ?_⟩
        rcases List.mem_cons.mp hx with hxa | hx
        · rw [hxa]
          rcases String.le_total q a with h' | h'
          · exact h'
          · exact absurd h' hle
        · exact hlb x hx

theorem leastPath_none (l : List String) (h : leastPath l = none) : l = [] := by
  cases l with
  | nil => rfl
  | cons a rest =>
    unfold leastPath at h
    cases hr : leastPath rest <;> simp only [hr] at h
    · cases h
    · split at h <;> cases h

/-- the least path of a list depends on its members only -/
theorem leastPath_perm (l l' : List String) (hperm : l.Perm l') : leastPath l' = leastPath l := by
  cases h : leastPath l with
  | none =>
    have := leastPath_none l h
    subst this
    have : l' = [] := List.Perm.eq_nil (hperm.symm)
    subst this
    rfl
  | some p =>
    obtain ⟨hp, hlb⟩ := leastPath_spec l p h
    cases h' : leastPath l' with
    | none =>
      have := leastPath_none l' h'
      subst this
      have : l = [] := List.Perm.eq_nil hperm
      subst this
      cases hp
    | some p' =>
      obtain ⟨hp', hlb'⟩ := leastPath_spec l' p' h'
      have h1 : p ≤ p' := hlb p' (hperm.mem_iff.mpr hp')
      have h2 : p' ≤ p := hlb' p (hperm.mem_iff.mp hp)
      rw [String.le_antisymm h1 h2]

/-- **T13.2 (`LookupPath` does not depend on the map's iteration order)** — whatever the table
holds, also when two paths bear one name (since `d3453c1`; before, the answer was the first entry
the iteration met and the theorem needed pairwise distinct names). -/
theorem lookupPath_order_independent (m m' : List (String × String)) (hperm : m.Perm m') (name : String) :
    lookupPath m' name = lookupPath m name := by
  unfold lookupPath
  split
  · rfl
  · exact leastPath_perm _ _ ((hperm.filter _).map _)

/-- the blank name refers to nothing -/
theorem lookupPath_blank (m : List (String × String)) : lookupPath m "_" = none := by
  simp [lookupPath]

/-- the answer bears the name -/
theorem lookupPath_sound (m : List (String × String)) (name p : String) (h : lookupPath m name = some p) :
    (p, name) ∈ m := by
  unfold lookupPath at h
  split at h
  · cases h
  · obtain ⟨hp, _⟩ := leastPath_spec _ p h
    obtain ⟨e, he, rfl⟩ := List.mem_map.mp hp
    obtain ⟨hm, hn⟩ := List.mem_filter.mp he
    have : e.2 = name := by simpa using hn
    rw [← this]
    exact hm

/-- two paths under one name: both orders give the same answer -/
example : lookupPath [("a/x", "x"), ("c/x", "x")] "x" = some "a/x" ∧
    lookupPath [("c/x", "x"), ("a/x", "x")] "x" = some "a/x" := by decide

/-- the late clash (`go-foo` declares `foo`, next to a blank import of `x/foo`): the blank import
loses the name, `foo` is the unnamed import -/
example : importNamesOf [{ path := "t7/go-foo", pkgName := "foo" }, { path := "t7/x/foo", alias := "_", pkgName := "foo" }] =
      [("t7/go-foo", "foo"), ("t7/x/foo", "_")] ∧
    lookupPath (importNamesOf [{ path := "t7/go-foo", pkgName := "foo" },
      { path := "t7/x/foo", alias := "_", pkgName := "foo" }]) "foo" = some "t7/go-foo" := by decide

/-- `NewImportNames` itself is order-deterministic: it is a function of the import specs in
source order (the first blank import whose base name is free gets it) -/
example : newImportNames [{ path := "exp/hooks/conv", alias := "_" }, { path := "exp/plugins/conv", alias := "_" }] =
    [("exp/hooks/conv", "conv"), ("exp/plugins/conv", "_")] := by decide

/-- an import without an explicit name goes by the name its package declares (repaired, DESIGN §5 #7) -/
example : importNamesOf [{ path := "exp/go-foo", pkgName := "foo" }, { path := "exp/bar/v2", pkgName := "bar" },
      { path := "exp/x", alias := "y", pkgName := "x" }] =
    [("exp/go-foo", "foo"), ("exp/bar/v2", "bar"), ("exp/x", "y")] := by decide

/-- **T13.3.** The run is a function of (configuration, core, world): trivially so in the model —
stated to make explicit what is *assumed* of `core` (`go list`, `goimports`, the printer). -/
theorem run_deterministic (cfg : Config) (core : World → Config → CoreResult) (w : World) :
    ∀ r₁ r₂, run cfg core w = r₁ → run cfg core w = r₂ → r₁.exit = r₂.exit ∧ r₁.stdout = r₂.stdout ∧
      r₁.stderr = r₂.stderr := by
  intro r₁ r₂ h₁ h₂; subst h₁; subst h₂; exact ⟨rfl, rfl, rfl⟩

end Convergen.Props.C13
