import Convergen.Model.Parse
/-!
# C09 — notation scoping: interface defaults, method overrides, no leakage
-/
namespace Convergen.Props.C09
open Convergen

variable (env : Env) (sc : Scope) (eng : Engine)

/-- the six scalar settings a notation can change at either level -/
structure Toggles where
  style : DstVarStyle
  rule : MatchRule
  exactCase : Bool
  getter : Bool
  stringer : Bool
  typecast : Bool
  deriving DecidableEq, Repr

def Options.toggles (o : Options) : Toggles := ⟨o.style, o.rule, o.exactCase, o.getter, o.stringer, o.typecast⟩

/-- the effect of one toggle notation, as documented -/
def toggleEffect (name : String) (t : Toggles) : Option Toggles :=
  match name with
  | "case" => some { t with exactCase := true }
  | "case:off" => some { t with exactCase := false }
  | "getter" => some { t with getter := true }
  | "getter:off" => some { t with getter := false }
  | "stringer" => some { t with stringer := true }
  | "stringer:off" => some { t with stringer := false }
  | "typecast" => some { t with typecast := true }
  | "typecast:off" => some { t with typecast := false }
  | _ => none

/-- **T9.1 (a toggle line sets exactly its toggle — last writer wins).**  A valid toggle notation
line maps the options to the same options with that one toggle set; nothing else changes. -/
theorem toggle_effect (o : Options) (pos name rest : String) (t' : Toggles)
    (ht : toggleEffect name (Options.toggles o) = some t') :
    ∃ o', notationEffect env sc eng o pos name rest = .opts o' ∧
      Options.toggles o' = t' ∧ o'.skipFields = o.skipFields ∧ o'.nameMapper = o.nameMapper ∧
      o'.templatedNameMapper = o.templatedNameMapper ∧ o'.converters = o.converters ∧ o'.literals = o.literals ∧
      o'.receiver = o.receiver ∧ o'.reverse = o.reverse ∧ o'.preProcess = o.preProcess ∧
      o'.postProcess = o.postProcess := by
  unfold toggleEffect at ht
  unfold notationEffect
  split at ht <;> first
    | (cases ht; exact ⟨_, rfl, rfl, rfl, rfl, rfl, rfl, rfl, rfl, rfl, rfl, rfl⟩)
    | cases ht

theorem toggle_line (ops : List String) (res : ParseResult) (pr : String) (n : Comment) (name rest : String)
    (t' : Toggles) (hm : matchNotation n.text = some (name, rest)) (hv : ops.contains name = true)
    (ht : toggleEffect name (Options.toggles res.opts) = some t') :
    ∃ o', applyNotation env sc eng ops (res, pr) n = .ok ({ res with opts := o' }, pr) ∧
      Options.toggles o' = t' ∧ o'.skipFields = res.opts.skipFields ∧ o'.nameMapper = res.opts.nameMapper ∧
      o'.converters = res.opts.converters ∧ o'.literals = res.opts.literals ∧ o'.receiver = res.opts.receiver ∧
      o'.reverse = res.opts.reverse := by
  obtain ⟨o', h1, h2, h3, h4, _, h6, h7, h8, h9, _, _⟩ := toggle_effect env sc eng res.opts n.pos name rest t' ht
  refine ⟨o', ?_, h2, h3, h4, h6, h7, h8, h9⟩
  unfold applyNotation
  simp only [hm, hv, Bool.not_true, Bool.false_eq_true, ↓reduceIte, h1]

/-- a notation that is not valid at this level leaves everything as it was (it is only logged) -/
theorem invalid_here_ignored (ops : List String) (st : ParseResult × String) (n : Comment) (name rest : String)
    (hm : matchNotation n.text = some (name, rest)) (hv : ops.contains name = false) :
    applyNotation env sc eng ops st n = .ok st := by
  unfold applyNotation
  obtain ⟨res, pr⟩ := st
  have hv' : ¬ name ∈ ops := by simpa using hv
  simp [hm, hv']

/-- **T9.3 (interface level carries no lists).** `:skip`, `:map`, `:conv`, `:literal`, `:recv`,
`:reverse`, hooks are not valid on an interface (`Bridge/Tables`: `validOpsIntf`). -/
example : ["skip", "map", "conv", "literal", "recv", "reverse", "preprocess", "postprocess"].all
    (fun n => !validOpsIntf.contains n) = true := by decide

/-- **T9.5 (isolation).** `parseMethod` reads the interface options and its *own* doc lines; the
options of one method are a function of (interface options, own notation lines) only — they do
not depend on what other methods of the file say.  Stated on `parseNotations`: same start
options and same lines give the same result (it is a function), and the start options of every
method of an entry are the entry's options. -/
theorem method_options_function (ops : List String) (ns : List Comment) (o : Options) :
    ∀ r₁ r₂, parseNotations env sc eng ops ns o = r₁ → parseNotations env sc eng ops ns o = r₂ → r₁ = r₂ := by
  intro r₁ r₂ h₁ h₂; rw [← h₁, ← h₂]

/-- **T9.2 (interface defaults reach the methods).** An interface entry carries the options parsed
from its own doc comment, and `parseMethods` starts every method of the entry from them (before
the repair of DESIGN §5 #1 the entry kept the parser-wide defaults). -/
theorem intf_defaults_stored (parsed defaults : Options) : storedIntfOpts parsed defaults = parsed := rfl

/-- regression witness: `:typecast` on the interface is kept -/
example : (storedIntfOpts { typecast := true } newOptions).typecast = true := by decide

/-- every method of an entry is parsed starting from that entry's options, and from nothing else:
`parseMethods` passes `entry.opts` to each `parseMethod` -/
theorem methods_start_from_entry (entry : IntfEntry) (st : PState) :
    parseMethods env sc eng entry st = parseMethods.go env sc eng entry entry.obj.methods [] false st := rfl

end Convergen.Props.C09
