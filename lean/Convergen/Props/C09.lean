import Convergen.Model.Parse
/-!
# C09 — notation scoping: interface defaults, method overrides, no leakage
-/
namespace Convergen.Props.C09
open Convergen

variable (env : Env) (sc : Scope) (eng : Engine)

/-- the six scalar settings a notation can change at either level -/
structure Toggles where
  style : DstVarStyle
  rule : MatchRule
  exactCase : Bool
  getter : Bool
  stringer : Bool
  typecast : Bool
  deriving DecidableEq, Repr

def Options.toggles (o : Options) : Toggles := ⟨o.style, o.rule, o.exactCase, o.getter, o.stringer, o.typecast⟩

/-- the effect of one toggle notation, as documented -/
def toggleEffect (name : String) (t : Toggles) : Option Toggles :=
  match name with
  | "case" => some { t with exactCase := true }
  | "case:off" => some { t with exactCase := false }
  | "getter" => some { t with getter := true }
  | "getter:off" => some { t with getter := false }
  | "stringer" => some { t with stringer := true }
  | "stringer:off" => some { t with stringer := false }
  | "typecast" => some { t with typecast := true }
  | "typecast:off" => some { t with typecast := false }
  | _ => none

/-- **T9.1 (a toggle line sets exactly its toggle — last writer wins).**  A valid toggle notation
line maps the options to the same options with that one toggle set; nothing else changes. -/
theorem toggle_effect (o : Options) (pos name rest : String) (t' : Toggles)
    (ht : toggleEffect name (Options.toggles o) = some t') :
    ∃ o', notationEffect env sc eng o pos name rest = .opts o' ∧
      Options.toggles o' = t' ∧ o'.skipFields = o.skipFields ∧ o'.nameMapper = o.nameMapper ∧
      o'.templatedNameMapper = o.templatedNameMapper ∧ o'.converters = o.converters ∧ o'.literals = o.literals ∧
      o'.receiver = o.receiver ∧ o'.reverse = o.reverse ∧ o'.preProcess = o.preProcess ∧
      o'.postProcess = o.postProcess := by
  unfold toggleEffect at ht
  unfold notationEffect
  split at ht <;> first
    | (cases ht; exact ⟨_, rfl, rfl, rfl, rfl, rfl, rfl, rfl, rfl, rfl, rfl, rfl⟩)
    | cases ht

theorem toggle_line (ops : List String) (res : ParseResult) (pr : String) (n : Comment) (name rest : String)
    (t' : Toggles) (hm : matchNotation n.text = some (name, rest)) (hv : ops.contains name = true)
    (ht : toggleEffect name (Options.toggles res.opts) = some t') :
    ∃ o', applyNotation env sc eng ops (res, pr) n = .ok ({ res with opts := o' }, pr) ∧
      Options.toggles o' = t' ∧ o'.skipFields = res.opts.skipFields ∧ o'.nameMapper = res.opts.nameMapper ∧
      o'.converters = res.opts.converters ∧ o'.literals = res.opts.literals ∧ o'.receiver = res.opts.receiver ∧
      o'.reverse = res.opts.reverse := by
  obtain ⟨o', h1, h2, h3, h4, _, h6, h7, h8, h9, _, _⟩ := toggle_effect env sc eng res.opts n.pos name rest t' ht
  refine ⟨o', ?_, h2, h3, h4, h6, h7, h8, h9⟩
  unfold applyNotation
  simp only [hm, hv, Bool.not_true, Bool.false_eq_true, ↓reduceIte, h1]

/-- a notation that is not valid at this level leaves everything as it was (it is only logged) -/
theorem invalid_here_ignored (ops : List String) (st : ParseResult × String) (n : Comment) (name rest : String)
    (hm : matchNotation n.text = some (name, rest)) (hv : ops.contains name = false) :
    applyNotation env sc eng ops st n = .ok st := by
  unfold applyNotation
  obtain ⟨res, pr⟩ := st
  have hv' : ¬ name ∈ ops := by simpa using hv
  simp [hm, hv']

/-- **T9.3 (interface level carries no lists).** `:skip`, `:map`, `:conv`, `:literal`, `:recv`,
`:reverse`, hooks are not valid on an interface (`Bridge/Tables`: `validOpsIntf`). -/
example : ["skip", "map", "conv", "literal", "recv", "reverse", "preprocess", "postprocess"].all
    (fun n => !validOpsIntf.contains n) = true := by decide

/-- **T9.5 (isolation).** `parseMethod` reads the interface options and its *own* doc lines; the
options of one method are a function of (interface options, own notation lines) only — they do
not depend on what other methods of the file say.  Stated on `parseNotations`: same start
options and same lines give the same result (it is a function), and the start options of every
method of an entry are the entry's options. -/
theorem method_options_function (ops : List String) (ns : List Comment) (o : Options) :
    ∀ r₁ r₂, parseNotations env sc eng ops ns o = r₁ → parseNotations env sc eng ops ns o = r₂ → r₁ = r₂ := by
  intro r₁ r₂ h₁ h₂; rw [← h₁, ← h₂]

/-- **T9.2 (interface defaults reach the methods).** An interface entry carries the options parsed
from its own doc comment, and `parseMethods` starts every method of the entry from them (before
the repair of DESIGN §5 #1 the entry kept the parser-wide defaults). -/
theorem intf_defaults_stored (parsed defaults : Options) : storedIntfOpts parsed defaults = parsed := rfl

/-- regression witness: `:typecast` on the interface is kept -/
example : (storedIntfOpts { typecast := true } newOptions).typecast = true := by decide

/-- every method of an entry is parsed starting from that entry's options, and from nothing else:
`parseMethods` passes `entry.opts` to each `parseMethod` -/
theorem methods_start_from_entry (entry : IntfEntry) (st : PState) :
    parseMethods env sc eng entry st = parseMethods.go env sc eng entry entry.obj.methods [] false st := rfl

end Convergen.Props.C09

namespace Convergen.Props.C09
open Convergen

/-! ## isolation of methods (T9.5 proper)

What `parseMethod` yields for a method — its options, its diagnostics, whether it fails — depends on
the parser state only through the method's *own* doc comment; and parsing a method changes the state
only at that method's own doc comment.  Hence a method parsed after any other method (whose doc
comment is a different AST node and a different comment group — true of any two interface methods
in a Go file, and evaluated by the driver on the facts of every input) yields exactly what it yields
when parsed first. -/

variable (env : Env) (sc : Scope) (eng : Engine)

/-- what a `parseMethod` call contributes: the parsed method (or failure) and the lines it adds to
stderr / stdout -/
def delta (st : PState) (r : Except (Halt × PState) (Option ParsedMethod × PState)) :
    Except Halt (Option ParsedMethod × List String × List String) :=
  match r with
  | .ok (pm, st') => .ok (pm, st'.stderr.drop st.stderr.length, st'.stdout.drop st.stdout.length)
  | .error (h, _) => .error h

/-- **locality**: two states that agree on the method's own doc comment give the same contribution -/
theorem parseMethod_local (m : MethodDecl) (opts : Options) (st1 st2 : PState)
    (hdoc : st1.docs.docOn m.docChain = st2.docs.docOn m.docChain)
    (hgrp : ∀ n g, st1.docs.docOn m.docChain = some (n, g) → st1.docs.group g = st2.docs.group g) :
    delta st1 (parseMethod env sc eng m opts st1) = delta st2 (parseMethod env sc eng m opts st2) := by
  unfold parseMethod
  simp only
  split
  · simp [delta]
  · split
    · simp [delta]
    · rw [← hdoc]
      cases hd : st1.docs.docOn m.docChain with
      | none =>
        simp only
        cases parseNotations env sc eng validOpsMethod [] opts with
        | error msgs => simp [delta]
        | panic s => simp [delta]
        | ok res => simp [delta]
      | some ng =>
        obtain ⟨n, g⟩ := ng
        have hg := hgrp n g hd
        simp only [DocState.extract, ← hg]
        cases parseNotations env sc eng validOpsMethod
            (List.filter (fun c => isNotationLine c.text) (st1.docs.group g)) opts with
        | error msgs => simp [delta]
        | panic s => simp [delta]
        | ok res => simp [delta]

/-- **frame**: parsing a method touches no other comment group and no other node's doc pointer -/
theorem parseMethod_frame (m : MethodDecl) (opts : Options) (st st' : PState) (r : Option ParsedMethod)
    (h : parseMethod env sc eng m opts st = .ok (r, st')) :
    (∀ g, (∀ n g', st.docs.docOn m.docChain = some (n, g') → g ≠ g') → st'.docs.group g = st.docs.group g) ∧
    (∀ k, (∀ n g', st.docs.docOn m.docChain = some (n, g') → k ≠ n) → st'.docs.docOf.getD k none = st.docs.docOf.getD k none) := by
  unfold parseMethod at h
  simp only at h
  split at h
  · cases h; exact ⟨fun _ _ => rfl, fun _ _ => rfl⟩
  · split at h
    · cases h; exact ⟨fun _ _ => rfl, fun _ _ => rfl⟩
    · cases hd : st.docs.docOn m.docChain with
      | none =>
        simp only [hd] at h
        split at h
        · cases h; exact ⟨fun _ _ => rfl, fun _ _ => rfl⟩
        · cases h
        · cases h; exact ⟨fun _ _ => rfl, fun _ _ => rfl⟩
      | some ng =>
        obtain ⟨n, g0⟩ := ng
        simp only [hd, DocState.extract] at h
        have hset : ∀ (l : List Comment) g, g ≠ g0 → (st.docs.setGroup g0 l).group g = st.docs.group g := by
          intro l g hne
          simp only [DocState.group, DocState.setGroup, List.getD_eq_getElem?_getD]
          rw [List.getElem?_set_ne (Ne.symm hne)]
        split at h
        · cases h
          refine ⟨fun g hg => hset _ g (hg n g0 rfl), fun _ _ => rfl⟩
        · cases h
        · cases h
          constructor
          · intro g hg
            have hne := hg n g0 rfl
            simp only [DocState.cleanUp]
            split
            · exact hset _ g hne
            · exact hset _ g hne
          · intro k hk
            have hne := hk n g0 rfl
            simp only [DocState.cleanUp]
            split
            · simp only [DocState.setGroup, List.getD_eq_getElem?_getD]
              rw [List.getElem?_set_ne (Ne.symm hne)]
            · rfl

/-- `docOn` reads the doc pointers of the chain's nodes only -/
theorem docOn_congr (s1 s2 : DocState) : ∀ (chain : List Nat),
    (∀ enc ∈ chain, s1.docOf.getD (enc / 8) none = s2.docOf.getD (enc / 8) none) → s1.docOn chain = s2.docOn chain := by
  intro chain
  induction chain with
  | nil => intro _; rfl
  | cons enc rest ih =>
    intro h
    have h0 := h enc List.mem_cons_self
    have hr := ih (fun e he => h e (List.mem_cons_of_mem _ he))
    simp only [DocState.docOn, h0, hr]

/-- two methods whose doc comments are different nodes and different comment groups -/
def Apart (st : PState) (m1 m2 : MethodDecl) : Prop :=
  ∀ n1 g1, st.docs.docOn m1.docChain = some (n1, g1) →
    (∀ enc ∈ m2.docChain, enc / 8 ≠ n1) ∧ (∀ n2 g2, st.docs.docOn m2.docChain = some (n2, g2) → g2 ≠ g1)

/-- **T9.5 (no leakage between methods).**  Whatever notations method `m1` carries — valid, invalid,
failing — method `m2` parsed after it contributes exactly what it contributes when parsed in the
state before `m1`: same options, same diagnostics, same success or failure. -/
theorem method_isolated (m1 m2 : MethodDecl) (o1 o2 : Options) (st st1 : PState) (r1 : Option ParsedMethod)
    (h1 : parseMethod env sc eng m1 o1 st = .ok (r1, st1)) (hap : Apart st m1 m2) :
    delta st1 (parseMethod env sc eng m2 o2 st1) = delta st (parseMethod env sc eng m2 o2 st) := by
  obtain ⟨hgroups, hdocOf⟩ := parseMethod_frame env sc eng m1 o1 st st1 r1 h1
  have hdoc : st1.docs.docOn m2.docChain = st.docs.docOn m2.docChain := by
    apply docOn_congr
    intro enc henc
    apply hdocOf
    intro n g' hd
    exact (hap n g' hd).1 enc henc
  apply parseMethod_local env sc eng m2 o2 st1 st hdoc
  intro n g hd
  apply hgroups
  intro n1 g1 hd1
  rw [hdoc] at hd
  exact (hap n1 g1 hd1).2 n g hd

/-- the driver's check implies apartness -/
theorem apart_of_check (st : PState) (m1 m2 : MethodDecl)
    (h : apartCheck st.docs m1.docChain m2.docChain = true) : Apart st m1 m2 := by
  intro n1 g1 hd
  unfold apartCheck at h
  simp only [hd, Bool.and_eq_true, List.all_eq_true, bne_iff_ne, ne_eq] at h
  refine ⟨fun enc henc => h.1 enc henc, ?_⟩
  intro n2 g2 hd2
  have := h.2
  simp only [hd2, bne_iff_ne, ne_eq] at this
  exact this

/-- non-vacuity: two methods with their own doc comments (nodes 0 and 1, groups 0 and 1) are apart -/
example : Apart { docs := { groups := [[⟨"f.go:3:2", "// :typecast", 10⟩], [⟨"f.go:5:2", "// :getter", 40⟩]],
                            docOf := [some 0, some 1] } }
    { name := "A", pos := "f.go:4:2", params := [], results := [], docChain := [0 * 8 + 4] }
    { name := "B", pos := "f.go:6:2", params := [], results := [], docChain := [1 * 8 + 4] } := by
  intro n1 g1 h
  simp [DocState.docOn] at h
  obtain ⟨rfl, rfl⟩ := h
  constructor
  · intro enc henc
    simp at henc
    subst henc
    decide
  · intro n2 g2 h2
    simp [DocState.docOn] at h2
    obtain ⟨_, rfl⟩ := h2
    decide

end Convergen.Props.C09
