import Convergen.Props.C15
/-!
# C18 — CLI contract: output path, -out, -dry, -print, -log, GOFILE
-/
namespace Convergen.Props.C18
open Convergen

/-- a successful `ParseArgs` yields `configOf` of the parsed flags and the chosen input -/
theorem parseArgs_config (argv : List String) (gofile : String) (c : Config) (f : Flags) (rest : List String)
    (hp : parseFlags (argv.length + 1) argv {} = some (f, rest)) (h : parseArgs argv gofile = .config c) :
    c = configOf f (inputOf rest gofile) := by
  unfold parseArgs at h
  simp only [hp] at h
  by_cases hi : (inputOf rest gofile == "") = true
  · simp [hi] at h
  · simp only [hi, Bool.false_eq_true, ↓reduceIte] at h
    cases h; rfl

/-- **T18.1 (default output path).** Without `-out` the output path is the input path with `.gen`
inserted before its extension. -/
theorem default_output_path (argv : List String) (gofile : String) (c : Config) (f : Flags) (rest : List String)
    (hp : parseFlags (argv.length + 1) argv {} = some (f, rest)) (hout : f.out = "")
    (h : parseArgs argv gofile = .config c) : c.output = defaultOutput c.input := by
  rw [parseArgs_config argv gofile c f rest hp h]
  simp [configOf, hout]

/-- **T18.2 (`-out` redirects).** -/
theorem out_overrides (argv : List String) (gofile : String) (c : Config) (f : Flags) (rest : List String)
    (hp : parseFlags (argv.length + 1) argv {} = some (f, rest)) (hout : f.out ≠ "")
    (h : parseArgs argv gofile = .config c) : c.output = f.out := by
  rw [parseArgs_config argv gofile c f rest hp h]
  simp [configOf, hout]

/-- **T18.3 (`GOFILE` fallback).** With no positional argument the input is `$GOFILE`. -/
theorem gofile_fallback (argv : List String) (gofile : String) (c : Config) (f : Flags)
    (hp : parseFlags (argv.length + 1) argv {} = some (f, [])) (h : parseArgs argv gofile = .config c) :
    c.input = gofile := by
  rw [parseArgs_config argv gofile c f [] hp h]
  simp [configOf, inputOf]

/-- the log path is next to the *output* path, and exists only with `-log` -/
theorem log_next_to_output (f : Flags) (input : String) :
    (configOf f input).log = (if f.log then logPath (configOf f input).output else "") := by
  simp [configOf]

/-- examples of the path arithmetic (`path.Ext`) -/
example : defaultOutput "setup.go" = "setup.gen.go" ∧ defaultOutput "a/b.c/setup.go" = "a/b.c/setup.gen.go" ∧
    defaultOutput "store/user.gorm.go" = "store/user.gorm.gen.go" ∧ defaultOutput "a.b/noext" = "a.b/noext.gen" ∧
    logPath "gen/conv.go" = "gen/conv.log" := by decide

/-- flag parsing stops at the first non-flag: `convergen in.go -dry` ignores `-dry` -/
example : parseArgs ["in.go", "-dry"] "" =
    .config { input := "in.go", output := "in.gen.go", log := "", dryRun := false, prints := false } := by decide
example : parseArgs ["-dry", "-print=true", "-out", "x/y.go", "-log", "in.go"] "" =
    .config { input := "in.go", output := "x/y.go", log := "x/y.log", dryRun := true, prints := true } := by decide
example : parseArgs [] "g.go" =
    .config { input := "g.go", output := "g.gen.go", log := "", dryRun := false, prints := false } := by decide
example : parseArgs [] "" = .usage ∧ parseArgs ["-bogus"] "" = .flagError := by decide

variable (cfg : Config) (core : World → Config → CoreResult) (w : World)

/-- **T18.4 (`-print` mirrors).** On every successful run with `-print` — dry or not — stdout ends
with exactly the bytes that were (or, with `-dry`, would have been) written. -/
theorem print_mirrors (bytes : String) (e o : List String) (w1 : World) (hp : cfg.prints = true)
    (h0 : (afterCore cfg (.ok bytes e o) w1).exit = 0) :
    (afterCore cfg (.ok bytes e o) w1).stdout = o ++ [bytes] := by
  unfold afterCore at h0 ⊢
  by_cases hd : cfg.dryRun = true
  · simp [hd, hp]
  · by_cases hw : w1.writable cfg.output = true
    · simp [hd, hw, hp]
    · simp [hd, hw] at h0

/-- … and what is printed is what is at the output path afterwards (non-dry) -/
theorem print_equals_file (bytes : String) (e o : List String) (w1 : World) (hd : cfg.dryRun = false)
    (h0 : (afterCore cfg (.ok bytes e o) w1).exit = 0) :
    (afterCore cfg (.ok bytes e o) w1).world.get cfg.output = some bytes := by
  unfold afterCore at h0 ⊢
  by_cases hw : w1.writable cfg.output = true
  · simp [hd, hw]
  · simp [hd, hw] at h0

/-- without `-print` a successful run adds nothing to stdout -/
theorem no_print_no_stdout (bytes : String) (e o : List String) (w1 : World) (hp : cfg.prints = false) :
    (afterCore cfg (.ok bytes e o) w1).stdout = o := by
  unfold afterCore
  by_cases hd : cfg.dryRun = true
  · simp [hd, hp]
  · by_cases hw : w1.writable cfg.output = true <;> simp [hd, hw, hp]

/-- **T18.5 (`-log` is neutral).** Two configurations that differ only in the log path give the
same exit status, streams and output bytes — for a `core` that does not look at the log setting and
a world where the log can be opened and is not a file the loader reads. -/
theorem log_neutral (bytes : String) (e o : List String) (w1 w2 : World) (cfg' : Config)
    (hsame : cfg'.output = cfg.output ∧ cfg'.dryRun = cfg.dryRun ∧ cfg'.prints = cfg.prints)
    (hw : w1.writable cfg.output = w2.writable cfg.output) :
    (afterCore cfg (.ok bytes e o) w1).exit = (afterCore cfg' (.ok bytes e o) w2).exit ∧
    (afterCore cfg (.ok bytes e o) w1).stdout = (afterCore cfg' (.ok bytes e o) w2).stdout := by
  obtain ⟨h1, h2, h3⟩ := hsame
  unfold afterCore
  simp only [h1, h2, h3, hw]
  split
  · simp
  · split <;> simp

end Convergen.Props.C18
