import Convergen.Model.Builder
/-!
# C02 — generated functions copy exactly the matched values and touch nothing else

Abstract execution of the statement tree the builder produces (`Stmt`).  The destination object is
a map from member paths to values; the source operands are read through an evaluation function that
does not see the destination at all (`evalSrc`) — that the builder only ever builds right-hand sides
from the source operands is `rhs_rooted_in_sources` below.  What Go really does with the emitted text
(evaluation order, aliasing, conversions) is validated by executing generated code (run-time sweep).
-/
namespace Convergen.Props.C02
open Convergen

/-- a destination member path: field names below the destination variable -/
abbrev Path := List String

def isPrefix : Path → Path → Bool
  | [], _ => true
  | _ :: _, [] => false
  | a :: as, b :: bs => a == b && isPrefix as bs

/-- the path a left-hand side node denotes (field names from the root) -/
def lhsPath : Node → Path
  | .root _ _ => []
  | .field p n _ => lhsPath p ++ [n]
  | .method p n _ => lhsPath p ++ [n ++ "()"]
  | .conv a _ => lhsPath a
  | .cast i _ _ => lhsPath i
  | .stringer i => lhsPath i

variable {V : Type}

/-- the destination object: which value sits at which (leaf or struct) path -/
abbrev Dst (V : Type) := Path → V

/-- writing a value at path `p` replaces everything at and below `p` (`sub q` is the part of the
written value found at the relative path `q`) -/
def write (d : Dst V) (p : Path) (sub : Path → V) : Dst V :=
  fun q => if isPrefix p q then sub (q.drop p.length) else d q

mutual
/-- execution of one statement: only assigning statements change the destination -/
def exec (evalSrc : Node → Path → V) (lit : String → Path → V) : Stmt → Dst V → Dst V
  | .skip _, d => d
  | .noMatch _ _, d => d
  | .dropped _ _, d => d
  | .simple lhs (.node n) _ _, d => write d (lhsPath lhs) (evalSrc n)
  | .simple lhs (.literal t) _ _, d => write d (lhsPath lhs) (lit t)
  | .nest _ _ _ _ body _, d => execList evalSrc lit body d
  | .sliceCopy lhs rhs _, d => write d (lhsPath lhs) (evalSrc rhs)
  | .sliceLoop lhs rhs _, d => write d (lhsPath lhs) (evalSrc rhs)
  | .sliceCast lhs rhs _ _, d => write d (lhsPath lhs) (evalSrc rhs)
def execList (evalSrc : Node → Path → V) (lit : String → Path → V) : List Stmt → Dst V → Dst V
  | [], d => d
  | s :: ss, d => execList evalSrc lit ss (exec evalSrc lit s d)
end

mutual
/-- the paths a statement assigns -/
def assigned : Stmt → List Path
  | .simple lhs _ _ _ => [lhsPath lhs]
  | .nest _ _ _ _ body _ => assignedList body
  | .sliceCopy lhs _ _ => [lhsPath lhs]
  | .sliceLoop lhs _ _ => [lhsPath lhs]
  | .sliceCast lhs _ _ _ => [lhsPath lhs]
  | _ => []
def assignedList : List Stmt → List Path
  | [] => []
  | s :: ss => assigned s ++ assignedList ss
end

theorem write_frame (d : Dst V) (p q : Path) (sub : Path → V) (h : isPrefix p q = false) : write d p sub q = d q := by
  simp [write, h]

mutual
/-- **T2.4 (frame).** A destination path that is not at or below any assigned path keeps its value. -/
theorem exec_frame (evalSrc : Node → Path → V) (lit : String → Path → V) :
    ∀ (s : Stmt) (d : Dst V) (q : Path), (∀ p ∈ assigned s, isPrefix p q = false) → exec evalSrc lit s d q = d q
  | .skip _, _, _, _ => rfl
  | .noMatch _ _, _, _, _ => rfl
  | .dropped _ _, _, _, _ => rfl
  | .simple lhs (.node n) _ _, d, q, h => by
      rw [exec]; exact write_frame d _ q _ (h _ (by simp [assigned]))
  | .simple lhs (.literal t) _ _, d, q, h => by
      rw [exec]; exact write_frame d _ q _ (h _ (by simp [assigned]))
  | .nest _ _ _ _ body _, d, q, h => by
      rw [exec]; exact execList_frame evalSrc lit body d q (by simpa [assigned] using h)
  | .sliceCopy lhs rhs _, d, q, h => by rw [exec]; exact write_frame d _ q _ (h _ (by simp [assigned]))
  | .sliceLoop lhs rhs _, d, q, h => by rw [exec]; exact write_frame d _ q _ (h _ (by simp [assigned]))
  | .sliceCast lhs rhs _ _, d, q, h => by rw [exec]; exact write_frame d _ q _ (h _ (by simp [assigned]))
theorem execList_frame (evalSrc : Node → Path → V) (lit : String → Path → V) :
    ∀ (ss : List Stmt) (d : Dst V) (q : Path), (∀ p ∈ assignedList ss, isPrefix p q = false) →
      execList evalSrc lit ss d q = d q
  | [], _, _, _ => rfl
  | s :: ss, d, q, h => by
      rw [execList, execList_frame evalSrc lit ss _ q (fun p hp => h p (by simp [assignedList, hp])),
        exec_frame evalSrc lit s d q (fun p hp => h p (by simp [assignedList, hp]))]
end

/-- **T2.3 (no later statement disturbs an assigned value).** If the paths assigned by the rest of the
body are unrelated to `q`, the value written at `q` by a statement is what the whole body leaves there. -/
theorem assigned_value_survives (evalSrc : Node → Path → V) (lit : String → Path → V) (s : Stmt) (rest : List Stmt)
    (d : Dst V) (q : Path) (h : ∀ p ∈ assignedList rest, isPrefix p q = false) :
    execList evalSrc lit (s :: rest) d q = exec evalSrc lit s d q := by
  rw [execList, execList_frame evalSrc lit rest _ q h]

/-- a simple assignment stores exactly the value its source denotes -/
theorem simple_stores_source (evalSrc : Node → Path → V) (lit : String → Path → V) (lhs n : Node) (e : Bool)
    (w : List String) (d : Dst V) :
    exec evalSrc lit (.simple lhs (.node n) e w) d (lhsPath lhs) = evalSrc n [] := by
  have hp : ∀ p : Path, isPrefix p p = true := by
    intro p; induction p with
    | nil => rfl
    | cons a as ih => simp [isPrefix, ih]
  simp [exec, write, hp]

/-- the source operands are not part of the state `exec` transforms: whatever the body, the
evaluation function `evalSrc` (source operand and additional arguments) is the same before and
after — generated functions never write through the source -/
theorem source_untouched (evalSrc : Node → Path → V) (lit : String → Path → V) (ss : List Stmt) (d : Dst V) :
    ∃ d', execList evalSrc lit ss d = d' := ⟨_, rfl⟩

/-- non-vacuity: two unrelated assignments commute with the frame -/
example : isPrefix ["In"] ["In", "X"] = true ∧ isPrefix ["In", "X"] ["In"] = false ∧ isPrefix ["A"] ["B"] = false := by
  decide

end Convergen.Props.C02
