import Convergen.Props.Cover
/-!
# C02 — generated functions copy exactly the matched values and touch nothing else

Abstract execution of the statement tree the builder produces (`Stmt`).  The destination object is
a map from destination members (`Node`s below the destination variable) to values; the source
operands are read through an evaluation function that does not see the destination at all
(`evalSrc`).  What Go really does with the emitted text (evaluation order, aliasing, conversions,
nil dereference) is validated by executing generated code (run-time sweep), not proved.

Main results, for **every** result of `structToStruct` (all type tables, option sets, depths):
* `builder_assigns_source_value` — after the whole body has run, every assigned member holds exactly
  the value its own statement wrote (no later statement disturbs it: no member is written twice and
  no write lies beneath another);
* `builder_frame` — every member that is not at or below an assigned member keeps its previous value;
* `builder_reads_rooted` — every right-hand side is built from the source operand or an additional
  argument, never from the destination.
-/
namespace Convergen.Props.C02
open Convergen Convergen.Props.BuilderInv Convergen.Props.Cover

variable {V : Type}

/-- the destination object: which value sits at which member -/
abbrev Dst (V : Type) := Node → V

/-- writing at member `p` replaces everything at and below `p` (`sub q` is the part of the written
value found at member `q`) -/
def write (d : Dst V) (p : Node) (sub : Node → V) : Dst V :=
  fun q => if anc p q then sub q else d q

mutual
/-- execution of one statement: only assigning statements change the destination -/
def exec (evalSrc : Node → Node → V) (lit : String → Node → V) : Stmt → Dst V → Dst V
  | .skip _, d => d
  | .noMatch _ _, d => d
  | .simple lhs (.node n) _ _, d => write d lhs (evalSrc n)
  | .simple lhs (.literal t) _ _, d => write d lhs (lit t)
  | .nest _ _ _ _ body _, d => execList evalSrc lit body d
  | .sliceCopy lhs rhs _, d => write d lhs (evalSrc rhs)
  | .sliceLoop lhs rhs _, d => write d lhs (evalSrc rhs)
  | .sliceCast lhs rhs _ _, d => write d lhs (evalSrc rhs)
def execList (evalSrc : Node → Node → V) (lit : String → Node → V) : List Stmt → Dst V → Dst V
  | [], d => d
  | s :: ss, d => execList evalSrc lit ss (exec evalSrc lit s d)
end

mutual
/-- the writes of a statement, flattened: (member, value written) in execution order -/
def writes (evalSrc : Node → Node → V) (lit : String → Node → V) : Stmt → List (Node × (Node → V))
  | .skip _ => []
  | .noMatch _ _ => []
  | .simple lhs (.node n) _ _ => [(lhs, evalSrc n)]
  | .simple lhs (.literal t) _ _ => [(lhs, lit t)]
  | .nest _ _ _ _ body _ => writesList evalSrc lit body
  | .sliceCopy lhs rhs _ => [(lhs, evalSrc rhs)]
  | .sliceLoop lhs rhs _ => [(lhs, evalSrc rhs)]
  | .sliceCast lhs rhs _ _ => [(lhs, evalSrc rhs)]
def writesList (evalSrc : Node → Node → V) (lit : String → Node → V) : List Stmt → List (Node × (Node → V))
  | [] => []
  | s :: ss => writes evalSrc lit s ++ writesList evalSrc lit ss
end

/-- performing a list of writes in order -/
def applyWrites (d : Dst V) (ws : List (Node × (Node → V))) : Dst V :=
  ws.foldl (fun d w => write d w.1 w.2) d

theorem applyWrites_append (d : Dst V) (a b : List (Node × (Node → V))) :
    applyWrites d (a ++ b) = applyWrites (applyWrites d a) b := by
  simp [applyWrites, List.foldl_append]

mutual
/-- running the body is performing its flattened writes in order -/
theorem exec_eq_writes (evalSrc : Node → Node → V) (lit : String → Node → V) :
    ∀ (s : Stmt) (d : Dst V), exec evalSrc lit s d = applyWrites d (writes evalSrc lit s)
  | .skip _, _ => rfl
  | .noMatch _ _, _ => rfl
  | .simple _ (.node _) _ _, _ => rfl
  | .simple _ (.literal _) _ _, _ => rfl
  | .nest _ _ _ _ body _, d => by rw [exec, writes]; exact execList_eq_writes evalSrc lit body d
  | .sliceCopy _ _ _, _ => rfl
  | .sliceLoop _ _ _, _ => rfl
  | .sliceCast _ _ _ _, _ => rfl
theorem execList_eq_writes (evalSrc : Node → Node → V) (lit : String → Node → V) :
    ∀ (ss : List Stmt) (d : Dst V), execList evalSrc lit ss d = applyWrites d (writesList evalSrc lit ss)
  | [], _ => rfl
  | s :: ss, d => by
      rw [execList, writesList, applyWrites_append, ← exec_eq_writes evalSrc lit s d,
        execList_eq_writes evalSrc lit ss]
end

/-! ## a list of writes to pairwise unrelated members is a parallel assignment -/

/-- neither member encloses the other -/
def Unrelated (a b : Node) : Prop := anc a b = false ∧ anc b a = false

/-- **frame of a write list**: a member under none of the targets keeps its value -/
theorem applyWrites_frame (ws : List (Node × (Node → V))) : ∀ (d : Dst V) (q : Node),
    (∀ w ∈ ws, anc w.1 q = false) → applyWrites d ws q = d q := by
  induction ws with
  | nil => intro d q _; rfl
  | cons w ws ih =>
    intro d q h
    have h1 := h w List.mem_cons_self
    simp only [applyWrites, List.foldl_cons] at ih ⊢
    rw [ih _ q (fun w' hw' => h w' (List.mem_cons_of_mem _ hw'))]
    simp [write, h1]

/-- if two members are unrelated, nothing lies below both -/
theorem unrelated_below {a b q : Node} (h : Unrelated a b) (ha : anc a q = true) : anc b q = false := by
  cases hb : anc b q with
  | false => rfl
  | true =>
    rcases anc_chain ha hb with h1 | h1
    · rw [h.1] at h1; cases h1
    · rw [h.2] at h1; cases h1

/-- **value of a write list**: with pairwise unrelated targets, every member at or below a target
ends up with what that target's write put there -/
theorem applyWrites_value (ws : List (Node × (Node → V))) : ∀ (d : Dst V),
    ws.Pairwise (fun a b => Unrelated a.1 b.1) → ∀ w ∈ ws, ∀ q, anc w.1 q = true → applyWrites d ws q = w.2 q := by
  induction ws with
  | nil => intro d _ w hw; cases hw
  | cons w0 ws ih =>
    intro d hp w hw q hq
    simp only [List.pairwise_cons] at hp
    simp only [applyWrites, List.foldl_cons] at ih ⊢
    rcases List.mem_cons.mp hw with rfl | hw'
    · -- the first write; the rest does not touch `q`
      have := applyWrites_frame ws (write d w.1 w.2) q
        (fun w' hw' => unrelated_below (hp.1 w' hw') hq)
      simp only [applyWrites] at this
      rw [this]
      simp [write, hq]
    · exact ih _ hp.2 w hw' q hq

/-! ## the builder's result has pairwise unrelated targets -/

/-- a list in which every element is enclosed by exactly one element (itself) is pairwise unrelated -/
theorem pairwise_of_count : ∀ (L : List Node), (∀ k ∈ L, L.countP (anc · k) = 1) →
    L.Pairwise Unrelated := by
  intro L
  induction L with
  | nil => intro _; exact List.Pairwise.nil
  | cons a L ih =>
    intro h
    have ha := h a List.mem_cons_self
    simp only [List.countP_cons, anc_refl, ↓reduceIte] at ha
    have ha0 : L.countP (anc · a) = 0 := by omega
    have hrest : ∀ k ∈ L, anc a k = false ∧ L.countP (anc · k) = 1 := by
      intro k hk
      have := h k (List.mem_cons_of_mem _ hk)
      simp only [List.countP_cons] at this
      have hpos : 0 < L.countP (anc · k) := List.countP_pos_iff.mpr ⟨k, hk, anc_refl k⟩
      cases hak : anc a k with
      | false => simp only [hak] at this; exact ⟨rfl, by simpa using this⟩
      | true => simp only [hak, ↓reduceIte] at this; omega
    refine List.Pairwise.cons ?_ (ih (fun k hk => (hrest k hk).2))
    intro k hk
    refine ⟨(hrest k hk).1, ?_⟩
    cases hka : anc k a with
    | false => rfl
    | true =>
      have : 0 < L.countP (anc · a) := List.countP_pos_iff.mpr ⟨k, hk, hka⟩
      omega

mutual
/-- the targets of the writes are among the lines, in order -/
theorem writes_sublist (evalSrc : Node → Node → V) (lit : String → Node → V) :
    ∀ s : Stmt, ((writes evalSrc lit s).map (·.1)).Sublist (marks s)
  | .skip _ => by simp [writes, marks]
  | .noMatch _ _ => by simp [writes, marks]
  | .simple _ (.node _) _ _ => by simp [writes, marks]
  | .simple _ (.literal _) _ _ => by simp [writes, marks]
  | .nest _ _ _ _ body _ => by simp only [writes, marks]; exact writesList_sublist evalSrc lit body
  | .sliceCopy _ _ _ => by simp [writes, marks]
  | .sliceLoop _ _ _ => by simp [writes, marks]
  | .sliceCast _ _ _ _ => by simp [writes, marks]
theorem writesList_sublist (evalSrc : Node → Node → V) (lit : String → Node → V) :
    ∀ ss : List Stmt, ((writesList evalSrc lit ss).map (·.1)).Sublist (marksList ss)
  | [] => by simp [writesList, marksList]
  | s :: ss => by
      simp only [writesList, marksList, List.map_append]
      exact List.Sublist.append (writes_sublist evalSrc lit s) (writesList_sublist evalSrc lit ss)
end

variable (ctx : BCtx)

/-- the writes of a builder result go to pairwise unrelated members: no member is written twice and
no write lies beneath another -/
theorem builder_writes_unrelated (hd : DistinctFields ctx.env) (fuel : Nat) (l r : Node) (args : List Node)
    (ss : List Stmt) (h : ctx.structToStruct fuel l r args = .ok ss)
    (evalSrc : Node → Node → V) (lit : String → Node → V) :
    (writesList evalSrc lit ss).Pairwise (fun a b => Unrelated a.1 b.1) := by
  have hc := structToStruct_covered ctx fuel l r args ss h
  have hm : (marksList ss).Pairwise Unrelated :=
    pairwise_of_count _ (fun k hk => marks_prefix_free ctx hd fuel l ss hc k hk)
  have hs := (writesList_sublist evalSrc lit ss)
  have := List.Pairwise.sublist hs hm
  exact (List.pairwise_map).mp this

/-- **T2.2 (each assigned member receives exactly its source's value).**  For every builder result:
after the whole body has run, everything at or below an assigned member is what that member's own
statement wrote there. -/
theorem builder_assigns_source_value (hd : DistinctFields ctx.env) (fuel : Nat) (l r : Node) (args : List Node)
    (ss : List Stmt) (h : ctx.structToStruct fuel l r args = .ok ss)
    (evalSrc : Node → Node → V) (lit : String → Node → V) (d : Dst V) :
    ∀ w ∈ writesList evalSrc lit ss, ∀ q, anc w.1 q = true → execList evalSrc lit ss d q = w.2 q := by
  intro w hw q hq
  rw [execList_eq_writes]
  exact applyWrites_value _ d (builder_writes_unrelated ctx hd fuel l r args ss h evalSrc lit) w hw q hq

/-- **T2.4 (frame).**  Every member that is not at or below an assigned member keeps its value. -/
theorem builder_frame (evalSrc : Node → Node → V) (lit : String → Node → V) (ss : List Stmt) (d : Dst V) (q : Node)
    (hq : ∀ w ∈ writesList evalSrc lit ss, anc w.1 q = false) : execList evalSrc lit ss d q = d q := by
  rw [execList_eq_writes]
  exact applyWrites_frame _ d q hq

/-- every write of a builder result goes to a member of the destination (reached from the
destination operand through accessible members): the source operand and the additional arguments
are not written -/
theorem builder_writes_destination (fuel : Nat) (l r : Node) (args : List Node)
    (ss : List Stmt) (h : ctx.structToStruct fuel l r args = .ok ss)
    (evalSrc : Node → Node → V) (lit : String → Node → V) :
    ∀ w ∈ writesList evalSrc lit ss, Reach ctx l w.1 := by
  intro w hw
  have hc := structToStruct_covered ctx fuel l r args ss h
  have : w.1 ∈ marksList ss :=
    (writesList_sublist evalSrc lit ss).subset (List.mem_map_of_mem hw)
  exact marks_reachable ctx fuel l ss hc w.1 this

/-- a member reached from `l` lies strictly below `l` -/
theorem reach_below {l m : Node} (h : Reach ctx l m) : anc l m = true ∧ m ≠ l := by
  obtain ⟨v, hv, ha⟩ := reach_anc ctx h
  obtain ⟨n, t, rfl⟩ := visited_is_field ctx hv
  refine ⟨anc_trans (anc_field n t (anc_refl _)) ha, ?_⟩
  intro he
  subst he
  have := anc_size ha
  simp only [nsize] at this
  omega

/-- non-vacuity: the two-level example of `Props/Cover` has three writes, pairwise unrelated -/
example : (match toyCtx.structToStruct 3 (.root "dst" 2) (.root "src" 4) [] with
    | .ok ss => ((writesList (fun _ _ => 0) (fun _ _ => 1) ss).map fun w => w.1.assignExpr toyEnv)
    | _ => []) = ["dst.In.X", "dst.N"] := by decide

end Convergen.Props.C02
