import Convergen.Model.Builder
import Convergen.Model.Render
/-!
# C04 — default matching: same name, compatible type, only opted-in conversions
-/
namespace Convergen.Props.C04
open Convergen

variable (ctx : BCtx)

theorem newTypecast_shape (t : TyId) (inner c : Node) (h : ctx.newTypecast t inner = .ok (some c)) :
    ∃ e, c = .cast inner t e := by
  unfold BCtx.newTypecast at h
  simp only at h
  split at h
  · split at h
    · cases h; exact ⟨_, rfl⟩
    · split at h
      · cases h; exact ⟨_, rfl⟩
      · split at h
        · cases h; exact ⟨_, rfl⟩
        · split at h
          · split at h <;> (cases h; exact ⟨_, rfl⟩)
          · cases h; exact ⟨_, rfl⟩
  · cases h; exact ⟨_, rfl⟩
  · cases h

/-- the three ways `castNode` can succeed; a call that also returns an error is taken as it is or
not at all — it is never wrapped -/
theorem castNode_cases (lhsT : TyId) (rhs n : Node) (w : List String)
    (h : ctx.castNode lhsT rhs = .ok (some n, w)) :
    (n = rhs ∧ ctx.env.assignable (rhs.exprType ctx.env) lhsT = true) ∨
    (n = .stringer rhs ∧ ctx.opts.stringer = true ∧ ctx.env.assignable ctx.env.stringTy lhsT = true ∧
       ctx.env.compliesStringer (rhs.exprType ctx.env) = true ∧ rhs.returnsError = false) ∨
    ((∃ e, n = .cast rhs lhsT e) ∧ ctx.opts.typecast = true ∧
       ctx.env.convertible (rhs.exprType ctx.env) lhsT = true ∧ rhs.returnsError = false) := by
  unfold BCtx.castNode at h
  simp only at h
  by_cases ha : ctx.env.assignable (rhs.exprType ctx.env) lhsT = true
  · simp only [ha, ↓reduceIte] at h
    cases h; exact Or.inl ⟨rfl, ha⟩
  · simp only [ha, Bool.false_eq_true, ↓reduceIte] at h
    by_cases hre : rhs.returnsError = true
    · simp only [hre, ↓reduceIte] at h; cases h
    · have hre' : rhs.returnsError = false := by simpa using hre
      simp only [hre', Bool.false_eq_true, ↓reduceIte] at h
      by_cases hs : (ctx.opts.stringer && ctx.env.assignable ctx.env.stringTy lhsT &&
          ctx.env.compliesStringer (rhs.exprType ctx.env)) = true
      · simp only [hs, ↓reduceIte] at h
        cases h
        simp only [Bool.and_eq_true] at hs
        exact Or.inr (Or.inl ⟨rfl, hs.1.1, hs.1.2, hs.2, hre'⟩)
      · simp only [hs, Bool.false_eq_true, ↓reduceIte] at h
        by_cases ht : (ctx.opts.typecast && ctx.env.convertible (rhs.exprType ctx.env) lhsT) = true
        · simp only [ht, ↓reduceIte] at h
          simp only [Bool.and_eq_true] at ht
          cases hnt : ctx.newTypecast lhsT rhs with
          | ok c? =>
            cases c? with
            | some c =>
              simp only [hnt] at h
              cases h
              exact Or.inr (Or.inr ⟨newTypecast_shape ctx lhsT rhs n hnt, ht.1, ht.2, hre'⟩)
            | none =>
              simp only [hnt] at h
              cases h
          | error e => simp only [hnt] at h; cases h
          | panic p => simp only [hnt] at h; cases h
        · simp only [ht, Bool.false_eq_true, ↓reduceIte] at h
          cases h

/-- **T4.2 (no conversion without its opt-in).** Whatever `castNode` returns is the candidate
itself, or its `String()` call — only when `:stringer` is on —, or a type conversion — only when
`:typecast` is on. -/
theorem castNode_opt_in (lhsT : TyId) (rhs n : Node) (w : List String)
    (h : ctx.castNode lhsT rhs = .ok (some n, w)) :
    n = rhs ∨ (ctx.opts.stringer = true ∧ n = .stringer rhs) ∨
      (ctx.opts.typecast = true ∧ ∃ e, n = .cast rhs lhsT e) := by
  rcases castNode_cases ctx lhsT rhs n w h with h1 | h2 | h3
  · exact Or.inl h1.1
  · exact Or.inr (Or.inl ⟨h2.2.1, h2.1⟩)
  · exact Or.inr (Or.inr ⟨h3.2.1, h3.1⟩)

/-- what `castNode` returns is well typed for the destination: assignable as it is, a string
where a string is assignable, or a conversion between convertible types -/
theorem castNode_sound (lhsT : TyId) (rhs n : Node) (w : List String)
    (h : ctx.castNode lhsT rhs = .ok (some n, w)) :
    ctx.env.assignable (rhs.exprType ctx.env) lhsT = true ∨
    (n = .stringer rhs ∧ ctx.env.assignable ctx.env.stringTy lhsT = true ∧
       ctx.env.compliesStringer (rhs.exprType ctx.env) = true) ∨
    ((∃ e, n = .cast rhs lhsT e) ∧ ctx.env.convertible (rhs.exprType ctx.env) lhsT = true) := by
  rcases castNode_cases ctx lhsT rhs n w h with h1 | h2 | h3
  · exact Or.inl h1.2
  · exact Or.inr (Or.inl ⟨h2.1, h2.2.2.1, h2.2.2.2.1⟩)
  · exact Or.inr (Or.inr ⟨h3.1, h3.2.2.1⟩)

/-- **completeness of `castNode`**: it refuses only when the candidate's type is not assignable and
either the candidate is a call that also returns an error (which cannot be wrapped), or the
`String()` route is closed (not opted in, or not applicable) and the conversion route is closed (not
opted in, or the types are not convertible) -/
theorem castNode_none (lhsT : TyId) (rhs : Node) (w : List String) (h : ctx.castNode lhsT rhs = .ok (none, w)) :
    ctx.env.assignable (rhs.exprType ctx.env) lhsT = false ∧
    (rhs.returnsError = true ∨
      ((ctx.opts.stringer && ctx.env.assignable ctx.env.stringTy lhsT &&
          ctx.env.compliesStringer (rhs.exprType ctx.env)) = false ∧
       ((ctx.opts.typecast && ctx.env.convertible (rhs.exprType ctx.env) lhsT) = false ∨
        ctx.newTypecast lhsT rhs = .ok none))) := by
  unfold BCtx.castNode at h
  simp only at h
  by_cases ha : ctx.env.assignable (rhs.exprType ctx.env) lhsT = true
  · simp only [ha, ↓reduceIte] at h; cases h
  · simp only [ha, Bool.false_eq_true, ↓reduceIte] at h
    refine ⟨by simpa using ha, ?_⟩
    by_cases hre : rhs.returnsError = true
    · exact Or.inl hre
    · right
      have hre' : rhs.returnsError = false := by simpa using hre
      simp only [hre', Bool.false_eq_true, ↓reduceIte] at h
      by_cases hs : (ctx.opts.stringer && ctx.env.assignable ctx.env.stringTy lhsT &&
          ctx.env.compliesStringer (rhs.exprType ctx.env)) = true
      · simp only [hs, ↓reduceIte] at h; cases h
      · simp only [hs, Bool.false_eq_true, ↓reduceIte] at h
        refine ⟨by simpa using hs, ?_⟩
        by_cases ht : (ctx.opts.typecast && ctx.env.convertible (rhs.exprType ctx.env) lhsT) = true
        · simp only [ht, ↓reduceIte] at h
          right
          cases hnt : ctx.newTypecast lhsT rhs with
          | ok c? =>
            cases c? with
            | some c => simp only [hnt] at h; cases h
            | none => rfl
          | error e => simp only [hnt] at h; cases h
          | panic p => simp only [hnt] at h; cases h
        · left; simpa using ht

/-- an assignable candidate is always taken as it is -/
theorem castNode_assignable (lhsT : TyId) (rhs : Node)
    (h : ctx.env.assignable (rhs.exprType ctx.env) lhsT = true) : ctx.castNode lhsT rhs = .ok (some rhs, []) := by
  unfold BCtx.castNode
  simp [h]

/-! ## one candidate -/

/-- a candidate is considered only if it is accessible and its name equals the destination
field's name under the method's case rule: any other candidate yields nothing -/
theorem tryCand_ignores_other_names (rec : Node → Node → Outcome (List Stmt)) (lhs rhsStruct cand : Node)
    (warns : List String)
    (h : (ctx.accessible rhsStruct cand.objName && ctx.opts.compareFieldName lhs.objName cand.objName) = false) :
    ctx.tryCand rec lhs rhsStruct warns cand = .ok (none, warns) := by
  unfold BCtx.tryCand
  have : (!ctx.accessible rhsStruct cand.objName || !ctx.opts.compareFieldName lhs.objName cand.objName) = true := by
    cases ha : ctx.accessible rhsStruct cand.objName <;> cases hb : ctx.opts.compareFieldName lhs.objName cand.objName <;>
      simp_all
  simp [this, pure]

/-- the statement forms the default matcher can make from candidate `cand` -/
inductive FromCand (rec : Node → Node → Outcome (List Stmt)) (lhs cand : Node) : Stmt → Prop
  | slice {s} : ctx.env.isSliceType (lhs.exprType ctx.env) = true → ctx.env.isSliceType (cand.exprType ctx.env) = true →
      ctx.sliceToSlice lhs cand = .ok (some s) → FromCand rec lhs cand s
  | direct {n w w'} : ctx.castNode (lhs.exprType ctx.env) cand = .ok (some n, w) →
      ctx.memberwise lhs cand = .ok false →
      FromCand rec lhs cand (.simple lhs (.node n) n.returnsError w')
  | nested {i nc body c? w w'} : ctx.castNode (lhs.exprType ctx.env) cand = .ok (c?, w) →
      (c? = none ∨ ctx.memberwise lhs cand = .ok true) →
      ctx.env.isStructType (lhs.exprType ctx.env) = true → ctx.env.isStructType (cand.exprType ctx.env) = true →
      rec lhs cand = .ok body → body ≠ [] → FromCand rec lhs cand (.nest lhs cand i nc body w')

theorem castOrNest_some (rec : Node → Node → Outcome (List Stmt)) (lhs cand : Node) (warns w' : List String) (mw : Bool)
    (s : Stmt) (hmw : ctx.memberwise lhs cand = .ok mw)
    (h : ctx.castOrNest rec lhs cand warns mw = .ok (some s, w')) : FromCand ctx rec lhs cand s := by
  unfold BCtx.castOrNest at h
  simp only at h
  cases hc : ctx.castNode (lhs.exprType ctx.env) cand with
  | error e => simp only [hc] at h; cases h
  | panic p => simp only [hc] at h; cases h
  | ok r =>
    obtain ⟨c?, w⟩ := r
    simp only [hc] at h
    cases hm : (if mw = true then none else c?) with
    | some c =>
      simp only [hm] at h
      cases h
      cases mw with
      | true => simp at hm
      | false =>
        simp only [Bool.false_eq_true, ↓reduceIte] at hm
        subst hm
        exact FromCand.direct hc hmw
    | none =>
      simp only [hm] at h
      split at h
      · rename_i hst
        simp only [Bool.and_eq_true] at hst
        cases hr : rec lhs cand with
        | error e => simp only [hr] at h; cases h
        | panic p => simp only [hr] at h; cases h
        | ok body =>
          simp only [hr] at h
          split at h
          · cases h
          · rename_i hne
            cases h
            refine FromCand.nested hc ?_ hst.1 hst.2 hr (by simpa using hne)
            cases mw with
            | true => exact Or.inr hmw
            | false =>
              simp only [Bool.false_eq_true, ↓reduceIte] at hm
              exact Or.inl hm
      · cases h

/-- **soundness of one candidate**: a statement comes only from an accessible candidate of the same
name (under the case rule), and it is a slice copy, the candidate after `castNode` (so: assignable,
or an opted-in conversion — `castNode_cases`) when no notation names a member beneath the
destination, or a member-by-member block of two struct types -/
theorem tryCand_some (rec : Node → Node → Outcome (List Stmt)) (lhs rhsStruct cand : Node) (warns w' : List String)
    (s : Stmt) (h : ctx.tryCand rec lhs rhsStruct warns cand = .ok (some s, w')) :
    ctx.accessible rhsStruct cand.objName = true ∧ ctx.opts.compareFieldName lhs.objName cand.objName = true ∧
      FromCand ctx rec lhs cand s := by
  unfold BCtx.tryCand at h
  simp only at h
  split at h
  · cases h
  · rename_i hacc
    have hacc' : ctx.accessible rhsStruct cand.objName = true ∧
        ctx.opts.compareFieldName lhs.objName cand.objName = true := by
      cases ha : ctx.accessible rhsStruct cand.objName <;>
        cases hb : ctx.opts.compareFieldName lhs.objName cand.objName <;> simp_all
    refine ⟨hacc'.1, hacc'.2, ?_⟩
    cases hsl : (if ctx.env.isSliceType (lhs.exprType ctx.env) && ctx.env.isSliceType (cand.exprType ctx.env)
        then ctx.sliceToSlice lhs cand else Outcome.ok none) with
    | error e => simp only [hsl] at h; cases h
    | panic p => simp only [hsl] at h; cases h
    | ok sl =>
      simp only [hsl] at h
      cases sl with
      | some s0 =>
        simp only at h
        cases h
        split at hsl
        · rename_i hboth
          simp only [Bool.and_eq_true] at hboth
          exact FromCand.slice hboth.1 hboth.2 hsl
        · cases hsl
      | none =>
        simp only at h
        cases hmw : ctx.memberwise lhs cand with
        | error e => simp only [hmw] at h; cases h
        | panic p => simp only [hmw] at h; cases h
        | ok mw =>
          simp only [hmw] at h
          exact castOrNest_some ctx rec lhs cand warns w' mw s hmw h

/-- **completeness of one candidate**: an accessible candidate of the same name yields nothing only
when no slice copy applies, and either `castNode` refuses it (`castNode_none`) or a notation names a
member beneath the destination, and it is not a pair of struct types with something to copy member
by member -/
theorem tryCand_none (rec : Node → Node → Outcome (List Stmt)) (lhs rhsStruct cand : Node) (warns w' : List String)
    (hacc : ctx.accessible rhsStruct cand.objName = true)
    (hname : ctx.opts.compareFieldName lhs.objName cand.objName = true)
    (h : ctx.tryCand rec lhs rhsStruct warns cand = .ok (none, w')) :
    ((∃ w, ctx.castNode (lhs.exprType ctx.env) cand = .ok (none, w)) ∨ ctx.memberwise lhs cand = .ok true) ∧
    ((ctx.env.isSliceType (lhs.exprType ctx.env) && ctx.env.isSliceType (cand.exprType ctx.env)) = true →
        ctx.sliceToSlice lhs cand = .ok none) ∧
    ((ctx.env.isStructType (lhs.exprType ctx.env) && ctx.env.isStructType (cand.exprType ctx.env)) = true →
        rec lhs cand = .ok []) := by
  unfold BCtx.tryCand at h
  simp only [hacc, hname, Bool.not_true, Bool.or_self, Bool.false_eq_true, ↓reduceIte] at h
  cases hsl : (if ctx.env.isSliceType (lhs.exprType ctx.env) && ctx.env.isSliceType (cand.exprType ctx.env)
      then ctx.sliceToSlice lhs cand else Outcome.ok none) with
  | error e => simp only [hsl] at h; cases h
  | panic p => simp only [hsl] at h; cases h
  | ok sl =>
    simp only [hsl] at h
    cases sl with
    | some s0 => simp only at h; cases h
    | none =>
      simp only at h
      have hslice : (ctx.env.isSliceType (lhs.exprType ctx.env) && ctx.env.isSliceType (cand.exprType ctx.env)) = true →
          ctx.sliceToSlice lhs cand = .ok none := by
        intro hb; simpa [hb] using hsl
      cases hmw : ctx.memberwise lhs cand with
      | error e => simp only [hmw] at h; cases h
      | panic p => simp only [hmw] at h; cases h
      | ok mw =>
        simp only [hmw] at h
        unfold BCtx.castOrNest at h
        simp only at h
        cases hc : ctx.castNode (lhs.exprType ctx.env) cand with
        | error e => simp only [hc] at h; cases h
        | panic p => simp only [hc] at h; cases h
        | ok r =>
          obtain ⟨c?, w⟩ := r
          simp only [hc] at h
          cases hm : (if mw = true then none else c?) with
          | some c => simp only [hm] at h; cases h
          | none =>
            simp only [hm] at h
            refine ⟨?_, hslice, ?_⟩
            · cases mw with
              | true => exact Or.inr rfl
              | false =>
                simp only [Bool.false_eq_true, ↓reduceIte] at hm
                subst hm
                exact Or.inl ⟨w, rfl⟩
            · intro hst
              simp only [hst, ↓reduceIte] at h
              cases hr : rec lhs cand with
              | error e => simp only [hr] at h; cases h
              | panic p => simp only [hr] at h; cases h
              | ok body =>
                simp only [hr] at h
                split at h
                · rename_i hemp
                  have : body = [] := by simpa using hemp
                  rw [this]
                · cases h

/-! ## the search over the candidates -/

/-- the candidate list follows the options: nothing unless the rule is `:match name`; getters only
under `:getter`, and before the fields -/
theorem candidates_none (rhsStruct : Node) (hr : ctx.opts.rule ≠ .name) : ctx.candidates rhsStruct = [] := by
  unfold BCtx.candidates
  have hr' : (ctx.opts.rule == MatchRule.name) = false := by
    cases hrule : ctx.opts.rule <;> simp_all
  simp [hr']

theorem candidates_name (rhsStruct : Node) (hr : ctx.opts.rule = .name) :
    ctx.candidates rhsStruct =
      (if ctx.opts.getter then
        ((ctx.env.methodsOf (rhsStruct.exprType ctx.env)).filter fun m =>
            ctx.env.compliesGetter m &&
              !(m.ptrRecv && !ctx.env.isPtr (rhsStruct.exprType ctx.env) && !rhsStruct.addressable ctx.env)).map
          fun m => Node.method rhsStruct m.name m.results
       else []) ++
      ((ctx.env.fieldsOf (rhsStruct.exprType ctx.env)).map fun f => Node.field rhsStruct f.name f.ty) := by
  unfold BCtx.candidates
  simp [hr]

/-- a getter is a candidate only if it can be called on the source expression: a pointer-receiver
method needs a pointer or an addressable value (C01: never emit a call that does not compile) -/
theorem candidates_callable (rhsStruct : Node) (p : Node) (n : String) (rs : List TyId)
    (h : Node.method p n rs ∈ ctx.candidates rhsStruct) :
    ∃ m ∈ ctx.env.methodsOf (rhsStruct.exprType ctx.env), m.name = n ∧ ctx.env.compliesGetter m = true ∧
      (m.ptrRecv = true → ctx.env.isPtr (rhsStruct.exprType ctx.env) = true ∨ rhsStruct.addressable ctx.env = true) := by
  unfold BCtx.candidates at h
  simp only at h
  split at h
  · simp only [List.mem_append, List.mem_map] at h
    rcases h with h | ⟨f, _, hf⟩
    · split at h
      · simp only [List.mem_map, List.mem_filter, Bool.and_eq_true, Bool.not_eq_true'] at h
        obtain ⟨m, ⟨hm, hc, hp⟩, he⟩ := h
        injection he with _ hn _
        refine ⟨m, hm, hn, hc, ?_⟩
        intro hptr
        simp only [hptr, Bool.true_and, Bool.and_eq_false_iff, Bool.not_eq_false'] at hp
        exact hp
      · cases h
    · cases hf
  · cases h

/-- no getter call is ever introduced without `:getter` -/
theorem candidates_no_getter (rhsStruct : Node) (hg : ctx.opts.getter = false) :
    ∀ c ∈ ctx.candidates rhsStruct, ∃ n t, c = .field rhsStruct n t := by
  intro c hc
  unfold BCtx.candidates at hc
  simp only at hc
  split at hc
  · simp only [hg, Bool.false_eq_true, ↓reduceIte, List.nil_append, List.mem_map] at hc
    obtain ⟨f, _, rfl⟩ := hc
    exact ⟨_, _, rfl⟩
  · cases hc

/-- the fold over the candidates: once a statement is found the state no longer changes -/
theorem fold_found (rec : Node → Node → Outcome (List Stmt)) (lhs rhsStruct : Node) (st : BCtx.Pass)
    (hs : st.a.isSome = true) : ∀ cands, foldOutcome (ctx.handler rec lhs rhsStruct) st cands = .ok st := by
  intro cands
  induction cands with
  | nil => rfl
  | cons c cs ih => simp only [foldOutcome, BCtx.handler, hs, ↓reduceIte]; exact ih

/-- **the search finds the first candidate that yields a statement.**  If the fold ends with a
statement `s`, the candidate list splits into candidates that yielded nothing, the candidate that
yielded `s`, and the rest (never tried); if it ends without, every candidate yielded nothing. -/
theorem fold_first (rec : Node → Node → Outcome (List Stmt)) (lhs rhsStruct : Node) :
    ∀ (cands : List Node) (st st' : BCtx.Pass), st.a = none →
      foldOutcome (ctx.handler rec lhs rhsStruct) st cands = .ok st' →
      (st'.a = none ∧ ∀ c ∈ cands, ∃ w w', ctx.tryCand rec lhs rhsStruct w c = .ok (none, w')) ∨
      (∃ pre c post s w w', cands = pre ++ c :: post ∧ st'.a = some s ∧
        (∀ c' ∈ pre, ∃ w1 w2, ctx.tryCand rec lhs rhsStruct w1 c' = .ok (none, w2)) ∧
        ctx.tryCand rec lhs rhsStruct w c = .ok (some s, w')) := by
  intro cands
  induction cands with
  | nil =>
    intro st st' hst h
    simp only [foldOutcome] at h
    cases h
    exact Or.inl ⟨hst, fun c hc => by cases hc⟩
  | cons c cs ih =>
    intro st st' hst h
    simp only [foldOutcome] at h
    cases hh : ctx.handler rec lhs rhsStruct st c with
    | error e => simp only [hh] at h; cases h
    | panic p => simp only [hh] at h; cases h
    | ok st1 =>
      simp only [hh] at h
      unfold BCtx.handler at hh
      simp only [hst, Option.isSome_none, Bool.false_eq_true, ↓reduceIte] at hh
      cases ht : ctx.tryCand rec lhs rhsStruct st.warns c with
      | error e => simp only [ht] at hh; cases hh
      | panic p => simp only [ht] at hh; cases hh
      | ok r =>
        obtain ⟨a, w⟩ := r
        simp only [ht] at hh
        cases hh
        cases a with
        | none =>
          rcases ih { a := none, warns := w } st' rfl h with ⟨hn, hall⟩ | ⟨pre, c0, post, s, w1, w2, hsplit, hs, hpre, hc0⟩
          · refine Or.inl ⟨hn, ?_⟩
            intro c' hc'
            rcases List.mem_cons.mp hc' with rfl | hc'
            · exact ⟨_, _, ht⟩
            · exact hall c' hc'
          · refine Or.inr ⟨c :: pre, c0, post, s, w1, w2, by simp [hsplit], hs, ?_, hc0⟩
            intro c' hc'
            rcases List.mem_cons.mp hc' with rfl | hc'
            · exact ⟨_, _, ht⟩
            · exact hpre c' hc'
        | some s =>
          have := fold_found ctx rec lhs rhsStruct { a := some s, warns := w } rfl cs
          rw [this] at h
          cases h
          exact Or.inr ⟨[], c, cs, s, _, _, rfl, rfl, (fun c' hc' => by cases hc'), ht⟩

/-- **T4.1 (the default matcher, both directions).**  Whatever `structFieldAndStructGettersAndFields`
returns for a destination member is either
* `no match` — and then *every* candidate (getters under `:getter`, then fields; none at all under
  `:match none`) yielded nothing: wrong name, inaccessible, or refused on type grounds
  (`tryCand_ignores_other_names`, `tryCand_none`); or
* the statement made from the *first* candidate in that order that yields one
  (`tryCand_some`: accessible, same name under the case rule, type-compatible after only opted-in
  conversions, or a struct pair copied member by member). -/
theorem fieldDefault_spec (rec : Node → Node → Outcome (List Stmt)) (lhs rhsStruct : Node) (s : Stmt)
    (h : ctx.fieldDefault rec lhs rhsStruct = .ok s) :
    ((∃ w, s = .noMatch lhs w) ∧
        ∀ c ∈ ctx.candidates rhsStruct, ∃ w w', ctx.tryCand rec lhs rhsStruct w c = .ok (none, w')) ∨
    (∃ pre c post w w', ctx.candidates rhsStruct = pre ++ c :: post ∧
        (∀ c' ∈ pre, ∃ w1 w2, ctx.tryCand rec lhs rhsStruct w1 c' = .ok (none, w2)) ∧
        ctx.tryCand rec lhs rhsStruct w c = .ok (some s, w')) := by
  unfold BCtx.fieldDefault at h
  simp only [bind, Outcome.bind, pure] at h
  cases hf : foldOutcome (ctx.handler rec lhs rhsStruct) {} (ctx.candidates rhsStruct) with
  | error e => simp only [hf] at h; cases h
  | panic p => simp only [hf] at h; cases h
  | ok st =>
    simp only [hf] at h
    rcases fold_first ctx rec lhs rhsStruct _ {} st rfl hf with ⟨hn, hall⟩ | ⟨pre, c, post, s', w, w', hsplit, hs, hpre, hc⟩
    · simp only [hn] at h
      unfold BCtx.noMatchAt at h
      cases h
      exact Or.inl ⟨⟨_, rfl⟩, hall⟩
    · simp only [hs] at h
      cases h
      exact Or.inr ⟨pre, c, post, w, w', hsplit, hpre, hc⟩

/-- **T4.3.** With `:match none` nothing is matched by name — getters included: the member is
reported `no match`. -/
theorem match_none_no_name_match (rec : Node → Node → Outcome (List Stmt)) (lhs rhsStruct : Node) (s : Stmt)
    (hr : ctx.opts.rule ≠ .name) (h : ctx.fieldDefault rec lhs rhsStruct = .ok s) : ∃ w, s = .noMatch lhs w := by
  rcases fieldDefault_spec ctx rec lhs rhsStruct s h with ⟨hn, _⟩ | ⟨pre, c, post, w, w', hsplit, _, _⟩
  · exact hn
  · rw [candidates_none ctx rhsStruct hr] at hsplit
    cases pre <;> cases hsplit

/-! ### the two former deviations, now repaired in reedom/convergen (known_findings: fixed)

* `:match none` did not stop the *getter* pass (DESIGN §5 #27);
* with `:case:off` the first name-equal candidate ended the search even if a later one fits (#16).
The examples below are the former witnesses, now showing the repaired behaviour.
-/

def intTy : TyInfo := { kind := .basic, str := "int", name := "int" }
def strTy : TyInfo := { kind := .basic, str := "string", name := "string" }

/-- `S{ID string; Id int}`, `D{<dstField> int}` -/
def envWith (dstField : String) : Env :=
  { tys := #[ intTy, strTy,
              { kind := .named, str := "p.S", name := "S", pkgPath := some "p", isStruct := true,
                fields := [⟨"ID", 1, false⟩, ⟨"Id", 0, false⟩] },
              { kind := .named, str := "p.D", name := "D", pkgPath := some "p", isStruct := true,
                fields := [⟨dstField, 0, false⟩] } ],
    assignable := fun a b => a == b, convertible := fun _ _ => false, lookup := fun _ _ => .none, pkgPath := "p", imports := [], stringTy := 1 }

def envCase : Env := envWith "id"

def noEng : Engine where
  compiles := fun _ => true
  search := fun _ _ => false

def bodyText (env : Env) (r : Outcome (List Stmt)) : String :=
  match r with
  | .ok ss => Assignment.renderList (Stmt.listToAssignments env ss)
  | .error _ => "error"
  | .panic s => "panic: " ++ s

def caseOff : BCtx := { env := envCase, eng := noEng, methodPos := "f.go:1:1", opts := { exactCase := false } }

/-- (#16, repaired): `ID string` does not fit `id int`, the search goes on to `Id int` -/
example : bodyText envCase (caseOff.structToStruct 3 (.root "dst" 3) (.root "src" 2) []) = "dst.id = src.Id\n" := by
  decide

/-- non-vacuity: with the exact-case rule and a same-named field the assignment is made -/
def envPlain : Env := envWith "Id"
def exact : BCtx := { env := envPlain, eng := noEng, methodPos := "f.go:1:1", opts := {} }
example : bodyText envPlain (exact.structToStruct 3 (.root "dst" 3) (.root "src" 2) []) = "dst.Id = src.Id\n" := by
  decide

end Convergen.Props.C04
