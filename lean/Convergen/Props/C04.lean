import Convergen.Model.Builder
import Convergen.Model.Render
/-!
# C04 — default matching: same name, compatible type, only opted-in conversions
-/
namespace Convergen.Props.C04
open Convergen

variable (ctx : BCtx)

theorem newTypecast_shape (t : TyId) (inner c : Node) (h : ctx.newTypecast t inner = .ok (some c)) :
    ∃ e, c = .cast inner t e := by
  unfold BCtx.newTypecast at h
  simp only at h
  split at h
  · split at h
    · cases h; exact ⟨_, rfl⟩
    · split at h
      · cases h; exact ⟨_, rfl⟩
      · split at h <;> (cases h; exact ⟨_, rfl⟩)
  · cases h; exact ⟨_, rfl⟩
  · cases h

/-- the three ways `castNode` can succeed -/
theorem castNode_cases (lhsT : TyId) (rhs n : Node) (w : List String)
    (h : ctx.castNode lhsT rhs = .ok (some n, w)) :
    (n = rhs ∧ ctx.env.assignable (rhs.exprType ctx.env) lhsT = true) ∨
    (n = .stringer rhs ∧ ctx.opts.stringer = true ∧ ctx.env.assignable ctx.env.stringTy lhsT = true ∧
       ctx.env.compliesStringer (rhs.exprType ctx.env) = true) ∨
    ((∃ e, n = .cast rhs lhsT e) ∧ ctx.opts.typecast = true ∧
       ctx.env.convertible (rhs.exprType ctx.env) lhsT = true) := by
  unfold BCtx.castNode at h
  simp only at h
  by_cases ha : ctx.env.assignable (rhs.exprType ctx.env) lhsT = true
  · simp only [ha, ↓reduceIte] at h
    cases h; exact Or.inl ⟨rfl, ha⟩
  · simp only [ha, Bool.false_eq_true, ↓reduceIte] at h
    by_cases hs : (ctx.opts.stringer && ctx.env.assignable ctx.env.stringTy lhsT &&
        ctx.env.compliesStringer (rhs.exprType ctx.env)) = true
    · simp only [hs, ↓reduceIte] at h
      cases h
      simp only [Bool.and_eq_true] at hs
      exact Or.inr (Or.inl ⟨rfl, hs.1.1, hs.1.2, hs.2⟩)
    · simp only [hs, Bool.false_eq_true, ↓reduceIte] at h
      by_cases ht : (ctx.opts.typecast && ctx.env.convertible (rhs.exprType ctx.env) lhsT) = true
      · simp only [ht, ↓reduceIte] at h
        simp only [Bool.and_eq_true] at ht
        cases hnt : ctx.newTypecast lhsT rhs with
        | ok c? =>
          cases c? with
          | some c =>
            simp only [hnt] at h
            cases h
            exact Or.inr (Or.inr ⟨newTypecast_shape ctx lhsT rhs n hnt, ht.1, ht.2⟩)
          | none =>
            simp only [hnt] at h
            cases h
        | error e => simp only [hnt] at h; cases h
        | panic p => simp only [hnt] at h; cases h
      · simp only [ht, Bool.false_eq_true, ↓reduceIte] at h
        cases h

/-- **T4.2 (no conversion without its opt-in).** Whatever `castNode` returns is the candidate
itself, or its `String()` call — only when `:stringer` is on —, or a type conversion — only when
`:typecast` is on. -/
theorem castNode_opt_in (lhsT : TyId) (rhs n : Node) (w : List String)
    (h : ctx.castNode lhsT rhs = .ok (some n, w)) :
    n = rhs ∨ (ctx.opts.stringer = true ∧ n = .stringer rhs) ∨
      (ctx.opts.typecast = true ∧ ∃ e, n = .cast rhs lhsT e) := by
  rcases castNode_cases ctx lhsT rhs n w h with h1 | h2 | h3
  · exact Or.inl h1.1
  · exact Or.inr (Or.inl ⟨h2.2.1, h2.1⟩)
  · exact Or.inr (Or.inr ⟨h3.2.1, h3.1⟩)

/-- what `castNode` returns is well typed for the destination: assignable as it is, a string
where a string is assignable, or a conversion between convertible types -/
theorem castNode_sound (lhsT : TyId) (rhs n : Node) (w : List String)
    (h : ctx.castNode lhsT rhs = .ok (some n, w)) :
    ctx.env.assignable (rhs.exprType ctx.env) lhsT = true ∨
    (n = .stringer rhs ∧ ctx.env.assignable ctx.env.stringTy lhsT = true ∧
       ctx.env.compliesStringer (rhs.exprType ctx.env) = true) ∨
    ((∃ e, n = .cast rhs lhsT e) ∧ ctx.env.convertible (rhs.exprType ctx.env) lhsT = true) := by
  rcases castNode_cases ctx lhsT rhs n w h with h1 | h2 | h3
  · exact Or.inl h1.2
  · exact Or.inr (Or.inl ⟨h2.1, h2.2.2.1, h2.2.2.2⟩)
  · exact Or.inr (Or.inr ⟨h3.1, h3.2.2⟩)

/-- a candidate is considered only if it is accessible and its name equals the destination
field's name under the method's case rule: any other candidate leaves the pass untouched -/
theorem handler_ignores_other_names (rec : Node → Node → Outcome (List Stmt)) (lhs rhsStruct cand : Node)
    (st : BCtx.Pass)
    (h : (ctx.accessible rhsStruct cand.objName && ctx.opts.compareFieldName lhs.objName cand.objName) = false) :
    ctx.handler rec lhs rhsStruct st cand = .ok st := by
  unfold BCtx.handler
  by_cases hd : st.done = true
  · simp [hd, pure]
  · have : (!ctx.accessible rhsStruct cand.objName || !ctx.opts.compareFieldName lhs.objName cand.objName) = true := by
      cases ha : ctx.accessible rhsStruct cand.objName <;> cases hb : ctx.opts.compareFieldName lhs.objName cand.objName <;>
        simp_all
    simp [hd, this, pure]

/-- **T4.3.** With `:match none` and getters off nothing is matched by name: the field is reported
`no match` (or the builder crashes printing the warning — never an assignment). -/
theorem match_none_no_name_match (rec : Node → Node → Outcome (List Stmt)) (lhs rhsStruct : Node) (s : Stmt)
    (hr : ctx.opts.rule ≠ .name) (hg : ctx.opts.getter = false)
    (h : ctx.fieldDefault rec lhs rhsStruct = .ok s) : ∃ w, s = .noMatch lhs w := by
  unfold BCtx.fieldDefault at h
  have hr' : (ctx.opts.rule == MatchRule.name) = false := by
    cases hrule : ctx.opts.rule <;> simp_all
  simp only [hg, Bool.false_eq_true, ↓reduceIte, pure, bind, Outcome.bind, hr'] at h
  unfold BCtx.noMatchAt at h
  cases h; exact ⟨_, rfl⟩

/-! ### witnesses: what the code does where the statement wants more

* `:match none` does not stop the *getter* pass (DESIGN §5 #27).
* with `:case:off` the first name-equal candidate ends the search even if a later one fits (#16).
-/

def intTy : TyInfo := { kind := .basic, str := "int", name := "int" }
def strTy : TyInfo := { kind := .basic, str := "string", name := "string" }

/-- `S{ID string; Id int}`, `D{<dstField> int}` -/
def envWith (dstField : String) : Env :=
  { tys := #[ intTy, strTy,
              { kind := .named, str := "p.S", name := "S", pkgPath := some "p", isStruct := true,
                fields := [⟨"ID", 1⟩, ⟨"Id", 0⟩] },
              { kind := .named, str := "p.D", name := "D", pkgPath := some "p", isStruct := true,
                fields := [⟨dstField, 0⟩] } ],
    assignable := fun a b => a == b, convertible := fun _ _ => false, lookup := fun _ _ => .none,
    scopeHas := fun _ => true, pkgPath := "p", imports := [], stringTy := 1 }

def envCase : Env := envWith "id"

def noEng : Engine where
  compiles := fun _ => true
  search := fun _ _ => false

def bodyText (env : Env) (r : Outcome (List Stmt)) : String :=
  match r with
  | .ok ss => Assignment.renderList (Stmt.listToAssignments env ss)
  | .error _ => "error"
  | .panic s => "panic: " ++ s

def caseOff : BCtx := { env := envCase, eng := noEng, methodPos := "f.go:1:1", opts := { exactCase := false } }

/-- witness (#16): `Id int` would fit `id int`, but the search stops at `ID string` -/
example : bodyText envCase (caseOff.structToStruct 3 (.root "dst" 3) (.root "src" 2) []) = "// no match: dst.id\n" := by
  decide

/-- non-vacuity: with the exact-case rule and a same-named field the assignment is made -/
def envPlain : Env := envWith "Id"
def exact : BCtx := { env := envPlain, eng := noEng, methodPos := "f.go:1:1", opts := {} }
example : bodyText envPlain (exact.structToStruct 3 (.root "dst" 3) (.root "src" 2) []) = "dst.Id = src.Id\n" := by
  decide

end Convergen.Props.C04
