import Convergen.Model.Options
/-!
# C19 — name and pattern matchers implement equality, case folding and RE2 search

Model: `Convergen.Model.Options` (`PM`, `compileExpr`, `matchSubject`, `identMatch`).
RE2 itself is an abstract `Engine`; its contract appears as explicit hypotheses.
-/
namespace Convergen.Props.C19
open Convergen

/-- the cache invariant: the stored regexp is the compilation for the stored case rule -/
def Inv (eng : Engine) (m : PM) : Prop := m.reOk = eng.compiles (compileExpr m.pattern m.exactCase)

theorem inv_new (eng : Engine) (p : String) (c : Bool) (m : PM) (h : PM.new eng p c = some m) :
    Inv eng m ∧ m.pattern = p := by
  unfold PM.new at h
  split at h
  · rename_i hc
    cases h
    simp [Inv, hc]
  · cases h

theorem match_step (eng : Engine) (m : PM) (ident : String) (exact : Bool) (h : Inv eng m) :
    (PM.match eng m ident exact).1 = matchFn eng m.pattern ident exact ∧
    Inv eng (PM.match eng m ident exact).2 ∧ (PM.match eng m ident exact).2.pattern = m.pattern := by
  unfold PM.match matchFn Inv at *
  by_cases hc : m.exactCase = exact
  · subst hc
    simp only [bne_self_eq_false, Bool.false_eq_true, ↓reduceIte]
    cases hr : m.reOk <;> simp [hr] at h ⊢ <;> simp [← h]
  · have : (m.exactCase != exact) = true := by simpa using hc
    simp only [this, ↓reduceIte]
    cases hr : eng.compiles (compileExpr m.pattern exact) <;> simp [hr]

theorem runQueries_inv (eng : Engine) (qs : List (String × Bool)) :
    ∀ m : PM, Inv eng m → runQueries eng m qs = qs.map (fun q => matchFn eng m.pattern q.1 q.2) := by
  induction qs with
  | nil => intro m _; rfl
  | cons q qs ih =>
    intro m hinv
    obtain ⟨ident, exact⟩ := q
    obtain ⟨h1, h2, h3⟩ := match_step eng m ident exact hinv
    simp only [runQueries, List.map_cons]
    rw [h1, ih _ h2, h3]

/-- **T19.1 (history independence).** Whatever the sequence of queries and however the case
rule alternates, every answer of a matcher created by `NewPatternMatcher` equals the stateless
function of `(pattern, path, case rule)` — including the nil-regexp panic. -/
theorem history_independent (eng : Engine) (p : String) (c : Bool) (m : PM)
    (hnew : PM.new eng p c = some m) (qs : List (String × Bool)) :
    runQueries eng m qs = qs.map (fun q => matchFn eng p q.1 q.2) := by
  obtain ⟨hinv, hp⟩ := inv_new eng p c m hnew
  subst hp
  exact runQueries_inv eng qs m hinv

/-- first decisive answer of a list of stateless answers -/
def firstAnswer : List (Outcome Bool) → Outcome Bool
  | [] => .ok false
  | .ok true :: _ => .ok true
  | .ok false :: rest => firstAnswer rest
  | .error e :: _ => .error e
  | .panic s :: _ => .panic s

/-- the builder's `ShouldSkip` uses exactly that stateless function, pattern by pattern -/
theorem shouldSkip_stateless (eng : Engine) (exact : Bool) (path : String) (ms : List PM)
    (h : ∀ m ∈ ms, Inv eng m) :
    shouldSkipList eng exact path ms = firstAnswer (ms.map (fun m => matchFn eng m.pattern path exact)) := by
  induction ms with
  | nil => rfl
  | cons m ms ih =>
    have hm := (match_step eng m path exact (h m (by simp))).1
    have ih' := ih (fun m' hm' => h m' (by simp [hm']))
    simp only [shouldSkipList, List.map_cons, hm]
    cases hr : matchFn eng m.pattern path exact with
    | ok b => cases b <;> simp [firstAnswer, ih']
    | error e => simp [firstAnswer]
    | panic s => simp [firstAnswer]

/-! ## plain patterns -/

/-- is the pattern written in the `/regexp/` form -/
def isSlashed (pattern : String) : Bool :=
  let cs := pattern.toList
  cs.head? == some '/' && cs.getLast? == some '/' && 2 ≤ cs.length

/-- engine contract used for plain patterns: an anchored, quoted literal matches exactly itself -/
def AnchoredLiteralContract (eng : Engine) : Prop :=
  ∀ lit s : String, eng.compiles ("^" ++ quoteMeta lit ++ "$") = true ∧
    eng.search ("^" ++ quoteMeta lit ++ "$") s = (s == lit)

/-- **T19.2.** Under the exact-case rule a plain pattern matches a path iff the two are equal. -/
theorem plain_exact (eng : Engine) (hc : AnchoredLiteralContract eng) (pattern ident : String)
    (hp : isSlashed pattern = false) :
    matchFn eng pattern ident true = .ok (ident == pattern) := by
  have hexpr : compileExpr pattern true = "^" ++ quoteMeta pattern ++ "$" := by
    unfold compileExpr baseExpr
    unfold isSlashed at hp
    simp only [hp, Bool.false_eq_true, ↓reduceIte]
  unfold matchFn matchSubject
  rw [hexpr]
  obtain ⟨h1, h2⟩ := hc pattern ident
  simp [h1, h2]

/-- **T19.4 (regexp patterns reduce to the engine).** For `/re/` the answer is the engine's
search for the text between the slashes in the path, under the exact-case rule. -/
theorem regex_exact (eng : Engine) (pattern ident : String) (hp : isSlashed pattern = true)
    (hcomp : eng.compiles (compileExpr pattern true) = true) :
    matchFn eng pattern ident true =
      .ok (eng.search (String.ofList ((pattern.toList.drop 1).take (pattern.toList.length - 2))) ident) := by
  unfold matchFn
  rw [hcomp]
  unfold isSlashed at hp
  simp only [compileExpr, baseExpr, hp, ↓reduceIte, matchSubject]

theorem compileExpr_caseoff (pattern : String) : compileExpr pattern false = "(?i)" ++ baseExpr pattern := by
  simp [compileExpr]

theorem compileExpr_exact (pattern : String) : compileExpr pattern true = baseExpr pattern := by
  simp [compileExpr]

/-- **T19.4' (case rule off).** The answer is the engine's search for the *unchanged* expression
prefixed with the `(?i)` flag in the *unchanged* path: every other construct keeps its meaning,
nothing is lower-cased. -/
theorem caseoff_is_flag (eng : Engine) (pattern ident : String)
    (hcomp : eng.compiles (compileExpr pattern false) = true) :
    matchFn eng pattern ident false = .ok (eng.search ("(?i)" ++ baseExpr pattern) ident) := by
  unfold matchFn
  rw [hcomp]
  simp [matchSubject, compileExpr_caseoff]

/-- engine contract for `(?i)`: the flag never changes whether an expression compiles, and an
anchored quoted literal under `(?i)` matches exactly the strings equal to it under Unicode simple
folding (`strings.EqualFold`) -/
def FoldContract (eng : Engine) : Prop :=
  (∀ e : String, eng.compiles ("(?i)" ++ e) = eng.compiles e) ∧
  (∀ lit s : String, eng.search ("(?i)" ++ ("^" ++ quoteMeta lit ++ "$")) s = equalFold s lit)

/-- **T19.3.** With the case rule off a plain pattern matches a path iff the two are equal under
Unicode case folding. -/
theorem plain_fold (eng : Engine) (hc : AnchoredLiteralContract eng) (hf : FoldContract eng)
    (pattern ident : String) (hp : isSlashed pattern = false) :
    matchFn eng pattern ident false = .ok (equalFold ident pattern) := by
  have hbase : baseExpr pattern = "^" ++ quoteMeta pattern ++ "$" := by
    unfold baseExpr
    unfold isSlashed at hp
    simp only [hp, Bool.false_eq_true, ↓reduceIte]
  have hcomp : eng.compiles (compileExpr pattern false) = true := by
    rw [compileExpr_caseoff, hf.1, hbase]; exact (hc pattern ident).1
  rw [caseoff_is_flag eng pattern ident hcomp, hbase, hf.2]

/-- **no nil regexp.**  Under the flag contract a matcher that was created successfully never
panics, whatever the sequence of case rules (before the `(?i)` repair the lower-cased expression
could fail to compile: `/\pL/`). -/
theorem no_panic (eng : Engine) (hf : FoldContract eng) (p : String) (c : Bool) (m : PM)
    (hnew : PM.new eng p c = some m) (ident : String) (exact : Bool) :
    ∃ b, matchFn eng p ident exact = .ok b := by
  have hcomp : eng.compiles (compileExpr p c) = true := by
    unfold PM.new at hnew
    split at hnew
    · assumption
    · cases hnew
  have hbase : eng.compiles (baseExpr p) = true := by
    cases c
    · rw [compileExpr_caseoff, hf.1] at hcomp; exact hcomp
    · rw [compileExpr_exact] at hcomp; exact hcomp
  have : eng.compiles (compileExpr p exact) = true := by
    cases exact
    · rw [compileExpr_caseoff, hf.1]; exact hbase
    · rw [compileExpr_exact]; exact hbase
  refine ⟨eng.search (compileExpr p exact) (matchSubject ident exact), ?_⟩
  unfold matchFn
  rw [this]; rfl

/-- regression witnesses of the repaired defect (the expression text is no longer altered) -/
example : compileExpr "/\\S+e/" false = "(?i)\\S+e" := by decide
example : compileExpr "/\\pL/" false = "(?i)\\pL" := by decide
example : matchSubject "UserName" false = "UserName" := by decide
/-- `µ` (U+00B5) and `Μ` (U+039C), `ſ` and `s` are equal under simple folding -/
example : equalFold "µ" "Μ" = true ∧ equalFold "ſ" "s" = true := by decide

/-! ## `:map` / `:conv` / `:literal` paths always compare case-sensitively (`T19.5`) -/

theorem ident_exact_iff (pattern ident : String) : identMatch pattern ident true = (pattern == ident) := by
  simp [identMatch]

/-! ## non-vacuity -/

/-- a concrete engine satisfying the invariant premises: it accepts everything and searches by
equality with the quoted anchors stripped -/
def toyEng : Engine where
  compiles := fun _ => true
  search := fun e s => (e == "^" ++ s ++ "$") || (e == "(?i)^" ++ s ++ "$")

example : ∃ m, PM.new toyEng "ID" true = some m ∧
    runQueries toyEng m [("ID", true), ("ID", false), ("Id", true)] = [.ok true, .ok true, .ok false] := by
  refine ⟨⟨"ID", true, true⟩, by decide, by decide⟩

/-- an engine violating the flag contract shows the hypothesis of `no_panic` is needed -/
def pickyEng : Engine := { compiles := fun e => e != "(?i)x", search := fun _ _ => false }
example : ∃ m, PM.new pickyEng "/x/" true = some m ∧
    (PM.match pickyEng m "Name" false).1 = .panic "PatternMatcher.Match: nil regexp" := by
  refine ⟨⟨"/x/", true, true⟩, by decide, by decide⟩

end Convergen.Props.C19
