import Convergen.Model.Builder
import Convergen.Model.Render
import Convergen.Model.Method
import Convergen.Props.C08
/-!
# C05 — every reachable destination field is accounted for exactly once
(the covering theorem proper — exactly once, at every depth — is in `Props/Cover.lean`,
built on the structural invariant of `Props/BuilderInv.lean`)
-/
namespace Convergen.Props.C05
open Convergen

variable (ctx : BCtx)

/-- **T5.3 (a warning per `no match`).** Every `no match` statement the builder makes through
`noMatchAt` carries the warning `<pos>: no assignment for <lhs> [<type>]` as its last stderr line. -/
theorem noMatch_has_warning (pos : String) (lhs : Node) (pre : List String) :
    ctx.noMatchAt pos lhs pre =
      .ok (.noMatch lhs (pre ++
        [s!"{pos}: no assignment for {lhs.assignExpr ctx.env} [{ctx.env.typeNameF (lhs.exprType ctx.env)}]"])) := rfl

/-- since the repair of DESIGN §5 #20 printing that warning cannot crash: `noMatchAt` always succeeds -/
theorem noMatchAt_ok (pos : String) (lhs : Node) (pre : List String) : ∃ s, ctx.noMatchAt pos lhs pre = .ok s :=
  ⟨_, rfl⟩

/-- **T5.2 (invisible members are never mentioned).** `structToStruct` only ever builds statements
for destination members that pass the accessibility test. -/
theorem only_accessible_fields (rec : Node → Node → Outcome (List Stmt)) (l r : Node) (args : List Node) :
    ctx.structToStructWith rec l r args =
      (let fs := (ctx.env.fieldsOf (l.exprType ctx.env)).filter fun f => ctx.accessible l f.name
       BCtx.structToStructWith.go ctx rec l r args fs) := rfl

/-- an unexported member that another package declares is not accessible — whichever type it is
reached through: an imported struct type, a local type defined over one, an anonymous struct inside
one (the repaired `dst.secret = src.secret`) -/
theorem foreign_unexported_inaccessible (structNode : Node) (leaf : String) (f : Field)
    (hf : (ctx.env.fieldsOf (ctx.env.derefPtr (structNode.exprType ctx.env))).find? (·.name == leaf) = some f)
    (hfor : f.foreign = true) (hunexp : isExportedName leaf = false) :
    ctx.accessible structNode leaf = false := by
  unfold BCtx.accessible Env.visibleMember
  simp only [hf, hfor, hunexp]
  split
  · rfl
  · split <;> simp

/-- the blank field is never accessible (the repaired `dst._ = src._`) -/
theorem blank_inaccessible (structNode : Node) : ctx.accessible structNode "_" = false := by
  unfold BCtx.accessible
  simp only
  split <;> simp

/-- a member the generated package declares itself is accessible, exported or not -/
theorem own_member_accessible (structNode : Node) (leaf : String) (f : Field)
    (hs : ctx.env.isStructType (ctx.env.derefPtr (structNode.exprType ctx.env)) = true)
    (hb : leaf ≠ "_")
    (hf : (ctx.env.fieldsOf (ctx.env.derefPtr (structNode.exprType ctx.env))).find? (·.name == leaf) = some f)
    (hown : f.foreign = false) :
    ctx.accessible structNode leaf = true := by
  unfold BCtx.accessible Env.visibleMember
  simp [hs, hb, hf, hown]

/-! ### former finding (DESIGN §5 #14), repaired in reedom/convergen: a nested by-value struct pair
whose destination side has no accessible member used to yield no line at all.  The model no longer
has a `dropped` statement: every statement form renders at least one line. -/
theorem every_statement_renders (env : Env) (s : Stmt) : Stmt.toAssignments env s ≠ [] := by
  cases s with
  | simple l r e w => cases r <;> simp [Stmt.toAssignments]
  | _ => simp [Stmt.toAssignments]

end Convergen.Props.C05

namespace Convergen.Props.C05
open Convergen

/-- **the body of every generated function is a builder result**: what `CreateFunction` hands to the
generator is either the single `no match` of non-struct operands or the result of `structToStruct`
on the destination and source operands — so `Props/Cover` (exactly once), `Props/C02` (parallel
assignment, frame) and `Props/Rooted` apply to the body of every function convergen generates. -/
theorem function_body_from_builder (env : Env) (eng : Engine) (m : MethodEntry) (src dst : ParamVar)
    (additional : List ParamVar) (srcVar dstVar : Var) (argVars : List Var) (b : Built)
    (h : buildFunction env eng m src dst additional srcVar dstVar argVars = .ok b) :
    (∃ l w, b.stmts = [.noMatch l w]) ∨
    (∃ (ctx : BCtx) (fuel : Nat) (l r : Node) (args : List Node),
        ctx.env = env ∧ ctx.opts = m.opts ∧ ctx.structToStruct fuel l r args = .ok b.stmts) := by
  unfold buildFunction at h
  simp only [bind, Outcome.bind, pure] at h
  split at h
  · rename_i stmts hd
    have hst : b.stmts = stmts := by
      split at h
      · cases h; rfl
      · split at h
        · cases h; rfl
        · cases h
        · split at h
          · cases h; rfl
          · cases h
          · cases h; rfl
    rw [hst]
    split at hd
    · unfold BCtx.dispatch at hd
      simp only at hd
      split at hd
      · exact Or.inr ⟨_, _, _, _, _, rfl, rfl, hd⟩
      · cases hd; exact Or.inl ⟨_, _, rfl⟩
    · unfold BCtx.dispatch at hd
      simp only at hd
      split at hd
      · exact Or.inr ⟨_, _, _, _, _, rfl, rfl, hd⟩
      · cases hd; exact Or.inl ⟨_, _, rfl⟩
  · cases h
  · cases h

/-- the same for `CreateFunction` itself -/
theorem createFunction_body_from_builder (env : Env) (eng : Engine) (m : MethodEntry) (built : List String) (b : Built)
    (h : createFunction env eng m built = .ok b) :
    (∃ l w, b.stmts = [.noMatch l w]) ∨
    (∃ (ctx : BCtx) (fuel : Nat) (l r : Node) (args : List Node),
        ctx.env = env ∧ ctx.opts = m.opts ∧ ctx.structToStruct fuel l r args = .ok b.stmts) := by
  obtain ⟨src, dst, additional, srcVar, dstVar, argVars, hc⟩ := C08.createFunction_through_check env eng m b built h
  unfold checkNamesAndBuild at hc
  split at hc
  · cases hc
  · exact function_body_from_builder env eng m src dst additional srcVar dstVar argVars b hc

end Convergen.Props.C05
