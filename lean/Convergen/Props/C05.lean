import Convergen.Model.Builder
import Convergen.Model.Render
/-!
# C05 — every reachable destination field is accounted for exactly once
(the covering theorem proper — exactly once, at every depth — is in `Props/Cover.lean`,
built on the structural invariant of `Props/BuilderInv.lean`)
-/
namespace Convergen.Props.C05
open Convergen

variable (ctx : BCtx)

/-- **T5.3 (a warning per `no match`).** Every `no match` statement the builder makes through
`noMatchAt` carries the warning `<pos>: no assignment for <lhs> [<type>]` as its last stderr line. -/
theorem noMatch_has_warning (pos : String) (lhs : Node) (pre : List String) :
    ctx.noMatchAt pos lhs pre =
      .ok (.noMatch lhs (pre ++
        [s!"{pos}: no assignment for {lhs.assignExpr ctx.env} [{ctx.env.typeNameF (lhs.exprType ctx.env)}]"])) := rfl

/-- since the repair of DESIGN §5 #20 printing that warning cannot crash: `noMatchAt` always succeeds -/
theorem noMatchAt_ok (pos : String) (lhs : Node) (pre : List String) : ∃ s, ctx.noMatchAt pos lhs pre = .ok s :=
  ⟨_, rfl⟩

/-- **T5.2 (invisible members are never mentioned).** `structToStruct` only ever builds statements
for destination members that pass the accessibility test. -/
theorem only_accessible_fields (rec : Node → Node → Outcome (List Stmt)) (l r : Node) (args : List Node) :
    ctx.structToStructWith rec l r args =
      (let fs := (ctx.env.fieldsOf (l.exprType ctx.env)).filter fun f => ctx.accessible l f.name
       BCtx.structToStructWith.go ctx rec l r args fs) := rfl

/-- an unexported member of an imported struct type is not accessible -/
theorem imported_unexported_inaccessible (structNode : Node) (leaf : String)
    (hn : ctx.env.isNamedType (ctx.env.derefPtr (structNode.exprType ctx.env)) = true)
    (hext : ctx.env.isExternalPkg (ctx.env.ty (ctx.env.derefPtr (structNode.exprType ctx.env))).pkgPath = true)
    (hunexp : isExportedName leaf = false) : ctx.accessible structNode leaf = false := by
  unfold BCtx.accessible
  simp only
  split
  · rfl
  · simp [hext, hunexp]

/-! ### former finding (DESIGN §5 #14), repaired in reedom/convergen: a nested by-value struct pair
whose destination side has no accessible member used to yield no line at all.  The model no longer
has a `dropped` statement: every statement form renders at least one line. -/
theorem every_statement_renders (env : Env) (s : Stmt) : Stmt.toAssignments env s ≠ [] := by
  cases s with
  | simple l r e w => cases r <;> simp [Stmt.toAssignments]
  | _ => simp [Stmt.toAssignments]

end Convergen.Props.C05
