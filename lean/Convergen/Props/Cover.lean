import Convergen.Props.BuilderInv
/-!
# The covering theorem (C05 "exactly once", used by C02 for "nothing written twice")

From the structural invariant of `BuilderInv`: for every fuel, every `go/types` oracle, every option
set — each destination leaf that is reachable through accessible members lies under exactly one
line (assignment, `// skip:`, `// no match:`), on the leaf itself or on an enclosing struct member.
(Before the repair recorded in known_findings — nested struct pair without content — a member could
be lost without a line; the model then had a `dropped` statement and the theorem counted it.)

The only assumption is Go's own rule that the field names of one struct are distinct
(`DistinctFields`), which the harness validates on every generated input.
-/
namespace Convergen.Props.Cover
open Convergen Convergen.Props.BuilderInv

/-! ## the member tree -/

/-- `anc a m`: `a` is `m` or an enclosing member of `m` -/
def anc (a : Node) : Node → Bool
  | .field p n t => a == .field p n t || anc a p
  | m => a == m

def nsize : Node → Nat
  | .field p _ _ => nsize p + 1
  | _ => 0

theorem anc_refl (a : Node) : anc a a = true := by
  cases a <;> simp [anc]

theorem anc_field {a p : Node} (n : String) (t : TyId) (h : anc a p = true) : anc a (.field p n t) = true := by
  simp [anc, h]

theorem anc_size {a m : Node} (h : anc a m = true) : nsize a ≤ nsize m := by
  induction m with
  | field p n t ih =>
    simp only [anc, Bool.or_eq_true, beq_iff_eq] at h
    rcases h with h | h
    · subst h; exact Nat.le_refl _
    · have := ih h; simp only [nsize]; omega
  | root n t => simp only [anc, beq_iff_eq] at h; subst h; exact Nat.le_refl _
  | method p n r _ => simp only [anc, beq_iff_eq] at h; subst h; exact Nat.le_refl _
  | conv a' c _ => simp only [anc, beq_iff_eq] at h; subst h; exact Nat.le_refl _
  | cast i t e _ => simp only [anc, beq_iff_eq] at h; subst h; exact Nat.le_refl _
  | stringer i _ => simp only [anc, beq_iff_eq] at h; subst h; exact Nat.le_refl _

theorem anc_trans {a b c : Node} (h1 : anc a b = true) (h2 : anc b c = true) : anc a c = true := by
  induction c with
  | field p n t ih =>
    simp only [anc, Bool.or_eq_true, beq_iff_eq] at h2
    rcases h2 with h2 | h2
    · subst h2; exact h1
    · exact anc_field n t (ih h2)
  | root n t => simp only [anc, beq_iff_eq] at h2; subst h2; exact h1
  | method p n r _ => simp only [anc, beq_iff_eq] at h2; subst h2; exact h1
  | conv a' c _ => simp only [anc, beq_iff_eq] at h2; subst h2; exact h1
  | cast i t e _ => simp only [anc, beq_iff_eq] at h2; subst h2; exact h1
  | stringer i _ => simp only [anc, beq_iff_eq] at h2; subst h2; exact h1

/-- the members enclosing one member form a chain -/
theorem anc_chain {a b m : Node} (h1 : anc a m = true) (h2 : anc b m = true) : anc a b = true ∨ anc b a = true := by
  induction m with
  | field p n t ih =>
    simp only [anc, Bool.or_eq_true, beq_iff_eq] at h1 h2
    rcases h1 with h1 | h1
    · subst h1
      rcases h2 with h2 | h2
      · subst h2; exact Or.inl (anc_refl _)
      · exact Or.inr (anc_field n t h2)
    · rcases h2 with h2 | h2
      · subst h2; exact Or.inl (anc_field n t h1)
      · exact ih h1 h2
  | root n t => simp only [anc, beq_iff_eq] at h1 h2; subst h1; subst h2; exact Or.inl (anc_refl _)
  | method p n r _ => simp only [anc, beq_iff_eq] at h1 h2; subst h1; subst h2; exact Or.inl (anc_refl _)
  | conv a' c _ => simp only [anc, beq_iff_eq] at h1 h2; subst h1; subst h2; exact Or.inl (anc_refl _)
  | cast i t e _ => simp only [anc, beq_iff_eq] at h1 h2; subst h1; subst h2; exact Or.inl (anc_refl _)
  | stringer i _ => simp only [anc, beq_iff_eq] at h1 h2; subst h1; subst h2; exact Or.inl (anc_refl _)

/-- two members of the same struct enclose a common member only when they are the same member -/
theorem siblings {l m : Node} {n1 n2 : String} {t1 t2 : TyId}
    (h1 : anc (.field l n1 t1) m = true) (h2 : anc (.field l n2 t2) m = true) :
    Node.field l n1 t1 = Node.field l n2 t2 := by
  have key : ∀ (n1 n2 : String) (t1 t2 : TyId), anc (.field l n1 t1) (.field l n2 t2) = true →
      Node.field l n1 t1 = Node.field l n2 t2 := by
    intro n1 n2 t1 t2 h
    simp only [anc, Bool.or_eq_true, beq_iff_eq] at h
    rcases h with h | h
    · exact h
    · have := anc_size h; simp only [nsize] at this; omega
  rcases anc_chain h1 h2 with h | h
  · exact key _ _ _ _ h
  · exact (key _ _ _ _ h).symm

/-! ## what a statement list puts on the page -/

mutual
/-- the members carrying a line (assignment, `// skip:` or `// no match:`) -/
def marks : Stmt → List Node
  | .skip l => [l]
  | .noMatch l _ => [l]
  | .simple l _ _ _ => [l]
  | .nest _ _ _ _ body _ => marksList body
  | .sliceCopy l _ _ => [l]
  | .sliceLoop l _ _ => [l]
  | .sliceCast l _ _ _ => [l]
def marksList : List Stmt → List Node
  | [] => []
  | s :: ss => marks s ++ marksList ss
end

/-- how many lines account for member `m`: lines on `m` itself or on an enclosing member -/
def cnt (m : Node) (s : Stmt) : Nat := (marks s).countP (anc · m)
def cntList (m : Node) (ss : List Stmt) : Nat := (marksList ss).countP (anc · m)

theorem cntList_nil (m : Node) : cntList m [] = 0 := by simp [cntList, marksList]

theorem cntList_cons (m : Node) (s : Stmt) (ss : List Stmt) : cntList m (s :: ss) = cnt m s + cntList m ss := by
  simp only [cntList, cnt, marksList, List.countP_append]

theorem cnt_nest (m l r : Node) (i n : String) (body : List Stmt) (w : List String) :
    cnt m (.nest l r i n body w) = cntList m body := by
  simp [cnt, cntList, marks]

/-- a statement that is not a nested block puts exactly its own member on the page -/
theorem cnt_leafStmt (m : Node) (s : Stmt) (hn : ∀ l r i n body w, s ≠ .nest l r i n body w) :
    cnt m s = if anc (Stmt.lhs s) m then 1 else 0 := by
  cases s with
  | nest l r i n body w => exact absurd rfl (hn l r i n body w)
  | skip l => by_cases h : anc l m = true <;> simp [cnt, marks, Stmt.lhs, h]
  | noMatch l w => by_cases h : anc l m = true <;> simp [cnt, marks, Stmt.lhs, h]
  | simple l r e w => by_cases h : anc l m = true <;> simp [cnt, marks, Stmt.lhs, h]
  | sliceCopy l r t => by_cases h : anc l m = true <;> simp [cnt, marks, Stmt.lhs, h]
  | sliceLoop l r t => by_cases h : anc l m = true <;> simp [cnt, marks, Stmt.lhs, h]
  | sliceCast l r t c => by_cases h : anc l m = true <;> simp [cnt, marks, Stmt.lhs, h]

/-! ## the invariant, all levels down -/

variable (ctx : BCtx)

/-- one statement per visited member, each about that member, nested blocks non-empty and again covered -/
def Covered : Nat → Node → List Stmt → Prop
  | 0, _, _ => False
  | fuel + 1, l, ss =>
    Forall₂ (fun v s => Stmt.lhs s = v ∧
      ∀ l' r i n body w, s = .nest l' r i n body w → body ≠ [] ∧ Covered fuel v body) (visited ctx l) ss

theorem Forall₂.imp {α β : Type} {R S : α → β → Prop} (hRS : ∀ a b, R a b → S a b) :
    ∀ {as : List α} {bs : List β}, Forall₂ R as bs → Forall₂ S as bs := by
  intro as bs h
  induction h with
  | nil => exact Forall₂.nil
  | cons hab _ ih => exact Forall₂.cons (hRS _ _ hab) ih

/-- **the builder's result is covered at every depth** -/
theorem structToStruct_covered : ∀ (fuel : Nat) (l r : Node) (args : List Node) (ss : List Stmt),
    ctx.structToStruct fuel l r args = .ok ss → Covered ctx fuel l ss := by
  intro fuel
  induction fuel with
  | zero => intro l r args ss h; simp [BCtx.structToStruct] at h
  | succ fuel ih =>
    intro l r args ss h
    simp only [BCtx.structToStruct] at h
    have inv := structToStructWith_inv ctx _ l r args ss h
    simp only [Covered]
    refine Forall₂.imp ?_ inv
    intro v s hs
    refine ⟨hs.1, ?_⟩
    intro l' r' i n body w he
    obtain ⟨_, hrec, hne⟩ := hs.2 l' r' i n body w he
    exact ⟨hne, ih v r' args body hrec⟩

/-! ## reachable members and leaves -/

/-- the members reachable from `l` through accessible members only -/
inductive Reach : Node → Node → Prop
  | here {l v} : v ∈ visited ctx l → Reach l v
  | step {l v m} : v ∈ visited ctx l → Reach v m → Reach l m

/-- a member without accessible members of its own -/
def Leaf (m : Node) : Prop := visited ctx m = []

theorem visited_is_field {l v : Node} (h : v ∈ visited ctx l) : ∃ n t, v = .field l n t := by
  unfold visited at h
  simp only [List.mem_map] at h
  obtain ⟨f, _, rfl⟩ := h
  exact ⟨f.name, f.ty, rfl⟩

theorem reach_anc {l m : Node} (h : Reach ctx l m) : ∃ v, v ∈ visited ctx l ∧ anc v m = true := by
  induction h with
  | here hv => exact ⟨_, hv, anc_refl _⟩
  | step hv _ ih =>
    obtain ⟨v', hv', ha⟩ := ih
    obtain ⟨n, t, rfl⟩ := visited_is_field ctx hv'
    refine ⟨_, hv, ?_⟩
    -- v' = field v n t, anc v' m, so anc v m
    exact anc_trans (anc_field n t (anc_refl _)) ha

/-- Go's rule: the field names of one struct type are distinct -/
def DistinctFields (env : Env) : Prop := ∀ t, ((env.fieldsOf t).map (·.name)).Nodup

theorem visited_nodup (hd : DistinctFields ctx.env) (l : Node) : (visited ctx l).Nodup := by
  unfold visited
  have h1 := hd (l.exprType ctx.env)
  have h2 : (((ctx.env.fieldsOf (l.exprType ctx.env)).filter fun f => ctx.accessible l f.name).map (·.name)).Nodup := by
    have : (((ctx.env.fieldsOf (l.exprType ctx.env)).filter fun f => ctx.accessible l f.name).map (·.name)).Sublist
        ((ctx.env.fieldsOf (l.exprType ctx.env)).map (·.name)) :=
      List.Sublist.map _ List.filter_sublist
    exact this.nodup h1
  -- the node determines the name
  generalize ((ctx.env.fieldsOf (l.exprType ctx.env)).filter fun f => ctx.accessible l f.name) = fs at h2 ⊢
  induction fs with
  | nil => exact List.nodup_nil
  | cons f rest ih =>
    simp only [List.map_cons, List.nodup_cons] at h2 ⊢
    refine ⟨?_, ih h2.2⟩
    intro hmem
    simp only [List.mem_map] at hmem
    obtain ⟨g, hg, he⟩ := hmem
    apply h2.1
    simp only [List.mem_map]
    refine ⟨g, hg, ?_⟩
    injection he

/-- everything a covered statement puts on the page lies at or below its member -/
theorem marks_below : ∀ (fuel : Nat) (l : Node) (ss : List Stmt), Covered ctx fuel l ss →
    ∀ k, k ∈ marksList ss → ∃ v, v ∈ visited ctx l ∧ anc v k = true := by
  intro fuel
  induction fuel with
  | zero => intro l ss h; exact absurd h (by simp [Covered])
  | succ fuel ih =>
    intro l ss h
    simp only [Covered] at h
    generalize visited ctx l = vs at h ⊢
    induction h with
    | nil => intro k hk; simp [marksList] at hk
    | @cons v s vs' ss' hvs _ ih2 =>
      intro k hk
      simp only [marksList, List.mem_append] at hk
      have here : k ∈ marks s → ∃ v', v' ∈ v :: vs' ∧ anc v' k = true := by
        intro hk'
        refine ⟨v, List.mem_cons_self, ?_⟩
        cases s with
        | nest l' r i n body w =>
          obtain ⟨_, hc⟩ := hvs.2 l' r i n body w rfl
          simp only [marks] at hk'
          obtain ⟨v2, hv2, ha⟩ := ih v body hc k hk'
          obtain ⟨n2, t2, rfl⟩ := visited_is_field ctx hv2
          exact anc_trans (anc_field n2 t2 (anc_refl _)) ha
        | skip l' => simp only [marks, List.mem_singleton] at hk'; subst hk'; have := hvs.1; simp only [Stmt.lhs] at this; subst this; exact anc_refl _
        | noMatch l' w => simp only [marks, List.mem_singleton] at hk'; subst hk'; have := hvs.1; simp only [Stmt.lhs] at this; subst this; exact anc_refl _
        | simple l' r e w => simp only [marks, List.mem_singleton] at hk'; subst hk'; have := hvs.1; simp only [Stmt.lhs] at this; subst this; exact anc_refl _
        | sliceCopy l' r t => simp only [marks, List.mem_singleton] at hk'; subst hk'; have := hvs.1; simp only [Stmt.lhs] at this; subst this; exact anc_refl _
        | sliceLoop l' r t => simp only [marks, List.mem_singleton] at hk'; subst hk'; have := hvs.1; simp only [Stmt.lhs] at this; subst this; exact anc_refl _
        | sliceCast l' r t c => simp only [marks, List.mem_singleton] at hk'; subst hk'; have := hvs.1; simp only [Stmt.lhs] at this; subst this; exact anc_refl _
      rcases hk with hk | hk
      · exact here hk
      · obtain ⟨v', hv', ha⟩ := ih2 k hk; exact ⟨v', List.mem_cons_of_mem _ hv', ha⟩


/-- the per-statement form of the invariant -/
def StmtCov (fuel : Nat) (v : Node) (s : Stmt) : Prop :=
  Stmt.lhs s = v ∧ ∀ l' r i n body w, s = .nest l' r i n body w → body ≠ [] ∧ Covered ctx fuel v body

theorem stmt_below (fuel : Nat) (v : Node) (s : Stmt) (h : StmtCov ctx fuel v s) (k : Node)
    (hk : k ∈ marks s) : anc v k = true := by
  cases s with
  | nest l' r i n body w =>
    obtain ⟨_, hc⟩ := h.2 l' r i n body w rfl
    simp only [marks] at hk
    obtain ⟨v2, hv2, ha⟩ := marks_below ctx fuel v body hc k hk
    obtain ⟨n2, t2, rfl⟩ := visited_is_field ctx hv2
    exact anc_trans (anc_field n2 t2 (anc_refl _)) ha
  | skip l' => simp only [marks, List.mem_singleton] at hk; subst hk; have := h.1; simp only [Stmt.lhs] at this; subst this; exact anc_refl _
  | noMatch l' w => simp only [marks, List.mem_singleton] at hk; subst hk; have := h.1; simp only [Stmt.lhs] at this; subst this; exact anc_refl _
  | simple l' r e w => simp only [marks, List.mem_singleton] at hk; subst hk; have := h.1; simp only [Stmt.lhs] at this; subst this; exact anc_refl _
  | sliceCopy l' r t => simp only [marks, List.mem_singleton] at hk; subst hk; have := h.1; simp only [Stmt.lhs] at this; subst this; exact anc_refl _
  | sliceLoop l' r t => simp only [marks, List.mem_singleton] at hk; subst hk; have := h.1; simp only [Stmt.lhs] at this; subst this; exact anc_refl _
  | sliceCast l' r t c => simp only [marks, List.mem_singleton] at hk; subst hk; have := h.1; simp only [Stmt.lhs] at this; subst this; exact anc_refl _

/-- a statement about a member that does not enclose `m` contributes nothing to `m` -/
theorem cnt_zero (fuel : Nat) (v m : Node) (s : Stmt) (h : StmtCov ctx fuel v s) (hv : anc v m = false) :
    cnt m s = 0 := by
  have key : ∀ k, k ∈ marks s → anc k m = false := by
    intro k hk
    cases hkm : anc k m with
    | false => rfl
    | true =>
      have := anc_trans (stmt_below ctx fuel v s h k hk) hkm
      rw [hv] at this; cases this
  simp only [cnt, List.countP_eq_zero]
  intro k hk; simp [key k hk]

/-- summing over the statements of one level: only the statement of the enclosing member counts -/
theorem sum_one (m v : Node) (f : Node → Stmt → Prop)
    (hone : ∀ s, f v s → cnt m s = 1) (hzero : ∀ v' s, v' ≠ v → f v' s → cnt m s = 0) :
    ∀ (vs : List Node) (ss : List Stmt), Forall₂ f vs ss → vs.Nodup →
      cntList m ss = if v ∈ vs then 1 else 0 := by
  intro vs ss h
  induction h with
  | nil => intro _; simp [cntList_nil]
  | @cons v' s vs' ss' hvs _ ih =>
    intro hnd
    simp only [List.nodup_cons] at hnd
    rw [cntList_cons, ih hnd.2]
    by_cases he : v' = v
    · subst he
      simp [hone s hvs, hnd.1]
    · rw [hzero v' s he hvs]
      have : (v ∈ v' :: vs') ↔ v ∈ vs' := by
        simp only [List.mem_cons]
        constructor
        · rintro (h | h)
          · exact absurd h.symm he
          · exact h
        · exact Or.inr
      by_cases hm : v ∈ vs' <;> simp [hm, this]

/-- **C05, exactly once.**  Every reachable destination leaf lies under exactly one line or drop —
for every fuel, type oracle, option set and nesting depth. -/
theorem covered_once (hd : DistinctFields ctx.env) : ∀ (fuel : Nat) (l : Node) (ss : List Stmt),
    Covered ctx fuel l ss → ∀ m, Reach ctx l m → Leaf ctx m → cntList m ss = 1 := by
  intro fuel
  induction fuel with
  | zero => intro l ss h; exact absurd h (by simp [Covered])
  | succ fuel ih =>
    intro l ss h m hr hleaf
    -- the visited member enclosing `m`
    have hv : ∃ v, v ∈ visited ctx l ∧ anc v m = true ∧ (m = v ∨ Reach ctx v m) := by
      cases hr with
      | here hv => exact ⟨_, hv, anc_refl _, Or.inl rfl⟩
      | @step _ v _ hv hr' =>
        obtain ⟨v2, hv2, ha⟩ := reach_anc ctx hr'
        obtain ⟨n2, t2, rfl⟩ := visited_is_field ctx hv2
        exact ⟨v, hv, anc_trans (anc_field n2 t2 (anc_refl _)) ha, Or.inr hr'⟩
    obtain ⟨v, hvmem, hanc, hcase⟩ := hv
    simp only [Covered] at h
    -- restrict the relation to members of `visited l`, so that siblings can be told apart
    have h' : Forall₂ (fun v' s => v' ∈ visited ctx l ∧ StmtCov ctx fuel v' s) (visited ctx l) ss := by
      have : ∀ (vs : List Node) (ss : List Stmt),
          Forall₂ (fun v s => Stmt.lhs s = v ∧
            ∀ l' r i n body w, s = .nest l' r i n body w → body ≠ [] ∧ Covered ctx fuel v body) vs ss →
          Forall₂ (fun v' s => v' ∈ vs ∧ StmtCov ctx fuel v' s) vs ss := by
        intro vs ss hh
        induction hh with
        | nil => exact Forall₂.nil
        | cons hab _ ih2 =>
          refine Forall₂.cons ⟨List.mem_cons_self, hab⟩ ?_
          exact Forall₂.imp (fun a b hab' => ⟨List.mem_cons_of_mem _ hab'.1, hab'.2⟩) ih2
      exact this _ _ h
    have hone : ∀ s, (v ∈ visited ctx l ∧ StmtCov ctx fuel v s) → cnt m s = 1 := by
      intro s ⟨_, hs⟩
      by_cases hn : ∃ l' r i n body w, s = .nest l' r i n body w
      · obtain ⟨l', r, i, n, body, w, rfl⟩ := hn
        obtain ⟨hne, hc⟩ := hs.2 l' r i n body w rfl
        rw [cnt_nest]
        rcases hcase with rfl | hr'
        · -- a leaf has no nested block
          exfalso
          cases fuel with
          | zero => exact absurd hc (by simp [Covered])
          | succ k =>
            simp only [Covered] at hc
            unfold Leaf at hleaf
            rw [hleaf] at hc
            cases hc
            exact hne rfl
        · exact ih v body hc m hr' hleaf
      · have hn' : ∀ l' r i n body w, s ≠ .nest l' r i n body w := by
          intro l' r i n body w he; exact hn ⟨l', r, i, n, body, w, he⟩
        rw [cnt_leafStmt m s hn', hs.1, hanc]; rfl
    have hzero : ∀ v' s, v' ≠ v → (v' ∈ visited ctx l ∧ StmtCov ctx fuel v' s) → cnt m s = 0 := by
      intro v' s hne ⟨hv', hs⟩
      apply cnt_zero ctx fuel v' m s hs
      cases hx : anc v' m with
      | false => rfl
      | true =>
        exfalso
        obtain ⟨n1, t1, rfl⟩ := visited_is_field ctx hv'
        obtain ⟨n2, t2, rfl⟩ := visited_is_field ctx hvmem
        exact hne (siblings hx hanc)
    have := sum_one m v (fun v' s => v' ∈ visited ctx l ∧ StmtCov ctx fuel v' s) hone hzero _ _ h'
      (visited_nodup ctx hd l)
    rw [this]; simp [hvmem]

/-- the same, stated on the builder: whatever `structToStruct` returns -/
theorem structToStruct_covers_once (hd : DistinctFields ctx.env) (fuel : Nat) (l r : Node) (args : List Node)
    (ss : List Stmt) (h : ctx.structToStruct fuel l r args = .ok ss) (m : Node) (hr : Reach ctx l m)
    (hleaf : Leaf ctx m) : cntList m ss = 1 :=
  covered_once ctx hd fuel l ss (structToStruct_covered ctx fuel l r args ss h) m hr hleaf

/-- **nothing outside the reachable members is mentioned**: every line is on a member reached
through accessible members only (so unexported members of imported types never appear) -/
theorem marks_reachable : ∀ (fuel : Nat) (l : Node) (ss : List Stmt), Covered ctx fuel l ss →
    ∀ k, k ∈ marksList ss → Reach ctx l k := by
  intro fuel
  induction fuel with
  | zero => intro l ss h; exact absurd h (by simp [Covered])
  | succ fuel ih =>
    intro l ss h
    simp only [Covered] at h
    have h' : ∀ (vs : List Node) (ss : List Stmt),
        Forall₂ (fun v s => Stmt.lhs s = v ∧
          ∀ l' r i n body w, s = .nest l' r i n body w → body ≠ [] ∧ Covered ctx fuel v body) vs ss →
        (∀ v, v ∈ vs → v ∈ visited ctx l) →
        ∀ k, k ∈ marksList ss → Reach ctx l k := by
      intro vs ss hh
      induction hh with
      | nil => intro _ k hk; simp [marksList] at hk
      | @cons v s vs' ss' hvs _ ih2 =>
        intro hsub k hk
        simp only [marksList, List.mem_append] at hk
        have hvl : v ∈ visited ctx l := hsub v List.mem_cons_self
        have here : k ∈ marks s → Reach ctx l k := by
          intro hk'
          cases s with
          | nest l' r i n body w =>
            obtain ⟨_, hc⟩ := hvs.2 l' r i n body w rfl
            simp only [marks] at hk'
            exact Reach.step hvl (ih v body hc k hk')
          | skip l' => simp only [marks, List.mem_singleton] at hk'; subst hk'; have := hvs.1; simp only [Stmt.lhs] at this; subst this; exact Reach.here hvl
          | noMatch l' w => simp only [marks, List.mem_singleton] at hk'; subst hk'; have := hvs.1; simp only [Stmt.lhs] at this; subst this; exact Reach.here hvl
          | simple l' r e w => simp only [marks, List.mem_singleton] at hk'; subst hk'; have := hvs.1; simp only [Stmt.lhs] at this; subst this; exact Reach.here hvl
          | sliceCopy l' r t => simp only [marks, List.mem_singleton] at hk'; subst hk'; have := hvs.1; simp only [Stmt.lhs] at this; subst this; exact Reach.here hvl
          | sliceLoop l' r t => simp only [marks, List.mem_singleton] at hk'; subst hk'; have := hvs.1; simp only [Stmt.lhs] at this; subst this; exact Reach.here hvl
          | sliceCast l' r t c => simp only [marks, List.mem_singleton] at hk'; subst hk'; have := hvs.1; simp only [Stmt.lhs] at this; subst this; exact Reach.here hvl
        have rest := ih2 (fun v' hv' => hsub v' (List.mem_cons_of_mem _ hv'))
        rcases hk with hk | hk
        · exact here hk
        · exact rest k hk
    exact h' _ _ h (fun v hv => hv)

/-- **no member is written twice, none beneath another**: two lines whose members are comparable
(one encloses the other, or they are the same member) are one and the same line -/
theorem marks_prefix_free (hd : DistinctFields ctx.env) : ∀ (fuel : Nat) (l : Node) (ss : List Stmt),
    Covered ctx fuel l ss → ∀ k, k ∈ marksList ss → (marksList ss).countP (anc · k) = 1 := by
  intro fuel
  induction fuel with
  | zero => intro l ss h; exact absurd h (by simp [Covered])
  | succ fuel ih =>
    intro l ss h k hk
    simp only [Covered] at h
    -- the same summation as in `covered_once`, on the marks alone
    have hsum : ∀ (vs : List Node) (ss : List Stmt),
        Forall₂ (fun v s => Stmt.lhs s = v ∧
          ∀ l' r i n body w, s = .nest l' r i n body w → body ≠ [] ∧ Covered ctx fuel v body) vs ss →
        vs.Nodup → (∀ v, v ∈ vs → v ∈ visited ctx l) →
        ∀ k, k ∈ marksList ss → (marksList ss).countP (anc · k) = 1 := by
      intro vs ss hh
      induction hh with
      | nil => intro _ _ k hk; simp [marksList] at hk
      | @cons v s vs' ss' hvs hrest ih2 =>
        intro hnd hsub k hk
        simp only [List.nodup_cons] at hnd
        have hvl : v ∈ visited ctx l := hsub v List.mem_cons_self
        have hsv : StmtCov ctx fuel v s := hvs
        -- marks of the other statements lie below other members
        have others : ∀ k', k' ∈ marksList ss' → ∃ v', v' ∈ vs' ∧ anc v' k' = true := by
          have : ∀ (vs : List Node) (ss : List Stmt),
              Forall₂ (fun v s => Stmt.lhs s = v ∧
                ∀ l' r i n body w, s = .nest l' r i n body w → body ≠ [] ∧ Covered ctx fuel v body) vs ss →
              ∀ k', k' ∈ marksList ss → ∃ v', v' ∈ vs ∧ anc v' k' = true := by
            intro vs ss hh
            induction hh with
            | nil => intro k' hk'; simp [marksList] at hk'
            | @cons v0 s0 vs0 ss0 h0 _ ih0 =>
              intro k' hk'
              simp only [marksList, List.mem_append] at hk'
              rcases hk' with hk' | hk'
              · exact ⟨v0, List.mem_cons_self, stmt_below ctx fuel v0 s0 h0 k' hk'⟩
              · obtain ⟨v', hv', ha⟩ := ih0 k' hk'; exact ⟨v', List.mem_cons_of_mem _ hv', ha⟩
          exact this _ _ hrest
        have apart : ∀ v', v' ∈ vs' → ∀ a b, anc v a = true → anc v' b = true → anc a b = false ∧ anc b a = false := by
          intro v' hv' a b ha hb
          have hne : v' ≠ v := fun he => hnd.1 (he ▸ hv')
          obtain ⟨n1, t1, rfl⟩ := visited_is_field ctx hvl
          obtain ⟨n2, t2, rfl⟩ := visited_is_field ctx (hsub v' (List.mem_cons_of_mem _ hv'))
          constructor
          · cases hx : anc a b with
            | false => rfl
            | true => exact absurd (siblings hb (anc_trans ha hx)) hne
          · cases hx : anc b a with
            | false => rfl
            | true => exact absurd (siblings (anc_trans hb hx) ha) hne
        simp only [marksList, List.mem_append] at hk
        simp only [marksList, List.countP_append]
        rcases hk with hk | hk
        · -- `k` is a mark of `s`: nothing of the rest counts
          have hz : (marksList ss').countP (anc · k) = 0 := by
            simp only [List.countP_eq_zero]
            intro k' hk'
            obtain ⟨v', hv', ha⟩ := others k' hk'
            simp [(apart v' hv' k k' (stmt_below ctx fuel v s hsv k hk) ha).2]
          rw [hz, Nat.add_zero]
          cases s with
          | nest l' r i n body w =>
            obtain ⟨_, hc⟩ := hvs.2 l' r i n body w rfl
            simp only [marks] at hk ⊢
            exact ih v body hc k hk
          | skip l' => simp only [marks, List.mem_singleton] at hk; subst hk; simp [marks, anc_refl]
          | noMatch l' w => simp only [marks, List.mem_singleton] at hk; subst hk; simp [marks, anc_refl]
          | simple l' r e w => simp only [marks, List.mem_singleton] at hk; subst hk; simp [marks, anc_refl]
          | sliceCopy l' r t => simp only [marks, List.mem_singleton] at hk; subst hk; simp [marks, anc_refl]
          | sliceLoop l' r t => simp only [marks, List.mem_singleton] at hk; subst hk; simp [marks, anc_refl]
          | sliceCast l' r t c => simp only [marks, List.mem_singleton] at hk; subst hk; simp [marks, anc_refl]
        · -- `k` is a mark of the rest: nothing of `s` counts
          obtain ⟨v', hv', ha⟩ := others k hk
          have hz : (marks s).countP (anc · k) = 0 := by
            simp only [List.countP_eq_zero]
            intro k' hk'
            simp [(apart v' hv' k' k (stmt_below ctx fuel v s hsv k' hk') ha).1]
          rw [hz, Nat.zero_add]
          exact ih2 hnd.2 (fun v' hv' => hsub v' (List.mem_cons_of_mem _ hv')) k hk
    exact hsum _ _ h (visited_nodup ctx hd l) (fun v hv => hv) k hk


/-! ## the assumption is a decidable fact about the type table (the driver evaluates it on every input) -/

theorem distinctFields_of_check (env : Env) (h : env.distinctFieldsCheck = true) : DistinctFields env := by
  intro t
  unfold Env.fieldsOf Env.ty
  generalize env.derefPtr t = d
  unfold Env.distinctFieldsCheck at h
  simp only [List.all_eq_true, decide_eq_true_eq] at h
  by_cases hd : d < env.tys.size
  · have : env.tys.getD d { kind := .other, str := "?" } = env.tys[d] := by simp [Array.getD, hd]
    rw [this]
    exact h _ (Array.getElem_mem_toList hd)
  · have : env.tys.getD d { kind := .other, str := "?" } = { kind := .other, str := "?" } := by simp [Array.getD, hd]
    rw [this]
    exact List.nodup_nil

/-! ## the lines on the page are the marks -/

mutual
/-- the left-hand sides the rendered assignment list mentions, nested blocks flattened -/
def lineLhs : Assignment → List String
  | .skipField l => [l]
  | .noMatchField l => [l]
  | .simpleField l _ _ => [l]
  | .nestStruct _ _ cs => lineLhsList cs
  | .sliceAssignment l _ _ => [l]
  | .sliceLoopAssignment l _ _ => [l]
  | .sliceTypecastAssignment l _ _ _ => [l]
def lineLhsList : List Assignment → List String
  | [] => []
  | a :: as => lineLhs a ++ lineLhsList as
end

theorem lineLhsList_append (as bs : List Assignment) : lineLhsList (as ++ bs) = lineLhsList as ++ lineLhsList bs := by
  induction as with
  | nil => simp [lineLhsList]
  | cons a as ih => simp [lineLhsList, ih]

mutual
theorem lines_are_marks (env : Env) : ∀ s : Stmt, lineLhsList (Stmt.toAssignments env s) = (marks s).map (·.assignExpr env)
  | .skip l => by simp [Stmt.toAssignments, lineLhsList, lineLhs, marks]
  | .noMatch l w => by simp [Stmt.toAssignments, lineLhsList, lineLhs, marks]
  | .simple l (.node n) e w => by simp [Stmt.toAssignments, lineLhsList, lineLhs, marks]
  | .simple l (.literal t) e w => by simp [Stmt.toAssignments, lineLhsList, lineLhs, marks]
  | .nest l r i n body w => by
    simp only [Stmt.toAssignments, lineLhsList, lineLhs, marks, List.append_nil]
    exact lines_are_marksList env body
  | .sliceCopy l r t => by simp [Stmt.toAssignments, lineLhsList, lineLhs, marks]
  | .sliceLoop l r t => by simp [Stmt.toAssignments, lineLhsList, lineLhs, marks]
  | .sliceCast l r t c => by simp [Stmt.toAssignments, lineLhsList, lineLhs, marks]
theorem lines_are_marksList (env : Env) : ∀ ss : List Stmt,
    lineLhsList (Stmt.listToAssignments env ss) = (marksList ss).map (·.assignExpr env)
  | [] => by simp [Stmt.listToAssignments, lineLhsList, marksList]
  | s :: ss => by
    simp only [Stmt.listToAssignments, marksList, lineLhsList_append, List.map_append]
    rw [lines_are_marks env s, lines_are_marksList env ss]
end

/-! ## non-vacuity: a two-level destination on which every hypothesis holds -/

def toyEnv : Env :=
  { tys := #[ { kind := .named, str := "p.In", name := "In", pkgPath := some "p", isStruct := true,
                fields := [⟨"X", 1, false⟩, ⟨"Y", 1, false⟩] },
              { kind := .basic, str := "int", name := "int" },
              { kind := .named, str := "p.S", name := "S", pkgPath := some "p", isStruct := true,
                fields := [⟨"In", 0, false⟩, ⟨"N", 1, false⟩] },
              { kind := .named, str := "p.In2", name := "In2", pkgPath := some "p", isStruct := true,
                fields := [⟨"X", 1, false⟩] },
              { kind := .named, str := "p.R", name := "R", pkgPath := some "p", isStruct := true,
                fields := [⟨"In", 3, false⟩, ⟨"N", 1, false⟩] } ],
    assignable := fun a b => a == b, convertible := fun a b => a == b, lookup := fun _ _ => .none, pkgPath := "p", imports := [], stringTy := 1 }

def toyCtx : BCtx :=
  { env := toyEnv, eng := { compiles := fun _ => true, search := fun _ _ => false }, methodPos := "f.go:1:1", opts := {} }

example : toyEnv.distinctFieldsCheck = true := by decide

/-- `dst S` from `src R`: a nested block for `In` (`X` assigned, `Y` reported), then `N` -/
example : (match toyCtx.structToStruct 3 (.root "dst" 2) (.root "src" 4) [] with
    | .ok ss => (marksList ss).map (·.assignExpr toyEnv)
    | _ => []) = ["dst.In.X", "dst.In.Y", "dst.N"] := by decide

/-- the leaf `dst.In.Y` is reachable, is a leaf, and the theorem applies to it -/
example : Reach toyCtx (.root "dst" 2) (.field (.field (.root "dst" 2) "In" 0) "Y" 1) ∧
    Leaf toyCtx (.field (.field (.root "dst" 2) "In" 0) "Y" 1) := by
  refine ⟨Reach.step (v := .field (.root "dst" 2) "In" 0) (by decide) (Reach.here (by decide)), by unfold Leaf; decide⟩

end Convergen.Props.Cover
