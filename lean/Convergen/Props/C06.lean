import Convergen.Model.Builder
import Convergen.Model.Render
/-!
# C06 — explicit notations (:skip, :map, :conv, :literal, $n) are honoured as written

The precedence chain of `matchStructFieldAndStruct` (`BCtx.matchField`); its order in the Go
source is pinned by `Bridge/Tables.lean` (`Generated.precedence`).
-/
namespace Convergen.Props.C06
open Convergen

variable (ctx : BCtx) (rec : Node → Node → Outcome (List Stmt))

/-- **T6.1 (skip wins, at the level the builder visits).** A destination field whose path matches
a `:skip` pattern yields the skip line, whatever other notations name it. -/
theorem skip_wins (lhs rhs : Node) (args : List Node)
    (h : ctx.opts.shouldSkip ctx.eng lhs.matcherExpr = .ok true) :
    ctx.matchField rec lhs rhs args = .ok (.skip lhs) := by
  unfold BCtx.matchField
  simp [bind, Outcome.bind, h, pure]

/-- a skip pattern that crashes (nil regexp) crashes the field, it never falls through -/
theorem skip_panic_propagates (lhs rhs : Node) (args : List Node) (s : String)
    (h : ctx.opts.shouldSkip ctx.eng lhs.matcherExpr = .panic s) :
    ctx.matchField rec lhs rhs args = .panic s := by
  unfold BCtx.matchField
  simp [bind, Outcome.bind, h]

/-- **T6.2/T6.3 (`:conv` first).** Not skipped and some converter names exactly this path: the
result is that of the *first* such converter — never the default name match, never a later
notation. -/
theorem conv_first (lhs rhs : Node) (args : List Node) (c : FieldConverter)
    (hs : ctx.opts.shouldSkip ctx.eng lhs.matcherExpr = .ok false)
    (hc : ctx.opts.converters.find? (fun c => identMatch c.dst lhs.matcherExpr true) = some c) :
    ctx.matchField rec lhs rhs args = ctx.createWithConverter lhs rhs c := by
  unfold BCtx.matchField
  simp [bind, Outcome.bind, hs, hc]

/-- `:map` (plain source path) applies when no converter does -/
theorem map_second (lhs rhs : Node) (args : List Node) (m : NameMatcher)
    (hs : ctx.opts.shouldSkip ctx.eng lhs.matcherExpr = .ok false)
    (hc : ctx.opts.converters.find? (fun c => identMatch c.dst lhs.matcherExpr true) = none)
    (hm : ctx.opts.nameMapper.find? (fun m => identMatch m.dst lhs.matcherExpr true) = some m) :
    ctx.matchField rec lhs rhs args = ctx.createMapped lhs m.pos (ctx.resolveExpr m.src rhs.rootOf) := by
  unfold BCtx.matchField
  simp [bind, Outcome.bind, hs, hc, hm]

/-- `:map $n` applies when neither a converter nor a plain mapper does; `$1` is the source
operand, `$2` the first additional argument -/
theorem templated_third (lhs rhs : Node) (args : List Node) (m : NameMatcher)
    (hs : ctx.opts.shouldSkip ctx.eng lhs.matcherExpr = .ok false)
    (hc : ctx.opts.converters.find? (fun c => identMatch c.dst lhs.matcherExpr true) = none)
    (hm : ctx.opts.nameMapper.find? (fun m => identMatch m.dst lhs.matcherExpr true) = none)
    (ht : ctx.opts.templatedNameMapper.find? (fun m => identMatch m.dst lhs.matcherExpr true) = some m) :
    ctx.matchField rec lhs rhs args =
      ctx.createMapped lhs m.pos (ctx.resolveTemplatedExpr m.src (rhs :: args)) := by
  unfold BCtx.matchField
  simp [bind, Outcome.bind, hs, hc, hm, ht]

/-- `:literal` assigns exactly the literal text -/
theorem literal_fourth (lhs rhs : Node) (args : List Node) (l : LiteralSetter)
    (hs : ctx.opts.shouldSkip ctx.eng lhs.matcherExpr = .ok false)
    (hc : ctx.opts.converters.find? (fun c => identMatch c.dst lhs.matcherExpr true) = none)
    (hm : ctx.opts.nameMapper.find? (fun m => identMatch m.dst lhs.matcherExpr true) = none)
    (ht : ctx.opts.templatedNameMapper.find? (fun m => identMatch m.dst lhs.matcherExpr true) = none)
    (hl : ctx.opts.literals.find? (fun l => identMatch l.dst lhs.matcherExpr true) = some l) :
    ctx.matchField rec lhs rhs args = .ok (.simple lhs (.literal l.literal) false []) := by
  unfold BCtx.matchField
  simp [bind, Outcome.bind, hs, hc, hm, ht, hl, pure]

/-- the default name match is reached only when no explicit notation names the path -/
theorem default_last (lhs rhs : Node) (args : List Node)
    (hs : ctx.opts.shouldSkip ctx.eng lhs.matcherExpr = .ok false)
    (hc : ctx.opts.converters.find? (fun c => identMatch c.dst lhs.matcherExpr true) = none)
    (hm : ctx.opts.nameMapper.find? (fun m => identMatch m.dst lhs.matcherExpr true) = none)
    (ht : ctx.opts.templatedNameMapper.find? (fun m => identMatch m.dst lhs.matcherExpr true) = none)
    (hl : ctx.opts.literals.find? (fun l => identMatch l.dst lhs.matcherExpr true) = none) :
    ctx.matchField rec lhs rhs args = ctx.fieldDefault rec lhs rhs := by
  unfold BCtx.matchField
  simp [bind, Outcome.bind, hs, hc, hm, ht, hl]

/-- **T6.6 (= T19.5).** The explicit-notation decisions never look at the case rule: changing
`exactCase` (with the skip answer unchanged) changes none of the four lookups. -/
theorem explicit_lookups_ignore_case_rule (o : Options) (b : Bool) (path : String) :
    ({ o with exactCase := b }).converters.find? (fun c => identMatch c.dst path true) =
      o.converters.find? (fun c => identMatch c.dst path true) ∧
    ({ o with exactCase := b }).nameMapper.find? (fun m => identMatch m.dst path true) =
      o.nameMapper.find? (fun m => identMatch m.dst path true) ∧
    ({ o with exactCase := b }).literals.find? (fun l => identMatch l.dst path true) =
      o.literals.find? (fun l => identMatch l.dst path true) := ⟨rfl, rfl, rfl⟩

/-- a converter / mapper result is exactly its own expression or `no match`: the statement
produced by `createMapped` assigns the cast of the resolved node, nothing else -/
theorem createMapped_shape (lhs : Node) (pos : String) (n? : Option Node) (s : Stmt)
    (h : ctx.createMapped lhs pos n? = .ok s) :
    (∃ w, s = .noMatch lhs w) ∨
    (∃ n c w, n? = some n ∧ ctx.castNode (lhs.exprType ctx.env) n = .ok (some c, w) ∧
      s = .simple lhs (.node c) c.returnsError w) := by
  unfold BCtx.createMapped at h
  cases n? with
  | none =>
    left
    simp only at h
    unfold BCtx.noMatchAt at h
    cases h; exact ⟨_, rfl⟩
  | some n =>
    simp only [bind, Outcome.bind] at h
    cases hc : ctx.castNode (lhs.exprType ctx.env) n with
    | ok r =>
      obtain ⟨c?, w⟩ := r
      simp only [hc] at h
      cases c? with
      | none =>
        left
        simp only at h
        unfold BCtx.noMatchAt at h
        cases h; exact ⟨_, rfl⟩
      | some c =>
        simp only [pure] at h
        by_cases he : (c.returnsError && !ctx.retError) = true
        · left
          simp only [he, ↓reduceIte] at h
          unfold BCtx.noMatchAt at h
          cases h; exact ⟨_, rfl⟩
        · right
          simp only [he, Bool.false_eq_true, ↓reduceIte] at h
          cases h
          exact ⟨n, c, w, rfl, hc, rfl⟩
    | error e => simp [hc] at h
    | panic p => simp [hc] at h

/-! ### the full statement of the skip clause and why it is only partly true (finding)

"never assigned, whatever … enclosing-struct copies would do": the builder consults `:skip`
only for the fields it visits.  When an enclosing by-value struct is assignable as a whole the
nested field is never visited. -/

def toyEnv : Env :=
  { tys := #[ { kind := .named, str := "p.In", name := "In", pkgPath := some "p", isStruct := true,
                fields := [⟨"X", 1⟩] },
              { kind := .basic, str := "int", name := "int" },
              { kind := .named, str := "p.S", name := "S", pkgPath := some "p", isStruct := true,
                fields := [⟨"In", 0⟩] } ],
    assignable := fun a b => a == b, convertible := fun a b => a == b, lookup := fun _ _ => .none, pkgPath := "p", imports := [], stringTy := 1 }

def exactEng : Engine where
  compiles := fun _ => true
  search := fun e s => e == "^" ++ quoteMeta s ++ "$"

def skipInX : BCtx :=
  { env := toyEnv, eng := exactEng, methodPos := "f.go:1:1",
    opts := { skipFields := [⟨"In.X", true, true⟩] } }

/-- the rendered body of a builder result (for `decide`-able witnesses) -/
def bodyText (env : Env) (r : Outcome (List Stmt)) : String :=
  match r with
  | .ok ss => Assignment.renderList (Stmt.listToAssignments env ss)
  | .error _ => "error"
  | .panic s => "panic: " ++ s

/-- witness: `:skip In.X`, yet `dst.In = src.In` copies `X` (DESIGN §5 #15) -/
example : bodyText toyEnv (skipInX.structToStruct 3 (.root "dst" 2) (.root "src" 2) []) = "dst.In = src.In\n" := by
  decide

/-- non-vacuity of `skip_wins`: the same pattern on a visited field does skip it -/
def skipIn : BCtx := { skipInX with opts := { skipFields := [⟨"In", true, true⟩] } }
example : bodyText toyEnv (skipIn.structToStruct 3 (.root "dst" 2) (.root "src" 2) []) = "// skip: dst.In\n" := by
  decide

end Convergen.Props.C06
