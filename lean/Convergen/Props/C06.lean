import Convergen.Props.C04
import Convergen.Props.BuilderInv
/-!
# C06 — explicit notations (:skip, :map, :conv, :literal, $n) are honoured as written

The precedence chain of `matchStructFieldAndStruct` (`BCtx.matchField`); its order in the Go
source is pinned by `Bridge/Tables.lean` (`Generated.precedence`).
-/
namespace Convergen.Props.C06
open Convergen

variable (ctx : BCtx) (rec : Node → Node → Outcome (List Stmt))

/-- **T6.1 (skip wins, at the level the builder visits).** A destination field whose path matches
a `:skip` pattern yields the skip line, whatever other notations name it. -/
theorem skip_wins (lhs rhs : Node) (args : List Node)
    (h : ctx.opts.shouldSkip ctx.eng lhs.matcherExpr = .ok true) :
    ctx.matchField rec lhs rhs args = .ok (.skip lhs) := by
  unfold BCtx.matchField
  simp [bind, Outcome.bind, h, pure]

/-- a skip pattern that crashes (nil regexp) crashes the field, it never falls through -/
theorem skip_panic_propagates (lhs rhs : Node) (args : List Node) (s : String)
    (h : ctx.opts.shouldSkip ctx.eng lhs.matcherExpr = .panic s) :
    ctx.matchField rec lhs rhs args = .panic s := by
  unfold BCtx.matchField
  simp [bind, Outcome.bind, h]

/-- **T6.2/T6.3 (`:conv` first).** Not skipped and some converter names exactly this path: the
result is that of the *first* such converter — never the default name match, never a later
notation. -/
theorem conv_first (lhs rhs : Node) (args : List Node) (c : FieldConverter)
    (hs : ctx.opts.shouldSkip ctx.eng lhs.matcherExpr = .ok false)
    (hc : ctx.opts.converters.find? (fun c => identMatch c.dst lhs.matcherExpr true) = some c) :
    ctx.matchField rec lhs rhs args = ctx.createWithConverter lhs rhs c := by
  unfold BCtx.matchField
  simp [bind, Outcome.bind, hs, hc]

/-- `:map` (plain source path) applies when no converter does -/
theorem map_second (lhs rhs : Node) (args : List Node) (m : NameMatcher)
    (hs : ctx.opts.shouldSkip ctx.eng lhs.matcherExpr = .ok false)
    (hc : ctx.opts.converters.find? (fun c => identMatch c.dst lhs.matcherExpr true) = none)
    (hm : ctx.opts.nameMapper.find? (fun m => identMatch m.dst lhs.matcherExpr true) = some m) :
    ctx.matchField rec lhs rhs args = ctx.createMapped lhs m.pos (ctx.resolveExpr m.src rhs.rootOf) := by
  unfold BCtx.matchField
  simp [bind, Outcome.bind, hs, hc, hm]

/-- `:map $n` applies when neither a converter nor a plain mapper does; `$1` is the source
operand — also for a member of a nested struct (repaired, DESIGN §5 #30) —, `$2` the first
additional argument -/
theorem templated_third (lhs rhs : Node) (args : List Node) (m : NameMatcher)
    (hs : ctx.opts.shouldSkip ctx.eng lhs.matcherExpr = .ok false)
    (hc : ctx.opts.converters.find? (fun c => identMatch c.dst lhs.matcherExpr true) = none)
    (hm : ctx.opts.nameMapper.find? (fun m => identMatch m.dst lhs.matcherExpr true) = none)
    (ht : ctx.opts.templatedNameMapper.find? (fun m => identMatch m.dst lhs.matcherExpr true) = some m) :
    ctx.matchField rec lhs rhs args =
      ctx.createMapped lhs m.pos (ctx.resolveTemplatedExpr m.src (rhs.rootOf :: args)) := by
  unfold BCtx.matchField
  simp [bind, Outcome.bind, hs, hc, hm, ht]

/-- `:literal` assigns exactly the literal text -/
theorem literal_fourth (lhs rhs : Node) (args : List Node) (l : LiteralSetter)
    (hs : ctx.opts.shouldSkip ctx.eng lhs.matcherExpr = .ok false)
    (hc : ctx.opts.converters.find? (fun c => identMatch c.dst lhs.matcherExpr true) = none)
    (hm : ctx.opts.nameMapper.find? (fun m => identMatch m.dst lhs.matcherExpr true) = none)
    (ht : ctx.opts.templatedNameMapper.find? (fun m => identMatch m.dst lhs.matcherExpr true) = none)
    (hl : ctx.opts.literals.find? (fun l => identMatch l.dst lhs.matcherExpr true) = some l) :
    ctx.matchField rec lhs rhs args = .ok (.simple lhs (.literal l.literal) false []) := by
  unfold BCtx.matchField
  simp [bind, Outcome.bind, hs, hc, hm, ht, hl, pure]

/-- the default name match is reached only when no explicit notation names the path -/
theorem default_last (lhs rhs : Node) (args : List Node)
    (hs : ctx.opts.shouldSkip ctx.eng lhs.matcherExpr = .ok false)
    (hc : ctx.opts.converters.find? (fun c => identMatch c.dst lhs.matcherExpr true) = none)
    (hm : ctx.opts.nameMapper.find? (fun m => identMatch m.dst lhs.matcherExpr true) = none)
    (ht : ctx.opts.templatedNameMapper.find? (fun m => identMatch m.dst lhs.matcherExpr true) = none)
    (hl : ctx.opts.literals.find? (fun l => identMatch l.dst lhs.matcherExpr true) = none) :
    ctx.matchField rec lhs rhs args = ctx.fieldDefault rec lhs rhs := by
  unfold BCtx.matchField
  simp [bind, Outcome.bind, hs, hc, hm, ht, hl]

/-- **T6.6 (= T19.5).** The explicit-notation decisions never look at the case rule: changing
`exactCase` (with the skip answer unchanged) changes none of the four lookups. -/
theorem explicit_lookups_ignore_case_rule (o : Options) (b : Bool) (path : String) :
    ({ o with exactCase := b }).converters.find? (fun c => identMatch c.dst path true) =
      o.converters.find? (fun c => identMatch c.dst path true) ∧
    ({ o with exactCase := b }).nameMapper.find? (fun m => identMatch m.dst path true) =
      o.nameMapper.find? (fun m => identMatch m.dst path true) ∧
    ({ o with exactCase := b }).literals.find? (fun l => identMatch l.dst path true) =
      o.literals.find? (fun l => identMatch l.dst path true) := ⟨rfl, rfl, rfl⟩

/-- a converter / mapper result is exactly its own expression or `no match`: the statement
produced by `createMapped` assigns the cast of the resolved node, nothing else -/
theorem createMapped_shape (lhs : Node) (pos : String) (n? : Option Node) (s : Stmt)
    (h : ctx.createMapped lhs pos n? = .ok s) :
    (∃ w, s = .noMatch lhs w) ∨
    (∃ n c w, n? = some n ∧ ctx.castNode (lhs.exprType ctx.env) n = .ok (some c, w) ∧
      s = .simple lhs (.node c) c.returnsError w) := by
  unfold BCtx.createMapped at h
  cases n? with
  | none =>
    left
    simp only at h
    unfold BCtx.noMatchAt at h
    cases h; exact ⟨_, rfl⟩
  | some n =>
    simp only [bind, Outcome.bind] at h
    cases hc : ctx.castNode (lhs.exprType ctx.env) n with
    | ok r =>
      obtain ⟨c?, w⟩ := r
      simp only [hc] at h
      cases c? with
      | none =>
        left
        simp only at h
        unfold BCtx.noMatchAt at h
        cases h; exact ⟨_, rfl⟩
      | some c =>
        simp only [pure] at h
        by_cases he : (c.returnsError && !ctx.retError) = true
        · left
          simp only [he, ↓reduceIte] at h
          unfold BCtx.noMatchAt at h
          cases h; exact ⟨_, rfl⟩
        · right
          simp only [he, Bool.false_eq_true, ↓reduceIte] at h
          cases h
          exact ⟨n, c, w, rfl, hc, rfl⟩
    | error e => simp [hc] at h
    | panic p => simp [hc] at h

/-! ## notations beneath a struct member (repair of DESIGN §5 #15)

A struct member is copied as a whole only if no notation names anything beneath it; otherwise the
builder descends and the nested members go through the precedence chain themselves.  "Beneath" means
through by-value struct members — the only ones the builder ever descends into. -/

open Convergen.Props.BuilderInv in
/-- the members beneath `l` reached through by-value struct members only -/
inductive ReachV : Node → Node → Prop
  | here {l v} : ctx.env.isStructType (l.exprType ctx.env) = true → v ∈ visited ctx l → ReachV l v
  | step {l v m} : ctx.env.isStructType (l.exprType ctx.env) = true → v ∈ visited ctx l → ReachV v m → ReachV l m

theorem anyOutcome_false {α : Type} (f : α → Outcome Bool) : ∀ (l : List α), BCtx.anyOutcome f l = .ok false →
    ∀ x ∈ l, f x = .ok false := by
  intro l
  induction l with
  | nil => intro _ x hx; cases hx
  | cons a rest ih =>
    intro h x hx
    simp only [BCtx.anyOutcome] at h
    cases hfa : f a with
    | error e => simp only [hfa] at h; cases h
    | panic p => simp only [hfa] at h; cases h
    | ok b =>
      cases b with
      | true => simp only [hfa] at h; cases h
      | false =>
        simp only [hfa] at h
        rcases List.mem_cons.mp hx with rfl | hx'
        · exact hfa
        · exact ih h x hx'

open Convergen.Props.BuilderInv in
/-- `addressedBelow` answers "no" only if no member beneath is named by any notation -/
theorem addressedBelow_false : ∀ (fuel : Nat) (l : Node), ctx.addressedBelow fuel l = .ok false →
    ∀ m, ReachV ctx l m → ctx.addressed m.matcherExpr = .ok false := by
  intro fuel
  induction fuel with
  | zero => intro l h; simp [BCtx.addressedBelow] at h
  | succ fuel ih =>
    intro l h m hr
    simp only [BCtx.addressedBelow] at h
    have hstruct : ctx.env.isStructType (l.exprType ctx.env) = true := by cases hr <;> assumption
    simp only [hstruct, Bool.not_true, Bool.false_eq_true, ↓reduceIte] at h
    have hall := anyOutcome_false _ _ h
    have hmember : ∀ v, v ∈ visited ctx l →
        ctx.addressed v.matcherExpr = .ok false ∧ ctx.addressedBelow fuel v = .ok false := by
      intro v hv
      have := hall v (by unfold visited at hv; exact hv)
      cases ha : ctx.addressed v.matcherExpr with
      | error e => simp only [ha] at this; cases this
      | panic p => simp only [ha] at this; cases this
      | ok b =>
        cases b with
        | true => simp only [ha] at this; cases this
        | false => simp only [ha] at this; exact ⟨rfl, this⟩
    cases hr with
    | here _ hv => exact (hmember _ hv).1
    | step _ hv hr' => exact ih _ (hmember _ hv).2 m hr'

/-- a path no notation names: not skipped, and none of the four explicit lookups finds it -/
theorem addressed_false (path : String) (h : ctx.addressed path = .ok false) :
    ctx.opts.shouldSkip ctx.eng path = .ok false ∧
    ctx.opts.converters.find? (fun c => identMatch c.dst path true) = none ∧
    ctx.opts.nameMapper.find? (fun m => identMatch m.dst path true) = none ∧
    ctx.opts.templatedNameMapper.find? (fun m => identMatch m.dst path true) = none ∧
    ctx.opts.literals.find? (fun l => identMatch l.dst path true) = none := by
  unfold BCtx.addressed at h
  cases hs : ctx.opts.shouldSkip ctx.eng path with
  | error e => simp only [hs] at h; cases h
  | panic p => simp only [hs] at h; cases h
  | ok b =>
    cases b with
    | true => simp only [hs] at h; cases h
    | false =>
      simp only [hs, Outcome.ok.injEq, Bool.or_eq_false_iff, List.any_eq_false] at h
      obtain ⟨⟨⟨h1, h2⟩, h3⟩, h4⟩ := h
      refine ⟨rfl, ?_, ?_, ?_, ?_⟩ <;> (rw [List.find?_eq_none]; assumption)

/-- **T6.1 at full depth, for the default matcher.**  When the default matcher assigns a struct
member as a whole (`dst.In = src.In`), no member beneath it — through by-value struct members, at
any depth — matches a `:skip` pattern or is named by `:conv`, `:map`, `:map $n` or `:literal`. -/
theorem whole_copy_only_if_nothing_beneath (lhs cand n : Node) (w w' : List String)
    (hfrom : C04.FromCand ctx rec lhs cand (.simple lhs (.node n) n.returnsError w'))
    (hl : ctx.env.isStructType (lhs.exprType ctx.env) = true)
    (hc : ctx.env.isStructType (cand.exprType ctx.env) = true) :
    ∀ m, ReachV ctx lhs m → ctx.opts.shouldSkip ctx.eng m.matcherExpr = .ok false ∧
      ctx.opts.converters.find? (fun c => identMatch c.dst m.matcherExpr true) = none ∧
      ctx.opts.nameMapper.find? (fun x => identMatch x.dst m.matcherExpr true) = none ∧
      ctx.opts.templatedNameMapper.find? (fun x => identMatch x.dst m.matcherExpr true) = none ∧
      ctx.opts.literals.find? (fun x => identMatch x.dst m.matcherExpr true) = none := by
  intro m hm
  have hmw : ctx.memberwise lhs cand = .ok false := by
    cases hfrom with
    | slice _ _ hsl =>
      exfalso
      unfold BCtx.sliceToSlice at hsl
      simp only at hsl
      split at hsl
      · split at hsl <;> cases hsl
      · split at hsl <;> cases hsl
    | direct _ hmw => exact hmw
  unfold BCtx.memberwise at hmw
  simp only [hl, hc, Bool.and_self, ↓reduceIte] at hmw
  exact addressed_false ctx _ (addressedBelow_false ctx _ lhs hmw m hm)

/-! ### what remains of the finding

The descent happens in the default matcher.  Two corners stay outside (known_findings, C06):
a member assigned as a whole by an *explicit* notation on the enclosing member (`:map Src In`,
`:conv F Src In`, `:literal In …`) ignores notations beneath it, and pointer-typed struct members
are never descended into. -/

def toyEnv : Env :=
  { tys := #[ { kind := .named, str := "p.In", name := "In", pkgPath := some "p", isStruct := true,
                fields := [⟨"X", 1, false⟩, ⟨"Y", 1, false⟩] },
              { kind := .basic, str := "int", name := "int" },
              { kind := .named, str := "p.S", name := "S", pkgPath := some "p", isStruct := true,
                fields := [⟨"In", 0, false⟩] } ],
    assignable := fun a b => a == b, convertible := fun a b => a == b, lookup := fun _ _ => .none, pkgPath := "p", imports := [], stringTy := 1 }

def exactEng : Engine where
  compiles := fun _ => true
  search := fun e s => e == "^" ++ quoteMeta s ++ "$"

def skipInX : BCtx :=
  { env := toyEnv, eng := exactEng, methodPos := "f.go:1:1",
    opts := { skipFields := [⟨"In.X", true, true⟩] } }

/-- the rendered body of a builder result (for `decide`-able witnesses) -/
def bodyText (env : Env) (r : Outcome (List Stmt)) : String :=
  match r with
  | .ok ss => Assignment.renderList (Stmt.listToAssignments env ss)
  | .error _ => "error"
  | .panic s => "panic: " ++ s

/-- the former witness (DESIGN §5 #15): `:skip In.X` is now honoured, `In` is copied member by member -/
example : bodyText toyEnv (skipInX.structToStruct 3 (.root "dst" 2) (.root "src" 2) []) =
    "// skip: dst.In.X\ndst.In.Y = src.In.Y\n" := by
  decide

/-- without a notation beneath it the member is still copied as a whole -/
def plain : BCtx := { skipInX with opts := {} }
example : bodyText toyEnv (plain.structToStruct 3 (.root "dst" 2) (.root "src" 2) []) = "dst.In = src.In\n" := by
  decide

/-- non-vacuity of `skip_wins`: the same pattern on a visited field does skip it -/
def skipIn : BCtx := { skipInX with opts := { skipFields := [⟨"In", true, true⟩] } }
example : bodyText toyEnv (skipIn.structToStruct 3 (.root "dst" 2) (.root "src" 2) []) = "// skip: dst.In\n" := by
  decide

/- the remaining corner (`:map In In` together with `:skip In.X` gives `dst.In = src.In`) is shown on the
   real code by the corpus input corpus/C06/explicit_enclosing.json; `String.splitOn` in `identPaths`
   does not reduce in the kernel, so it is not stated as a `decide` example here. -/

end Convergen.Props.C06
