import Convergen.Model.BaseCode
/-!
# C03 — well-formed setup files are accepted … whatever the layout   (partial)

This file proves the layout-independent part that lives in convergen's own code: planting the
two markers per interface (`InsertComment`) keeps every marker alone in its own comment group and
the groups position-sorted, for **all** comment layouts; and the cut / replace on the printed text
yields `prefix ++ functions ++ suffix`.  What `go/printer` does with the planted groups and whether
`goimports` accepts the assembled text is outside the model (explored by the layout sweep).
-/
namespace Convergen.Props.C03
open Convergen

/-- non-empty groups are strictly sorted by position -/
def Sorted (gs : List CG) : Prop := (gs.filter (fun g => !g.empty)).Pairwise (fun a b => a.pos < b.pos)
/-- a group that holds a marker holds nothing else and has the marker's fake extent -/
def MarkersAlone (gs : List CG) : Prop := ∀ g ∈ gs, g.markers = [] ∨ ∃ id, g = markerGroup g.pos id
/-- every non-empty group has a positive extent -/
def Ext (gs : List CG) : Prop := ∀ g ∈ gs, g.empty = false → g.pos < g.endp
/-- position `p` lies in no non-empty group's extent -/
def Free (gs : List CG) (p : Nat) : Prop := ∀ g ∈ gs, g.empty = false → ¬(g.pos ≤ p ∧ p < g.endp)

structure Sane (gs : List CG) : Prop where
  sorted : Sorted gs
  alone : MarkersAlone gs
  ext : Ext gs

theorem markerGroup_props (p id : Nat) :
    (markerGroup p id).empty = false ∧ (markerGroup p id).pos = p ∧ (markerGroup p id).endp = p + markerLen ∧
    (markerGroup p id).markers = [id] := ⟨rfl, rfl, rfl, rfl⟩

/-- **one insertion.** If `p` is free, `InsertComment` adds exactly one new group — the marker alone
— at the right place: the result is sane and consists of the old groups plus the marker group. -/
theorem insert_sane (gs : List CG) (p id : Nat) (h : Sane gs) (hf : Free gs p) :
    Sane (insertComment gs p id) ∧ (∀ g, g ∈ insertComment gs p id ↔ g = markerGroup p id ∨ g ∈ gs) := by
  induction gs with
  | nil =>
    refine ⟨⟨?_, ?_, ?_⟩, ?_⟩
    · simp [insertComment, Sorted, markerGroup]
    · intro g hg; simp [insertComment] at hg; subst hg; exact Or.inr ⟨id, rfl⟩
    · intro g hg _; simp [insertComment] at hg; subst hg; simp [markerGroup, markerLen]
    · intro g; simp [insertComment]
  | cons g rest ih =>
    have hrest : Sane rest := by
      refine ⟨?_, fun x hx => h.alone x (by simp [hx]), fun x hx => h.ext x (by simp [hx])⟩
      have := h.sorted
      unfold Sorted at this ⊢
      by_cases he : g.empty = true
      · simpa [List.filter_cons, he] using this
      · have he' : g.empty = false := by simpa using he
        simp only [List.filter_cons, he', Bool.not_false, ↓reduceIte, List.pairwise_cons] at this
        exact this.2
    have hfrest : Free rest p := fun x hx => hf x (by simp [hx])
    obtain ⟨ihs, ihm⟩ := ih hrest hfrest
    by_cases he : g.empty = true
    · -- an empty group is skipped
      simp only [insertComment, he, ↓reduceIte]
      refine ⟨⟨?_, ?_, ?_⟩, ?_⟩
      · have := ihs.sorted
        unfold Sorted at this ⊢
        simpa [List.filter_cons, he] using this
      · intro x hx
        simp only [List.mem_cons] at hx
        rcases hx with hx | hx
        · subst hx; exact h.alone _ (by simp)
        · exact ihs.alone x hx
      · intro x hx hne
        simp only [List.mem_cons] at hx
        rcases hx with hx | hx
        · subst hx; rw [he] at hne; cases hne
        · exact ihs.ext x hx hne
      · intro x
        simp only [List.mem_cons, ihm x]
        constructor <;> (intro hh; rcases hh with hh | hh | hh <;> simp [hh])
    · have he' : g.empty = false := by simpa using he
      have hgext := h.ext g (by simp) he'
      have hgfree := hf g (by simp) he'
      simp only [insertComment, he', Bool.false_eq_true, ↓reduceIte]
      by_cases hlt : p < g.pos
      · -- new group right before `g`
        simp only [hlt, ↓reduceIte]
        refine ⟨⟨?_, ?_, ?_⟩, ?_⟩
        · have hs := h.sorted
          unfold Sorted at hs ⊢
          simp only [List.filter_cons, he', Bool.not_false, ↓reduceIte, List.pairwise_cons] at hs
          simp only [List.filter_cons, markerGroup, Bool.not_false, ↓reduceIte, he', List.pairwise_cons,
            List.mem_cons, forall_eq_or_imp]
          refine ⟨⟨hlt, fun b hb => Nat.lt_trans hlt (hs.1 b hb)⟩, hs.1, hs.2⟩
        · intro x hx
          simp only [List.mem_cons] at hx
          rcases hx with hx | hx | hx
          · subst hx; exact Or.inr ⟨id, rfl⟩
          · subst hx; exact h.alone _ (by simp)
          · exact h.alone x (by simp [hx])
        · intro x hx hne
          simp only [List.mem_cons] at hx
          rcases hx with hx | hx | hx
          · subst hx; simp [markerGroup, markerLen]
          · subst hx; exact hgext
          · exact h.ext x (by simp [hx]) hne
        · intro x; simp only [List.mem_cons]
      · simp only [hlt, ↓reduceIte]
        have hge : g.pos ≤ p := Nat.le_of_not_lt hlt
        have hnin : ¬ p < g.endp := fun hh => hgfree ⟨hge, hh⟩
        simp only [hnin, ↓reduceIte]
        have hgp : g.pos < p := by
          rcases Nat.lt_or_eq_of_le hge with h1 | h1
          · exact h1
          · exact absurd (h1 ▸ hgext) hnin
        refine ⟨⟨?_, ?_, ?_⟩, ?_⟩
        · have hs := h.sorted
          have hi := ihs.sorted
          unfold Sorted at hs hi ⊢
          simp only [List.filter_cons, he', Bool.not_false, ↓reduceIte, List.pairwise_cons] at hs ⊢
          refine ⟨?_, hi⟩
          intro b hb
          have hb' : b ∈ insertComment rest p id ∧ b.empty = false := by
            simpa [List.mem_filter] using hb
          rcases (ihm b).mp hb'.1 with hb1 | hb1
          · subst hb1; exact hgp
          · exact hs.1 b (by simp [List.mem_filter, hb1, hb'.2])
        · intro x hx
          simp only [List.mem_cons] at hx
          rcases hx with hx | hx
          · subst hx; exact h.alone _ (by simp)
          · exact ihs.alone x hx
        · intro x hx hne
          simp only [List.mem_cons] at hx
          rcases hx with hx | hx
          · subst hx; exact hgext
          · exact ihs.ext x hx hne
        · intro x
          simp only [List.mem_cons, ihm x]
          constructor <;> (intro hh; rcases hh with hh | hh | hh <;> simp [hh])

/-- positions that stay free after a marker has been planted at `q`: those outside its fake extent -/
theorem free_after_insert (gs : List CG) (p q id : Nat) (h : Sane gs) (hfq : Free gs q) (hfp : Free gs p)
    (hsep : ¬(q ≤ p ∧ p < q + markerLen)) : Free (insertComment gs q id) p := by
  intro g hg hne
  rcases ((insert_sane gs q id h hfq).2 g).mp hg with hg | hg
  · subst hg; simpa [markerGroup] using hsep
  · exact hfp g hg hne

/-- **T3.4a (one interface).** With the closing marker planted first, both markers of an interface end
up alone in their own groups, whatever the distance between the braces — in particular for a body
shorter than the marker. -/
theorem plantEntry_sane (gs : List CG) (e : Entry) (h : Sane gs) (hlt : e.lbrace < e.rbrace)
    (hfl : Free gs e.lbrace) (hfr : Free gs e.rbrace) :
    Sane (plantEntry gs e) ∧
    (∀ g, g ∈ plantEntry gs e ↔ g = markerGroup e.lbrace e.id ∨ g = markerGroup e.rbrace e.id ∨ g ∈ gs) := by
  unfold plantEntry
  obtain ⟨h1, m1⟩ := insert_sane gs e.rbrace e.id h hfr
  have hfree : Free (insertComment gs e.rbrace e.id) e.lbrace :=
    free_after_insert gs e.lbrace e.rbrace e.id h hfr hfl (by omega)
  obtain ⟨h2, m2⟩ := insert_sane _ e.lbrace e.id h1 hfree
  refine ⟨h2, fun g => ?_⟩
  rw [m2 g, m1 g]

/-- separation of the entries from the comments and from each other: no brace lies in a comment, and
no brace of one interface lies in the fake extent of a marker of another -/
def Separated (gs : List CG) (es : List Entry) : Prop :=
  (∀ e ∈ es, e.lbrace < e.rbrace ∧ Free gs e.lbrace ∧ Free gs e.rbrace) ∧
  es.Pairwise (fun a b =>
    ∀ p ∈ [a.lbrace, a.rbrace], ∀ q ∈ [b.lbrace, b.rbrace], ¬(p ≤ q ∧ q < p + markerLen))

/-- **T3.4 (all interfaces).** Planting the markers of any number of converter interfaces — processed
in any order — leaves all comment groups sorted and every marker alone in its own group. -/
theorem plantAll_sane (es : List Entry) : ∀ (gs : List CG), Sane gs → Separated gs es → Sane (plantAll gs es) := by
  induction es with
  | nil => intro gs h _; exact h
  | cons e rest ih =>
    intro gs h hsep
    unfold plantAll
    simp only [List.foldl_cons]
    obtain ⟨hall, hpair⟩ := hsep
    obtain ⟨hlt, hfl, hfr⟩ := hall e (by simp)
    obtain ⟨hs, hm⟩ := plantEntry_sane gs e h hlt hfl hfr
    simp only [List.pairwise_cons] at hpair
    apply ih _ hs
    refine ⟨?_, hpair.2⟩
    intro e' he'
    obtain ⟨hlt', hfl', hfr'⟩ := hall e' (by simp [he'])
    have hsepe := hpair.1 e' he'
    refine ⟨hlt', ?_, ?_⟩
    · intro g hg hne
      rcases (hm g).mp hg with hg | hg | hg
      · subst hg; simpa [markerGroup] using hsepe e.lbrace (by simp) e'.lbrace (by simp)
      · subst hg; simpa [markerGroup] using hsepe e.rbrace (by simp) e'.lbrace (by simp)
      · exact hfl' g hg hne
    · intro g hg hne
      rcases (hm g).mp hg with hg | hg | hg
      · subst hg; simpa [markerGroup] using hsepe e.lbrace (by simp) e'.rbrace (by simp)
      · subst hg; simpa [markerGroup] using hsepe e.rbrace (by simp) e'.rbrace (by simp)
      · exact hfr' g hg hne

/-! ### the order matters: the insertion order used before the repair (DESIGN §5 #2) merges the two
markers of a short interface into one group -/

/-- `type Convergen interface {⏎⇥F(*S) *D⏎}`: 11 bytes between the braces, no comments -/
example : plantEntryOld [] ⟨100, 112, 7⟩ = [{ pos := 100, endp := 133, markers := [7, 7] }] := by decide
/-- the repaired order keeps them apart -/
example : plantEntry [] ⟨100, 112, 7⟩ = [markerGroup 100 7, markerGroup 112 7] := by decide
/-- non-vacuity: a layout with comments before, inside and after the interface -/
example : plantEntry [⟨10, 30, [], false⟩, ⟨105, 110, [], false⟩, ⟨200, 220, [], false⟩] ⟨100, 112, 7⟩ =
    [⟨10, 30, [], false⟩, markerGroup 100 7, ⟨105, 110, [], false⟩, markerGroup 112 7, ⟨200, 220, [], false⟩] := by
  decide

/-! ## the cut and the replacement on the printed text (`T3.5` = `T11.3`) -/

theorem splitAtMark_spec (i : Nat) (x y : List Sym) (hx : Sym.mark i ∉ x) :
    splitAtMark i (x ++ Sym.mark i :: y) = some (x, y) := by
  induction x with
  | nil => simp [splitAtMark]
  | cons s rest ih =>
    have hs : s ≠ Sym.mark i := fun h => hx (by simp [h])
    have hrest : Sym.mark i ∉ rest := fun h => hx (by simp [h])
    have : (s == Sym.mark i) = false := by simpa using hs
    simp [splitAtMark, this, ih hrest]

theorem takeWhile_append_stop {α : Type} (p : α → Bool) (l r : List α) (hl : ∀ a ∈ l, p a = true)
    (hr : ∀ a, r.head? = some a → p a = false) : (l ++ r).takeWhile p = l := by
  induction l with
  | nil =>
    cases r with
    | nil => rfl
    | cons a t => simp [List.takeWhile, hr a (by simp)]
  | cons a t ih =>
    simp only [List.cons_append, List.takeWhile, hl a (by simp)]
    rw [ih (fun b hb => hl b (by simp [hb]))]

/-- the line start is found right after the last newline of the prefix -/
theorem lastLineStart_spec (a line : List Sym) (hline : ∀ s ∈ line, isNewline s = false)
    (ha : ∀ s, a.getLast? = some s → isNewline s = true) : lastLineStart (a ++ line) = (a, line) := by
  unfold lastLineStart
  have htw : ((a ++ line).reverse.takeWhile (fun s => !isNewline s)) = line.reverse := by
    rw [List.reverse_append]
    apply takeWhile_append_stop
    · intro s hs; simp [hline s (by simpa using hs)]
    · intro s hs
      have : a.getLast? = some s := by simpa [List.head?_reverse] using hs
      simp [ha s this]
  simp only [htw, List.reverse_reverse, List.length_append]
  simp

/-- **T3.5 (cut).** For a printed text `a ++ line ++ [M] ++ mid ++ [M] ++ post` in which the marker `M`
occurs exactly twice, `line` is the non-empty start of the line holding the first occurrence and `a`
ends with a newline (or is empty), the cut yields `a ++ [M] ++ post`: everything of the interface —
and nothing else — is gone. -/
theorem cut_spec (i : Nat) (a line mid post : List Sym)
    (ha : Sym.mark i ∉ a) (hl : Sym.mark i ∉ line) (hm : Sym.mark i ∉ mid)
    (hline : ∀ s ∈ line, isNewline s = false) (hne : line ≠ [])
    (hend : ∀ s, a.getLast? = some s → isNewline s = true) :
    cut i (a ++ line ++ Sym.mark i :: (mid ++ Sym.mark i :: post)) = some (a ++ [Sym.mark i] ++ post) := by
  unfold cut
  have h1 : Sym.mark i ∉ a ++ line := by simp [ha, hl]
  rw [splitAtMark_spec i (a ++ line) _ h1]
  simp only
  rw [splitAtMark_spec i mid post hm]
  simp only
  rw [lastLineStart_spec a line hline hend]
  simp [hne]

/-- **T3.5 (replace).** Substituting the function block for the remaining marker gives
`prefix ++ functions ++ suffix`: the text outside the interface is carried over unchanged. -/
theorem replace_spec (i : Nat) (a post block : List Sym) (ha : Sym.mark i ∉ a) :
    replaceFirst i block (a ++ [Sym.mark i] ++ post) = a ++ block ++ post := by
  unfold replaceFirst
  have : a ++ [Sym.mark i] ++ post = a ++ Sym.mark i :: post := by simp
  rw [this, splitAtMark_spec i a post ha]

/-- the premise "something stands before the first marker on its line" is what `.+` demands; the
printer puts `type X ` there.  Without it the regexp does not match and the interface survives: -/
example : cut 0 [.ch '\n', .mark 0, .ch 'x', .mark 0] = none := by decide
example : cut 0 [.ch 'a', .ch '\n', .ch 't', .mark 0, .ch 'x', .ch '\n', .mark 0, .ch '\n', .ch 'z'] =
    some [.ch 'a', .ch '\n', .mark 0, .ch '\n', .ch 'z'] := by decide

end Convergen.Props.C03
