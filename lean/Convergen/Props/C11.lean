import Convergen.Model.Parse
import Convergen.Props.C03
/-!
# C11 — the rest of the setup file is carried over intact   (partial)

What convergen's own code does to the comments of the setup file: the parser removes the notation
lines of a converter method's *own* doc group, wipes the doc group of a converter interface, and
`RemoveMatchComments` drops the directive lines; nothing else is touched.  The text between the
declarations is produced by `go/printer` and pruned by `goimports` — outside the model; the cut and
the replacement on the printed text are `Props/C03.cut_spec` / `replace_spec`.
-/
namespace Convergen.Props.C11
open Convergen

/-- **a method's doc is its own.** For an interface method the doc group is the `Doc` of its own
field — set or not — whatever encloses it: no enclosing declaration's doc, and never the package
doc, is consumed on its behalf (the repaired DESIGN §5 #18). -/
theorem method_doc_is_own (s : DocState) (fieldNode : Nat) (rest : List Nat) :
    s.docOn ((fieldNode * 8 + 4) :: rest) = (s.docOf.getD fieldNode none).map fun g => (fieldNode, g) := by
  have h1 : (fieldNode * 8 + 4) / 8 = fieldNode := by omega
  have h2 : (fieldNode * 8 + 4) % 8 = 4 := by omega
  unfold DocState.docOn
  simp only [h1, h2, beq_self_eq_true, ↓reduceIte]

/-- the package doc (`File.Doc`) is never the answer of `GetDocCommentOn` -/
theorem file_doc_never_used (s : DocState) (fileNode : Nat) (rest : List Nat) :
    s.docOn ((fileNode * 8 + 5) :: rest) = s.docOn rest := by
  have h2 : (fileNode * 8 + 5) % 8 = 5 := by omega
  conv => lhs; unfold DocState.docOn
  simp [h2]

/-- **T11.1a (`ExtractMatchComments`).** Extraction touches one group only; in that group exactly
the matching lines go, the others stay in order. -/
theorem extract_other_groups (s : DocState) (g g' : Nat) (p : String → Bool) (h : g' ≠ g) :
    (s.extract g p).2.group g' = s.group g' := by
  unfold DocState.extract DocState.setGroup DocState.group
  simp only [List.getD_eq_getElem?_getD]
  rw [List.getElem?_set_ne (Ne.symm h)]

theorem extract_same_group (s : DocState) (g : Nat) (p : String → Bool) (hg : g < s.groups.length) :
    (s.extract g p).2.group g = (s.group g).filter (fun c => !p c.text) ∧
    (s.extract g p).1 = (s.group g).filter (fun c => p c.text) := by
  unfold DocState.extract DocState.setGroup DocState.group
  simp only [List.getD_eq_getElem?_getD]
  refine ⟨?_, trivial⟩
  rw [List.getElem?_set_self hg]
  rfl

/-- extraction never changes which group is whose doc -/
theorem extract_docOf (s : DocState) (g : Nat) (p : String → Bool) : (s.extract g p).2.docOf = s.docOf := rfl

/-- **T11.2 (the function's doc).** The doc lines handed to the generator for a method are the lines
left in its own group, i.e. its non-notation lines (`parse` reads them from the final groups). -/
theorem method_doc_lines (s : DocState) (g : Nat) (hg : g < s.groups.length) :
    ((s.extract g isNotationLine).2.group g).map (·.text) =
      ((s.group g).filter (fun c => !isNotationLine c.text)).map (·.text) := by
  rw [(extract_same_group s g isNotationLine hg).1]

/-- **directives.** `RemoveMatchComments(reGoBuildGen)`: a group's extent for the printer is computed
from the lines that are not build/generate directives; a group of directives only is empty. -/
theorem directive_only_group_is_empty (g : List Comment) (h : ∀ c ∈ g, matchGoBuildGen c.text = true) :
    (groupExtent g).empty = true := by
  unfold groupExtent
  have : g.filter (fun c => !matchGoBuildGen c.text) = [] := by
    apply List.filter_eq_nil_iff.mpr
    intro c hc; simp [h c hc]
  simp [this]

/-- the two documented spellings of the constraint and `go:generate` are recognised; ordinary
comments, and constraints that merely mention the tag, are not -/
example : matchGoBuildGen "//go:build convergen" = true ∧ matchGoBuildGen "// +build convergen" = true ∧
    matchGoBuildGen "//go:generate go run github.com/reedom/convergen@v0.7.0" = true ∧
    matchGoBuildGen "//go:generate stringer -type=E" = true ∧
    matchGoBuildGen "// Package x does things." = false ∧ matchGoBuildGen "//go:build linux" = false ∧
    matchGoBuildGen "//go:build convergence" = false := by decide

/-- non-vacuity of `method_doc_is_own`: a method without doc gets none even when the file has one -/
example : ({ groups := [[⟨"f.go:1:1", "// Package p.", 0⟩]], docOf := [some 0, none] } : DocState).docOn
    [(1 * 8 + 4), (0 * 8 + 5)] = none := by decide

/-- only a comment that *is* a directive is scrubbed: the text has to begin (after blanks) with `//`
(the repaired unanchored search deleted every comment that mentions a directive) -/
theorem directive_starts_comment (text : String)
    (h : matchGoBuildGen text = true) :
    ∃ rest, dropWhileL isReSpace text.toList = '/' :: '/' :: rest := by
  unfold matchGoBuildGen matchGoBuildGenAt at h
  split at h
  · rename_i rest heq
    exact ⟨rest, heq⟩
  · cases h

example : matchGoBuildGen "// Helper is kept in sync by hand; do not add a //go:generate line for it." = false := by decide
example : matchGoBuildGen "/* Legacy note: this file used to start with \"// +build convergen\" only. */" = false := by decide
example : matchGoBuildGen "//go:generate stringer -type=E" = true := by decide

end Convergen.Props.C11
