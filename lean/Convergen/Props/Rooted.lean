import Convergen.Props.C04
import Convergen.Props.Cover
/-!
# Every right-hand side is rooted in a source operand (C02: "the value denoted by that field's source")

For every result of `structToStruct`: the nodes read by the statements — right-hand sides of
assignments, slice sources, the source side of nested blocks — are all built from the source operand
`r` or from one of the additional arguments, never from the destination.  Proved for all type
tables, option sets, notation lists and depths.
-/
namespace Convergen.Props.Rooted
open Convergen Convergen.Props

mutual
/-- the nodes a statement reads -/
def reads : Stmt → List Node
  | .skip _ => []
  | .noMatch _ _ => []
  | .simple _ (.node n) _ _ => [n]
  | .simple _ (.literal _) _ _ => []
  | .nest _ r _ _ body _ => r :: readsList body
  | .sliceCopy _ r _ => [r]
  | .sliceLoop _ r _ => [r]
  | .sliceCast _ r _ _ => [r]
def readsList : List Stmt → List Node
  | [] => []
  | s :: ss => reads s ++ readsList ss
end

theorem rootOf_rootOf (n : Node) : n.rootOf.rootOf = n.rootOf := by
  induction n with
  | root n t => rfl
  | field p n t ih => simpa [Node.rootOf] using ih
  | method p n r ih => simpa [Node.rootOf] using ih
  | conv a c ih => simpa [Node.rootOf] using ih
  | cast i t e ih => simpa [Node.rootOf] using ih
  | stringer i ih => simpa [Node.rootOf] using ih

variable (ctx : BCtx)

theorem castNode_root (t : TyId) (rhs n : Node) (w : List String) (h : ctx.castNode t rhs = .ok (some n, w)) :
    n.rootOf = rhs.rootOf := by
  rcases C04.castNode_cases ctx t rhs n w h with h1 | h2 | h3
  · rw [h1.1]
  · rw [h2.1]; rfl
  · obtain ⟨e, he⟩ := h3.1; rw [he]; rfl

theorem walkPath_root : ∀ (segs : List String) (node : Node) (typ : TyId) (n : Node),
    ctx.walkPath segs node typ = some n → n.rootOf = node.rootOf := by
  intro segs
  induction segs with
  | nil => intro node typ n h; simp [BCtx.walkPath] at h
  | cons seg rest ih =>
    intro node typ n h
    simp only [BCtx.walkPath] at h
    split at h
    · cases h
    · rename_i m _
      split at h
      · cases h
      · split at h
        · cases h
        · split at h
          · cases h
          · split at h
            · cases h
            · split at h
              · cases h; rfl
              · split at h
                · cases h
                · have := ih _ _ _ h
                  simpa [Node.rootOf] using this
    · rename_i fname fty _
      split at h
      · cases h
      · split at h
        · cases h
        · split at h
          · cases h; rfl
          · have := ih _ _ _ h
            simpa [Node.rootOf] using this

theorem resolveExpr_root (pattern : String) (root n : Node) (h : ctx.resolveExpr pattern root = some n) :
    n.rootOf = root.rootOf :=
  walkPath_root ctx _ _ _ _ h

theorem resolveTemplatedExpr_root (pattern : String) (args : List Node) (n : Node)
    (h : ctx.resolveTemplatedExpr pattern args = some n) : ∃ a ∈ args, n.rootOf = a.rootOf := by
  unfold BCtx.resolveTemplatedExpr at h
  split at h
  · cases h
  · split at h
    · cases h
    · simp only at h
      split at h
      · cases h
      · split at h
        · cases h
        · rename_i node hget
          have hmem : node ∈ args := List.mem_of_getElem? hget
          split at h
          · cases h; exact ⟨_, hmem, rfl⟩
          · exact ⟨_, hmem, walkPath_root ctx _ _ _ _ h⟩

/-- the roots a statement list may read from -/
def RootedIn (S : List Node) (ns : List Node) : Prop := ∀ n ∈ ns, n.rootOf ∈ S

theorem createMapped_rooted (S : List Node) (lhs : Node) (pos : String) (n? : Option Node) (s : Stmt)
    (hn : ∀ n, n? = some n → n.rootOf ∈ S) (h : ctx.createMapped lhs pos n? = .ok s) : RootedIn S (reads s) := by
  unfold BCtx.createMapped at h
  cases n? with
  | none => unfold BCtx.noMatchAt at h; cases h; intro n hn'; cases hn'
  | some nn =>
    simp only [bind, Outcome.bind, pure] at h
    cases hc : ctx.castNode (lhs.exprType ctx.env) nn with
    | error e => simp [hc] at h
    | panic p => simp [hc] at h
    | ok rr =>
      obtain ⟨c?, ww⟩ := rr
      simp only [hc] at h
      cases c? with
      | none => unfold BCtx.noMatchAt at h; cases h; intro n hn'; cases hn'
      | some c =>
        simp only at h
        split at h
        · unfold BCtx.noMatchAt at h; cases h; intro n hn'; cases hn'
        · cases h
          intro n hn'
          simp only [reads, List.mem_singleton] at hn'
          subst hn'
          rw [castNode_root ctx _ _ _ _ hc]
          exact hn nn rfl

theorem convArg_root (c : FieldConverter) (rhsNode a : Node) (w : List String)
    (h : ctx.convArg c rhsNode = .ok (some a, w)) : a.rootOf = rhsNode.rootOf := by
  unfold BCtx.convArg at h
  split at h
  · cases h
  · cases h1 : ctx.castNode c.argTy rhsNode with
    | error e => simp only [h1] at h; cases h
    | panic p => simp only [h1] at h; cases h
    | ok r =>
      obtain ⟨a1?, w1⟩ := r
      cases a1? with
      | some a1 =>
        simp only [h1] at h
        cases h
        exact castNode_root ctx _ _ _ _ h1
      | none =>
        simp only [h1] at h
        split at h
        · cases h
        · cases h2 : ctx.castNode (ctx.env.derefPtr c.argTy) rhsNode with
          | error e => simp only [h2] at h; cases h
          | panic p => simp only [h2] at h; cases h
          | ok r2 =>
            obtain ⟨a2?, w2⟩ := r2
            cases a2? with
            | none => simp only [h2] at h; cases h
            | some a2 =>
              simp only [h2] at h
              split at h
              · cases h
                exact castNode_root ctx _ _ _ _ h2
              · cases h

theorem createWithConverter_rooted (lhs rhs : Node) (c : FieldConverter) (s : Stmt)
    (h : ctx.createWithConverter lhs rhs c = .ok s) : RootedIn [rhs.rootOf] (reads s) := by
  have nm : ∀ pos pre, ctx.noMatchAt pos lhs pre = .ok s → RootedIn [rhs.rootOf] (reads s) := by
    intro pos pre hh; unfold BCtx.noMatchAt at hh; cases hh; intro n hn; cases hn
  unfold BCtx.createWithConverter at h
  cases h1 : ctx.resolveExpr c.src rhs.rootOf with
  | none => simp only [h1] at h; exact nm _ _ h
  | some rhsNode =>
    simp only [h1] at h
    cases h2 : ctx.convArg c rhsNode with
    | error e => simp only [h2] at h; cases h
    | panic p => simp only [h2] at h; cases h
    | ok rr =>
      obtain ⟨a?, ww⟩ := rr
      cases a? with
      | none => simp only [h2] at h; exact nm _ _ h
      | some argNode =>
        simp only [h2] at h
        cases h3 : ctx.castNode (lhs.exprType ctx.env) (.conv argNode c) with
        | error e => simp only [h3] at h; cases h
        | panic p => simp only [h3] at h; cases h
        | ok r3 =>
          obtain ⟨casted?, w3⟩ := r3
          simp only [h3] at h
          unfold BCtx.convAssign at h
          cases casted? with
          | none => exact nm _ _ h
          | some nn =>
            simp only at h
            split at h
            · exact nm _ _ h
            · cases h
              intro n hn
              simp only [reads, List.mem_singleton] at hn
              subst hn
              rw [castNode_root ctx _ _ _ _ h3]
              simp only [Node.rootOf, List.mem_singleton]
              rw [convArg_root ctx _ _ _ _ h2, resolveExpr_root ctx _ _ _ h1, rootOf_rootOf]

theorem sliceToSlice_reads (lhs rhs : Node) (s : Stmt) (h : ctx.sliceToSlice lhs rhs = .ok (some s)) :
    reads s = [rhs] := by
  unfold BCtx.sliceToSlice at h
  simp only at h
  split at h
  · split at h <;> (cases h; rfl)
  · split at h
    · cases h; rfl
    · cases h

/-- a candidate's statement reads the candidate (and, in a nested block, what the nested call reads) -/
theorem tryCand_rooted (A : List Node) (rec : Node → Node → Outcome (List Stmt))
    (hrec : ∀ l' r' body, rec l' r' = .ok body → RootedIn (r'.rootOf :: A) (readsList body))
    (lhs rhsStruct cand : Node) (warns w' : List String) (s : Stmt)
    (h : ctx.tryCand rec lhs rhsStruct warns cand = .ok (some s, w')) : RootedIn (cand.rootOf :: A) (reads s) := by
  obtain ⟨_, _, hfrom⟩ := C04.tryCand_some ctx rec lhs rhsStruct cand warns w' s h
  cases hfrom with
  | slice _ _ hsl =>
    rw [sliceToSlice_reads ctx _ _ _ hsl]
    intro n hn; simp only [List.mem_singleton] at hn; subst hn; simp
  | direct hc _ =>
    intro n hn
    simp only [reads, List.mem_singleton] at hn
    subst hn
    rw [castNode_root ctx _ _ _ _ hc]; simp
  | nested _ _ _ _ hr _ =>
    intro n hn
    simp only [reads, List.mem_cons] at hn
    rcases hn with rfl | hn
    · simp
    · exact hrec _ _ _ hr n hn

theorem candidates_root (rhsStruct : Node) : ∀ c ∈ ctx.candidates rhsStruct, c.rootOf = rhsStruct.rootOf := by
  intro c hc
  unfold BCtx.candidates at hc
  simp only at hc
  split at hc
  · simp only [List.mem_append, List.mem_map] at hc
    rcases hc with hc | ⟨f, _, rfl⟩
    · split at hc
      · simp only [List.mem_map] at hc
        obtain ⟨m, _, rfl⟩ := hc
        rfl
      · cases hc
    · rfl
  · cases hc

theorem fieldDefault_rooted (A : List Node) (rec : Node → Node → Outcome (List Stmt))
    (hrec : ∀ l' r' body, rec l' r' = .ok body → RootedIn (r'.rootOf :: A) (readsList body))
    (lhs rhsStruct : Node) (s : Stmt) (h : ctx.fieldDefault rec lhs rhsStruct = .ok s) :
    RootedIn (rhsStruct.rootOf :: A) (reads s) := by
  rcases C04.fieldDefault_spec ctx rec lhs rhsStruct s h with ⟨⟨w, rfl⟩, _⟩ | ⟨pre, c, post, w, w', hsplit, _, hc⟩
  · intro n hn; cases hn
  · have hmem : c ∈ ctx.candidates rhsStruct := by rw [hsplit]; simp
    have := tryCand_rooted ctx A rec hrec lhs rhsStruct c w w' s hc
    rw [candidates_root ctx rhsStruct c hmem] at this
    exact this

theorem rootedIn_mono {S T : List Node} {ns : List Node} (hST : ∀ x ∈ S, x ∈ T) (h : RootedIn S ns) : RootedIn T ns :=
  fun n hn => hST _ (h n hn)

theorem matchField_rooted (rec : Node → Node → Outcome (List Stmt)) (args : List Node)
    (hrec : ∀ l' r' body, rec l' r' = .ok body → RootedIn (r'.rootOf :: args.map Node.rootOf) (readsList body))
    (lhs rhs : Node) (s : Stmt) (h : ctx.matchField rec lhs rhs args = .ok s) :
    RootedIn (rhs.rootOf :: args.map Node.rootOf) (reads s) := by
  have hsub : ∀ x ∈ [rhs.rootOf], x ∈ rhs.rootOf :: args.map Node.rootOf := by
    intro x hx; simp only [List.mem_singleton] at hx; subst hx; simp
  unfold BCtx.matchField at h
  simp only [bind, Outcome.bind, pure] at h
  cases hs : ctx.opts.shouldSkip ctx.eng lhs.matcherExpr with
  | error e => simp only [hs] at h; cases h
  | panic p => simp only [hs] at h; cases h
  | ok b =>
    simp only [hs] at h
    cases b with
    | true =>
      simp only [↓reduceIte] at h
      cases h
      intro n hn; cases hn
    | false =>
      simp only [Bool.false_eq_true, ↓reduceIte] at h
      split at h
      · exact rootedIn_mono hsub (createWithConverter_rooted ctx _ _ _ _ h)
      · split at h
        · refine createMapped_rooted ctx _ _ _ _ _ ?_ h
          intro n hn
          rw [resolveExpr_root ctx _ _ _ hn, rootOf_rootOf]; simp
        · split at h
          · refine createMapped_rooted ctx _ _ _ _ _ ?_ h
            intro n hn
            obtain ⟨a, ha, he⟩ := resolveTemplatedExpr_root ctx _ _ _ hn
            rw [he]
            rcases List.mem_cons.mp ha with rfl | ha
            · rw [rootOf_rootOf]; simp
            · exact List.mem_cons_of_mem _ (List.mem_map_of_mem ha)
          · split at h
            · cases h
              intro n hn; cases hn
            · exact fieldDefault_rooted ctx _ rec hrec _ _ _ h

theorem go_rooted (rec : Node → Node → Outcome (List Stmt)) (args : List Node)
    (hrec : ∀ l' r' body, rec l' r' = .ok body → RootedIn (r'.rootOf :: args.map Node.rootOf) (readsList body))
    (lhsStruct rhsStruct : Node) :
    ∀ (fs : List Field) (ss : List Stmt),
      BCtx.structToStructWith.go ctx rec lhsStruct rhsStruct args fs = .ok ss →
      RootedIn (rhsStruct.rootOf :: args.map Node.rootOf) (readsList ss) := by
  intro fs
  induction fs with
  | nil =>
    intro ss h
    simp only [BCtx.structToStructWith.go] at h
    cases h; intro n hn; cases hn
  | cons f rest ih =>
    intro ss h
    simp only [BCtx.structToStructWith.go] at h
    cases hm : ctx.matchField rec (Node.field lhsStruct f.name f.ty) rhsStruct args with
    | error e => simp only [hm] at h; cases h
    | panic p => simp only [hm] at h; cases h
    | ok s =>
      simp only [hm] at h
      cases hr : BCtx.structToStructWith.go ctx rec lhsStruct rhsStruct args rest with
      | error e => simp only [hr] at h; cases h
      | panic p => simp only [hr] at h; cases h
      | ok ss' =>
        simp only [hr] at h
        cases h
        intro n hn
        simp only [readsList, List.mem_append] at hn
        rcases hn with hn | hn
        · exact matchField_rooted ctx rec args hrec _ _ _ hm n hn
        · exact ih ss' hr n hn

/-- **T2.1 (reads only the sources).**  Every node read by a builder result is rooted in the source
operand or in one of the additional arguments. -/
theorem structToStruct_rooted : ∀ (fuel : Nat) (l r : Node) (args : List Node) (ss : List Stmt),
    ctx.structToStruct fuel l r args = .ok ss → RootedIn (r.rootOf :: args.map Node.rootOf) (readsList ss) := by
  intro fuel
  induction fuel with
  | zero => intro l r args ss h; simp [BCtx.structToStruct] at h
  | succ fuel ih =>
    intro l r args ss h
    simp only [BCtx.structToStruct] at h
    unfold BCtx.structToStructWith at h
    refine go_rooted ctx _ args ?_ l r _ ss h
    intro l' r' body hb
    exact ih l' r' args body hb

/-- non-vacuity: on the two-level example of `Props/Cover` the body reads the nested source struct
(for its nil guard), one of its members and a top-level member — all rooted in `src` -/
example : (match Cover.toyCtx.structToStruct 3 (.root "dst" 2) (.root "src" 4) [] with
    | .ok ss => (readsList ss).map fun n => (n.assignExpr Cover.toyEnv, n.rootOf == Node.root "src" 4)
    | _ => []) = [("src.In", true), ("src.In.X", true), ("src.N", true)] := by decide

end Convergen.Props.Rooted
