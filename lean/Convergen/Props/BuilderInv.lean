import Convergen.Model.Builder
/-!
# Structural invariant of the assignment builder (used by C02, C05, C06)

`structToStruct` returns exactly one statement per accessible destination member, in declaration
order, and each statement is *about* that member; a nested struct block again satisfies the same
invariant one level down.  Proved for every `go/types` oracle, every option set and every fuel.
-/
namespace Convergen.Props.BuilderInv
open Convergen

/-- the destination member a statement is about -/
def Stmt.lhs : Stmt → Node
  | .skip l => l
  | .noMatch l _ => l
  | .simple l _ _ _ => l
  | .nest l _ _ _ _ _ => l
  | .sliceCopy l _ _ => l
  | .sliceLoop l _ _ => l
  | .sliceCast l _ _ _ => l

variable (ctx : BCtx)

theorem noMatchAt_lhs (pos : String) (lhs : Node) (pre : List String) (s : Stmt)
    (h : ctx.noMatchAt pos lhs pre = .ok s) : Stmt.lhs s = lhs := by
  unfold BCtx.noMatchAt at h; cases h; rfl

theorem createMapped_lhs (lhs : Node) (pos : String) (n? : Option Node) (s : Stmt)
    (h : ctx.createMapped lhs pos n? = .ok s) : Stmt.lhs s = lhs := by
  unfold BCtx.createMapped at h
  cases n? with
  | none => exact noMatchAt_lhs ctx _ _ _ _ h
  | some n =>
    simp only [bind, Outcome.bind, pure] at h
    cases hc : ctx.castNode (lhs.exprType ctx.env) n with
    | error e => simp [hc] at h
    | panic p => simp [hc] at h
    | ok r =>
      obtain ⟨c?, w⟩ := r
      simp only [hc] at h
      cases c? with
      | none => exact noMatchAt_lhs ctx _ _ _ _ h
      | some c =>
        simp only at h
        split at h
        · exact noMatchAt_lhs ctx _ _ _ _ h
        · cases h; rfl

theorem convAssign_lhs (lhs : Node) (c : FieldConverter) (casted? : Option Node) (w : List String) (s : Stmt)
    (h : ctx.convAssign lhs c casted? w = .ok s) : Stmt.lhs s = lhs := by
  unfold BCtx.convAssign at h
  cases casted? with
  | none => exact noMatchAt_lhs ctx _ _ _ _ h
  | some n =>
    simp only at h
    split at h
    · exact noMatchAt_lhs ctx _ _ _ _ h
    · cases h; rfl

theorem createWithConverter_lhs (lhs rhs : Node) (c : FieldConverter) (s : Stmt)
    (h : ctx.createWithConverter lhs rhs c = .ok s) : Stmt.lhs s = lhs := by
  unfold BCtx.createWithConverter at h
  cases h1 : ctx.resolveExpr c.src rhs.rootOf with
  | none => simp only [h1] at h; exact noMatchAt_lhs ctx _ _ _ _ h
  | some rhsNode =>
    simp only [h1] at h
    cases h2 : ctx.convArg c rhsNode with
    | error e => simp only [h2] at h; cases h
    | panic p => simp only [h2] at h; cases h
    | ok r =>
      obtain ⟨a?, w⟩ := r
      cases a? with
      | none => simp only [h2] at h; exact noMatchAt_lhs ctx _ _ _ _ h
      | some argNode =>
        simp only [h2] at h
        cases h3 : ctx.castNode (lhs.exprType ctx.env) (.conv argNode c) with
        | error e => simp only [h3] at h; cases h
        | panic p => simp only [h3] at h; cases h
        | ok r3 =>
          obtain ⟨casted?, w3⟩ := r3
          simp only [h3] at h
          exact convAssign_lhs ctx _ _ _ _ _ h

theorem sliceToSlice_lhs (lhs rhs : Node) (s : Stmt) (h : ctx.sliceToSlice lhs rhs = .ok (some s)) :
    Stmt.lhs s = lhs := by
  unfold BCtx.sliceToSlice at h
  simp only at h
  split at h
  · split at h <;> (cases h; rfl)
  · split at h
    · cases h; rfl
    · cases h

/-- what a statement returned for member `lhs` looks like: it is about `lhs`, and when it is a nested
block, the block's body came from the recursive call on that very member and is not empty -/
def StmtInv (rec : Node → Node → Outcome (List Stmt)) (lhs : Node) (s : Stmt) : Prop :=
  Stmt.lhs s = lhs ∧ (∀ l r i n body w, s = .nest l r i n body w → l = lhs ∧ rec lhs r = .ok body ∧ body ≠ [])

theorem stmtInv_of_lhs_nonNest (rec : Node → Node → Outcome (List Stmt)) (lhs : Node) (s : Stmt)
    (hl : Stmt.lhs s = lhs) (hn : ∀ l r i n body w, s ≠ .nest l r i n body w) : StmtInv rec lhs s :=
  ⟨hl, fun l r i n body w he => absurd he (hn l r i n body w)⟩

theorem noMatchAt_inv (rec : Node → Node → Outcome (List Stmt)) (pos : String) (lhs : Node) (pre : List String)
    (s : Stmt) (h : ctx.noMatchAt pos lhs pre = .ok s) : StmtInv rec lhs s := by
  unfold BCtx.noMatchAt at h; cases h
  exact ⟨rfl, fun l r i n body w he => by cases he⟩

theorem sliceToSlice_nonNest (lhs rhs : Node) (s : Stmt) (h : ctx.sliceToSlice lhs rhs = .ok (some s)) :
    ∀ l r i n body w, s ≠ .nest l r i n body w := by
  intro l r i n body w he
  unfold BCtx.sliceToSlice at h
  simp only at h
  split at h
  · split at h <;> (cases h; cases he)
  · split at h
    · cases h; cases he
    · cases h

theorem castOrNest_inv (rec : Node → Node → Outcome (List Stmt)) (lhs cand : Node) (warns w' : List String)
    (mw : Bool) (s : Stmt) (h : ctx.castOrNest rec lhs cand warns mw = .ok (some s, w')) : StmtInv rec lhs s := by
  unfold BCtx.castOrNest at h
  simp only at h
  cases hc : ctx.castNode (lhs.exprType ctx.env) cand with
  | error e => simp only [hc] at h; cases h
  | panic p => simp only [hc] at h; cases h
  | ok r =>
    obtain ⟨c?, w⟩ := r
    simp only [hc] at h
    cases hm : (if mw = true then none else c?) with
    | some c =>
      simp only [hm] at h
      cases h
      exact ⟨rfl, fun l r i n body w he => by cases he⟩
    | none =>
      simp only [hm] at h
      split at h
      · cases hr : rec lhs cand with
        | error e => simp only [hr] at h; cases h
        | panic p => simp only [hr] at h; cases h
        | ok body =>
          simp only [hr] at h
          split at h
          · cases h
          · rename_i hne
            cases h
            refine ⟨rfl, ?_⟩
            intro l r i n body' w'' he
            cases he
            exact ⟨rfl, hr, by simpa using hne⟩
      · cases h

/-- whatever one candidate yields is a statement about the member it was tried for -/
theorem tryCand_inv (rec : Node → Node → Outcome (List Stmt)) (lhs rhsStruct cand : Node) (warns w' : List String)
    (s : Stmt) (h : ctx.tryCand rec lhs rhsStruct warns cand = .ok (some s, w')) : StmtInv rec lhs s := by
  unfold BCtx.tryCand at h
  simp only at h
  split at h
  · cases h
  · cases hsl : (if ctx.env.isSliceType (lhs.exprType ctx.env) && ctx.env.isSliceType (cand.exprType ctx.env)
        then ctx.sliceToSlice lhs cand else Outcome.ok none) with
    | error e => simp only [hsl] at h; cases h
    | panic p => simp only [hsl] at h; cases h
    | ok sl =>
      simp only [hsl] at h
      cases sl with
      | some s0 =>
        simp only at h
        cases h
        split at hsl
        · exact stmtInv_of_lhs_nonNest rec lhs s (sliceToSlice_lhs ctx _ _ _ hsl) (sliceToSlice_nonNest ctx _ _ _ hsl)
        · cases hsl
      | none =>
        simp only at h
        cases hmw : ctx.memberwise lhs cand with
        | error e => simp only [hmw] at h; cases h
        | panic p => simp only [hmw] at h; cases h
        | ok mw =>
          simp only [hmw] at h
          exact castOrNest_inv ctx rec lhs cand warns w' mw s h

/-- what the pass state may hold -/
def PassInv (rec : Node → Node → Outcome (List Stmt)) (lhs : Node) (st : BCtx.Pass) : Prop :=
  ∀ s, st.a = some s → StmtInv rec lhs s

theorem handler_inv (rec : Node → Node → Outcome (List Stmt)) (lhs rhsStruct cand : Node) (st st' : BCtx.Pass)
    (hinv : PassInv rec lhs st) (h : ctx.handler rec lhs rhsStruct st cand = .ok st') : PassInv rec lhs st' := by
  unfold BCtx.handler at h
  split at h
  · cases h; exact hinv
  · cases ht : ctx.tryCand rec lhs rhsStruct st.warns cand with
    | error e => simp only [ht] at h; cases h
    | panic p => simp only [ht] at h; cases h
    | ok r =>
      obtain ⟨a, w⟩ := r
      simp only [ht] at h
      cases h
      intro s hs
      simp only at hs
      subst hs
      exact tryCand_inv ctx rec lhs rhsStruct cand st.warns w s ht

theorem foldHandler_inv (rec : Node → Node → Outcome (List Stmt)) (lhs rhsStruct : Node) :
    ∀ (cands : List Node) (st st' : BCtx.Pass), PassInv rec lhs st →
      foldOutcome (ctx.handler rec lhs rhsStruct) st cands = .ok st' → PassInv rec lhs st' := by
  intro cands
  induction cands with
  | nil => intro st st' hinv h; simp only [foldOutcome] at h; cases h; exact hinv
  | cons c cs ih =>
    intro st st' hinv h
    simp only [foldOutcome] at h
    cases hh : ctx.handler rec lhs rhsStruct st c with
    | error e => simp only [hh] at h; cases h
    | panic p => simp only [hh] at h; cases h
    | ok st1 =>
      simp only [hh] at h
      exact ih st1 st' (handler_inv ctx rec lhs rhsStruct c st st1 hinv hh) h

theorem passInv_init (rec : Node → Node → Outcome (List Stmt)) (lhs : Node) : PassInv rec lhs {} := by
  intro s hs; cases hs

/-- `structFieldAndStructGettersAndFields` returns a statement about the member it was asked for -/
theorem fieldDefault_inv (rec : Node → Node → Outcome (List Stmt)) (lhs rhsStruct : Node) (s : Stmt)
    (h : ctx.fieldDefault rec lhs rhsStruct = .ok s) : StmtInv rec lhs s := by
  unfold BCtx.fieldDefault at h
  simp only [bind, Outcome.bind, pure] at h
  cases hf : foldOutcome (ctx.handler rec lhs rhsStruct) {} (ctx.candidates rhsStruct) with
  | error e => simp only [hf] at h; cases h
  | panic p => simp only [hf] at h; cases h
  | ok st =>
    simp only [hf] at h
    have inv := foldHandler_inv ctx rec lhs rhsStruct _ _ _ (passInv_init rec lhs) hf
    cases ha : st.a with
    | some a => simp only [ha] at h; cases h; exact inv s ha
    | none => simp only [ha] at h; exact noMatchAt_inv ctx rec _ _ _ _ h

theorem createMapped_inv (rec : Node → Node → Outcome (List Stmt)) (lhs : Node) (pos : String) (n? : Option Node)
    (s : Stmt) (h : ctx.createMapped lhs pos n? = .ok s) : StmtInv rec lhs s := by
  refine ⟨createMapped_lhs ctx lhs pos n? s h, ?_⟩
  intro l r i n body w he
  subst he
  -- `createMapped` only makes `simple` and `noMatch` statements
  unfold BCtx.createMapped at h
  cases n? with
  | none => unfold BCtx.noMatchAt at h; cases h
  | some nn =>
    simp only [bind, Outcome.bind, pure] at h
    cases hc : ctx.castNode (lhs.exprType ctx.env) nn with
    | error e => simp [hc] at h
    | panic p => simp [hc] at h
    | ok rr =>
      obtain ⟨c?, ww⟩ := rr
      simp only [hc] at h
      cases c? with
      | none => unfold BCtx.noMatchAt at h; cases h
      | some c =>
        simp only at h
        split at h
        · unfold BCtx.noMatchAt at h; cases h
        · cases h

theorem createWithConverter_inv (rec : Node → Node → Outcome (List Stmt)) (lhs rhs : Node) (c : FieldConverter)
    (s : Stmt) (h : ctx.createWithConverter lhs rhs c = .ok s) : StmtInv rec lhs s := by
  refine ⟨createWithConverter_lhs ctx lhs rhs c s h, ?_⟩
  intro l r i n body w he
  subst he
  have nm : ∀ pos pre, ctx.noMatchAt pos lhs pre ≠ .ok (.nest l r i n body w) := by
    intro pos pre hh; unfold BCtx.noMatchAt at hh; cases hh
  unfold BCtx.createWithConverter at h
  cases h1 : ctx.resolveExpr c.src rhs.rootOf with
  | none => simp only [h1] at h; exact absurd h (nm _ _)
  | some rhsNode =>
    simp only [h1] at h
    cases h2 : ctx.convArg c rhsNode with
    | error e => simp only [h2] at h; cases h
    | panic p => simp only [h2] at h; cases h
    | ok rr =>
      obtain ⟨a?, ww⟩ := rr
      cases a? with
      | none => simp only [h2] at h; exact absurd h (nm _ _)
      | some argNode =>
        simp only [h2] at h
        cases h3 : ctx.castNode (lhs.exprType ctx.env) (.conv argNode c) with
        | error e => simp only [h3] at h; cases h
        | panic p => simp only [h3] at h; cases h
        | ok r3 =>
          obtain ⟨casted?, w3⟩ := r3
          simp only [h3] at h
          unfold BCtx.convAssign at h
          cases casted? with
          | none => exact absurd h (nm _ _)
          | some nn =>
            simp only at h
            split at h
            · exact absurd h (nm _ _)
            · cases h

/-- **one member, one statement about it** — whichever branch of the precedence chain applies -/
theorem matchField_inv (rec : Node → Node → Outcome (List Stmt)) (lhs rhs : Node) (args : List Node) (s : Stmt)
    (h : ctx.matchField rec lhs rhs args = .ok s) : StmtInv rec lhs s := by
  unfold BCtx.matchField at h
  simp only [bind, Outcome.bind, pure] at h
  cases hs : ctx.opts.shouldSkip ctx.eng lhs.matcherExpr with
  | error e => simp only [hs] at h; cases h
  | panic p => simp only [hs] at h; cases h
  | ok b =>
    simp only [hs] at h
    cases b with
    | true =>
      simp only [↓reduceIte] at h
      cases h
      exact ⟨rfl, fun l r i n body w he => by cases he⟩
    | false =>
      simp only [Bool.false_eq_true, ↓reduceIte] at h
      split at h
      · exact createWithConverter_inv ctx rec _ _ _ _ h
      · split at h
        · exact createMapped_inv ctx rec _ _ _ _ h
        · split at h
          · exact createMapped_inv ctx rec _ _ _ _ h
          · split at h
            · cases h
              exact ⟨rfl, fun l r i n body w he => by cases he⟩
            · exact fieldDefault_inv ctx rec _ _ _ h

/-- the member nodes `structToStruct` visits: the accessible fields, in declaration order -/
def visited (lhsStruct : Node) : List Node :=
  ((ctx.env.fieldsOf (lhsStruct.exprType ctx.env)).filter fun f => ctx.accessible lhsStruct f.name).map
    fun f => Node.field lhsStruct f.name f.ty

/-- pointwise relation of two lists of the same length -/
inductive Forall₂ {α β : Type} (R : α → β → Prop) : List α → List β → Prop
  | nil : Forall₂ R [] []
  | cons {a b as bs} : R a b → Forall₂ R as bs → Forall₂ R (a :: as) (b :: bs)

theorem Forall₂.map_left {α β γ : Type} (R : γ → β → Prop) (f : α → γ) :
    ∀ (as : List α) (bs : List β), Forall₂ (fun a b => R (f a) b) as bs → Forall₂ R (as.map f) bs := by
  intro as bs h
  induction h with
  | nil => exact Forall₂.nil
  | cons hab _ ih => exact Forall₂.cons hab ih

theorem Forall₂.length_eq {α β : Type} {R : α → β → Prop} {as : List α} {bs : List β} (h : Forall₂ R as bs) :
    as.length = bs.length := by
  induction h with
  | nil => rfl
  | cons _ _ ih => simp [ih]

theorem go_inv (rec : Node → Node → Outcome (List Stmt)) (lhsStruct rhsStruct : Node) (args : List Node) :
    ∀ (fs : List Field) (ss : List Stmt),
      BCtx.structToStructWith.go ctx rec lhsStruct rhsStruct args fs = .ok ss →
      Forall₂ (fun f s => StmtInv rec (Node.field lhsStruct f.name f.ty) s) fs ss := by
  intro fs
  induction fs with
  | nil =>
    intro ss h
    simp only [BCtx.structToStructWith.go] at h
    cases h; exact Forall₂.nil
  | cons f rest ih =>
    intro ss h
    simp only [BCtx.structToStructWith.go] at h
    cases hm : ctx.matchField rec (Node.field lhsStruct f.name f.ty) rhsStruct args with
    | error e => simp only [hm] at h; cases h
    | panic p => simp only [hm] at h; cases h
    | ok s =>
      simp only [hm] at h
      cases hr : BCtx.structToStructWith.go ctx rec lhsStruct rhsStruct args rest with
      | error e => simp only [hr] at h; cases h
      | panic p => simp only [hr] at h; cases h
      | ok ss' =>
        simp only [hr] at h
        cases h
        exact Forall₂.cons (matchField_inv ctx rec _ _ _ _ hm) (ih ss' hr)

/-- **T5.1a (one statement per accessible member, in order).** -/
theorem structToStructWith_inv (rec : Node → Node → Outcome (List Stmt)) (lhsStruct rhsStruct : Node)
    (args : List Node) (ss : List Stmt) (h : ctx.structToStructWith rec lhsStruct rhsStruct args = .ok ss) :
    Forall₂ (fun l s => StmtInv rec l s) (visited ctx lhsStruct) ss := by
  unfold BCtx.structToStructWith at h
  have := go_inv ctx rec lhsStruct rhsStruct args _ ss h
  unfold visited
  exact Forall₂.map_left _ _ _ _ this

end Convergen.Props.BuilderInv
