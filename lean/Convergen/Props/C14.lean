import Convergen.Model.Parse
/-!
# C14 — bad input yields a diagnostic and a non-zero exit, never a crash or hang

Termination: every function of the model is total (structural recursion, or recursion on the
explicit `fuel` whose sufficiency is proved in `Props/C05Cover`).  This file characterises the
crash sites of the notation parser exactly and shows that its diagnostics carry a position.
-/
namespace Convergen.Props.C14
open Convergen

variable (env : Env) (sc : Scope) (eng : Engine)

/-- **T14.2 (diagnostics of notation lines carry the position of the line).** Whatever the text
of a notation line, if it is rejected the message is `<file:line:col>: <text>`. -/
theorem applyNotation_errors_positioned (ops : List String) (st : ParseResult × String) (n : Comment)
    (name rest : String) (msgs : List String)
    (hm : matchNotation n.text = some (name, rest))
    (h : applyNotation env sc eng ops st n = .error msgs) :
    ∃ text, msgs = [n.pos ++ ": " ++ text] := by
  obtain ⟨res, pr⟩ := st
  unfold applyNotation at h
  simp only [hm] at h
  split at h
  · cases h
  · split at h
    · cases h
    · cases h
    · cases h; exact ⟨_, rfl⟩
    · cases h
    · cases h

/-- the final validation (`:reverse` needs `:style arg`) is positioned at the `:reverse` line -/
theorem parseNotations_errors_positioned (ops : List String) (ns : List Comment) (o : Options) (msgs : List String)
    (hall : ∀ n ∈ ns, (matchNotation n.text).isSome = true)
    (h : parseNotations env sc eng ops ns o = .error msgs) :
    ∃ pos text, msgs = [pos ++ ": " ++ text] := by
  unfold parseNotations at h
  -- errors of the fold
  have fold : ∀ (ns : List Comment) (st : ParseResult × String) (msgs : List String),
      (∀ n ∈ ns, (matchNotation n.text).isSome = true) →
      foldOutcome (applyNotation env sc eng ops) st ns = .error msgs → ∃ pos text, msgs = [pos ++ ": " ++ text] := by
    intro ns
    induction ns with
    | nil => intro st msgs _ hh; simp [foldOutcome] at hh
    | cons n rest ih =>
      intro st msgs hall hh
      simp only [foldOutcome] at hh
      cases ha : applyNotation env sc eng ops st n with
      | ok st' => simp only [ha] at hh; exact ih st' msgs (fun n' hn' => hall n' (by simp [hn'])) hh
      | error e =>
        simp only [ha] at hh
        have he : e = msgs := by injection hh
        subst he
        have hs := hall n (by simp)
        cases hmn : matchNotation n.text with
        | none => simp [hmn] at hs
        | some nr =>
          obtain ⟨name, rest'⟩ := nr
          obtain ⟨text, ht⟩ := applyNotation_errors_positioned env sc eng ops st n name rest' e hmn ha
          exact ⟨n.pos, text, ht⟩
      | panic p => simp only [ha] at hh; cases hh
  split at h
  · rename_i r pr heq
    split at h
    · cases h
      exact ⟨pr, "to use \":reverse\", style must be \":style arg\"", by simp [toString]; str_eq⟩
    · cases h
  · rename_i e' heq
    cases h
    exact fold ns _ _ hall heq
  · cases h

/-- **the hook lookup crashes exactly on functions with fewer than two parameters** whose result
shape is acceptable (DESIGN §5 #19: `make([]types.Type, n-2)`). -/
theorem lookupManipulator_panic_iff (name optName pos : String) :
    (∃ s, lookupManipulatorFunc env sc name optName pos = .panic s) ↔
    ∃ sig, lookupType env sc name = .func sig ∧ sig.params.length < 2 ∧
      (match sig.results with | [] => true | [e] => env.isErrorType e | _ => false) = true := by
  unfold lookupManipulatorFunc
  cases hl : lookupType env sc name with
  | notFound => simp
  | notFunc => simp
  | func sig =>
    simp only [FuncLookup.func.injEq, exists_eq_left']
    match hr : sig.results, hp : sig.params with
    | [], [] => simp
    | [], [_] => simp
    | [], _ :: _ :: _ => simp
    | [e], [] => cases he : env.isErrorType e <;> simp [he]
    | [e], [_] => cases he : env.isErrorType e <;> simp [he]
    | [e], _ :: _ :: _ => cases he : env.isErrorType e <;> simp [he]
    | _ :: _ :: _, _ => simp

theorem styleEffect_no_panic (o : Options) (args : List String) (s : String) : styleEffect o args ≠ .panic s := by
  unfold styleEffect; split
  · simp
  · split
    · simp
    · split <;> simp
theorem matchEffect_no_panic (o : Options) (args : List String) (s : String) : matchEffect o args ≠ .panic s := by
  unfold matchEffect; split
  · simp
  · split
    · simp
    · split
      · simp
      · split <;> simp
theorem recvEffect_no_panic (o : Options) (args : List String) (s : String) : recvEffect o args ≠ .panic s := by
  unfold recvEffect; split
  · simp
  · split <;> simp
theorem skipEffect_no_panic (o : Options) (args : List String) (s : String) : skipEffect eng o args ≠ .panic s := by
  unfold skipEffect; split
  · simp
  · split <;> simp
theorem mapEffect_no_panic (o : Options) (pos : String) (args : List String) (s : String) :
    mapEffect o pos args ≠ .panic s := by
  unfold mapEffect; split
  · simp only; split <;> simp
  · simp
theorem convEffect_no_panic (o : Options) (pos : String) (args : List String) (s : String) :
    convEffect o pos args ≠ .panic s := by
  unfold convEffect; split <;> simp

/-- **crash sites of one notation line, exactly**: `:literal` whose text the second regexp does
not match, and the two hook notations when the lookup crashes. No other notation can crash. -/
theorem notationEffect_panic_sites (opts : Options) (pos name rest s : String)
    (h : notationEffect env sc eng opts pos name rest = .panic s) :
    (name = "literal" ∧ matchLiteral rest = none) ∨
    ((name = "preprocess" ∨ name = "postprocess") ∧
      ∃ a opt, (fields rest).head? = some a ∧ lookupManipulatorFunc env sc a opt pos = .panic s) := by
  have hook : ∀ (optName : String) (set : ManipOpt → Options),
      hookEffect env sc pos optName (fields rest) set = .panic s →
      ∃ a opt, (fields rest).head? = some a ∧ lookupManipulatorFunc env sc a opt pos = .panic s := by
    intro optName set hh
    unfold hookEffect at hh
    split at hh
    · cases hh
    · rename_i a tl hargs
      split at hh
      · cases hh
      · cases hh
      · rename_i s' hs'
        cases hh
        exact ⟨a, optName, by simp [hargs], hs'⟩
  unfold notationEffect at h
  simp only at h
  split at h
  any_goals (cases h; done)
  · exact absurd h (styleEffect_no_panic _ _ _)
  · exact absurd h (matchEffect_no_panic _ _ _)
  · exact absurd h (recvEffect_no_panic _ _ _)
  · exact absurd h (skipEffect_no_panic eng _ _ _)
  · exact absurd h (mapEffect_no_panic _ _ _ _)
  · exact absurd h (convEffect_no_panic _ _ _ _)
  · left
    unfold literalEffect at h
    split at h
    · split at h
      · cases h
      · rename_i hl; exact ⟨rfl, hl⟩
    · cases h
  · exact Or.inr ⟨Or.inl rfl, hook _ _ h⟩
  · exact Or.inr ⟨Or.inr rfl, hook _ _ h⟩

/-- witnesses: both crash sites are reachable -/
example : matchLiteral "A B" = none ∧ (fields "A B").length = 2 := by decide

/-- the `:literal` crash needs a Unicode blank that `strings.Fields` splits on but RE2 `\\s` does
not know; with ASCII blanks the regexp always matches when there are two fields -/
example : matchLiteral "A  5 + 1 " = some "5 + 1 " := by decide

end Convergen.Props.C14
