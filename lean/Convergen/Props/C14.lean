import Convergen.Model.Parse
/-!
# C14 — bad input yields a diagnostic and a non-zero exit, never a crash or hang

Termination: every function of the model is total (structural recursion, or recursion on the
explicit `fuel` whose sufficiency is proved in `Props/C05Cover`).  This file characterises the
crash sites of the notation parser exactly and shows that its diagnostics carry a position.
-/
namespace Convergen.Props.C14
open Convergen

variable (env : Env) (sc : Scope) (eng : Engine)

/-- **T14.2 (diagnostics of notation lines carry the position of the line).** Whatever the text
of a notation line, if it is rejected the message is `<file:line:col>: <text>`. -/
theorem applyNotation_errors_positioned (ops : List String) (st : ParseResult × String) (n : Comment)
    (name rest : String) (msgs : List String)
    (hm : matchNotation n.text = some (name, rest))
    (h : applyNotation env sc eng ops st n = .error msgs) :
    ∃ text, msgs = [n.pos ++ ": " ++ text] := by
  obtain ⟨res, pr⟩ := st
  unfold applyNotation at h
  simp only [hm] at h
  split at h
  · cases h
  · split at h
    · cases h
    · cases h
    · cases h; exact ⟨_, rfl⟩
    · cases h
    · cases h

/-- the final validation (`:reverse` needs `:style arg`) is positioned at the `:reverse` line -/
theorem parseNotations_errors_positioned (ops : List String) (ns : List Comment) (o : Options) (msgs : List String)
    (hall : ∀ n ∈ ns, (matchNotation n.text).isSome = true)
    (h : parseNotations env sc eng ops ns o = .error msgs) :
    ∃ pos text, msgs = [pos ++ ": " ++ text] := by
  unfold parseNotations at h
  -- errors of the fold
  have fold : ∀ (ns : List Comment) (st : ParseResult × String) (msgs : List String),
      (∀ n ∈ ns, (matchNotation n.text).isSome = true) →
      foldOutcome (applyNotation env sc eng ops) st ns = .error msgs → ∃ pos text, msgs = [pos ++ ": " ++ text] := by
    intro ns
    induction ns with
    | nil => intro st msgs _ hh; simp [foldOutcome] at hh
    | cons n rest ih =>
      intro st msgs hall hh
      simp only [foldOutcome] at hh
      cases ha : applyNotation env sc eng ops st n with
      | ok st' => simp only [ha] at hh; exact ih st' msgs (fun n' hn' => hall n' (by simp [hn'])) hh
      | error e =>
        simp only [ha] at hh
        have he : e = msgs := by injection hh
        subst he
        have hs := hall n (by simp)
        cases hmn : matchNotation n.text with
        | none => simp [hmn] at hs
        | some nr =>
          obtain ⟨name, rest'⟩ := nr
          obtain ⟨text, ht⟩ := applyNotation_errors_positioned env sc eng ops st n name rest' e hmn ha
          exact ⟨n.pos, text, ht⟩
      | panic p => simp only [ha] at hh; cases hh
  split at h
  · rename_i r pr heq
    split at h
    · cases h
      exact ⟨pr, "to use \":reverse\", style must be \":style arg\"", by simp [toString]; str_eq⟩
    · cases h
  · rename_i e' heq
    cases h
    exact fold ns _ _ hall heq
  · cases h

/-- **the hook lookup never crashes** (since the repair of DESIGN §5 #19 a function with fewer than
two parameters is refused with a diagnostic) -/
theorem lookupManipulator_no_panic (name optName pos s : String) :
    lookupManipulatorFunc env sc name optName pos ≠ .panic s := by
  unfold lookupManipulatorFunc
  cases lookupType env sc name with
  | notFound => simp
  | notFunc => simp
  | func sig =>
    simp only
    cases badHookResult env sig.results
    · simp only [Bool.false_eq_true, ↓reduceIte]
      cases sig.params with
      | nil => simp
      | cons d rest => cases rest <;> simp <;> (cases sig.variadic <;> simp)
    · simp

theorem styleEffect_no_panic (o : Options) (args : List String) (s : String) : styleEffect o args ≠ .panic s := by
  unfold styleEffect; split
  · simp
  · split
    · simp
    · split <;> simp
theorem matchEffect_no_panic (o : Options) (args : List String) (s : String) : matchEffect o args ≠ .panic s := by
  unfold matchEffect; split
  · simp
  · split
    · simp
    · split
      · simp
      · split <;> simp
theorem recvEffect_no_panic (o : Options) (args : List String) (s : String) : recvEffect o args ≠ .panic s := by
  unfold recvEffect; split
  · simp
  · split <;> simp
theorem skipEffect_no_panic (o : Options) (args : List String) (s : String) : skipEffect eng o args ≠ .panic s := by
  unfold skipEffect; split
  · simp
  · split <;> simp
theorem mapEffect_no_panic (o : Options) (pos : String) (args : List String) (s : String) :
    mapEffect o pos args ≠ .panic s := by
  unfold mapEffect; split
  · simp only; split <;> simp
  · simp
theorem convEffect_no_panic (o : Options) (pos : String) (args : List String) (s : String) :
    convEffect o pos args ≠ .panic s := by
  unfold convEffect; split <;> simp

theorem literalEffect_no_panic (o : Options) (pos rest : String) (args : List String) (s : String) :
    literalEffect o pos rest args ≠ .panic s := by
  unfold literalEffect; split
  · split <;> simp
  · simp

theorem hookEffect_no_panic (pos optName : String) (args : List String) (set : ManipOpt → Options) (s : String) :
    hookEffect env sc pos optName args set ≠ .panic s := by
  unfold hookEffect; split
  · simp
  · split
    · simp
    · simp
    · rename_i s' hs'
      exact absurd hs' (lookupManipulator_no_panic env sc _ _ _ _)

/-- **T14.1a (no notation line can crash the parser).**  Before the repairs of DESIGN §5 #19 and of
the `:literal` regexp mismatch the hook lookup and the `:literal` case could; now none can. -/
theorem notationEffect_no_panic (opts : Options) (pos name rest s : String) :
    notationEffect env sc eng opts pos name rest ≠ .panic s := by
  intro h
  unfold notationEffect at h
  simp only at h
  split at h
  any_goals (cases h; done)
  · exact absurd h (styleEffect_no_panic _ _ _)
  · exact absurd h (matchEffect_no_panic _ _ _)
  · exact absurd h (recvEffect_no_panic _ _ _)
  · exact absurd h (skipEffect_no_panic eng _ _ _)
  · exact absurd h (mapEffect_no_panic _ _ _ _)
  · exact absurd h (convEffect_no_panic _ _ _ _)
  · exact absurd h (literalEffect_no_panic _ _ _ _ _)
  · exact absurd h (hookEffect_no_panic env sc _ _ _ _ _)
  · exact absurd h (hookEffect_no_panic env sc _ _ _ _ _)

theorem applyNotation_no_panic (ops : List String) (st : ParseResult × String) (n : Comment) (s : String) :
    applyNotation env sc eng ops st n ≠ .panic s := by
  obtain ⟨res, pr⟩ := st
  unfold applyNotation
  simp only
  split
  · simp
  · split
    · simp
    · split
      · simp
      · simp
      · simp
      · rename_i s' hs'
        exact absurd hs' (notationEffect_no_panic env sc eng _ _ _ _ _)
      · simp

/-- **T14.1b.** Parsing any list of notation lines — any byte strings — terminates with options or
with a diagnostic, never with a crash. -/
theorem parseNotations_no_panic (ops : List String) (ns : List Comment) (o : Options) (s : String) :
    parseNotations env sc eng ops ns o ≠ .panic s := by
  have fold : ∀ (ns : List Comment) (st : ParseResult × String) (p : String),
      foldOutcome (applyNotation env sc eng ops) st ns ≠ .panic p := by
    intro ns
    induction ns with
    | nil => intro st p; simp [foldOutcome]
    | cons n rest ih =>
      intro st p
      simp only [foldOutcome]
      cases ha : applyNotation env sc eng ops st n with
      | ok st' => exact ih st' p
      | error e => simp
      | panic q => exact absurd ha (applyNotation_no_panic env sc eng ops st n q)
  unfold parseNotations
  split
  · split <;> simp
  · simp
  · rename_i p hp
    exact absurd hp (fold ns _ p)

/-- regression witnesses of the `:literal` repair: ASCII blanks always match; the Unicode blank
case is now a diagnostic -/
example : matchLiteral "A  5 + 1 " = some "5 + 1 " ∧ matchLiteral "A\u00a0B" = none ∧ (fields "A\u00a0B").length = 2 := by
  decide

end Convergen.Props.C14
