import Convergen.Model.Builder
import Convergen.Model.Render
/-!
# C16 — slice fields are copied into fresh storage, nil stays nil (decision and text)
-/
namespace Convergen.Props.C16
open Convergen

variable (ctx : BCtx)

/-- **T16.1 (`sliceToSlice` decision = spec).** A slice pair gets a copying statement exactly when
the element types are assignable — `make` + `copy` when they are basic and identical, `make` + an
element loop otherwise — or, only under `:typecast`, convertible (converting loop); otherwise none. -/
theorem slice_branch_spec (lhs rhs : Node) (s : Stmt) (h : ctx.sliceToSlice lhs rhs = .ok (some s)) :
    let le := ctx.env.sliceElem (lhs.exprType ctx.env)
    let re := ctx.env.sliceElem (rhs.exprType ctx.env)
    (ctx.env.assignable re le = true ∧ ctx.env.isBasicType re = true ∧ ctx.env.identical re le = true ∧
       ∃ t, s = .sliceCopy lhs rhs t) ∨
    (ctx.env.assignable re le = true ∧ (ctx.env.isBasicType re && ctx.env.identical re le) = false ∧
       ∃ t, s = .sliceLoop lhs rhs t) ∨
    (ctx.env.assignable re le = false ∧ ctx.opts.typecast = true ∧ ctx.env.convertible re le = true ∧
       ∃ t c, s = .sliceCast lhs rhs t c) := by
  unfold BCtx.sliceToSlice at h
  simp only at h
  intro le re
  by_cases ha : ctx.env.assignable re le = true
  · simp only [le, re] at ha
    simp only [ha, ↓reduceIte] at h
    by_cases hb : (ctx.env.isBasicType re && ctx.env.identical re le) = true
    · simp only [re, le] at hb
      simp only [hb, ↓reduceIte] at h
      cases h
      simp only [Bool.and_eq_true] at hb
      exact Or.inl ⟨ha, hb.1, hb.2, _, rfl⟩
    · simp only [re, le] at hb
      simp only [hb, Bool.false_eq_true, ↓reduceIte] at h
      cases h; exact Or.inr (Or.inl ⟨ha, by simpa using hb, _, rfl⟩)
  · simp only [le, re] at ha
    simp only [ha, Bool.false_eq_true, ↓reduceIte] at h
    split at h
    · rename_i ht
      simp only [Bool.and_eq_true] at ht
      cases h; exact Or.inr (Or.inr ⟨by simpa using ha, ht.1, ht.2, _, _, rfl⟩)
    · cases h

/-- **`copy()` only between identical element types** (the repaired DESIGN §5 #4) -/
theorem copy_needs_identical (lhs rhs : Node) (t : String)
    (h : ctx.sliceToSlice lhs rhs = .ok (some (.sliceCopy lhs rhs t))) :
    ctx.env.identical (ctx.env.sliceElem (rhs.exprType ctx.env)) (ctx.env.sliceElem (lhs.exprType ctx.env)) = true := by
  rcases slice_branch_spec ctx lhs rhs _ h with h1 | h2 | h3
  · exact h1.2.2.1
  · obtain ⟨_, _, _, he⟩ := h2; cases he
  · obtain ⟨_, _, _, _, _, he⟩ := h3; cases he

/-- no converting loop without the opt-in -/
theorem no_cast_without_typecast (lhs rhs : Node) (t c : String) (hoff : ctx.opts.typecast = false) :
    ctx.sliceToSlice lhs rhs ≠ .ok (some (.sliceCast lhs rhs t c)) := by
  intro h
  rcases slice_branch_spec ctx lhs rhs _ h with h1 | h2 | h3
  · obtain ⟨_, _, _, _, he⟩ := h1; cases he
  · obtain ⟨_, _, _, he⟩ := h2; cases he
  · rw [hoff] at h3; exact absurd h3.2.1 (by simp)

/-- the text of each of the three statements: nil guard, fresh `make` of the source length, then
copy / element loop (`Bridge.slice_eq`, `sliceLoop_eq`, `sliceCast_eq` tie it to the Go source) -/
theorem slice_text_guard_make (lhs rhs typ : String) :
    renderSlice lhs rhs typ =
      "if " ++ rhs ++ " != nil {\n" ++ lhs ++ " = make(" ++ typ ++ ", len(" ++ rhs ++ "))\n" ++
      "copy(" ++ lhs ++ ", " ++ rhs ++ ")\n}\n" := by
  unfold renderSlice sliceHead; str_eq

theorem sliceLoop_text (lhs rhs typ : String) :
    renderSliceLoop lhs rhs typ =
      "if " ++ rhs ++ " != nil {\n" ++ lhs ++ " = make(" ++ typ ++ ", len(" ++ rhs ++ "))\n" ++
      "for i, e := range " ++ rhs ++ "{\n" ++ lhs ++ "[i] = e\n}\n}\n" := by
  unfold renderSliceLoop sliceHead; str_eq

theorem sliceCast_text (lhs rhs typ cast : String) :
    renderSliceCast lhs rhs typ cast =
      "if " ++ rhs ++ " != nil {\n" ++ lhs ++ " = make(" ++ typ ++ ", len(" ++ rhs ++ "))\n" ++
      "for i, e := range " ++ rhs ++ "{\n" ++ lhs ++ "[i] = " ++ cast ++ "(e)\n}\n}\n" := by
  unfold renderSliceCast sliceHead; str_eq

/-- the operator of the element conversion never begins with `*`: a pointer element type is written
`(*T)(e)` (the repaired `*T(e)`, which Go reads as a dereference of `T(e)`) -/
theorem conversionOperator_no_star (s : String) : (conversionOperator s).toList.head? ≠ some '*' := by
  unfold conversionOperator
  split
  · simp [String.toList_append]
  · rename_i h
    simpa using h

/-- and it is the type name itself unless that begins with `*` -/
theorem conversionOperator_plain (s : String) (h : s.toList.head? ≠ some '*') : conversionOperator s = s := by
  unfold conversionOperator
  simp [h]

/-- the conversion of the slice statement is that operator applied to the element type's name -/
theorem sliceCast_operator (ctx : BCtx) (lhs rhs : Node) (t c : String)
    (h : ctx.sliceToSlice lhs rhs = .ok (some (.sliceCast lhs rhs t c))) :
    c = conversionOperator (ctx.env.typeNameF (ctx.env.sliceElem (lhs.exprType ctx.env))) := by
  unfold BCtx.sliceToSlice at h
  simp only at h
  repeat' split at h
  all_goals first | (cases h; rfl) | cases h

/-! ### "slice field" means a member whose *underlying* type is a slice: members of a defined slice
type (`type Names []string`) are slices for the builder too (the repaired DESIGN §5 #17; before, they
fell through to a plain assignment that shares the backing array). -/
example : ({ tys := #[{ kind := .named, str := "p.Names", name := "Names", isSlice := true, elem := 1 }],
             assignable := fun _ _ => true, convertible := fun _ _ => true, lookup := fun _ _ => .none, pkgPath := "p", imports := [], stringTy := 0 } : Env).isSliceType 0 = true := by
  decide

end Convergen.Props.C16
