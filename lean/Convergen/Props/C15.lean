import Convergen.Model.Runner
/-!
# C15 — a run writes only its output (and log); dry or failed runs write nothing there
All theorems hold for every `core` (loader … formatter), every configuration, every world.
-/
namespace Convergen.Props.C15
open Convergen

variable (cfg : Config) (core : World → Config → CoreResult) (w : World)

theorem openLog_cases (w1 : World) (h : openLog cfg w = some w1) :
    (cfg.log = "" ∧ w1 = w) ∨ (cfg.log ≠ "" ∧ w1 = w.put cfg.log "") := by
  unfold openLog at h
  by_cases hl : cfg.log = ""
  · simp [hl] at h; exact Or.inl ⟨hl, h.symm⟩
  · have : (cfg.log == "") = false := by simpa using hl
    simp only [this, Bool.false_eq_true, ↓reduceIte] at h
    split at h
    · cases h; exact Or.inr ⟨hl, rfl⟩
    · cases h

/-- `Generate` either leaves the world alone or writes the output path; it writes only on a
successful, non-dry run -/
theorem afterCore_world (r : CoreResult) (w1 : World) :
    (afterCore cfg r w1).world = w1 ∨
    (∃ bytes, (afterCore cfg r w1).world = w1.put cfg.output bytes ∧ (afterCore cfg r w1).exit = 0 ∧
      cfg.dryRun = false) := by
  unfold afterCore
  cases r with
  | panic e o => exact Or.inl rfl
  | error e o => exact Or.inl rfl
  | formatError c e o => exact Or.inl rfl
  | ok bytes e o =>
    simp only
    by_cases hd : cfg.dryRun = true
    · simp [hd]
    · by_cases hw : w1.writable cfg.output = true
      · right; exact ⟨bytes, by simp [hd, hw], by simp [hd, hw], by simpa using hd⟩
      · left; simp [hd, hw]

theorem runFrom_world (w1 : World) :
    (runFrom cfg core w1).world = w1 ∨
    (∃ bytes, (runFrom cfg core w1).world = w1.put cfg.output bytes ∧ (runFrom cfg core w1).exit = 0 ∧
      cfg.dryRun = false) := by
  unfold runFrom
  cases w1.get cfg.input with
  | none => exact Or.inl rfl
  | some _ =>
    simp only
    split
    · exact Or.inl rfl
    · exact afterCore_world cfg _ w1

/-- **T15.1 (frame).** No path other than the output path and the log path changes. -/
theorem frame (p : String) (ho : p ≠ cfg.output) (hl : p ≠ cfg.log) :
    (run cfg core w).world.get p = w.get p := by
  unfold run
  cases hlog : openLog cfg w with
  | none => rfl
  | some w1 =>
    simp only
    have h1 : w1.get p = w.get p := by
      rcases openLog_cases cfg w w1 hlog with ⟨_, h⟩ | ⟨_, h⟩ <;> rw [h] <;> simp [hl]
    rcases runFrom_world cfg core w1 with h | ⟨b, h, _, _⟩ <;> rw [h] <;> simp [ho, h1]

/-- directories are never created or removed -/
theorem dirs_unchanged : (run cfg core w).world.dirs = w.dirs := by
  unfold run
  cases hlog : openLog cfg w with
  | none => rfl
  | some w1 =>
    simp only
    have h1 : w1.dirs = w.dirs := by
      rcases openLog_cases cfg w w1 hlog with ⟨_, h⟩ | ⟨_, h⟩ <;> rw [h] <;> simp
    rcases runFrom_world cfg core w1 with h | ⟨b, h, _, _⟩ <;> rw [h] <;> simp [h1]

/-- **T15.4 (log only with the flag).** Without `-log` at most the output path changes. -/
theorem no_log_without_flag (hl : cfg.log = "") (p : String) (ho : p ≠ cfg.output) :
    (run cfg core w).world.get p = w.get p := by
  unfold run
  cases hlog : openLog cfg w with
  | none => rfl
  | some w1 =>
    simp only
    have h1 : w1 = w := by
      rcases openLog_cases cfg w w1 hlog with ⟨_, h⟩ | ⟨hne, _⟩
      · exact h
      · exact absurd hl hne
    subst h1
    rcases runFrom_world cfg core w1 with h | ⟨b, h, _, _⟩ <;> rw [h] <;> simp [ho]

/-- the output path keeps its content unless the run is successful and not dry -/
theorem output_kept_unless_written (hne : cfg.output ≠ cfg.log)
    (h : (run cfg core w).exit ≠ 0 ∨ cfg.dryRun = true) :
    (run cfg core w).world.get cfg.output = w.get cfg.output := by
  unfold run at h ⊢
  cases hlog : openLog cfg w with
  | none => rfl
  | some w1 =>
    simp only [hlog] at h ⊢
    have h1 : w1.get cfg.output = w.get cfg.output := by
      rcases openLog_cases cfg w w1 hlog with ⟨_, hh⟩ | ⟨_, hh⟩ <;> rw [hh] <;> simp [hne]
    rcases runFrom_world cfg core w1 with hh | ⟨b, _, hexit, hdry⟩
    · rw [hh, h1]
    · rcases h with h | h
      · exact absurd hexit h
      · rw [hdry] at h; cases h

/-- **T15.2 (`-dry` keeps the output path as it was)** — absent stays absent, content stays. -/
theorem dry_keeps_output (hd : cfg.dryRun = true) (hne : cfg.output ≠ cfg.log) :
    (run cfg core w).world.get cfg.output = w.get cfg.output :=
  output_kept_unless_written cfg core w hne (Or.inr hd)

/-- **T15.3 (a failed run keeps the output path as it was).** -/
theorem error_keeps_output (he : (run cfg core w).exit ≠ 0) (hne : cfg.output ≠ cfg.log) :
    (run cfg core w).world.get cfg.output = w.get cfg.output :=
  output_kept_unless_written cfg core w hne (Or.inl he)

/-- **T15.5 (the setup file is never modified)** whenever it is neither the output nor the log. -/
theorem setup_file_untouched (ho : cfg.input ≠ cfg.output) (hl : cfg.input ≠ cfg.log) :
    (run cfg core w).world.get cfg.input = w.get cfg.input := frame cfg core w cfg.input ho hl

/-- non-vacuity: a successful non-dry run does write the bytes at the output path -/
def w0 : World := { files := fun p => if p = "a/setup.go" then some "src" else none, dirs := fun d => d == "a" }
def cfg0 : Config := { input := "a/setup.go", output := "a/setup.gen.go", log := "", dryRun := false, prints := false }
example : (run cfg0 (fun _ _ => .ok "CODE" [] []) w0).world.get "a/setup.gen.go" = some "CODE" ∧
    (run cfg0 (fun _ _ => .ok "CODE" [] []) w0).exit = 0 := by decide

/-- **a standard output that cannot be written changes nothing else**: the exit status, the
diagnostics and every file are those of the same run with a working standard output — in
particular a run never *fails* after it has written its output because printing failed (C15:
"whenever the run ends in an error, the output path is left exactly as it was"). -/
theorem stdout_failure_neutral (cfg : Config) (core : World → Config → CoreResult) (w : World) :
    (runWithStdout false cfg core w).exit = (runWithStdout true cfg core w).exit ∧
    (runWithStdout false cfg core w).stderr = (runWithStdout true cfg core w).stderr ∧
    (runWithStdout false cfg core w).world = (runWithStdout true cfg core w).world ∧
    (runWithStdout false cfg core w).stdout = [] := by
  simp [runWithStdout]

end Convergen.Props.C15
