import Convergen.Model.Basic
import Convergen.Model.Text
/-!
# The `go/types` view of a program (oracle facts) and `pkg/util/{types,import}.go`

The model never looks at Go source.  `go/parser`/`go/types` are oracles: the harness runs them
on the concrete package and serialises exactly the answers convergen asks for.  All theorems
quantify over *every* `Env`, i.e. over every answer the oracles could give.
-/
namespace Convergen

abbrev TyId := Nat

/-- dynamic class of a `types.Type` value, as far as the code distinguishes them by type switch -/
inductive Kind where
  | basic | named | pointer | slice | struct | other
  deriving Repr, DecidableEq, Inhabited

structure Field where
  name : String
  ty : TyId
  /-- declared in another package than the one being generated: invisible there unless exported -/
  foreign : Bool := false
  deriving Repr, DecidableEq, Inhabited

/-- a method signature as far as convergen inspects it -/
structure MethodInfo where
  name : String
  nparams : Nat
  results : List TyId
  /-- the method is declared with a pointer receiver (entries of `methodsOf`) -/
  ptrRecv : Bool := false
  /-- `LookupFieldOrMethod(typ, false, …)` does not find it while `(typ, true, …)` does: the operand
  must be addressable (entries of the `lookup` oracle) -/
  needsAddr : Bool := false
  /-- declared in another package than the one being generated -/
  foreign : Bool := false
  deriving Repr, DecidableEq, Inhabited

/-- result of `types.LookupFieldOrMethod` -/
inductive Lookup where
  | none
  | field (name : String) (ty : TyId)
  | method (m : MethodInfo)
  deriving Repr, DecidableEq, Inhabited

structure TyInfo where
  kind : Kind
  /-- `Type.String()` -/
  str : String
  /-- `types.TypeString(t, q)` with every package qualifier `q(pkg)` written as `\x01<path>\x02` -/
  qstr : String := ""
  /-- `Basic.Name()` / `Named.Obj().Name()` -/
  name : String := ""
  /-- `Named.Obj().Pkg()`: `none` is the nil package of universe types such as `error` -/
  pkgPath : Option String := none
  pkgName : String := ""
  /-- the object the setup package's scope holds under this type's name is this very type
  (`scope.Lookup(typ.Obj().Name()) == typ.Obj()`) -/
  inScope : Bool := false
  /-- an instantiated generic type (`Named.TypeArgs().Len() > 0`) -/
  hasTypeArgs : Bool := false
  /-- element of a pointer or slice -/
  elem : TyId := 0
  /-- `Underlying()` is a `*types.Struct` -/
  isStruct : Bool := false
  /-- `Underlying()` is the invalid basic type -/
  isInvalid : Bool := false
  /-- `Underlying()` is a `*types.Slice` (then `elem` is its element type) -/
  isSlice : Bool := false
  /-- `Underlying().String()` (error messages only) -/
  underStr : String := ""
  /-- fields of the underlying struct, declaration order -/
  fields : List Field := []
  /-- `Named.Method(i)`, i = 0 … NumMethods-1 -/
  methods : List MethodInfo := []
  /-- `LookupFieldOrMethod(named, false, pkg, "String")` -/
  stringLookup : Lookup := .none
  deriving Repr, Inhabited

/-- one import spec of the setup file: path and explicit name (`""` when absent) -/
structure ImportSpec where
  path : String
  alias : String := ""
  /-- the name the imported package declares (`""` when the loader does not know it) -/
  pkgName : String := ""
  deriving Repr, DecidableEq, Inhabited

structure Env where
  tys : Array TyInfo
  /-- `types.AssignableTo(a, b)` -/
  assignable : TyId → TyId → Bool
  /-- `types.ConvertibleTo(a, b)` -/
  convertible : TyId → TyId → Bool
  /-- `types.Identical(a, b)` -/
  identical : TyId → TyId → Bool := fun a b => a == b
  /-- `types.LookupFieldOrMethod(t, true, PkgOf(t), name)` -/
  lookup : TyId → String → Lookup
  /-- `pkg.Types.Scope().Lookup(name) != nil`: the package declares an object of that name (the
  previous output is withheld from the loader, so its functions are not among them) -/
  pkgScope : String → Bool := fun _ => false
  /-- `pkg.PkgPath` -/
  pkgPath : String
  /-- `ImportNames` of the setup file: the Go map as an association list without duplicate keys -/
  imports : List (String × String)
  /-- the universe type `string` -/
  stringTy : TyId

namespace Env
variable (env : Env)

def ty (t : TyId) : TyInfo := env.tys.getD t { kind := .other, str := "?" }
def kind (t : TyId) : Kind := (env.ty t).kind

def isPtr (t : TyId) : Bool := env.kind t == .pointer
/-- `util.DerefPtr` (one level) -/
def derefPtr (t : TyId) : TyId := if env.isPtr t then (env.ty t).elem else t
def isStructType (t : TyId) : Bool := (env.ty t).isStruct
/-- `util.IsSliceType`: the underlying type is a slice (a defined type `type Names []string` too) -/
def isSliceType (t : TyId) : Bool := (env.ty t).isSlice || env.kind t == .slice
def isBasicType (t : TyId) : Bool := env.kind t == .basic
def isNamedType (t : TyId) : Bool := env.kind t == .named
/-- `util.SliceElement` (callers test `isSliceType` first) -/
def sliceElem (t : TyId) : TyId := (env.ty t).elem
/-- `util.IsErrorType`: by printed name -/
def isErrorType (t : TyId) : Bool := (env.ty t).str == "error"
/-- `util.IsInvalidType` -/
def isInvalidType (t : TyId) : Bool := (env.ty (env.derefPtr t)).isInvalid

/-- `util.IterateFields`: fields of the struct under `DerefPtr(t)` -/
def fieldsOf (t : TyId) : List Field := (env.ty (env.derefPtr t)).fields
/-- `types.LookupFieldOrMethod(t, true, pkg, name) != nil` -/
def hasMember (t : TyId) (name : String) : Bool :=
  match env.lookup t name with
  | .none => false
  | _ => true

/-- Go's rule that the field names of one struct are distinct, as a check on the type table
(assumption of the covering theorem; the driver evaluates it on every input) -/
def distinctFieldsCheck : Bool :=
  env.tys.toList.all fun ti => decide ((ti.fields.map (·.name)).Nodup)

/-- `util.IterateMethods`: explicit methods of the named type under `DerefPtr(t)` -/
def methodsOf (t : TyId) : List MethodInfo :=
  let d := env.derefPtr t
  if env.isNamedType d then (env.ty d).methods else []

/-- `types.LookupFieldOrMethod(t, true, <generated package>, name) != nil` for a direct member of a
struct type: the field or (explicit) method of that name exists and is exported or declared in the
generated package -/
def visibleMember (t : TyId) (name : String) : Bool :=
  match (env.fieldsOf t).find? (·.name == name) with
  | some f => isExportedName name || !f.foreign
  | none =>
    match (env.methodsOf t).find? (·.name == name) with
    | some m => isExportedName name || !m.foreign
    | none => false

/-- `util.CompliesGetter` -/
def compliesGetter (m : MethodInfo) : Bool :=
  m.nparams == 0 && (match m.results with | [r] => !env.isErrorType r | _ => false)

/-- `util.ParseGetterReturnTypes`: `(ret, retError)` or failure -/
def parseGetterReturnTypes (m : MethodInfo) : Option (TyId × Bool) :=
  if m.nparams != 0 then none else   -- a getter is called without arguments
  match m.results with
  | [r] => some (r, false)
  | [r, e] => if env.isErrorType e then some (r, true) else none
  | _ => none

/-- `util.CompliesStringer` -/
def compliesStringer (t : TyId) : Bool :=
  let d := env.derefPtr t
  if !env.isNamedType d then false else
  match (env.ty d).stringLookup with
  | .method m => m.nparams == 0 && (match m.results with | [r] => (env.ty r).str == "string" | _ => false)
  | _ => false

/-- package of a type, `util.PkgOf`: pointer → its element, named → its package, else nil.
The result is only compared with the current package path. `none` = nil package. -/
def pkgOf (t : TyId) : Option String :=
  let d := env.derefPtr t   -- PkgOf recurses through pointers; one level suffices for lookups that succeed
  if env.isNamedType d then (env.ty d).pkgPath else none

/-- `assignmentBuilder.isExternalPkg` -/
def isExternalPkg (p : Option String) : Bool :=
  match p with
  | none => false
  | some path => env.pkgPath != path

/-- `ImportNames[path]` -/
def importName (path : String) : Option String := (env.imports.find? (·.1 == path)).map (·.2)

/-- substitute the qualifier placeholders `\x01<path>\x02.` of a `TypeString` template: the import's
name in the setup file followed by a dot, or nothing when the package is not imported there -/
def qualifyTemplate (imports : List (String × String)) (tpl : String) : String :=
  let rec go (fuel : Nat) (cs : List Char) : List Char :=
    match fuel with
    | 0 => cs
    | fuel + 1 =>
      match cs with
      | [] => []
      | '\x01' :: rest =>
        let path := String.ofList (takeWhileL (· != '\x02') rest)
        let after := (dropWhileL (· != '\x02') rest).drop 1
        match (imports.find? (·.1 == path)).map (·.2) with
        | some n =>
          if n == "." then go fuel (match after with | '.' :: r => r | r => r)   -- dot import: no qualifier
          else n.toList ++ go fuel after            -- keeps the dot that follows
        | none => go fuel (match after with | '.' :: r => r | r => r)
      | c :: rest => c :: go fuel rest
  String.ofList (go (tpl.length + 1) tpl.toList)

/-- `ImportNames.TypeName`. `fuel` bounds pointer chains.  A named type without package (a
universe type such as `error`) is printed by its bare name. -/
def typeName : Nat → TyId → String
  | 0, t => qualifyTemplate env.imports (env.ty t).qstr
  | fuel + 1, t =>
    match env.kind t with
    | .pointer => "*" ++ typeName fuel (env.ty t).elem
    | .basic => (env.ty t).name
    | .named =>
      -- an instantiated generic type is written with its type arguments: `Box[int]`
      if (env.ty t).hasTypeArgs then qualifyTemplate env.imports (env.ty t).qstr else
      match (env.ty t).pkgPath with
      | none => (env.ty t).name
      | some p =>
        match env.importName p with
        | some n => if n == "." then (env.ty t).name else n ++ "." ++ (env.ty t).name   -- dot import: bare name
        | none => (env.ty t).name
    | _ => qualifyTemplate env.imports (env.ty t).qstr

def typeNameF (t : TyId) : String := env.typeName (env.tys.size + 1) t

/-- `ImportNames.IsExternal` -/
def isExternal (t : TyId) : Bool :=
  let d := env.derefPtr t
  if env.isNamedType d then
    match (env.ty d).pkgPath with
    | none => false
    | some p => (env.importName p).isSome
  else false

end Env

/-- `util.NewImportNames`: map path → name; `_` imports are renamed to the last path element
unless another entry already carries that name.  The Go map is kept as an association list in
first-insertion order with overwrite semantics. -/
def lastPathElem (p : String) : String := String.ofList (takeWhileL (· != '/') p.toList.reverse).reverse

def mapSet (m : List (String × String)) (k v : String) : List (String × String) :=
  if m.any (·.1 == k) then m.map (fun e => if e.1 == k then (k, v) else e) else m ++ [(k, v)]

def newImportNames (specs : List ImportSpec) : List (String × String) :=
  let m := specs.foldl (fun m s => mapSet m s.path (if s.alias != "" then s.alias else lastPathElem s.path)) []
  let noNames := (specs.filter (fun s => s.alias == "_")).map (·.path)
  noNames.foldl (fun m p =>
    let name := lastPathElem p
    if m.any (fun e => e.2 == name && e.1 != p) then m else mapSet m p name) m

/-- `importNamesOf` (parser): an import without an explicit name is referred to by the name of the
imported package, which need not be the last element of its path.  A blank import that had been
given the last element of its path loses it again when one of the corrected names clashes with it:
the name belongs to the import that can be referred to. -/
def importNamesOf (specs : List ImportSpec) : List (String × String) :=
  let m := specs.foldl (fun m s => if s.alias == "" && s.pkgName != "" then mapSet m s.path s.pkgName else m)
    (newImportNames specs)
  (specs.filter (fun s => s.alias == "_")).foldl (fun m s =>
    match (m.find? (·.1 == s.path)).map (·.2) with
    | some name => if m.any (fun e => e.1 != s.path && e.2 == name) then mapSet m s.path "_" else m
    | none => m) m

/-- the least string of a list (`!ok || p < path` over all candidates) -/
def leastPath : List String → Option String
  | [] => none
  | p :: ps =>
    match leastPath ps with
    | none => some p
    | some q => if p ≤ q then some p else some q

/-- `ImportNames.LookupPath`: Go iterates the map in random order and keeps the least path among
those that bear the name; the blank name refers to nothing. -/
def lookupPath (m : List (String × String)) (name : String) : Option String :=
  if name == "_" then none else leastPath ((m.filter (·.2 == name)).map (·.1))

def lookupPathAmbiguous (m : List (String × String)) (name : String) : Bool :=
  ((m.filter (·.2 == name)).length) > 1

end Convergen
