import Convergen.Model.Basic
/-!
# Text-level helpers: the four anchored regexps of `pkg/parser` written out by hand,
`strings.Fields`, `strings.ToLower`/`EqualFold` on the alphabet the harness generates,
`regexp.QuoteMeta`, `path.Ext`.

The hand-written matchers are validated against Go's `regexp` by the correspondence sweep
(the regexp *literals* themselves are pinned by `Bridge/Tables.lean`).
-/
namespace Convergen

/-- RE2 `\s` : `[\t\n\f\r ]` -/
def isReSpace (c : Char) : Bool := c == ' ' || c == '\t' || c == '\n' || c == '\x0c' || c == '\r'

/-- `unicode.IsSpace` -/
def isUniSpace (c : Char) : Bool :=
  isReSpace c || c == '\x0b' || c.toNat == 0x85 || c.toNat == 0xA0 || c.toNat == 0x1680 ||
  (0x2000 ≤ c.toNat && c.toNat ≤ 0x200A) || c.toNat == 0x2028 || c.toNat == 0x2029 ||
  c.toNat == 0x202F || c.toNat == 0x205F || c.toNat == 0x3000

/-- RE2 `\b` word characters (ASCII) -/
def isWordChar (c : Char) : Bool := c.isAlphanum || c == '_'

def dropWhileL (p : Char → Bool) : List Char → List Char
  | [] => []
  | c :: cs => if p c then dropWhileL p cs else c :: cs

def takeWhileL (p : Char → Bool) : List Char → List Char
  | [] => []
  | c :: cs => if p c then c :: takeWhileL p cs else []

/-- `strings.Fields` -/
def fieldsL : List Char → List (List Char)
  | cs =>
    let rec go (fuel : Nat) (cs : List Char) : List (List Char) :=
      match fuel with
      | 0 => []
      | fuel + 1 =>
        let cs := dropWhileL isUniSpace cs
        if cs.isEmpty then [] else
        takeWhileL (fun c => !isUniSpace c) cs :: go fuel (dropWhileL (fun c => !isUniSpace c) cs)
    go (cs.length + 1) cs

def fields (s : String) : List String := (fieldsL s.toList).map String.ofList

/-- strip `^\s*//\s*` ; `none` when the text does not start that way -/
def stripCommentLead (cs : List Char) : Option (List Char) :=
  match dropWhileL isReSpace cs with
  | '/' :: '/' :: rest => some (dropWhileL isReSpace rest)
  | _ => none

/-- no `.`-breaking newline in the rest (RE2 `.` excludes `\n`, `$` is end of text) -/
def noNewline (cs : List Char) : Bool := !cs.contains '\n'

/-- `reNotation = ^\s*//\s*:(\S+)\s*(.*)$` : submatches 1 and 2 -/
def matchNotation (text : String) : Option (String × String) :=
  match stripCommentLead text.toList with
  | some (':' :: rest) =>
    let name := takeWhileL (fun c => !isReSpace c) rest
    if name.isEmpty then none else
    let after := dropWhileL isReSpace (dropWhileL (fun c => !isReSpace c) rest)
    if noNewline after then some (String.ofList name, String.ofList after) else none
  | _ => none

/-- `reConvergen = ^\s*//\s*:convergen\b` (search) -/
def matchConvergen (text : String) : Bool :=
  match stripCommentLead text.toList with
  | some rest =>
    let kw := ":convergen".toList
    rest.take kw.length == kw &&
      (match rest.drop kw.length with
       | [] => true
       | c :: _ => !isWordChar c)
  | none => false

/-- `reLiteral = ^\s*\S+\s+(.*)$` : submatch 1 -/
def matchLiteral (s : String) : Option String :=
  let cs := dropWhileL isReSpace s.toList
  let word := takeWhileL (fun c => !isReSpace c) cs
  let rest := dropWhileL (fun c => !isReSpace c) cs
  if word.isEmpty then none else
  match rest with
  | [] => none
  | _ :: _ =>
    let lit := dropWhileL isReSpace rest
    if noNewline lit then some (String.ofList lit) else none

def startsWithL (pre : List Char) (cs : List Char) : Bool := cs.take pre.length == pre

/-- does `\b` hold after a keyword that ends in a word character -/
def wordEnd (rest : List Char) : Bool :=
  match rest with
  | [] => true
  | c :: _ => !isWordChar c

/-- `reGoBuildGen = ^\s*//\s*(go:(generate\b|build convergen\b)|\+build convergen)` (anchored at the
start of the comment text since the repair: a comment that merely mentions a directive is kept):
optional blanks, `//`, optional blanks, then one of the three directives -/
def matchGoBuildGenAt (cs : List Char) : Bool :=
  match cs with
  | '/' :: '/' :: rest =>
    let r := dropWhileL isReSpace rest
    (startsWithL "go:generate".toList r && wordEnd (r.drop "go:generate".length)) ||
    (startsWithL "go:build convergen".toList r && wordEnd (r.drop "go:build convergen".length)) ||
    startsWithL "+build convergen".toList r
  | _ => false

def matchGoBuildGen (text : String) : Bool :=
  matchGoBuildGenAt (dropWhileL isReSpace text.toList)

/-- `regexp.QuoteMeta` -/
def quoteMeta (s : String) : String :=
  String.ofList (s.toList.flatMap fun c => if "\\.+*?()|[]{}^$".toList.contains c then ['\\', c] else [c])

/-- `unicode.ToLower` on the alphabet the harness generates: ASCII plus a table of the
non-ASCII letters used to probe folding (`µ Μ μ ſ ς Σ σ Å å É é K ẞ ß`). -/
def goLowerChar (c : Char) : Char :=
  if c.toNat < 128 then c.toLower else
  match c with
  | 'Μ' => 'μ' | 'Σ' => 'σ' | 'Å' => 'å' | 'É' => 'é' | '\u212a' => 'k'   -- U+212A KELVIN SIGN → k
  | 'ẞ' => 'ß'
  | c => c

def goToLower (s : String) : String := String.ofList (s.toList.map goLowerChar)

/-- canonical representative of the simple-folding orbit (`strings.EqualFold` compares orbits) -/
def foldChar (c : Char) : Char :=
  if c.toNat < 128 then c.toLower else
  match c with
  | 'µ' => 'μ' | 'Μ' => 'μ'             -- U+00B5 MICRO SIGN, U+039C
  | 'ſ' => 's'                           -- U+017F LONG S
  | 'Σ' => 'σ' | 'ς' => 'σ'
  | 'Å' => 'å' | 'É' => 'é'
  | '\u212a' => 'k'                     -- U+212A KELVIN SIGN
  | 'ẞ' => 'ß'                           -- U+1E9E LATIN CAPITAL LETTER SHARP S ↔ U+00DF
  | c => c

/-- `strings.EqualFold` -/
def equalFold (a b : String) : Bool := a.toList.map foldChar == b.toList.map foldChar

/-- `ast.IsExported`: first rune upper case (ASCII and the capitals of the folding table) -/
def isExportedName (s : String) : Bool :=
  match s.toList with
  | [] => false
  | c :: _ => c.isUpper || c == 'Μ' || c == 'Σ' || c == 'Å' || c == 'É' || c == '\u212a' || c == 'ẞ'

/-- `path.Ext`: the suffix beginning at the final dot in the final slash-separated element -/
def pathExt (p : String) : String :=
  let rec go : List Char → List Char → List Char   -- reversed scan
    | [], _ => []
    | '/' :: _, _ => []
    | '.' :: _, acc => '.' :: acc
    | c :: rest, acc => go rest (c :: acc)
  String.ofList (go p.toList.reverse [])

def stripSuffixLen (s : String) (n : Nat) : String := String.ofList (s.toList.take (s.length - n))

end Convergen
