/-!
# Basic helpers shared by every model module (core Lean only)

`joinSep`/`concatMap` are written out by hand (instead of `String.intercalate`, `List.foldl`)
so that the Bridge lemmas about renderers are plain `simp`/induction proofs.
-/
namespace Convergen

/-- concatenation of the images of a list, left to right (a Go `for range` writing into a
`strings.Builder`). -/
def concatMap {α : Type} (f : α → String) : List α → String
  | [] => ""
  | x :: xs => f x ++ concatMap f xs

@[simp] theorem concatMap_nil {α} (f : α → String) : concatMap f [] = "" := rfl
@[simp] theorem concatMap_cons {α} (f : α → String) (x : α) (xs : List α) :
    concatMap f (x :: xs) = f x ++ concatMap f xs := rfl

theorem concatMap_append {α} (f : α → String) (xs ys : List α) :
    concatMap f (xs ++ ys) = concatMap f xs ++ concatMap f ys := by
  induction xs with
  | nil => simp
  | cons x xs ih => simp [ih, String.append_assoc]

/-- a Go `for i, x := range l` writing into a `strings.Builder` -/
def concatMapIdxFrom {α : Type} (f : Nat → α → String) : Nat → List α → String
  | _, [] => ""
  | k, x :: xs => f k x ++ concatMapIdxFrom f (k + 1) xs

def concatMapIdx {α : Type} (f : Nat → α → String) (l : List α) : String := concatMapIdxFrom f 0 l

/-- `strings.Join`. -/
def joinSep (sep : String) : List String → String
  | [] => ""
  | [x] => x
  | x :: y :: ys => x ++ sep ++ joinSep sep (y :: ys)

/-- The three outcomes of a Go computation that the properties distinguish. -/
inductive Outcome (α : Type) where
  | ok (a : α)
  | error (msgs : List String)
  | panic (site : String)
  deriving Repr, DecidableEq

namespace Outcome
def bind {α β} (o : Outcome α) (f : α → Outcome β) : Outcome β :=
  match o with
  | .ok a => f a
  | .error m => .error m
  | .panic s => .panic s
instance : Monad Outcome where
  pure := .ok
  bind := bind
def isOk {α} : Outcome α → Bool | .ok _ => true | _ => false
def isPanic {α} : Outcome α → Bool | .panic _ => true | _ => false
end Outcome

/-- first index / element helpers -/
def findFirst? {α} (p : α → Bool) : List α → Option α
  | [] => none
  | x :: xs => if p x then some x else findFirst? p xs

end Convergen

namespace Convergen
/-- Decide an equation between two string concatenations whatever the literal boundaries are:
go to `List Char`, flatten.  (Case-split `if`s first.) -/
macro "str_eq" : tactic =>
  `(tactic| (apply String.toList_inj.mp; simp [String.toList_append]))
end Convergen
