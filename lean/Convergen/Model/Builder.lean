import Convergen.Model.Options
/-!
# The assignment builder (L4: `pkg/builder/assignment.go`, `pkg/builder/model/{node,struct}.go`)

The builder is modelled as a pure function from `(go/types facts, options, operand nodes)` to a
structured statement list `List Stmt`.  Every warning the Go code prints while building is kept
*inside* the statement that caused it (`warns`), so stderr is a traversal of the result.
-/
namespace Convergen

/-- `bmodel.Node` -/
inductive Node where
  | root (name : String) (ty : TyId)
  | field (parent : Node) (name : String) (ty : TyId)
  | method (parent : Node) (name : String) (results : List TyId)
  | conv (arg : Node) (c : FieldConverter)
  | cast (inner : Node) (ty : TyId) (expr : String)
  | stringer (inner : Node)
  deriving Repr, DecidableEq, Inhabited

namespace Node

def exprType (env : Env) : Node → TyId
  | .root _ t => t
  | .field _ _ t => t
  | .method _ _ rs => rs.headD 0
  | .conv _ c => c.retTy
  | .cast _ t _ => t
  | .stringer _ => env.stringTy

def returnsError : Node → Bool
  | .method _ _ rs => rs.length == 2
  | .conv _ c => c.retError
  | _ => false

def objName : Node → String
  | .root n _ => n
  | .field _ n _ => n
  | .method _ n _ => n
  | .conv a _ => a.objName
  | .cast i _ _ => i.objName
  | .stringer i => i.objName

def assignExpr (env : Env) : Node → String
  | .root n _ => n
  | .field p n _ => p.assignExpr env ++ "." ++ n
  | .method p n _ => p.assignExpr env ++ "." ++ n ++ "()"
  | .conv a c =>
    c.fn ++ "(" ++ (if !env.isPtr (a.exprType env) && env.isPtr c.argTy then "&" else "") ++ a.assignExpr env ++ ")"
  | .cast i _ e => e ++ "(" ++ i.assignExpr env ++ ")"
  | .stringer i => i.assignExpr env ++ ".String()"

def matcherExpr : Node → String
  | .root _ _ => ""
  | .field p n _ => if p.matcherExpr == "" then n else p.matcherExpr ++ "." ++ n
  | .method p n _ => if p.matcherExpr == "" then n ++ "()" else p.matcherExpr ++ "." ++ n ++ "()"
  | .conv a _ => a.matcherExpr
  | .cast i _ _ => i.matcherExpr
  | .stringer i => i.matcherExpr

def objNullable (env : Env) : Node → Bool
  | .root _ t => env.isPtr t
  | .field _ _ t => env.isPtr t
  | .method _ _ rs => env.isPtr (rs.headD 0)
  | .conv a _ => a.objNullable env
  | .cast i _ _ => i.objNullable env
  | .stringer i => i.objNullable env

def nullCheckExpr (env : Env) : Node → String
  | .root n _ => n
  | .field p n _ => p.assignExpr env ++ "." ++ n
  | .method p n _ => p.assignExpr env ++ "." ++ n ++ "()"
  | .conv a c => (Node.conv a c).assignExpr env
  | .cast i _ _ => i.nullCheckExpr env
  | .stringer i => i.nullCheckExpr env

/-- `isAddressable`: a variable, or a field selected from an addressable struct or through a
pointer; the result of a call or a conversion is not addressable -/
def addressable (env : Env) : Node → Bool
  | .root _ _ => true
  | .field p _ _ => env.isPtr (p.exprType env) || p.addressable env
  | _ => false

/-- the loop `for ; root.Parent() != nil; root = root.Parent() {}`.  The builder only ever starts
it from operand/field/getter nodes; for the wrapper nodes the model walks through the wrapped
node. -/
def rootOf : Node → Node
  | .root n t => .root n t
  | .field p _ _ => p.rootOf
  | .method p _ _ => p.rootOf
  | .conv a _ => a.rootOf
  | .cast i _ _ => i.rootOf
  | .stringer i => i.rootOf

end Node

/-- right-hand side of a simple assignment -/
inductive Rhs where
  | node (n : Node)
  | literal (text : String)
  deriving Repr, DecidableEq, Inhabited

/-- structured form of `gmodel.Assignment`.  `warns` are the stderr lines printed while this
statement was being decided, in order. -/
inductive Stmt where
  | skip (lhs : Node)
  | noMatch (lhs : Node) (warns : List String)
  | simple (lhs : Node) (rhs : Rhs) (err : Bool) (warns : List String)
  | nest (lhs rhs : Node) (initExpr nullCheck : String) (body : List Stmt) (warns : List String)
  | sliceCopy (lhs rhs : Node) (typ : String)
  | sliceLoop (lhs rhs : Node) (typ : String)
  | sliceCast (lhs rhs : Node) (typ cast : String)
  deriving Repr, Inhabited

/-- everything the builder of one method needs -/
structure BCtx where
  env : Env
  eng : Engine
  opts : Options
  /-- `fset.Position(methodPos)` -/
  methodPos : String
  /-- the generated function has an error result (`MethodEntry.RetError()`) -/
  retError : Bool := true

namespace BCtx
variable (ctx : BCtx)

/-- the conversion operator text for a target type: a pointer type needs parentheses, `(*T)(x)` -/
def castOperator (isPtr : Bool) (baseExpr : String) : String :=
  if isPtr then
    "(*" ++ String.ofList (match baseExpr.toList with | '*' :: r => r | cs => cs) ++ ")"   -- `TrimPrefix(expr, "*")`
  else baseExpr

/-- `NewTypecast`: `.ok none` = not implemented -/
def newTypecast (t : TyId) (inner : Node) : Outcome (Option Node) :=
  let env := ctx.env
  let d := env.derefPtr t
  let op := castOperator (env.isPtr t)
  match env.kind d with
  | .named =>
    let ti := env.ty d
    if ti.hasTypeArgs then .ok (some (.cast inner t (op (env.typeNameF d)))) else
    if ti.pkgPath.isNone || ti.inScope then .ok (some (.cast inner t (op ti.name))) else
    match ti.pkgPath with
    | none => .ok (some (.cast inner t (op ti.name)))
    | some p =>
      match env.importName p with
      | some n =>
        if n == "." then .ok (some (.cast inner t (op ti.name)))   -- a dot-imported type needs no qualifier
        else .ok (some (.cast inner t (op (n ++ "." ++ ti.name))))
      | none => .ok (some (.cast inner t (op (ti.pkgName ++ "." ++ ti.name))))
  | .basic => .ok (some (.cast inner t (op (env.ty t).str)))
  | _ => .ok none

/-- `castNode`: the node (if any) and the warnings printed -/
def castNode (lhsType : TyId) (rhs : Node) : Outcome (Option Node × List String) :=
  let env := ctx.env
  let rt := rhs.exprType env
  if env.assignable rt lhsType then .ok (some rhs, []) else
  -- a call that also returns an error cannot be wrapped in a conversion or a `String()` call
  if rhs.returnsError then .ok (none, []) else
  if ctx.opts.stringer && env.assignable env.stringTy lhsType && env.compliesStringer rt then
    .ok (some (.stringer rhs), [])
  else if ctx.opts.typecast && env.convertible rt lhsType then
    match ctx.newTypecast lhsType rhs with
    | .ok (some c) => .ok (some c, [])
    | .ok none =>
      .ok (none, [s!"{ctx.methodPos}: typecast for {env.typeNameF lhsType} is not implemented(yet) for {rhs.assignExpr env}"])
    | .error e => .error e
    | .panic s => .panic s
  else .ok (none, [])

/-- `isStructFieldAccessible`: the rule of the language, as `types.LookupFieldOrMethod` from the
generated package applies it — a member is visible if it is exported or declared in that package,
whichever type it is reached through; the blank field never -/
def accessible (structNode : Node) (leaf : String) : Bool :=
  let env := ctx.env
  let st := env.derefPtr (structNode.exprType env)
  if !env.isStructType st then false else
  if leaf == "_" then false else
  env.visibleMember st leaf

/-- the common walk of `resolveExpr`/`resolveTemplatedExpr` over path segments -/
def walkPath : List String → Node → TyId → Option Node
  | [], _, _ => none
  | seg :: rest, node, typ =>
    let env := ctx.env
    let external := env.isExternalPkg (env.pkgOf typ)
    match env.lookup typ (nameAt seg) with
    | .none => none
    | .method m =>
      -- `LookupFieldOrMethod(typ, isAddressable(node), …)`: a pointer-receiver method on a value without address
      if m.needsAddr && !node.addressable env then none else
      if !forGetter seg then none else
      if external && !isExportedName m.name then none else
      match env.parseGetterReturnTypes m with
      | none => none
      | some (ret, retError) =>
        let node' := Node.method node m.name m.results
        if rest.isEmpty then some node' else
        if retError then none else walkPath rest node' ret
    | .field fname fty =>
      if forGetter seg then none else
      if external && !isExportedName fname then none else
      let node' := Node.field node fname fty
      if rest.isEmpty then some node' else walkPath rest node' fty

/-- `resolveExpr` -/
def resolveExpr (pattern : String) (root : Node) : Option Node :=
  ctx.walkPath (identPaths pattern) root (root.exprType ctx.env)

/-- `strconv.ParseInt(s, 10, 64)` for the values that matter (optional sign, decimal digits) -/
def parseInt (s : String) : Option Int :=
  let (neg, ds) := match s.toList with
    | '-' :: r => (true, r)
    | '+' :: r => (false, r)
    | r => (false, r)
  if ds.isEmpty || !ds.all Char.isDigit then none else
  let n : Nat := ds.foldl (fun a c => a * 10 + (c.toNat - '0'.toNat)) 0
  if n > 9223372036854775807 then none else some (if neg then -(n : Int) else n)

/-- `resolveTemplatedExpr` -/
def resolveTemplatedExpr (pattern : String) (args : List Node) : Option Node :=
  match identPaths pattern with
  | [] => none
  | first :: rest =>
    match parseInt (String.ofList (first.toList.drop 1)) with
    | none => none
    | some idx =>
      let i := idx - 1
      if i < 0 || (args.length : Int) ≤ i then none else
      match args[i.toNat]? with
      | none => none
      | some node =>
        if rest.isEmpty then some node else ctx.walkPath rest node (node.exprType ctx.env)

/-- the warning printed with every `NoMatchField` -/
def noAssignmentWarn (pos : String) (lhs : Node) : String :=
  s!"{pos}: no assignment for {lhs.assignExpr ctx.env} [{ctx.env.typeNameF (lhs.exprType ctx.env)}]"

def noMatchAt (pos : String) (lhs : Node) (pre : List String) : Outcome Stmt :=
  .ok (.noMatch lhs (pre ++ [ctx.noAssignmentWarn pos lhs]))

/-- the argument handed to a converter: the resolved source cast to the parameter type, or — for a
pointer parameter — to its element type (the call then takes the address) -/
def convArg (c : FieldConverter) (rhsNode : Node) : Outcome (Option Node × List String) :=
  if rhsNode.returnsError then .ok (none, []) else   -- a `(value, error)` getter is no argument
  match ctx.castNode c.argTy rhsNode with
  | .ok (some a, w1) => .ok (some a, w1)
  | .ok (none, w1) =>
    if !ctx.env.isPtr c.argTy then .ok (none, w1) else
    match ctx.castNode (ctx.env.derefPtr c.argTy) rhsNode with
    | .ok (some a2, w2) => if a2.addressable ctx.env then .ok (some a2, w1 ++ w2) else .ok (none, w1 ++ w2)
    | .ok (none, w2) => .ok (none, w1 ++ w2)
    | .error e => .error e
    | .panic p => .panic p
  | .error e => .error e
  | .panic p => .panic p

/-- the assignment from a converter call: a converter that can fail needs an error result to carry
the error, otherwise the field is reported `no match` -/
def convAssign (lhs : Node) (c : FieldConverter) (casted? : Option Node) (warns : List String) : Outcome Stmt :=
  match casted? with
  | some n =>
    if c.retError && !ctx.retError then ctx.noMatchAt c.pos lhs warns
    else .ok (.simple lhs (.node n) c.retError warns)
  | none => ctx.noMatchAt c.pos lhs warns

/-- `createWithConverter` -/
def createWithConverter (lhs rhs : Node) (c : FieldConverter) : Outcome Stmt :=
  match ctx.resolveExpr c.src rhs.rootOf with
  | none => ctx.noMatchAt c.pos lhs []
  | some rhsNode =>
    match ctx.convArg c rhsNode with
    | .ok (none, w) => ctx.noMatchAt c.pos lhs w
    | .ok (some argNode, w) =>
      match ctx.castNode (lhs.exprType ctx.env) (.conv argNode c) with
      | .ok (casted?, w3) => ctx.convAssign lhs c casted? (w ++ w3)
      | .error e => .error e
      | .panic p => .panic p
    | .error e => .error e
    | .panic p => .panic p

/-- the common tail of `createWithMapper`/`createWithTemplatedMapper` -/
def createMapped (lhs : Node) (pos : String) (rhsNode? : Option Node) : Outcome Stmt := do
  match rhsNode? with
  | none => ctx.noMatchAt pos lhs []
  | some rhsNode =>
    let (casted?, w) ← ctx.castNode (lhs.exprType ctx.env) rhsNode
    match casted? with
    | some n =>
      if n.returnsError && !ctx.retError then ctx.noMatchAt pos lhs w
      else pure (.simple lhs (.node n) n.returnsError w)
    | none => ctx.noMatchAt pos lhs w

/-- `conversionOperator`: a type name as the operator of a conversion; a pointer type needs
parentheses, `(*T)(x)` -/
def _root_.Convergen.conversionOperator (typeName : String) : String :=
  if typeName.toList.head? == some '*' then "(" ++ typeName ++ ")" else typeName

/-- `sliceToSlice` -/
def sliceToSlice (lhs rhs : Node) : Outcome (Option Stmt) :=
  let env := ctx.env
  let le := env.sliceElem (lhs.exprType env)
  let re := env.sliceElem (rhs.exprType env)
  if env.assignable re le then
    if env.isBasicType re && env.identical re le then .ok (some (.sliceCopy lhs rhs ("[]" ++ (env.ty le).str)))
    else .ok (some (.sliceLoop lhs rhs ("[]" ++ env.typeNameF le)))
  else if ctx.opts.typecast && env.convertible re le then
    .ok (some (.sliceCast lhs rhs ("[]" ++ env.typeNameF le) (conversionOperator (env.typeNameF le))))
  else .ok none

/-- state of the two candidate passes of `structFieldAndStructGettersAndFields`: the assignment found
so far (the search stops at the first candidate that yields one) and the warnings printed on the way -/
structure Pass where
  a : Option Stmt := none
  warns : List String := []

/-- `addressed`: a `:skip`, `:conv`, `:map` or `:literal` notation names the destination path -/
def addressed (path : String) : Outcome Bool :=
  match ctx.opts.shouldSkip ctx.eng path with
  | .ok true => .ok true
  | .ok false =>
    .ok (ctx.opts.converters.any (fun c => identMatch c.dst path true) ||
         ctx.opts.nameMapper.any (fun m => identMatch m.dst path true) ||
         ctx.opts.templatedNameMapper.any (fun m => identMatch m.dst path true) ||
         ctx.opts.literals.any (fun l => identMatch l.dst path true))
  | .error e => .error e
  | .panic p => .panic p

/-- first `true` in list order (the iteration stops there) -/
def anyOutcome {α : Type} (f : α → Outcome Bool) : List α → Outcome Bool
  | [] => .ok false
  | x :: xs =>
    match f x with
    | .ok true => .ok true
    | .ok false => anyOutcome f xs
    | .error e => .error e
    | .panic p => .panic p

/-- `addressedBelow`: a notation names a member beneath the destination struct field.  `fuel`
bounds the by-value struct nesting (Go forbids by-value recursion: the number of types suffices). -/
def addressedBelow : Nat → Node → Outcome Bool
  | 0, _ => .panic "addressedBelow: out of fuel"
  | fuel + 1, lhs =>
    let env := ctx.env
    if !env.isStructType (lhs.exprType env) then .ok false else
    let members := ((env.fieldsOf (lhs.exprType env)).filter fun f => ctx.accessible lhs f.name).map
      fun f => Node.field lhs f.name f.ty
    anyOutcome (fun m =>
      match ctx.addressed m.matcherExpr with
      | .ok true => .ok true
      | .ok false => addressedBelow fuel m
      | .error e => .error e
      | .panic p => .panic p) members

/-- the second half of the `handler` closure: the candidate after `castNode`, or — for two struct
types — the member-by-member block.  `memberwise` forces the block although the whole would fit. -/
def castOrNest (rec : Node → Node → Outcome (List Stmt)) (lhs cand : Node) (warns : List String) (memberwise : Bool) :
    Outcome (Option Stmt × List String) :=
  let env := ctx.env
  let lt := lhs.exprType env
  let ct := cand.exprType env
  match ctx.castNode lt cand with
  | .error e => .error e
  | .panic p => .panic p
  | .ok (c?, w) =>
    match (if memberwise then none else c?) with
    | some c => .ok (some (.simple lhs (.node c) c.returnsError (warns ++ w)), warns)
    | none =>
      if env.isStructType lt && env.isStructType ct then
        let initExpr := if env.isPtr lt then lhs.assignExpr env ++ " = " ++ env.typeNameF lt ++ "{}" else ""
        let nullCheck := if cand.objNullable env then cand.nullCheckExpr env else ""
        match rec lhs cand with
        | .error e => .error e
        | .panic p => .panic p
        | .ok body =>
          if body.isEmpty then .ok (none, warns ++ w)
          else .ok (some (.nest lhs cand initExpr nullCheck body (warns ++ w)), warns ++ w)
      else
        .ok (none, warns ++ w)

/-- a struct member is not copied as a whole when a notation names something beneath it -/
def memberwise (lhs cand : Node) : Outcome Bool :=
  let env := ctx.env
  if env.isStructType (lhs.exprType env) && env.isStructType (cand.exprType env)
  then ctx.addressedBelow (env.tys.size + 1) lhs else .ok false

/-- what one source candidate yields for `lhs` (the body of the `handler` closure): a statement, or
nothing — then with the warnings printed while trying.  `rec` is the nested `structToStruct` call. -/
def tryCand (rec : Node → Node → Outcome (List Stmt)) (lhs rhsStruct : Node) (warns : List String) (cand : Node) :
    Outcome (Option Stmt × List String) :=
  let env := ctx.env
  if !ctx.accessible rhsStruct cand.objName || !ctx.opts.compareFieldName lhs.objName cand.objName then
    .ok (none, warns)
  else
  match (if env.isSliceType (lhs.exprType env) && env.isSliceType (cand.exprType env)
         then ctx.sliceToSlice lhs cand else .ok none) with
  | .error e => .error e
  | .panic p => .panic p
  | .ok (some s) => .ok (some s, warns)
  | .ok none =>
    match ctx.memberwise lhs cand with
    | .error e => .error e
    | .panic p => .panic p
    | .ok mw => ctx.castOrNest rec lhs cand warns mw

/-- the `handler` closure over the pass state.  A candidate that yields nothing leaves the search
open (`return a != nil || err != nil`). -/
def handler (rec : Node → Node → Outcome (List Stmt)) (lhs rhsStruct : Node) (st : Pass) (cand : Node) :
    Outcome Pass :=
  if st.a.isSome then .ok st else
  match ctx.tryCand rec lhs rhsStruct st.warns cand with
  | .ok (a, w) => .ok { a := a, warns := w }
  | .error e => .error e
  | .panic p => .panic p

/-- the source candidates in the order they are tried: getters first (only under `:getter`), then
fields — and none at all unless the rule is `:match name` -/
def candidates (rhsStruct : Node) : List Node :=
  let env := ctx.env
  let rt := rhsStruct.exprType env
  if ctx.opts.rule == .name then
    (if ctx.opts.getter then
      -- a getter with a pointer receiver is no candidate on a value that is not addressable (the
      -- `handler` closure looks it up with `isAddressable(rhsStruct)` and returns without a change)
      ((env.methodsOf rt).filter fun m =>
          env.compliesGetter m && !(m.ptrRecv && !env.isPtr rt && !rhsStruct.addressable env)).map
        fun m => Node.method rhsStruct m.name m.results
     else []) ++
    ((env.fieldsOf rt).map fun f => Node.field rhsStruct f.name f.ty)
  else []

/-- `structFieldAndStructGettersAndFields` -/
def fieldDefault (rec : Node → Node → Outcome (List Stmt)) (lhs rhsStruct : Node) : Outcome Stmt := do
  let st ← foldOutcome (ctx.handler rec lhs rhsStruct) {} (ctx.candidates rhsStruct)
  match st.a with
  | some a => return a
  | none => ctx.noMatchAt ctx.methodPos lhs st.warns

/-- `matchStructFieldAndStruct`: the precedence chain -/
def matchField (rec : Node → Node → Outcome (List Stmt)) (lhs rhs : Node) (args : List Node) : Outcome Stmt := do
  let path := lhs.matcherExpr
  let skip ← ctx.opts.shouldSkip ctx.eng path
  if skip then return .skip lhs
  match ctx.opts.converters.find? (fun c => identMatch c.dst path true) with
  | some c => ctx.createWithConverter lhs rhs c
  | none =>
  match ctx.opts.nameMapper.find? (fun m => identMatch m.dst path true) with
  | some m => ctx.createMapped lhs m.pos (ctx.resolveExpr m.src rhs.rootOf)
  | none =>
  match ctx.opts.templatedNameMapper.find? (fun m => identMatch m.dst path true) with
  | some m => ctx.createMapped lhs m.pos (ctx.resolveTemplatedExpr m.src (rhs.rootOf :: args))
  | none =>
  match ctx.opts.literals.find? (fun l => identMatch l.dst path true) with
  | some l => return .simple lhs (.literal l.literal) false []
  | none => ctx.fieldDefault rec lhs rhs

/-- `structToStruct` with the recursive call abstracted -/
def structToStructWith (rec : Node → Node → Outcome (List Stmt)) (lhsStruct rhsStruct : Node)
    (args : List Node) : Outcome (List Stmt) :=
  let env := ctx.env
  let fs := (env.fieldsOf (lhsStruct.exprType env)).filter fun f => ctx.accessible lhsStruct f.name
  let rec go : List Field → Outcome (List Stmt)
    | [] => .ok []
    | f :: rest =>
      match ctx.matchField rec (.field lhsStruct f.name f.ty) rhsStruct args with
      | .ok s => (match go rest with
          | .ok ss => .ok (s :: ss)
          | .error e => .error e
          | .panic p => .panic p)
      | .error e => .error e
      | .panic p => .panic p
  go fs

/-- `structToStruct`; `fuel` bounds the by-value struct nesting depth (Go forbids by-value
recursive structs, so `fuel = number of types` always suffices). -/
def structToStruct : Nat → Node → Node → List Node → Outcome (List Stmt)
  | 0, _, _, _ => .panic "out of fuel"
  | fuel + 1, l, r, args => ctx.structToStructWith (fun l' r' => structToStruct fuel l' r' args) l r args

/-- `dispatch` -/
def dispatch (fuel : Nat) (lhs rhs : Node) (args : List Node) : Outcome (List Stmt) :=
  let env := ctx.env
  if env.isStructType (env.derefPtr (lhs.exprType env)) && env.isStructType (env.derefPtr (rhs.exprType env))
  then ctx.structToStruct fuel lhs rhs args
  else .ok [.noMatch lhs [s!"{ctx.methodPos}: no assignment (non-struct operands)"]]

end BCtx

/-! ## from the structured statements to the generator's input and to stderr -/

mutual
/-- `usesElementLoop`: a statement, at any nesting depth, copies a slice element by element
(`for i, e := range …`) -/
def Stmt.usesLoop : Stmt → Bool
  | .sliceLoop _ _ _ => true
  | .sliceCast _ _ _ _ => true
  | .nest _ _ _ _ body _ => Stmt.listUsesLoop body
  | _ => false
def Stmt.listUsesLoop : List Stmt → Bool
  | [] => false
  | s :: rest => Stmt.usesLoop s || Stmt.listUsesLoop rest
end

mutual
def Stmt.toAssignments (env : Env) : Stmt → List Assignment
  | .skip lhs => [.skipField (lhs.assignExpr env)]
  | .noMatch lhs _ => [.noMatchField (lhs.assignExpr env)]
  | .simple lhs (.node n) err _ => [.simpleField (lhs.assignExpr env) (n.assignExpr env) err]
  | .simple lhs (.literal t) err _ => [.simpleField (lhs.assignExpr env) t err]
  | .nest _ _ i n body _ => [.nestStruct i n (Stmt.listToAssignments env body)]
  | .sliceCopy l r t => [.sliceAssignment (l.assignExpr env) (r.assignExpr env) t]
  | .sliceLoop l r t => [.sliceLoopAssignment (l.assignExpr env) (r.assignExpr env) t]
  | .sliceCast l r t c => [.sliceTypecastAssignment (l.assignExpr env) (r.assignExpr env) t c]
def Stmt.listToAssignments (env : Env) : List Stmt → List Assignment
  | [] => []
  | s :: ss => Stmt.toAssignments env s ++ Stmt.listToAssignments env ss
end

mutual
/-- stderr lines in the order the Go code prints them: a statement's own warnings come after
those of the nested statements built before it was completed -/
def Stmt.warnings : Stmt → List String
  | .skip _ => []
  | .noMatch _ w => w
  | .simple _ _ _ w => w
  | .nest _ _ _ _ body w => w ++ Stmt.listWarnings body
  | .sliceCopy .. => []
  | .sliceLoop .. => []
  | .sliceCast .. => []
def Stmt.listWarnings : List Stmt → List String
  | [] => []
  | s :: ss => Stmt.warnings s ++ Stmt.listWarnings ss
end

end Convergen
