import Convergen.Model.Basic
/-!
# L6: marker planting of `GenerateBaseCode` (`util.InsertComment`) and the cut/replace on text

Comment groups are modelled by their byte extent.  A marker pseudo-comment claims
`markerLen = len(marker)` bytes although it occupies none in the source: this fake extent is what
the position arithmetic of `InsertComment` depends on.
-/
namespace Convergen

/-- length of a nanoid marker (`gonanoid` default size) -/
def markerLen : Nat := 21

/-- a comment group as `InsertComment` sees it -/
structure CG where
  /-- `cg.Pos()` -/
  pos : Nat
  /-- `cg.End()` -/
  endp : Nat
  /-- ids of the marker comments in the group's list, in order -/
  markers : List Nat := []
  /-- `len(cg.List) == 0` (a wiped interface doc): skipped by the loop -/
  empty : Bool := false
  deriving Repr, DecidableEq, Inhabited

def markerGroup (p id : Nat) : CG := { pos := p, endp := p + markerLen, markers := [id] }

/-- `util.InsertComment(file, marker, pos)` -/
def insertComment : List CG → Nat → Nat → List CG
  | [], p, id => [markerGroup p id]
  | g :: rest, p, id =>
    if g.empty then g :: insertComment rest p id
    else if p < g.pos then markerGroup p id :: g :: rest
    else if p < g.endp then { g with endp := p + markerLen, markers := g.markers ++ [id] } :: rest
    else g :: insertComment rest p id

/-- one converter interface: opening and closing position of its method list, and its marker id -/
structure Entry where
  lbrace : Nat
  rbrace : Nat
  id : Nat
  deriving Repr, DecidableEq, Inhabited

/-- the two insertions `GenerateBaseCode` makes per interface: closing marker first, then the
opening one (the order matters, see `Props/C03`) -/
def plantEntry (gs : List CG) (e : Entry) : List CG :=
  insertComment (insertComment gs e.rbrace e.id) e.lbrace e.id

/-- the order used before the repair of DESIGN §5 #2 -/
def plantEntryOld (gs : List CG) (e : Entry) : List CG :=
  insertComment (insertComment gs e.lbrace e.id) e.rbrace e.id

def plantAll (gs : List CG) (es : List Entry) : List CG := es.foldl plantEntry gs

/-! ## the printed text and the cut -/

/-- printed base code over the alphabet "ordinary character or marker i" (a 21-character nanoid is
assumed not to occur in user text) -/
inductive Sym where
  | ch (c : Char)
  | mark (i : Nat)
  deriving Repr, DecidableEq, Inhabited

def isNewline : Sym → Bool
  | .ch c => c == '\n'
  | .mark _ => false

/-- split at the first occurrence of marker `i` -/
def splitAtMark (i : Nat) : List Sym → Option (List Sym × List Sym)
  | [] => none
  | s :: rest =>
    if s == .mark i then some ([], rest)
    else (splitAtMark i rest).map fun (a, b) => (s :: a, b)

/-- the beginning of the line in which a prefix ends: everything after its last newline -/
def lastLineStart (pre : List Sym) : List Sym × List Sym :=
  let rev := pre.reverse
  let line := (rev.takeWhile (fun s => !isNewline s)).reverse
  (pre.take (pre.length - line.length), line)

/-- the effect of `re.ReplaceAllString(base, marker)` with `re = .+M.*(\n|.)*?M` for a text that
contains marker `i` exactly twice: from the start of the line that holds the first occurrence
(`.+` needs at least one character before it on that line) up to and including the second
occurrence, everything is replaced by one marker.  `none` = the regexp does not match. -/
def cut (i : Nat) (text : List Sym) : Option (List Sym) :=
  match splitAtMark i text with
  | none => none
  | some (pre, rest) =>
    match splitAtMark i rest with
    | none => none
    | some (_, post) =>
      let (keep, line) := lastLineStart pre
      if line.isEmpty then none else some (keep ++ [.mark i] ++ post)

/-- `strings.Replace(code, marker, funcs, 1)` -/
def replaceFirst (i : Nat) (block : List Sym) (text : List Sym) : List Sym :=
  match splitAtMark i text with
  | none => text
  | some (pre, post) => pre ++ block ++ post

end Convergen
