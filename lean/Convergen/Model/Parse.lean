import Convergen.Model.Method
import Convergen.Model.Render
import Convergen.Model.BaseCode
/-!
# `Parser.Parse` (L3: `pkg/parser/{parser,interface,method}.go`) and the pipeline up to the
generated function blocks

The setup file's comment groups and the `Doc` fields of its AST are the only mutable state of
the parser; they are modelled explicitly (`DocState`).
-/
namespace Convergen

/-- a package-scope object as `findConvergenEntries` sees it -/
structure ScopeObj where
  name : String
  pos : String
  /-- `obj.Type().Underlying()` is a `*types.Interface` -/
  isInterface : Bool
  /-- the object is a declared type (`*types.TypeName`), not a variable or function of interface type -/
  isType : Bool := true
  /-- the object is declared in the setup file -/
  inSetupFile : Bool
  /-- doc-bearing AST nodes enclosing the declaration, innermost first -/
  docChain : List Nat := []
  /-- method set of the interface, sorted as `types.NewMethodSet` does -/
  methods : List MethodDecl := []
  /-- byte offsets of the braces of the interface's method list -/
  lbrace : Nat := 0
  rbrace : Nat := 0
  deriving Repr, Inhabited

/-- what the parser reads of the setup file -/
structure FileFacts where
  /-- `Position(file.Package)` -/
  packagePos : String
  /-- comment groups (`file.Comments`), each a list of comment lines -/
  groups : List (List Comment)
  /-- `Doc` field of every doc-bearing AST node (index = node id): a group index -/
  docOf : List (Option Nat)
  /-- package scope in `Scope.Names()` order (sorted) -/
  scope : List ScopeObj
  deriving Repr, Inhabited

/-- the mutable part -/
structure DocState where
  groups : List (List Comment)
  docOf : List (Option Nat)
  deriving Repr, Inhabited

namespace DocState

def group (s : DocState) (g : Nat) : List Comment := s.groups.getD g []
def setGroup (s : DocState) (g : Nat) (l : List Comment) : DocState := { s with groups := s.groups.set g l }

/-- `GetDocCommentOn`.  The chain lists the doc-bearing AST nodes that enclose the object, innermost
first, each encoded as `id * 8 + kind` (1 GenDecl, 2 FuncDecl, 3 TypeSpec, 4 Field, 5 File).  The
first GenDecl / FuncDecl / TypeSpec whose `Doc` is set wins; a Field (an interface method) owns its
doc — set or not, the search ends there; the File's doc is never used. -/
def docOn (s : DocState) : List Nat → Option (Nat × Nat)
  | [] => none
  | enc :: rest =>
    let n := enc / 8
    let kind := enc % 8
    if kind == 4 then (s.docOf.getD n none).map fun g => (n, g)
    else if kind == 5 then docOn s rest
    else match (s.docOf.getD n none) with
      | some g => some (n, g)
      | none => docOn s rest

/-- the `cleanUp` closure: drop the `Doc` pointer when its list became empty -/
def cleanUp (s : DocState) (node g : Nat) : DocState :=
  if (s.group g).isEmpty then { s with docOf := s.docOf.set node none } else s

/-- `ExtractMatchComments`: remove the matching lines from the group and return them -/
def extract (s : DocState) (g : Nat) (p : String → Bool) : List Comment × DocState :=
  let l := s.group g
  (l.filter (fun c => p c.text), s.setGroup g (l.filter (fun c => !p c.text)))

end DocState

def isNotationLine (t : String) : Bool := (matchNotation t).isSome

/-- the doc comments of two methods are different AST nodes and different comment groups (a fact of
`go/ast`: every interface method is its own `Field`); evaluated by the driver on every input -/
def apartCheck (s : DocState) (c1 c2 : List Nat) : Bool :=
  match s.docOn c1 with
  | none => true
  | some (n1, g1) =>
    c2.all (fun enc => enc / 8 != n1) &&
    (match s.docOn c2 with
     | none => true
     | some (_, g2) => g2 != g1)

/-- all pairs of distinct methods of the file's interfaces are apart -/
def FileFacts.methodsApart (f : FileFacts) : Bool :=
  let s : DocState := { groups := f.groups, docOf := f.docOf }
  -- a method inherited through an embedded interface is listed with every interface that has it: one method
  let ms := ((f.scope.filter (fun o => o.isInterface && o.inSetupFile)).flatMap (·.methods)).foldl
    (fun acc m => if acc.any (fun m' => m'.pos == m.pos && m'.name == m.name) then acc else acc ++ [m]) []
  let rec go : List MethodDecl → Bool
    | [] => true
    | m :: rest => rest.all (fun m' => apartCheck s m.docChain m'.docChain && apartCheck s m'.docChain m.docChain) && go rest
  go ms

/-- `intfEntry` -/
structure IntfEntry where
  obj : ScopeObj
  opts : Options
  deriving Repr, Inhabited

/-- messages on stderr / stdout and the parser state, threaded through `Parse` -/
structure PState where
  docs : DocState
  stderr : List String := []
  stdout : List String := []
  deriving Inhabited

/-- how a run of the front half ends -/
inductive Halt where
  | error    -- an `error` travelled up to `main`
  | panic (site : String)
  deriving Repr, DecidableEq, Inhabited

abbrev PM' (α : Type) := PState → Except (Halt × PState) (α × PState)

/-- `logger.Errorf` followed by `main` printing the returned error once more -/
def failTwice {α : Type} (msg : String) : PM' α :=
  fun st => .error (.error, { st with stderr := st.stderr ++ [msg, msg] })

/-- which options value an interface entry keeps: the options parsed from its own doc comment
(before the repair of DESIGN §5 #1 the parser-wide defaults `p.opts` were stored instead). -/
def storedIntfOpts (parsed : Options) (_parserDefaults : Options) : Options := parsed

/-- does the doc comment found for an object carry a `:convergen` line -/
def docHasConvergen (st : PState) (obj : ScopeObj) : Bool :=
  match st.docs.docOn obj.docChain with
  | some (_, g) => (st.docs.group g).any (fun c => matchConvergen c.text)
  | none => false

/-- the selection rule of `findConvergenEntries`: an interface type declared in the setup file that
is named `Convergen` or whose doc has a `:convergen` line -/
def isTargetIntf (intfName : String) (st : PState) (obj : ScopeObj) : Bool :=
  obj.isType && obj.isInterface && obj.inSetupFile && (obj.name == intfName || docHasConvergen st obj)

/-- what one iteration of the loop of `findConvergenEntries` does -/
inductive EntryStep where
  | notTarget
  | entry (e : IntfEntry) (st : PState)
  | halt (h : Halt) (st : PState)

def entryStep (env : Env) (sc : Scope) (eng : Engine) (intfName : String) (obj : ScopeObj) (st : PState) :
    EntryStep :=
  if !isTargetIntf intfName st obj then .notTarget else
  let doc := st.docs.docOn obj.docChain
  let (notations, docs) := match doc with
    | some (node, g) =>
      let (ns, d) := st.docs.extract g isNotationLine
      let d := d.setGroup g []
      (ns, d.cleanUp node g)
    | none => ([], st.docs)
  let st := { st with docs := docs }
  match parseNotations env sc eng validOpsIntf notations newOptions with
  | .error msgs => .halt .error { st with stderr := st.stderr ++ msgs ++ msgs }
  | .panic s => .halt (.panic s) st
  | .ok res =>
    .entry { obj := obj, opts := storedIntfOpts res.opts newOptions } { st with stdout := st.stdout ++ res.stdout }

/-- `findConvergenEntries` -/
def findConvergenEntries (env : Env) (sc : Scope) (eng : Engine) (file : FileFacts) (intfName : String) :
    List ScopeObj → List IntfEntry → PM' (List IntfEntry)
  | [], acc => fun st =>
    if acc.isEmpty then failTwice s!"{file.packagePos}: {intfName} interface not found" st
    else .ok (acc, st)
  | obj :: rest, acc => fun st =>
    match entryStep env sc eng intfName obj st with
    | .notTarget => findConvergenEntries env sc eng file intfName rest acc st
    | .entry e st' => findConvergenEntries env sc eng file intfName rest (acc ++ [e]) st'
    | .halt h st' => .error (h, st')

/-- an entry's method after `parseMethod`, with the doc group it reads its comments from -/
structure ParsedMethod where
  decl : MethodDecl
  opts : Options
  docGroup : Option Nat
  deriving Inhabited

/-- `parseMethod`: `none` = this method failed (message already on stderr, twice) -/
def parseMethod (env : Env) (sc : Scope) (eng : Engine) (m : MethodDecl) (opts : Options) :
    PState → Except (Halt × PState) (Option ParsedMethod × PState) := fun st =>
  let fail (msg : String) : Except (Halt × PState) (Option ParsedMethod × PState) :=
    .ok (none, { st with stderr := st.stderr ++ [msg, msg] })
  if m.params.isEmpty then fail s!"{m.pos}: method must have one or more arguments as copy source" else
  if m.results.isEmpty then fail s!"{m.pos}: method must have one or more return values as copy destination" else
  let doc := st.docs.docOn m.docChain
  let (notations, docs) := match doc with
    | some (_, g) => st.docs.extract g isNotationLine
    | none => ([], st.docs)
  match parseNotations env sc eng validOpsMethod notations opts with
  | .error msgs => .ok (none, { st with docs := docs, stderr := st.stderr ++ msgs ++ msgs })
  | .panic s => .error (.panic s, { st with docs := docs })
  | .ok res =>
    let docs := match doc with
      | some (node, g) => docs.cleanUp node g
      | none => docs
    .ok (some { decl := m, opts := res.opts, docGroup := doc.map (·.2) },
         { st with docs := docs, stdout := st.stdout ++ res.stdout })

/-- `parseMethods`: all-or-nothing -/
def parseMethods (env : Env) (sc : Scope) (eng : Engine) (entry : IntfEntry) :
    PM' (List ParsedMethod) := fun st =>
  let rec go : List MethodDecl → List ParsedMethod → Bool → PState →
      Except (Halt × PState) (List ParsedMethod × PState)
    | [], acc, failed, st =>
      if failed then .error (.error, { st with stderr := st.stderr ++ ["abort"] }) else .ok (acc, st)
    | m :: rest, acc, failed, st =>
      match parseMethod env sc eng m entry.opts st with
      | .error e => .error e
      | .ok (some pm, st') => go rest (acc ++ [pm]) failed st'
      | .ok (none, st') => go rest acc true st'
  go entry.obj.methods [] false st

/-- `resolveConverters` for one converter; `all` are the methods of all entries -/
def resolveConverter (env : Env) (sc : Scope) (all : List ParsedMethod) (c : FieldConverter) :
    PM' FieldConverter := fun st =>
  match lookupConverterFunc env sc c.fn with
  | .ok (a, r, e) => .ok ({ c with argTy := a, retTy := r, retError := e }, st)
  | .error msg0 =>
    let first := s!"{c.pos}: {msg0}"
    let st := { st with stderr := st.stderr ++ [first] }
    let cannot := s!"{c.pos}: function {c.fn} cannot use as a converter"
    let rec go : List ParsedMethod → String → PState → Except (Halt × PState) (FieldConverter × PState)
      | [], last, st => .error (.error, { st with stderr := st.stderr ++ [last] })
      | m :: rest, last, st =>
        if m.decl.name != c.fn then go rest last st else
        if m.opts.style != .ret || m.opts.receiver != "" then
          go rest cannot { st with stderr := st.stderr ++ [cannot] }
        else
          match m.decl.params, m.decl.results with
          | src :: _, dst :: _ =>
            let me : MethodEntry := { decl := m.decl, opts := m.opts }
            .ok ({ c with argTy := src.ty, retTy := dst.ty, retError := me.retError env }, st)
          | _, _ => .error (.panic "resolveConverters: method without operands", st)
    go all first st

def resolveConvertersOf (env : Env) (sc : Scope) (all : List ParsedMethod) :
    List FieldConverter → PM' (List FieldConverter)
  | [], st => .ok ([], st)
  | c :: cs, st =>
    match resolveConverter env sc all c st with
    | .error e => .error e
    | .ok (c', st') =>
      match resolveConvertersOf env sc all cs st' with
      | .error e => .error e
      | .ok (cs', st'') => .ok (c' :: cs', st'')

/-- everything `go/types`, `regexp` and the AST tell about one run -/
structure Facts where
  env : Env
  scope : Scope
  eng : Engine
  file : FileFacts
  intfName : String := "Convergen"

/-- one converter interface with its methods after `Parse` -/
structure ParsedEntry where
  entry : IntfEntry
  methods : List MethodEntry
  deriving Inhabited

/-- `Parser.Parse` -/
def parse (f : Facts) : PM' (List ParsedEntry) := fun st =>
  match findConvergenEntries f.env f.scope f.eng f.file f.intfName f.file.scope [] st with
  | .error e => .error e
  | .ok (entries, st) =>
    let rec methodsOf : List IntfEntry → List (IntfEntry × List ParsedMethod) → PState →
        Except (Halt × PState) (List (IntfEntry × List ParsedMethod) × PState)
      | [], acc, st => .ok (acc, st)
      | e :: rest, acc, st =>
        match parseMethods f.env f.scope f.eng e st with
        | .error x => .error x
        | .ok (ms, st') => methodsOf rest (acc ++ [(e, ms)]) st'
    match methodsOf entries [] st with
    | .error e => .error e
    | .ok (parsed, st) =>
      let all := parsed.flatMap (·.2)
      -- a generated function must not collide with a declaration that stays in the package; the
      -- converter interfaces themselves are replaced by the generated code
      let replaced := entries.map (·.obj.name)
      match all.find? (fun m => m.opts.receiver == "" && f.env.pkgScope m.decl.name && !replaced.contains m.decl.name) with
      | some m => failTwice s!"{m.decl.pos}: {m.decl.name} is already declared in the package" st
      | none =>
      -- resolve converters method by method, in `allMethods` order
      let rec resolveAll : List (IntfEntry × List ParsedMethod) → List ParsedEntry → PState →
          Except (Halt × PState) (List ParsedEntry × PState)
        | [], acc, st => .ok (acc, st)
        | (e, ms) :: rest, acc, st =>
          let rec perMethod : List ParsedMethod → List MethodEntry → PState →
              Except (Halt × PState) (List MethodEntry × PState)
            | [], acc, st => .ok (acc, st)
            | m :: ms, acc, st =>
              match resolveConvertersOf f.env f.scope all m.opts.converters st with
              | .error x => .error x
              | .ok (cs, st') =>
                perMethod ms (acc ++ [{ decl := m.decl, opts := { m.opts with converters := cs },
                                        comments := [] }]) st'
          match perMethod ms [] st with
          | .error x => .error x
          | .ok (mes, st') => resolveAll rest (acc ++ [{ entry := e, methods := mes }]) st'
      match resolveAll parsed [] st with
      | .error e => .error e
      | .ok (pes, st) =>
        -- doc comments are read when the functions are created, i.e. from the final groups
        let withDocs := (pes.zip parsed).map fun (pe, (_, pms)) =>
          { pe with methods := (pe.methods.zip pms).map fun (me, pm) =>
              { me with comments := match pm.docGroup with
                                     | some g => (st.docs.group g).map (·.text)
                                     | none => [] } }
        .ok (withDocs, st)

/-- `CreateFunctions` over all entries (first error stops the run); `built` are the keys of the
functions built so far (`FunctionBuilder.built`) -/
def createAllFrom (f : Facts) : List String → List ParsedEntry → PM' (List (List Built))
  | _, [], st => .ok ([], st)
  | built, pe :: rest, st =>
    let rec fns : List String → List MethodEntry → PState → Except (Halt × PState) ((List Built × List String) × PState)
      | built, [], st => .ok (([], built), st)
      | built, m :: ms, st =>
        match createFunction f.env f.eng m built with
        | .panic s => .error (.panic s, st)
        | .error msgs => .error (.error, { st with stderr := st.stderr ++ msgs ++ msgs })
        | .ok b =>
          match b.lateError with
          | some msg => .error (.error, { st with stderr := st.stderr ++ b.warnings ++ [msg, msg] })
          | none =>
          match fns (funcKey f.env m :: built) ms { st with stderr := st.stderr ++ b.warnings } with
          | .error e => .error e
          | .ok ((bs, built'), st') => .ok ((b :: bs, built'), st')
    match fns built pe.methods st with
    | .error e => .error e
    | .ok ((bs, built'), st') =>
      match createAllFrom f built' rest st' with
      | .error e => .error e
      | .ok (bss, st'') => .ok (bs :: bss, st'')

def createAll (f : Facts) : List ParsedEntry → PM' (List (List Built)) := createAllFrom f []

/-- observable result of the front half (L3 + L4 + L5) -/
structure FrontResult where
  /-- `ok`, `error` (exit 1) or `panic` -/
  status : String
  panicSite : String := ""
  stderr : List String
  stdout : List String
  /-- per converter interface: name and rendered functions -/
  blocks : List (String × List (String × String)) := []
  /-- per function: name, arg style, receiver, reverse, error result, source by pointer -/
  metas : List (String × Bool × String × Bool × Bool × Bool) := []
  /-- comment groups after parsing (for the base code) -/
  groups : List (List Comment) := []
  /-- comment groups as `InsertComment` leaves them (extents; markers by entry index) -/
  planted : List CG := []
  deriving Repr, Inhabited

/-- `RemoveMatchComments(file, reGoBuildGen)` followed by the view `InsertComment` has of a group -/
def groupExtent (g : List Comment) : CG :=
  let kept := g.filter fun c => !matchGoBuildGen c.text
  match kept.head?, kept.getLast? with
  | some f, some l => { pos := f.off, endp := l.off + l.text.utf8ByteSize }
  | _, _ => { pos := 0, endp := 0, empty := true }

/-- the marker planting of `GenerateBaseCode` on the comment groups left by the parser -/
def plantMarkers (groups : List (List Comment)) (entries : List ScopeObj) : List CG :=
  plantAll (groups.map groupExtent) (entries.zipIdx.map fun (o, i) => { lbrace := o.lbrace, rbrace := o.rbrace, id := i })

def front (f : Facts) : FrontResult :=
  let st0 : PState := { docs := { groups := f.file.groups, docOf := f.file.docOf } }
  match parse f st0 with
  | .error (.error, st) => { status := "error", stderr := st.stderr, stdout := st.stdout }
  | .error (.panic s, st) => { status := "panic", panicSite := s, stderr := st.stderr, stdout := st.stdout }
  | .ok (pes, st) =>
    match createAll f pes st with
    | .error (.error, st) => { status := "error", stderr := st.stderr, stdout := st.stdout }
    | .error (.panic s, st) => { status := "panic", panicSite := s, stderr := st.stderr, stdout := st.stdout }
    | .ok (bss, st) =>
      { status := "ok", stderr := st.stderr, stdout := st.stdout, groups := st.docs.groups,
        planted := plantMarkers st.docs.groups (pes.map (·.entry.obj)),
        blocks := (pes.zip bss).map fun (pe, bs) =>
          (pe.entry.obj.name, bs.map fun b => (b.fn.name, funcToString b.fn)),
        metas := (pes.zip bss).flatMap fun (pe, bs) =>
          (pe.methods.zip bs).map fun (m, b) =>
            (b.fn.name, b.fn.dstVarStyle == .arg, b.fn.receiver, m.opts.reverse, b.fn.retError, b.fn.src.pointer) }

end Convergen
