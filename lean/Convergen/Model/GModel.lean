import Convergen.Model.Basic
/-!
# Mirror of `pkg/generator/model` (the generator's input data)

Field names follow the Go names with a lower-case first letter (`Type` → `typ`).
The struct shapes themselves are checked against the Go source on every run by
`Generated/Structs.lean` + `Bridge/Tables.lean`.
-/
namespace Convergen

/-- `model.DstVarStyle` -/
inductive DstVarStyle where
  | ret   -- "return"
  | arg   -- "arg"
  deriving Repr, DecidableEq, Inhabited

/-- `model.MatchRule` -/
inductive MatchRule where
  | name | tag | none
  deriving Repr, DecidableEq, Inhabited

/-- `model.Var` -/
structure Var where
  name : String
  typ : String
  pointer : Bool
  external : Bool
  deriving Repr, DecidableEq, Inhabited

/-- `model.Manipulator` -/
structure Manipulator where
  pkg : String
  name : String
  isDstPtr : Bool
  isSrcPtr : Bool
  hasAdditionalArgs : Bool
  retError : Bool
  deriving Repr, DecidableEq, Inhabited

/-- `model.Assignment` (an interface in Go; its seven implementations are the constructors). -/
inductive Assignment where
  | skipField (lhs : String)
  | noMatchField (lhs : String)
  | simpleField (lhs rhs : String) (error : Bool)
  | nestStruct (initExpr nullCheckExpr : String) (contents : List Assignment)
  | sliceAssignment (lhs rhs typ : String)
  | sliceLoopAssignment (lhs rhs typ : String)
  | sliceTypecastAssignment (lhs rhs typ cast : String)
  deriving Repr, Inhabited

/-- `model.Function` -/
structure Function where
  comments : List String
  name : String
  receiver : String
  src : Var
  dst : Var
  additionalArgs : List Var
  retError : Bool
  dstVarStyle : DstVarStyle
  assignments : List Assignment
  preProcess : Option Manipulator
  postProcess : Option Manipulator
  deriving Repr, Inhabited

end Convergen
