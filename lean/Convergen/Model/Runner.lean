import Convergen.Model.Text
/-!
# L0/L1/L7: `config.ParseArgs`, `runner.Run`, `generator.Generate` as a small effect machine

Everything between loading the package and the finished, formatted bytes (`go list`, the parser,
the builder, the base code, `goimports`, `gofmt`) is the parameter `core`: a function of the file
system *as the loader sees it* (the previous output withheld).  What is modelled here is what the
run does around it: which paths are derived from the flags, what is written where and when, what
goes to stdout.
-/
namespace Convergen

/-- `config.Config` -/
structure Config where
  input : String
  output : String
  /-- `""` = no log -/
  log : String
  dryRun : Bool
  prints : Bool
  deriving Repr, DecidableEq, Inhabited

/-- how `ParseArgs` ends -/
inductive ArgsResult where
  | config (c : Config)
  /-- no input path: usage on stderr, exit 1 -/
  | usage
  /-- the `flag` package rejects the command line: exit 2 -/
  | flagError
  deriving Repr, DecidableEq, Inhabited

structure Flags where
  out : String := ""
  log : Bool := false
  dry : Bool := false
  print : Bool := false
  deriving Repr, DecidableEq, Inhabited

def parseBoolText (s : String) : Option Bool :=
  if ["1", "t", "T", "TRUE", "true", "True"].contains s then some true
  else if ["0", "f", "F", "FALSE", "false", "False"].contains s then some false
  else none

/-- Go's `flag.Parse` for the four flags: returns the flags and the remaining arguments, or
`none` when the package reports an error.  Parsing stops at the first non-flag or after `--`. -/
def parseFlags : Nat → List String → Flags → Option (Flags × List String)
  | 0, _, _ => none
  | _ + 1, [], f => some (f, [])
  | fuel + 1, a :: rest, f =>
    let cs := a.toList
    if cs.length < 2 || cs.head? != some '-' then some (f, a :: rest) else
    if a == "--" then some (f, rest) else
    let body := if cs.take 2 == ['-', '-'] then cs.drop 2 else cs.drop 1
    if body.head? == some '-' || body.head? == some '=' || body.isEmpty then none else
    let name := String.ofList (takeWhileL (· != '=') body)
    let hasVal := body.contains '='
    let val := String.ofList ((dropWhileL (· != '=') body).drop 1)
    let setBool (upd : Bool → Flags) : Option (Flags × List String) :=
      if hasVal then (match parseBoolText val with
        | some b => parseFlags fuel rest (upd b)
        | none => none)
      else parseFlags fuel rest (upd true)
    match name with
    | "out" =>
      if hasVal then parseFlags fuel rest { f with out := val }
      else match rest with
        | v :: rest' => parseFlags fuel rest' { f with out := v }
        | [] => none
    | "log" => setBool fun b => { f with log := b }
    | "dry" => setBool fun b => { f with dry := b }
    | "print" => setBool fun b => { f with print := b }
    | _ => none

/-- the documented default: `.gen` inserted before the extension of the input path -/
def defaultOutput (input : String) : String :=
  let ext := pathExt input
  stripSuffixLen input ext.length ++ ".gen" ++ ext

/-- the log path: the output path with its extension replaced by `.log` -/
def logPath (output : String) : String :=
  stripSuffixLen output (pathExt output).length ++ ".log"

/-- the input path: first positional argument, else `$GOFILE` -/
def inputOf (rest : List String) (gofile : String) : String :=
  match rest with
  | a :: _ => if a != "" then a else gofile
  | [] => gofile

/-- the configuration derived from the flags and the input path -/
def configOf (f : Flags) (input : String) : Config :=
  { input := input,
    output := if f.out != "" then f.out else defaultOutput input,
    log := if f.log then logPath (if f.out != "" then f.out else defaultOutput input) else "",
    dryRun := f.dry, prints := f.print }

/-- `Config.ParseArgs` (`gofile` is `$GOFILE`) -/
def parseArgs (argv : List String) (gofile : String) : ArgsResult :=
  match parseFlags (argv.length + 1) argv {} with
  | none => .flagError
  | some (f, rest) =>
    if inputOf rest gofile == "" then .usage else .config (configOf f (inputOf rest gofile))

/-! ## the file system and the run -/

/-- regular files by (cleaned) path and the set of existing directories, as functions (so that
writing and withholding a file are plain function updates) -/
structure World where
  files : String → Option String
  dirs : String → Bool

namespace World
def get (w : World) (p : String) : Option String := w.files p
def put (w : World) (p c : String) : World := { w with files := fun q => if q = p then some c else w.files q }
def remove (w : World) (p : String) : World := { w with files := fun q => if q = p then none else w.files q }
/-- directory part of a path (`"."` when there is none) -/
def dirOf (p : String) : String :=
  let cs := p.toList.reverse
  match dropWhileL (· != '/') cs with
  | [] => "."
  | _ :: d => if d.isEmpty then "/" else String.ofList d.reverse
/-- can a file be created or opened for writing at `p` -/
def writable (w : World) (p : String) : Bool := w.dirs (dirOf p) && !w.dirs p

@[simp] theorem get_put_same (w : World) (p c : String) : (w.put p c).get p = some c := by simp [get, put]
@[simp] theorem get_put_ne (w : World) (p q c : String) (h : q ≠ p) : (w.put p c).get q = w.get q := by
  simp [get, put, h]
@[simp] theorem get_remove_same (w : World) (p : String) : (w.remove p).get p = none := by simp [get, remove]
@[simp] theorem get_remove_ne (w : World) (p q : String) (h : q ≠ p) : (w.remove p).get q = w.get q := by
  simp [get, remove, h]
@[simp] theorem dirs_put (w : World) (p c : String) : (w.put p c).dirs = w.dirs := rfl
@[simp] theorem dirs_remove (w : World) (p : String) : (w.remove p).dirs = w.dirs := rfl
@[simp] theorem writable_put (w : World) (p c q : String) : (w.put p c).writable q = w.writable q := rfl
theorem remove_put_comm (w : World) (p q c : String) (h : p ≠ q) :
    (w.put p c).remove q = (w.remove q).put p c := by
  unfold put remove
  congr 1
  funext x
  by_cases hx : x = q <;> by_cases hy : x = p <;> simp_all
end World

/-- what the loader + parser + builder + base code + goimports + gofmt deliver -/
inductive CoreResult where
  /-- formatted bytes -/
  | ok (bytes : String) (stderr : List String) (stdout : List String)
  /-- failure before formatting: nothing is printed to stdout by `Generate` -/
  | error (stderr : List String) (stdout : List String)
  /-- failure inside `imports.Process`/`format.Source`: the unformatted content is printed under `-print` -/
  | formatError (content : String) (stderr : List String) (stdout : List String)
  | panic (stderr : List String) (stdout : List String)
  deriving Repr, DecidableEq, Inhabited

/-- observable end of a run -/
structure RunResult where
  exit : Nat
  stdout : List String
  stderr : List String
  world : World

/-- what the loader sees: the world without the file at the output path
(`ParseFile` returns `nil` for the file that `os.SameFile` says is the output) -/
def visible (w : World) (cfg : Config) : World := w.remove cfg.output

/-- step 1: the log file is opened (created/truncated) before anything else; `none` = the open fails -/
def openLog (cfg : Config) (w : World) : Option World :=
  if cfg.log == "" then some w
  else if w.writable cfg.log then some (w.put cfg.log "") else none

/-- step 4, `Generate`: print / write according to the flags -/
def afterCore (cfg : Config) (r : CoreResult) (w1 : World) : RunResult :=
  match r with
  | .panic e o => { exit := 2, stdout := o, stderr := e, world := w1 }
  | .error e o => { exit := 1, stdout := o, stderr := e, world := w1 }
  | .formatError content e o =>
    { exit := 1, stdout := o ++ (if cfg.prints then [content] else []), stderr := e, world := w1 }
  | .ok bytes e o =>
    if cfg.dryRun then
      { exit := 0, stdout := o ++ (if cfg.prints then [bytes] else []), stderr := e, world := w1 }
    else if w1.writable cfg.output then
      { exit := 0, stdout := o ++ (if cfg.prints then [bytes] else []), stderr := e,
        world := w1.put cfg.output bytes }
    else
      { exit := 1, stdout := o, stderr := e ++ ["error on writing to the file."], world := w1 }

/-- steps 2–4: `os.Stat(src)`, the loader (output withheld), `Generate` -/
def runFrom (cfg : Config) (core : World → Config → CoreResult) (w1 : World) : RunResult :=
  match w1.get cfg.input with
  | none => { exit := 1, stdout := [], stderr := ["stat " ++ cfg.input ++ ": no such file or directory"], world := w1 }
  | some _ =>
    -- the setup file itself is withheld when it is the output path: reported, nothing written
    if cfg.input == cfg.output then
      { exit := 1, stdout := [], stderr := [cfg.input ++ ": the input file was not loaded; the output path must differ from the input path"],
        world := w1 }
    else afterCore cfg (core (visible w1 cfg) cfg) w1

/-- `runner.Run` + `Generate`.  `core` gets the visible world and the config. -/
def run (cfg : Config) (core : World → Config → CoreResult) (w : World) : RunResult :=
  match openLog cfg w with
  | none => { exit := 1, stdout := [], stderr := ["open " ++ cfg.log ++ ": no such file or directory"], world := w }
  | some w1 => runFrom cfg core w1

/-- what the caller of the process sees when the standard output cannot be written (`> /dev/full`,
a closed descriptor): `Generate` ignores the result of its `fmt.Println` calls, so nothing but the
text that would have been printed is lost — exit status, diagnostics and files are those of `run`. -/
def runWithStdout (stdoutOk : Bool) (cfg : Config) (core : World → Config → CoreResult) (w : World) : RunResult :=
  let r := run cfg core w
  if stdoutOk then r else { r with stdout := [] }

end Convergen
