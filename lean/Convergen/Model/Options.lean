import Convergen.Model.GModel
import Convergen.Model.Types
import Convergen.Model.Text
/-!
# `pkg/option` and the notation parser of `pkg/parser/comment.go`
-/
namespace Convergen

/-! ## matchers -/

/-- the regexp engine as an oracle: which expressions compile, and unanchored search -/
structure Engine where
  compiles : String → Bool
  search : String → String → Bool

/-- the expression a pattern stands for: the text between the slashes of `/re/`, or the
anchored, quoted literal -/
def baseExpr (pattern : String) : String :=
  let cs := pattern.toList
  if cs.head? == some '/' && cs.getLast? == some '/' && 2 ≤ cs.length
  then String.ofList ((cs.drop 1).take (cs.length - 2))
  else "^" ++ quoteMeta pattern ++ "$"

/-- `compileRegexp`: the expression text handed to `regexp.Compile` -/
def compileExpr (pattern : String) (exactCase : Bool) : String :=
  if exactCase then baseExpr pattern else "(?i)" ++ baseExpr pattern

/-- the subject string that is searched: the path itself, whatever the case rule -/
def matchSubject (ident : String) (_exactCase : Bool) : String := ident

/-- `option.PatternMatcher`: `reOk = false` is the nil `*regexp.Regexp` left behind by a failed,
unchecked recompilation. -/
structure PM where
  pattern : String
  exactCase : Bool
  reOk : Bool
  deriving Repr, DecidableEq, Inhabited

/-- `NewPatternMatcher` (`none` = "invalid regexp") -/
def PM.new (eng : Engine) (pattern : String) (exactCase : Bool) : Option PM :=
  if eng.compiles (compileExpr pattern exactCase) then some ⟨pattern, exactCase, true⟩ else none

/-- `PatternMatcher.Match`: answer (or the nil-regexp panic) and the new matcher state -/
def PM.match (eng : Engine) (m : PM) (ident : String) (exactCase : Bool) : Outcome Bool × PM :=
  let m' : PM := if m.exactCase != exactCase
    then ⟨m.pattern, exactCase, eng.compiles (compileExpr m.pattern exactCase)⟩ else m
  if m'.reOk then (.ok (eng.search (compileExpr m'.pattern exactCase) (matchSubject ident exactCase)), m')
  else (.panic "PatternMatcher.Match: nil regexp", m')

/-- the stateless answer for `(pattern, path, case rule)`; `.panic` is the nil regexp -/
def matchFn (eng : Engine) (pattern ident : String) (exactCase : Bool) : Outcome Bool :=
  if eng.compiles (compileExpr pattern exactCase)
  then .ok (eng.search (compileExpr pattern exactCase) (matchSubject ident exactCase))
  else .panic "PatternMatcher.Match: nil regexp"

/-- run a sequence of queries on one matcher, as `Options.ShouldSkip` does over a method's fields -/
def runQueries (eng : Engine) : PM → List (String × Bool) → List (Outcome Bool)
  | _, [] => []
  | m, (ident, exact) :: qs =>
    let (r, m') := PM.match eng m ident exact
    r :: runQueries eng m' qs

/-- `IdentMatcher` -/
def identPaths (pattern : String) : List String := pattern.splitOn "."
def identMatch (pattern ident : String) (exactCase : Bool) : Bool :=
  if exactCase then pattern == ident else equalFold pattern ident
/-- `NameAt`: the segment without everything from the first `(` -/
def nameAt (seg : String) : String := String.ofList (takeWhileL (· != '(') seg.toList)
/-- `ForGetter` -/
def forGetter (seg : String) : Bool := seg.toList.reverse.take 2 == [')', '(']

structure NameMatcher where
  src : String
  dst : String
  pos : String
  deriving Repr, DecidableEq, Inhabited

structure FieldConverter where
  fn : String
  src : String
  dst : String
  pos : String
  argTy : TyId := 0
  retTy : TyId := 0
  retError : Bool := false
  deriving Repr, DecidableEq, Inhabited

structure LiteralSetter where
  dst : String
  literal : String
  pos : String
  deriving Repr, DecidableEq, Inhabited

/-- `option.Manipulator` -/
structure ManipOpt where
  name : String
  /-- `Func.Pkg().Path()` -/
  pkgPath : String
  exported : Bool
  dstSide : TyId
  srcSide : TyId
  additionalArgs : List TyId
  retError : Bool
  pos : String
  deriving Repr, DecidableEq, Inhabited

/-- `option.Options` -/
structure Options where
  style : DstVarStyle := .ret
  rule : MatchRule := .name
  exactCase : Bool := true
  getter : Bool := false
  stringer : Bool := false
  typecast : Bool := false
  receiver : String := ""
  reverse : Bool := false
  skipFields : List PM := []
  nameMapper : List NameMatcher := []
  templatedNameMapper : List NameMatcher := []
  converters : List FieldConverter := []
  literals : List LiteralSetter := []
  preProcess : Option ManipOpt := none
  postProcess : Option ManipOpt := none
  deriving Repr, Inhabited

/-- `NewOptions` -/
def newOptions : Options := {}

/-- `Options.CompareFieldName` -/
def Options.compareFieldName (o : Options) (a b : String) : Bool :=
  if o.exactCase then a == b else equalFold a b

/-- `Options.ShouldSkip`, stateless reading (the stateful matcher is shown equivalent in
`Props/C19`): first pattern that answers decides; a nil regexp met before that panics. -/
def shouldSkipList (eng : Engine) (exactCase : Bool) (path : String) : List PM → Outcome Bool
  | [] => .ok false
  | m :: ms =>
    match (PM.match eng m path exactCase).1 with
    | .ok true => .ok true
    | .ok false => shouldSkipList eng exactCase path ms
    | .error e => .error e
    | .panic s => .panic s

def Options.shouldSkip (eng : Engine) (o : Options) (path : String) : Outcome Bool :=
  shouldSkipList eng o.exactCase path o.skipFields

/-! ## function lookups (`lookupType`, `lookupConverterFunc`, `lookupManipulatorFunc`) -/

structure FuncSig where
  name : String
  /-- `Func.Pkg().Path()` -/
  pkgPath : String
  exported : Bool
  params : List TyId
  results : List TyId
  /-- `Signature.Variadic()`: the last parameter is `...T` (its type in `params` is `[]T`) -/
  variadic : Bool := false
  deriving Repr, DecidableEq, Inhabited

inductive FuncLookup where
  | notFound
  | notFunc
  | func (sig : FuncSig)
  deriving Repr, DecidableEq, Inhabited

/-- what `go/types` knows about names that notations may refer to -/
structure Scope where
  /-- `pkg.Types.Scope().Innermost(pos).LookupParent(name, pos)` for a bare name -/
  localLookup : String → FuncLookup
  /-- `p.pkg.Imports[path]` exists -/
  pkgImported : String → Bool
  /-- `pkg.Types.Scope().Lookup(name)` of an imported package -/
  importedLookup : String → String → FuncLookup

/-- `Parser.lookupType` -/
def lookupType (env : Env) (sc : Scope) (ref : String) : FuncLookup :=
  match ref.splitOn "." with
  | [name] => sc.localLookup name
  | pkg :: name :: _ =>
    match lookupPath env.imports pkg with
    | none => .notFound
    | some path =>
      if !sc.pkgImported path then .notFound
      else if !isExportedName name then .notFound   -- an unexported member of another package cannot be referred to
      else sc.importedLookup path name
  | [] => .notFound

/-- `lookupConverterFunc`: `(argType, retType, retError)` or the error text after the position -/
def lookupConverterFunc (env : Env) (sc : Scope) (name : String) : Except String (TyId × TyId × Bool) :=
  match lookupType env sc name with
  | .notFound => .error s!"function {name} not found"
  | .notFunc => .error s!"{name} isn't a function"
  | .func sig =>
    match sig.params, sig.results with
    | [a], [r] =>
      -- the call passes one value: a variadic parameter would need `arg...`
      if sig.variadic then .error s!"function {name} cannot use as a converter" else .ok (a, r, false)
    | [a], [r, e] =>
      if sig.variadic then .error s!"function {name} cannot use as a converter" else
      if env.isErrorType e then .ok (a, r, true) else .error s!"function {name} cannot use as a converter"
    | _, _ => .error s!"function {name} cannot use as a converter"

/-- `lookupManipulatorFunc`: the hook, or the error text that follows the position, or the crash
`make([]types.Type, n-2)` with `n < 2` -/
inductive ManipLookup where
  | ok (m : ManipOpt)
  | error (text : String)
  | panic (site : String)
  deriving Repr, Inhabited

/-- a hook returns nothing or exactly one `error` -/
def badHookResult (env : Env) (results : List TyId) : Bool :=
  match results with
  | [] => false
  | [e] => !env.isErrorType e
  | _ => true

def lookupManipulatorFunc (env : Env) (sc : Scope) (name optName pos : String) : ManipLookup :=
  match lookupType env sc name with
  | .notFound => .error s!"function {name} not found"
  | .notFunc => .error s!"{name} isn't a function"
  | .func sig =>
    if badHookResult env sig.results then .error s!"function {name} cannot use for {optName} func" else
    match sig.params with
    | d :: s :: rest =>
      -- the call passes each argument as it is: a variadic parameter would need `arg...`
      if sig.variadic then .error s!"function {name} cannot use for {optName} func" else
      .ok { name := sig.name, pkgPath := sig.pkgPath, exported := sig.exported, dstSide := d, srcSide := s,
            additionalArgs := rest, pos := pos,
            retError := (match sig.results with | [e] => env.isErrorType e | _ => false) }
    | _ => .error s!"function {name} cannot use for {optName} func"

/-! ## notation lines -/

structure Comment where
  pos : String
  text : String
  /-- byte offset in the setup file -/
  off : Nat := 0
  deriving Repr, DecidableEq, Inhabited

/-- `isValidIdentifier`: letters, `_`, and digits except in first position; not the blank identifier alone.  Non-ASCII
runes are taken to be letters (the harness only generates letters there). -/
def isValidIdentifier (id : String) : Bool :=
  id != "" && id != "_" &&   -- the blank identifier cannot be referred to
  (id.toList.zipIdx.all fun (c, i) => c.isAlpha || c == '_' || c.toNat ≥ 128 || (0 < i && c.isDigit))

/-- result of parsing a list of notation lines -/
structure ParseResult where
  opts : Options
  /-- lines written to stdout by `fmt.Printf("… unknown notation …")` -/
  stdout : List String := []
  deriving Repr, Inhabited

/-- what one valid notation does to the options -/
inductive Effect where
  | opts (o : Options)
  /-- `:reverse`: the position is remembered for the final validation -/
  | reverse (o : Options)
  /-- `logger.Errorf("<pos>: <text>")` -/
  | error (text : String)
  | panic (site : String)
  /-- valid name without a `case`: a line on stdout -/
  | unknown
  deriving Inhabited

def styleEffect (opts : Options) (args : List String) : Effect :=
  match args with
  | [] => .error "needs <style> arg"
  | a :: _ =>
    if a == "return" then .opts { opts with style := .ret }
    else if a == "arg" then .opts { opts with style := .arg }
    else .error "invalid <style> arg"

def matchEffect (opts : Options) (args : List String) : Effect :=
  match args with
  | [] => .error "needs <algorithm> arg"
  | a :: _ =>
    if a == "name" then .opts { opts with rule := .name }
    else if a == "tag" then .opts { opts with rule := .tag }
    else if a == "none" then .opts { opts with rule := .none }
    else .error "invalid <algorithm> arg"

def recvEffect (opts : Options) (args : List String) : Effect :=
  match args with
  | [] => .error "needs name for the receiver"
  | a :: _ => if isValidIdentifier a then .opts { opts with receiver := a } else .error "invalid ident"

def skipEffect (eng : Engine) (opts : Options) (args : List String) : Effect :=
  match args with
  | [] => .error "needs <field> arg"
  | a :: _ =>
    match PM.new eng a opts.exactCase with
    | none => .error "invalid regexp"
    | some m => .opts { opts with skipFields := opts.skipFields ++ [m] }

def mapEffect (opts : Options) (pos : String) (args : List String) : Effect :=
  match args with
  | src :: dst :: _ =>
    let m : NameMatcher := ⟨src, dst, pos⟩
    if src.toList.head? == some '$'
    then .opts { opts with templatedNameMapper := opts.templatedNameMapper ++ [m] }
    else .opts { opts with nameMapper := opts.nameMapper ++ [m] }
  | _ => .error "needs <src> <dst> args"

def convEffect (opts : Options) (pos : String) (args : List String) : Effect :=
  match args with
  | fn :: src :: more =>
    let dst := match more with | d :: _ => d | [] => src
    .opts { opts with converters := opts.converters ++ [{ fn := fn, src := src, dst := dst, pos := pos }] }
  | _ => .error "needs <src> <dst> args"

def literalEffect (opts : Options) (pos rest : String) (args : List String) : Effect :=
  match args with
  | dst :: _ :: _ =>
    match matchLiteral rest with
    | some lit => .opts { opts with literals := opts.literals ++ [⟨dst, lit, pos⟩] }
    | none => .error "needs <dst> <literal> args"
  | _ => .error "needs <dst> <literal> args"

def hookEffect (env : Env) (sc : Scope) (pos optName : String) (args : List String)
    (set : ManipOpt → Options) : Effect :=
  match args with
  | [] => .error "needs <func> arg"
  | a :: _ =>
    match lookupManipulatorFunc env sc a optName pos with
    | .ok m => .opts (set m)
    | .error e => .error e
    | .panic s => .panic s

/-- the big `switch` of `parseNotationInComments` -/
def notationEffect (env : Env) (sc : Scope) (eng : Engine) (opts : Options) (pos name rest : String) : Effect :=
  let args := fields rest
  match name with
  | "convergen" => .opts opts
  | "style" => styleEffect opts args
  | "match" => matchEffect opts args
  | "case" => .opts { opts with exactCase := true }
  | "case:off" => .opts { opts with exactCase := false }
  | "getter" => .opts { opts with getter := true }
  | "getter:off" => .opts { opts with getter := false }
  | "stringer" => .opts { opts with stringer := true }
  | "stringer:off" => .opts { opts with stringer := false }
  | "typecast" => .opts { opts with typecast := true }
  | "typecast:off" => .opts { opts with typecast := false }
  | "recv" => recvEffect opts args
  | "reverse" => .reverse { opts with reverse := true }
  | "skip" => skipEffect eng opts args
  | "map" => mapEffect opts pos args
  | "conv" => convEffect opts pos args
  | "literal" => literalEffect opts pos rest args
  | "preprocess" => hookEffect env sc pos "preprocess" args (fun m => { opts with preProcess := some m })
  | "postprocess" => hookEffect env sc pos "postprocess" args (fun m => { opts with postProcess := some m })
  | _ => .unknown

/-- one notation line; `posReverse` is threaded for the final validation.  Every diagnostic is the
position of the line followed by the error text. -/
def applyNotation (env : Env) (sc : Scope) (eng : Engine) (validOps : List String)
    (st : ParseResult × String) (n : Comment) : Outcome (ParseResult × String) :=
  let (res, posReverse) := st
  match matchNotation n.text with
  | none => .error ["invalid notation format []string(nil)"]
  | some (name, rest) =>
    if !validOps.contains name then .ok st else
    match notationEffect env sc eng res.opts n.pos name rest with
    | .opts o => .ok ({ res with opts := o }, posReverse)
    | .reverse o => .ok ({ res with opts := o }, n.pos)
    | .error text => .error [n.pos ++ ": " ++ text]
    | .panic s => .panic s
    | .unknown => .ok ({ res with stdout := res.stdout ++ [s!"{n.pos}: unknown notation {name}"] }, posReverse)

def foldOutcome {σ α : Type} (f : σ → α → Outcome σ) : σ → List α → Outcome σ
  | s, [] => .ok s
  | s, x :: xs =>
    match f s x with
    | .ok s' => foldOutcome f s' xs
    | .error e => .error e
    | .panic p => .panic p

/-- `parseNotationInComments` -/
def parseNotations (env : Env) (sc : Scope) (eng : Engine) (validOps : List String)
    (notations : List Comment) (opts : Options) : Outcome ParseResult :=
  match foldOutcome (applyNotation env sc eng validOps) ({ opts := opts }, "-") notations with
  | .ok (res, posReverse) =>
    if res.opts.reverse && res.opts.style == .ret
    then .error [s!"{posReverse}: to use \":reverse\", style must be \":style arg\""]
    else .ok res
  | .error e => .error e
  | .panic p => .panic p

def validOpsIntf : List String :=
  ["convergen", "style", "match", "case", "case:off", "getter", "getter:off", "stringer", "stringer:off",
   "typecast", "typecast:off"]

def validOpsMethod : List String :=
  ["style", "match", "case", "case:off", "getter", "getter:off", "stringer", "stringer:off", "typecast",
   "typecast:off", "recv", "reverse", "skip", "map", "tag", "conv", "conv:type", "conv:with", "literal",
   "preprocess", "postprocess"]

end Convergen
