import Convergen.Model.Builder
/-!
# `FunctionBuilder.CreateFunction`, `buildManipulator` (`pkg/builder/{method,postprocess}.go`,
`pkg/builder/model/method.go`)
-/
namespace Convergen

/-- a parameter or result variable of a converter-interface method -/
structure ParamVar where
  name : String
  ty : TyId
  pos : String
  deriving Repr, DecidableEq, Inhabited

/-- a method of a converter interface as `go/types` presents it -/
structure MethodDecl where
  name : String
  pos : String
  params : List ParamVar
  results : List ParamVar
  /-- doc-bearing AST nodes enclosing the method, innermost first (`GetDocCommentOn`) -/
  docChain : List Nat := []
  deriving Repr, Inhabited

/-- `bmodel.MethodEntry` -/
structure MethodEntry where
  decl : MethodDecl
  opts : Options
  /-- text of the lines left in the method's doc group when functions are created -/
  comments : List String := []
  deriving Repr, Inhabited

namespace MethodEntry
/-- `MethodEntry.RetError` (through `Results()`) -/
def retError (env : Env) (m : MethodEntry) : Bool :=
  let tys := m.decl.results.map (·.ty)
  let list := if m.opts.style == .ret then tys else tys.filter env.isErrorType
  match list.getLast? with
  | some t => env.isErrorType t
  | none => false
end MethodEntry

/-- `ordinalNumber` -/
def ordinalNumber (n : Nat) : String :=
  if 11 ≤ n && n ≤ 13 then s!"{n}th" else
  match n % 10 with
  | 1 => s!"{n}st"
  | 2 => s!"{n}nd"
  | 3 => s!"{n}rd"
  | _ => s!"{n}th"

/-- `Manipulator.FuncName` -/
def manipFuncName (pkg name : String) : String := if pkg != "" then pkg ++ "." ++ name else name

/-- the qualifier of a hook call: the name its package is imported under; none for the current
package and for a dot import -/
def hookQualifier (env : Env) (pkgPath : String) : String :=
  match env.importName pkgPath with
  | some n => if n == "." then "" else n
  | none => ""

/-- `buildManipulator` -/
def buildManipulator (env : Env) (m? : Option ManipOpt) (src dst : ParamVar) (args : List ParamVar)
    (retError : Bool) : Outcome (Option Manipulator) :=
  match m? with
  | none => .ok none
  | some m =>
    let pkg := hookQualifier env m.pkgPath
    let fname := manipFuncName pkg m.name
    let err (msg : String) : Outcome (Option Manipulator) := .error [s!"{m.pos}: {msg}"]
    if pkg != "" && !m.exported then err s!"manipulator function {fname} is not exported" else
    if m.retError && !retError then
      err s!"cannot use manipulator function {fname} due to mismatch of returning error" else
    if !env.assignable (env.derefPtr dst.ty) (env.derefPtr m.dstSide) then
      err s!"manipulator function {fname} 1st arg type mismatch" else
    if !env.assignable (env.derefPtr src.ty) (env.derefPtr m.srcSide) then
      err s!"manipulator function {fname} 2nd arg type mismatch" else
    let mk (has : Bool) : Outcome (Option Manipulator) :=
      .ok (some { pkg := pkg, name := m.name, isDstPtr := env.isPtr m.dstSide, isSrcPtr := env.isPtr m.srcSide,
                  hasAdditionalArgs := has, retError := m.retError })
    if m.additionalArgs.isEmpty then mk false else
    if m.additionalArgs.length != args.length then
      err s!"manipulator function {fname} additional args count mismatch" else
    match (m.additionalArgs.zip args).zipIdx.find? (fun ((h, a), _) => !env.assignable a.ty h) with
    | some (_, i) => err s!"manipulator function {fname} {ordinalNumber (i + 3)} arg type mismatch"
    | none => mk true

/-- `createVar` -/
def createVar (env : Env) (v : ParamVar) (defName : String) : Var :=
  let typ := env.derefPtr v.ty
  { name := if v.name == "" || v.name == "_" then defName else v.name, typ := env.typeNameF typ, pointer := env.isPtr v.ty,
    external := env.isExternal typ }

def createArgVars (env : Env) : Nat → List ParamVar → List Var
  | _, [] => []
  | i, a :: rest => createVar env a s!"arg{i}" :: createArgVars env (i + 1) rest

/-- result of building one function: the generator input, the structured body, its warnings -/
structure Built where
  fn : Function
  stmts : List Stmt
  warnings : List String
  /-- a hook was rejected *after* the body had been built (its warnings are already printed) -/
  lateError : Option String := none
  deriving Inhabited

/-- the first name that occurs a second time (`_` may repeat): receiver, parameters and named
results share one scope in the generated function -/
def firstDuplicate : List String → List String → Option String
  | _, [] => none
  | seen, n :: rest => if n != "_" && seen.contains n then some n else firstDuplicate (n :: seen) rest

/-- the names the generated function declares in its outermost scope -/
def scopeNames (srcVar dstVar : Var) (argVars : List Var) (retError : Bool) : List String :=
  [srcVar.name, dstVar.name] ++ argVars.map (·.name) ++ (if retError then ["err"] else [])

/-- the first operand name that the element loop of a slice copy would shadow -/
def shadowedByLoop (stmts : List Stmt) (names : List String) : Option String :=
  if Stmt.listUsesLoop stmts then names.find? (fun n => n == "i" || n == "e") else none

/-- the second half of `CreateFunction`: build the body, then the hooks -/
def buildFunction (env : Env) (eng : Engine) (m : MethodEntry) (src dst : ParamVar) (additional : List ParamVar)
    (srcVar dstVar : Var) (argVars : List Var) : Outcome Built := do
  let ctx : BCtx := { env := env, eng := eng, opts := m.opts, methodPos := m.decl.pos, retError := m.retError env }
  let argNodes := (argVars.zip additional).map fun (v, a) => Node.root v.name a.ty
  let fuel := env.tys.size + 1
  let stmts ← (if m.opts.reverse
    then ctx.dispatch fuel (.root srcVar.name src.ty) (.root dstVar.name dst.ty) argNodes
    else ctx.dispatch fuel (.root dstVar.name dst.ty) (.root srcVar.name src.ty) argNodes)
  let retError := m.retError env
  let late (msgs : List String) : Outcome Built :=
    .ok { fn := default, stmts := stmts, warnings := Stmt.listWarnings stmts, lateError := some (msgs.headD "") }
  -- the loop that copies slice elements declares `i` and `e`: an operand of that name would be shadowed
  match shadowedByLoop stmts (scopeNames srcVar dstVar argVars retError) with
  | some n => late [s!"{m.decl.pos}: the name {n} is used by the loop that copies slice elements"]
  | none =>
  match buildManipulator env m.opts.preProcess src dst additional retError with
  | .error msgs => late msgs
  | .panic s => .panic s
  | .ok pre =>
  match buildManipulator env m.opts.postProcess src dst additional retError with
  | .error msgs => late msgs
  | .panic s => .panic s
  | .ok post =>
  pure {
    fn := { comments := m.comments, name := m.decl.name, receiver := m.opts.receiver, src := srcVar,
            dst := dstVar, additionalArgs := argVars, retError := retError, dstVarStyle := m.opts.style,
            assignments := Stmt.listToAssignments env stmts, preProcess := pre, postProcess := post },
    stmts := stmts,
    warnings := Stmt.listWarnings stmts }

/-- the name check and what follows it -/
def checkNamesAndBuild (env : Env) (eng : Engine) (m : MethodEntry) (src dst : ParamVar) (additional : List ParamVar)
    (srcVar dstVar : Var) (argVars : List Var) : Outcome Built :=
  match firstDuplicate [] (scopeNames srcVar dstVar argVars (m.retError env)) with
  | some n => .error [s!"{m.decl.pos}: the name {n} would be declared twice in the generated function"]
  | none => buildFunction env eng m src dst additional srcVar dstVar argVars

/-- the key under which `FunctionBuilder` remembers a function it has built: the name, in receiver
style preceded by the receiver's type -/
def funcKey (env : Env) (m : MethodEntry) : String :=
  match m.decl.params with
  | src :: _ => if m.opts.receiver != "" then env.typeNameF (env.derefPtr src.ty) ++ "." ++ m.decl.name else m.decl.name
  | [] => m.decl.name

/-- in receiver style the method must not collide with a field or method of the receiver type (the
package-level check is the parser's); no function may be asked for twice -/
def collision (env : Env) (m : MethodEntry) (src : ParamVar) (built : List String) : Option String :=
  if m.opts.receiver != "" && env.hasMember src.ty m.decl.name then
    some s!"{m.decl.pos}: the receiver type already has a field or method {m.decl.name}"
  else if built.contains (funcKey env m) then
    some s!"{m.decl.pos}: {m.decl.name} is generated twice"
  else none

/-- `CreateFunction`; `built` are the keys of the functions built earlier in the run -/
def createFunction (env : Env) (eng : Engine) (m : MethodEntry) (built : List String := []) : Outcome Built :=
  match m.decl.params, m.decl.results with
  | src :: additional, dst :: _ =>
    let err (pos msg : String) : Outcome Built := .error [s!"{pos}: {msg}"]
    if m.opts.reverse && !additional.isEmpty then
      err m.decl.pos "reverse cannot be used with additional arguments" else
    if env.isInvalidType src.ty then err src.pos "src type is not defined. make sure to be imported" else
    if env.isInvalidType dst.ty then err dst.pos "dst type is not defined. make sure to be imported" else
    match additional.find? (fun a => env.isInvalidType a.ty) with
    | some a => err a.pos "arg type is not defined. make sure to be imported"
    | none =>
    if !env.isStructType (env.derefPtr src.ty) then
      err dst.pos s!"src type should be a struct but {(env.ty src.ty).underStr}" else
    if !env.isStructType (env.derefPtr dst.ty) then
      err dst.pos s!"dst type should be a struct but {(env.ty dst.ty).underStr}" else
    let srcDef := if m.opts.reverse then "dst" else "src"
    let dstDef := if m.opts.reverse then "src" else "dst"
    let srcVar := createVar env src srcDef
    let dstVar0 := createVar env dst dstDef
    -- in arg style the destination parameter is a pointer whatever the method declares
    let dstVar := if m.opts.style == .arg then { dstVar0 with pointer := true } else dstVar0
    let argVars := createArgVars env 0 additional
    if m.opts.receiver != "" && srcVar.external then
      err m.decl.pos "an external package type cannot be a receiver" else
    let srcVar := if m.opts.receiver != "" then { srcVar with name := m.opts.receiver } else srcVar
    match collision env m src built with
    | some msg => .error [msg]
    | none =>
    checkNamesAndBuild env eng m src dst additional srcVar dstVar argVars
  | _, _ => .panic "createFunction: method without parameter or result"

end Convergen
