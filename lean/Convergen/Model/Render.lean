import Convergen.Model.GModel
/-!
# Hand-written reference renderer (L5: `pkg/generator`)

This is the *structured* reading of `FuncToString`, `AssignmentToString`, `ManipulatorToString`
and the `String`/`RetError` methods of the assignment kinds.  Property theorems are stated over
these definitions; `Convergen.Bridge.Render` proves, on every run, that the definitions
regenerated from `/repo` by the translator (`Convergen.Generated.*`) are equal to them.
-/
namespace Convergen

def Var.fullType (v : Var) : String := if v.pointer then "*" ++ v.typ else v.typ
def Var.ptrLessFullType (v : Var) : String := v.typ

/-- the common prefix of the three slice statements: nil guard and allocation -/
def sliceHead (lhs rhs typ : String) : String :=
  "if " ++ rhs ++ " != nil {\n" ++ lhs ++ " = make(" ++ typ ++ ", len(" ++ rhs ++ "))\n"

def renderSkip (lhs : String) : String := "// skip: " ++ lhs ++ "\n"
def renderNoMatch (lhs : String) : String := "// no match: " ++ lhs ++ "\n"
def renderSimple (lhs rhs : String) (error : Bool) : String :=
  lhs ++ (if error then ", err" else "") ++ " = " ++ rhs ++ "\n"
/-- a nested struct block: optional nil guard, optional init line, the body -/
def renderNest (initExpr nullCheckExpr body : String) : String :=
  (if nullCheckExpr != "" then "if " ++ nullCheckExpr ++ " != nil {\n" else "") ++
  (if initExpr != "" then initExpr ++ "\n" else "") ++ body ++
  (if nullCheckExpr != "" then "}\n" else "")
def renderSlice (lhs rhs typ : String) : String :=
  sliceHead lhs rhs typ ++ "copy(" ++ lhs ++ ", " ++ rhs ++ ")\n}\n"
def renderSliceLoop (lhs rhs typ : String) : String :=
  sliceHead lhs rhs typ ++ "for i, e := range " ++ rhs ++ "{\n" ++ lhs ++ "[i] = e\n}\n}\n"
def renderSliceCast (lhs rhs typ cast : String) : String :=
  sliceHead lhs rhs typ ++ "for i, e := range " ++ rhs ++ "{\n" ++ lhs ++ "[i] = " ++ cast ++ "(e)\n}\n}\n"

mutual
/-- `Assignment.String()` -/
def Assignment.render : Assignment → String
  | .skipField lhs => renderSkip lhs
  | .noMatchField lhs => renderNoMatch lhs
  | .simpleField lhs rhs error => renderSimple lhs rhs error
  | .nestStruct initExpr nullCheckExpr contents =>
      renderNest initExpr nullCheckExpr (Assignment.renderList contents)
  | .sliceAssignment lhs rhs typ => renderSlice lhs rhs typ
  | .sliceLoopAssignment lhs rhs typ => renderSliceLoop lhs rhs typ
  | .sliceTypecastAssignment lhs rhs typ cast => renderSliceCast lhs rhs typ cast
def Assignment.renderList : List Assignment → String
  | [] => ""
  | c :: cs => Assignment.render c ++ Assignment.renderList cs
end

/-- `Assignment.RetError()`: only a simple field can ask for the error check. -/
def Assignment.retError : Assignment → Bool
  | .simpleField _ _ error => error
  | _ => false

/-- the `if err != nil` block emitted after an error-capable top-level assignment -/
def errCheck (f : Function) : String :=
  if f.dstVarStyle == .ret && f.dst.pointer then "if err != nil {\nreturn nil, err\n}\n"
  else "if err != nil {\nreturn\n}\n"

mutual
/-- `AssignmentToString`: the statement followed by its error check; inside a nested struct block
every statement gets its check as well (`nestStructToString`) -/
def assignmentToString (f : Function) : Assignment → String
  | .nestStruct initExpr nullCheckExpr contents =>
      renderNest initExpr nullCheckExpr (assignmentToStringList f contents)
  | .skipField lhs => renderSkip lhs
  | .noMatchField lhs => renderNoMatch lhs
  | .simpleField lhs rhs error => renderSimple lhs rhs error ++ (if error then errCheck f else "")
  | .sliceAssignment lhs rhs typ => renderSlice lhs rhs typ
  | .sliceLoopAssignment lhs rhs typ => renderSliceLoop lhs rhs typ
  | .sliceTypecastAssignment lhs rhs typ cast => renderSliceCast lhs rhs typ cast
def assignmentToStringList (f : Function) : List Assignment → String
  | [] => ""
  | c :: cs => assignmentToString f c ++ assignmentToStringList f cs
end

/-- how an operand `v` is passed to a hook that declares it by pointer (`isPtr`) or by value -/
def hookArg (v : Var) (isPtr : Bool) : String :=
  (if v.pointer != isPtr then (if v.pointer then "*" else "&") else "") ++ v.name

/-- `ManipulatorToString` -/
def manipulatorToString (m : Manipulator) (src dst : Var) (args : List Var) : String :=
  (if m.retError then "err = " else "") ++
  (if m.pkg != "" then m.pkg ++ "." else "") ++ m.name ++ "(" ++
  hookArg dst m.isDstPtr ++ ", " ++ hookArg src m.isSrcPtr ++
  (if m.hasAdditionalArgs then concatMap (fun a => ", " ++ a.name) args else "") ++ ")\n" ++
  (if m.retError then "if err != nil {\nreturn\n}\n" else "")

def optManip (m : Option Manipulator) (f : Function) : String :=
  match m with
  | some m => manipulatorToString m f.src f.dst f.additionalArgs
  | none => ""

/-- doc comment lines -/
def docLines (f : Function) : String := concatMap (fun c => c ++ "\n") f.comments

def param (v : Var) : String := v.name ++ " " ++ v.fullType

/-- the parameter list: destination first (as a pointer) in arg style, then the source unless it is
the receiver, then the additional arguments in order -/
def sigParams (f : Function) : List String :=
  (if f.dstVarStyle == .arg then [f.dst.name ++ " *" ++ f.dst.ptrLessFullType] else []) ++
  (if f.receiver == "" then [param f.src] else []) ++
  f.additionalArgs.map param

/-- `func (recv T) Name(p₁, …, pₙ) ` -/
def sigHead (f : Function) : String :=
  "func " ++
  (if f.receiver != "" then "(" ++ f.receiver ++ " " ++ f.src.fullType ++ ") " else "") ++
  f.name ++ "(" ++ joinSep ", " (sigParams f) ++ ") "

/-- results and the opening of the body, including the allocation `dst = &T{}` -/
def sigTail (f : Function) : String :=
  if f.dstVarStyle == .ret then
    "(" ++ f.dst.name ++ " " ++ f.dst.fullType ++ (if f.retError then ", err error" else "") ++ ") {\n" ++
    (if f.dst.pointer then f.dst.name ++ " = &" ++ f.dst.ptrLessFullType ++ "{}\n" else "")
  else if f.retError then "(err error) {\n" else "{\n"

def bodyAssignments (f : Function) : String := concatMap (assignmentToString f) f.assignments

def funcTail (f : Function) : String :=
  (if f.retError || f.dstVarStyle == .ret then "\nreturn\n" else "") ++ "}\n\n"

/-- `FuncToString` -/
def funcToString (f : Function) : String :=
  docLines f ++ sigHead f ++ sigTail f ++ optManip f.preProcess f ++ bodyAssignments f ++
  optManip f.postProcess f ++ funcTail f

end Convergen
