import Convergen.Model.Render
import Convergen.Generated.Render
/-!
# Bridge (tie A): the renderers regenerated from `/repo` equal the hand-written reference

Every lemma here is re-checked on every run against what the Go code says *now*.
-/
namespace Convergen.Bridge
open Convergen

theorem var_fullType (v : Var) : Generated.Var.fullType v = v.fullType := by
  simp [Generated.Var.fullType, Var.fullType]

theorem var_ptrLessFullType (v : Var) : Generated.Var.ptrLessFullType v = v.ptrLessFullType := rfl

theorem skip_eq (l : String) : Generated.SkipField.string l = renderSkip l := by
  unfold Generated.SkipField.string renderSkip; str_eq
theorem noMatch_eq (l : String) : Generated.NoMatchField.string l = renderNoMatch l := by
  unfold Generated.NoMatchField.string renderNoMatch; str_eq
theorem simple_eq (l r : String) (e : Bool) : Generated.SimpleField.string l r e = renderSimple l r e := by
  unfold Generated.SimpleField.string renderSimple; cases e <;> str_eq
theorem nest_eq (i n : String) (cs : List Assignment) (body : String) :
    Generated.NestStruct.string i n cs body = renderNest i n body := by
  unfold Generated.NestStruct.string renderNest
  by_cases h1 : n = "" <;> by_cases h2 : i = "" <;> simp [h1, h2] <;> str_eq
theorem slice_eq (l r t : String) : Generated.SliceAssignment.string l r t = renderSlice l r t := by
  unfold Generated.SliceAssignment.string renderSlice sliceHead; str_eq
theorem sliceLoop_eq (l r t : String) : Generated.SliceLoopAssignment.string l r t = renderSliceLoop l r t := by
  unfold Generated.SliceLoopAssignment.string renderSliceLoop sliceHead; str_eq
theorem sliceCast_eq (l r t c : String) :
    Generated.SliceTypecastAssignment.string l r t c = renderSliceCast l r t c := by
  unfold Generated.SliceTypecastAssignment.string renderSliceCast sliceHead; str_eq

mutual
theorem assignment_string : ∀ a : Assignment, Generated.Assignment.string a = a.render
  | .skipField _ => by rw [Generated.Assignment.string, Assignment.render, skip_eq]
  | .noMatchField _ => by rw [Generated.Assignment.string, Assignment.render, noMatch_eq]
  | .simpleField _ _ _ => by rw [Generated.Assignment.string, Assignment.render, simple_eq]
  | .nestStruct _ _ cs => by
      rw [Generated.Assignment.string, Assignment.render, nest_eq, assignment_stringList cs]
  | .sliceAssignment _ _ _ => by rw [Generated.Assignment.string, Assignment.render, slice_eq]
  | .sliceLoopAssignment _ _ _ => by rw [Generated.Assignment.string, Assignment.render, sliceLoop_eq]
  | .sliceTypecastAssignment _ _ _ _ => by rw [Generated.Assignment.string, Assignment.render, sliceCast_eq]
theorem assignment_stringList : ∀ cs : List Assignment, Generated.Assignment.stringList cs = Assignment.renderList cs
  | [] => by rw [Generated.Assignment.stringList, Assignment.renderList]
  | c :: cs => by
      rw [Generated.Assignment.stringList, Assignment.renderList, assignment_string c, assignment_stringList cs]
end

theorem assignment_retError (a : Assignment) : Generated.Assignment.retError a = a.retError := by
  cases a <;> rfl

theorem nestBody_eq (f : Function) (i n : String) (cs : List Assignment) (body : String) :
    Generated.nestStructToString.body f i n cs body = renderNest i n body := by
  unfold Generated.nestStructToString.body renderNest
  by_cases h1 : n = "" <;> by_cases h2 : i = "" <;> simp [h1, h2] <;> str_eq

theorem plain_eq (f : Function) (a : Assignment) :
    Generated.assignmentToString.plain f a = a.render ++ (if a.retError then errCheck f else "") := by
  simp only [Generated.assignmentToString.plain, assignment_string, assignment_retError, errCheck]

mutual
theorem assignmentToString_eq (f : Function) : ∀ a : Assignment, Generated.assignmentToString f a = assignmentToString f a
  | .nestStruct i n cs => by
      rw [Generated.assignmentToString, assignmentToString, nestBody_eq, assignmentToStringList_eq f cs]
  | .skipField l => by
      rw [Generated.assignmentToString, plain_eq, assignmentToString]; simp [Assignment.render, Assignment.retError]
  | .noMatchField l => by
      rw [Generated.assignmentToString, plain_eq, assignmentToString]; simp [Assignment.render, Assignment.retError]
  | .simpleField l r e => by
      rw [Generated.assignmentToString, plain_eq, assignmentToString]
      cases e <;> simp [Assignment.render, Assignment.retError]
  | .sliceAssignment l r t => by
      rw [Generated.assignmentToString, plain_eq, assignmentToString]; simp [Assignment.render, Assignment.retError]
  | .sliceLoopAssignment l r t => by
      rw [Generated.assignmentToString, plain_eq, assignmentToString]; simp [Assignment.render, Assignment.retError]
  | .sliceTypecastAssignment l r t c => by
      rw [Generated.assignmentToString, plain_eq, assignmentToString]; simp [Assignment.render, Assignment.retError]
theorem assignmentToStringList_eq (f : Function) :
    ∀ cs : List Assignment, Generated.assignmentToStringList f cs = assignmentToStringList f cs
  | [] => by rw [Generated.assignmentToStringList, assignmentToStringList]
  | c :: cs => by
      rw [Generated.assignmentToStringList, assignmentToStringList, assignmentToString_eq f c,
        assignmentToStringList_eq f cs]
end

theorem manipulatorToString_eq (m : Manipulator) (src dst : Var) (args : List Var) :
    Generated.manipulatorToString m src dst args = manipulatorToString m src dst args := by
  unfold Generated.manipulatorToString manipulatorToString hookArg
  cases m.retError <;> by_cases hp : m.pkg = "" <;> cases m.hasAdditionalArgs <;>
    cases dst.pointer <;> cases m.isDstPtr <;> cases src.pointer <;> cases m.isSrcPtr <;>
    simp [hp] <;> str_eq

/-- what the additional-argument loop of `FuncToString` writes, starting at index `k` -/
def argsText (f : Function) (k : Nat) (l : List Var) : String :=
  if (Nat.blt 0 k || f.receiver == "") || f.dstVarStyle == DstVarStyle.arg then
    concatMap (fun a => ", " ++ param a) l
  else match l with
    | [] => ""
    | a :: as => param a ++ concatMap (fun a => ", " ++ param a) as

/-- the loop exactly as the translator emits it -/
theorem gen_args_loop (f : Function) (l : List Var) (k : Nat) :
    concatMapIdxFrom (fun i args => ((if (((Nat.blt 0 i) || (f.receiver == "")) || (f.dstVarStyle == DstVarStyle.arg))
        then ", " else "") ++ args.name ++ " " ++ (Generated.Var.fullType args))) k l = argsText f k l := by
  induction l generalizing k with
  | nil => simp [concatMapIdxFrom, argsText]
  | cons a as ih =>
    simp only [concatMapIdxFrom]
    rw [ih (k + 1)]
    have hk : Nat.blt 0 (k + 1) = true := by simp [Nat.blt]
    unfold argsText
    simp only [hk, Bool.true_or, ↓reduceIte, concatMap_cons, var_fullType, param]
    cases hc : ((Nat.blt 0 k || f.receiver == "") || f.dstVarStyle == DstVarStyle.arg) <;>
      simp [String.append_assoc]

theorem joinSep_cons (x : String) (xs : List String) :
    joinSep ", " (x :: xs) = x ++ concatMap (fun s => ", " ++ s) xs := by
  induction xs generalizing x with
  | nil => simp [joinSep]
  | cons y ys ih => simp [joinSep, ih, String.append_assoc]

theorem concatMap_map {α : Type} (g : α → String) (h : String → String) (l : List α) :
    concatMap h (l.map g) = concatMap (fun a => h (g a)) l := by
  induction l with
  | nil => rfl
  | cons a as ih => simp [ih]

/-- the separator logic equals a `", "`-join of the parameter list -/
theorem params_eq (f : Function) :
    (if f.dstVarStyle == DstVarStyle.arg then
        f.dst.name ++ " *" ++ f.dst.ptrLessFullType ++ (if f.receiver == "" then ", " else "")
      else "") ++
    (if f.receiver == "" then f.src.name ++ " " ++ f.src.fullType else "") ++ argsText f 0 f.additionalArgs =
    joinSep ", " (sigParams f) := by
  unfold argsText sigParams
  have hb : Nat.blt 0 0 = false := rfl
  by_cases hr : f.receiver = ""
  · cases hs : f.dstVarStyle <;>
      simp [hr, hb, joinSep_cons, concatMap_map, param, String.append_assoc]
  · cases hs : f.dstVarStyle
    · -- receiver, return style: no parameter precedes the additional arguments
      cases hl : f.additionalArgs with
      | nil => simp [hr, hb, joinSep]
      | cons a as => simp [hr, hb, joinSep_cons, concatMap_map, param, String.append_assoc]
    · simp [hr, hb, joinSep_cons, concatMap_map, param, String.append_assoc]

theorem funcToString_eq (f : Function) : Generated.funcToString f = funcToString f := by
  have h : (fun it => Generated.assignmentToString f it) = assignmentToString f := by
    funext a; exact assignmentToString_eq f a
  unfold Generated.funcToString concatMapIdx
  rw [gen_args_loop]
  simp only [funcToString, docLines, sigHead, ← params_eq, sigTail, optManip, bodyAssignments, funcTail,
    var_fullType, var_ptrLessFullType, h]
  cases f.preProcess <;> cases f.postProcess <;> cases f.dstVarStyle <;> cases f.dst.pointer <;>
    cases f.retError <;> by_cases hr : f.receiver = "" <;>
    simp [hr, manipulatorToString_eq] <;> str_eq

end Convergen.Bridge
