import Convergen.Model.Parse
import Convergen.Generated.Tables
/-!
# Bridge: which options value an interface entry stores (`intfEntry{opts: …}`)
Separate module: this fact changes with the repair of DESIGN §5 #1.
-/
namespace Convergen.Bridge
open Convergen

/-- the Go code stores the options it has just parsed (`opts`), and so does the model -/
theorem intfEntryOpts_eq : Generated.intfEntryOpts = "opts" := by decide
theorem model_stores_parsed (parsed defaults : Options) : storedIntfOpts parsed defaults = parsed := rfl

end Convergen.Bridge
