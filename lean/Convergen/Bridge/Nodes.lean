import Convergen.Model.Builder
import Convergen.Generated.Nodes
/-!
# Bridge: the expression builders of `pkg/builder/model` (regenerated) = the model's `Node` functions

`Generated/Nodes.lean` is the translation of `AssignExpr`, `MatcherExpr` and `NullCheckExpr` of every
node kind of `pkg/builder/model/{node,struct}.go`, with the sub-expressions that reach outside the
method body as parameters.  The lemmas below show, constructor by constructor, that the hand-written
recursive functions of `Model/Builder.lean` are those translations applied to the recursive results
— so the text the model writes for a destination or source expression is what the Go code writes,
by proof, for every node tree.
-/
namespace Convergen.Bridge.Nodes
open Convergen Convergen.Generated.Nodes

variable (env : Env)

/-! ## `AssignExpr` -/

theorem root_assign (n : String) (t : TyId) : (Node.root n t).assignExpr env = rootNode_AssignExpr n := rfl

theorem field_assign (p : Node) (n : String) (t : TyId) :
    (Node.field p n t).assignExpr env = structFieldNode_AssignExpr (p.assignExpr env) n := by
  simp only [Node.assignExpr, structFieldNode_AssignExpr]

theorem method_assign (p : Node) (n : String) (rs : List TyId) :
    (Node.method p n rs).assignExpr env = structMethodNode_AssignExpr (p.assignExpr env) n := by
  simp only [Node.assignExpr, structMethodNode_AssignExpr]

theorem conv_assign (a : Node) (c : FieldConverter) :
    (Node.conv a c).assignExpr env =
      converterNode_AssignExpr (env.isPtr (a.exprType env)) (env.isPtr c.argTy) c.fn (a.assignExpr env) := by
  simp only [Node.assignExpr, converterNode_AssignExpr]

theorem cast_assign (i : Node) (t : TyId) (e : String) :
    (Node.cast i t e).assignExpr env = typecastEntry_AssignExpr e (i.assignExpr env) := by
  simp only [Node.assignExpr, typecastEntry_AssignExpr]

theorem stringer_assign (i : Node) : (Node.stringer i).assignExpr env = stringerEntry_AssignExpr (i.assignExpr env) := by
  simp only [Node.assignExpr, stringerEntry_AssignExpr]

/-! ## `MatcherExpr` -/

theorem root_matcher (n : String) (t : TyId) : (Node.root n t).matcherExpr = rootNode_MatcherExpr := rfl

theorem field_matcher (p : Node) (n : String) (t : TyId) :
    (Node.field p n t).matcherExpr = structFieldNode_MatcherExpr p.matcherExpr n := by
  simp only [Node.matcherExpr, structFieldNode_MatcherExpr]

theorem method_matcher (p : Node) (n : String) (rs : List TyId) :
    (Node.method p n rs).matcherExpr = structMethodNode_MatcherExpr p.matcherExpr n := by
  simp only [Node.matcherExpr, structMethodNode_MatcherExpr]

theorem conv_matcher (a : Node) (c : FieldConverter) : (Node.conv a c).matcherExpr = converterNode_MatcherExpr a.matcherExpr := rfl

theorem cast_matcher (i : Node) (t : TyId) (e : String) :
    (Node.cast i t e).matcherExpr = typecastEntry_MatcherExpr i.matcherExpr := rfl

theorem stringer_matcher (i : Node) : (Node.stringer i).matcherExpr = stringerEntry_MatcherExpr i.matcherExpr := rfl

/-! ## `NullCheckExpr` -/

theorem root_nullCheck (n : String) (t : TyId) : (Node.root n t).nullCheckExpr env = rootNode_NullCheckExpr n := rfl

theorem field_nullCheck (p : Node) (n : String) (t : TyId) :
    (Node.field p n t).nullCheckExpr env = structFieldNode_NullCheckExpr (p.assignExpr env) n := by
  simp only [Node.nullCheckExpr, structFieldNode_NullCheckExpr]

theorem method_nullCheck (p : Node) (n : String) (rs : List TyId) :
    (Node.method p n rs).nullCheckExpr env = structMethodNode_NullCheckExpr (p.assignExpr env) n := by
  simp only [Node.nullCheckExpr, structMethodNode_NullCheckExpr]

theorem conv_nullCheck (a : Node) (c : FieldConverter) :
    (Node.conv a c).nullCheckExpr env = converterNode_NullCheckExpr ((Node.conv a c).assignExpr env) := rfl

theorem cast_nullCheck (i : Node) (t : TyId) (e : String) :
    (Node.cast i t e).nullCheckExpr env = typecastEntry_NullCheckExpr (i.nullCheckExpr env) := rfl

theorem stringer_nullCheck (i : Node) :
    (Node.stringer i).nullCheckExpr env = stringerEntry_NullCheckExpr (i.nullCheckExpr env) := rfl

end Convergen.Bridge.Nodes
