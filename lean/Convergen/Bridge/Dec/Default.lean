import Convergen.Model.Method
import Convergen.Model.Options
import Convergen.Model.Runner
import Convergen.Generated.Decisions
/-!
# Bridge: the model takes the same path as the Go code — the default matcher: the candidate handler, the two passes, the member loop

`Generated/Decisions.lean` holds, for each function below, the *skeleton* of the Go source: a
function from the truth values of its condition leaves (in source order) to a label naming the path
taken — the `return` statement reached and the effects on the way.  Each theorem here says: the
model's function **equals** that skeleton composed with a table that maps every label to what the
model does on that path.  So the order of the tests, the set of tests and what each branch returns
are the Go source's, by proof, for all inputs; a reordered, dropped or added test in the Go code
changes the generated skeleton and this file stops compiling.  (One file per group of functions, so
that a change to one function breaks the obligations of the properties that depend on it and no
others.)
-/
namespace Convergen.Bridge.Decisions
open Convergen

variable (ctx : BCtx)

/-! ## the `handler` closure of `structFieldAndStructGettersAndFields`: what one candidate yields -/

/-- what the model does on each path of the closure.  `slice?` is what `sliceToSlice` returned,
`c?`/`w` what `castNode` returned, `body?` what the nested `structToStruct` call returns; the labels
say which parts of the `NestStruct` were filled in (`InitExpr`, `NullCheckExpr`) and whether it
became the assignment (`a=nestStruct`). -/
def handlerOn (lhs cand : Node) (warns : List String) (slice? : Option Stmt) (c? : Option Node) (w : List String)
    (body? : Outcome (List Stmt)) (label : String) : Outcome (Option Stmt × List String) :=
  let env := ctx.env
  let initExpr := lhs.assignExpr env ++ " = " ++ env.typeNameF (lhs.exprType env) ++ "{}"
  let nullCheck := cand.nullCheckExpr env
  let simple : Outcome (Option Stmt × List String) :=
    match c? with
    | some c => .ok (some (.simple lhs (.node c) c.returnsError (warns ++ w)), warns)
    | none => .panic "no node"
  let nest (i n : String) : Outcome (Option Stmt × List String) :=
    match body? with
    | .ok body => .ok (some (.nest lhs cand i n body (warns ++ w)), warns ++ w)
    | .error e => .error e
    | .panic p => .panic p
  let nothingNested : Outcome (Option Stmt × List String) :=
    match body? with
    | .ok _ => .ok (none, warns ++ w)
    | .error e => .error e
    | .panic p => .panic p
  match label with
  | "a,err=b.sliceToSlice(); a=gmodel.SimpleField{}; return true" => simple
  | "a,err=b.sliceToSlice(); nestStruct.Contents,err=b.structToStruct(); a= …#c2639fd3" => nest "" ""
  | "a,err=b.sliceToSlice(); nestStruct.Contents,err=b.structToStruct(); return a != nil || err != nil" => nothingNested
  | "a,err=b.sliceToSlice(); nestStruct.InitExpr=fmt.Sprintf(); nestStruct. …#007007ad" => nest initExpr ""
  | "a,err=b.sliceToSlice(); nestStruct.InitExpr=fmt.Sprintf(); nestStruct. …#0809df1a" => nest initExpr nullCheck
  | "a,err=b.sliceToSlice(); nestStruct.InitExpr=fmt.Sprintf(); nestStruct. …#2513296c" => nothingNested
  | "a,err=b.sliceToSlice(); nestStruct.InitExpr=fmt.Sprintf(); nestStruct. …#fa195f13" => nothingNested
  | "a,err=b.sliceToSlice(); nestStruct.NullCheckExpr=rhs.NullCheckExpr();  …#4b9b9ac8" => nest "" nullCheck
  | "a,err=b.sliceToSlice(); nestStruct.NullCheckExpr=rhs.NullCheckExpr();  …#63ceb6fa" => nothingNested
  | "a,err=b.sliceToSlice(); return a != nil || err != nil" => .ok (none, warns ++ w)
  | "a,err=b.sliceToSlice(); return true" => .ok (slice?, warns)
  | "a=gmodel.SimpleField{}; return true" => simple
  | "nestStruct.Contents,err=b.structToStruct(); a=nestStruct; return a != nil || err != nil" => nest "" ""
  | "nestStruct.Contents,err=b.structToStruct(); return a != nil || err != nil" => nothingNested
  | "nestStruct.InitExpr=fmt.Sprintf(); nestStruct.Contents,err=b.structToS …#9ea2c62b" => nothingNested
  | "nestStruct.InitExpr=fmt.Sprintf(); nestStruct.Contents,err=b.structToS …#b91c1875" => nest initExpr ""
  | "nestStruct.InitExpr=fmt.Sprintf(); nestStruct.NullCheckExpr=rhs.NullCh …#d2d1e902" => nest initExpr nullCheck
  | "nestStruct.InitExpr=fmt.Sprintf(); nestStruct.NullCheckExpr=rhs.NullCh …#e0562424" => nothingNested
  | "nestStruct.NullCheckExpr=rhs.NullCheckExpr(); nestStruct.Contents,err= …#0b3a53a0" => nest "" nullCheck
  | "nestStruct.NullCheckExpr=rhs.NullCheckExpr(); nestStruct.Contents,err= …#9819b482" => nothingNested
  | "return" => .ok (none, warns)
  | "return a != nil || err != nil" => .ok (none, warns ++ w)
  | _ => .panic "handler: unknown path"

theorem sliceToSlice_total (lhs rhs : Node) : ∃ r, ctx.sliceToSlice lhs rhs = .ok r := by
  unfold BCtx.sliceToSlice
  simp only
  repeat' split
  all_goals exact ⟨_, rfl⟩

def isMethodNode : Node → Bool
  | .method _ _ _ => true
  | _ => false

def recOk (o : Outcome (List Stmt)) : Bool := match o with | .ok _ => true | _ => false
def recNonEmpty (o : Outcome (List Stmt)) : Bool := match o with | .ok b => !b.isEmpty | _ => false

/-! the skeleton looks at the two slice tests only as a conjunction, and — once the getter lookup
succeeds — not at whether the candidate is a getter -/
theorem skeleton_slices (c0 c1 c2 c3 c4 c5 c6 c7 c8 c9 c10 c11 c12 c13 c14 c15 : Bool) :
    Generated.Decisions.candidateHandler c0 c1 c2 c3 c4 c5 c6 c7 c8 c9 c10 c11 c12 c13 c14 c15 =
    Generated.Decisions.candidateHandler c0 c1 c2 c3 (c4 && c5) true c6 c7 c8 c9 c10 c11 c12 c13 c14 c15 := by
  cases c4 <;> cases c5 <;> rfl

theorem skeleton_getter (c0 c1 c2 c4 c5 c6 c7 c8 c9 c10 c11 c12 c13 c14 c15 : Bool) :
    Generated.Decisions.candidateHandler c0 c1 c2 false c4 c5 c6 c7 c8 c9 c10 c11 c12 c13 c14 c15 =
    Generated.Decisions.candidateHandler c0 c1 false false c4 c5 c6 c7 c8 c9 c10 c11 c12 c13 c14 c15 := by
  cases c2 <;> rfl

set_option maxHeartbeats 1600000 in
/-- the part of the closure after the slice branch: cast the whole value, or descend -/
theorem castOrNest_follows_source (rec : Node → Node → Outcome (List Stmt)) (lhs cand : Node)
    (warns : List String) (slice? : Option Stmt) (c? : Option Node) (w : List String) (mw sl c6 : Bool)
    (hc : ctx.castNode (lhs.exprType ctx.env) cand = .ok (c?, w))
    (hm : ctx.addressedBelow (ctx.env.tys.size + 1) lhs = .ok mw)
    (hsl : sl = false ∨ c6 = false) :
    (match ctx.memberwise lhs cand with
     | .error e => .error e
     | .panic p => .panic p
     | .ok mw => ctx.castOrNest rec lhs cand warns mw) =
      handlerOn ctx lhs cand warns slice? c? w (rec lhs cand)
        (Generated.Decisions.candidateHandler true true false false sl true c6 false c?.isSome
          (ctx.env.isStructType (lhs.exprType ctx.env)) (ctx.env.isStructType (cand.exprType ctx.env)) mw
          (ctx.env.isPtr (lhs.exprType ctx.env)) (cand.objNullable ctx.env)
          (recOk (rec lhs cand)) (recNonEmpty (rec lhs cand))) := by
  unfold BCtx.memberwise BCtx.castOrNest
  simp only [hc, hm]
  generalize ctx.env.isStructType (lhs.exprType ctx.env) = b9
  generalize ctx.env.isStructType (cand.exprType ctx.env) = b10
  generalize ctx.env.isPtr (lhs.exprType ctx.env) = b12
  generalize cand.objNullable ctx.env = b13
  generalize rec lhs cand = r
  have hcases : (sl = false ∧ c6 = false) ∨ (sl = false ∧ c6 = true) ∨ (sl = true ∧ c6 = false) := by
    cases sl <;> cases c6 <;> simp_all
  rcases hcases with ⟨h1, h2⟩ | ⟨h1, h2⟩ | ⟨h1, h2⟩ <;> subst h1 <;> subst h2 <;>
    cases c? <;> cases b9 <;> cases b10 <;> cases mw <;>
    first
    | (simp [Generated.Decisions.candidateHandler, handlerOn]; done)
    | (cases b12 <;> cases b13 <;> rcases r with (_ | ⟨x, xs⟩) | e | p <;>
        simp [Generated.Decisions.candidateHandler, handlerOn, recOk, recNonEmpty])

/-- **the candidate handler follows the source**: inaccessible or differently named candidates are
passed over; two slices go through `sliceToSlice` first; then the whole value if it fits and no
notation names something beneath it; then — for two structs — the member-by-member block, which
counts only if it has content; a candidate that yields nothing leaves the search open.
(c3, "a pointer-receiver getter on a value without address", is decided before the handler in the
model: such getters are no `candidates`; c7: `sliceToSlice` never fails.) -/
theorem tryCand_follows_source (rec : Node → Node → Outcome (List Stmt)) (lhs rhsStruct cand : Node)
    (warns : List String) (slice? : Option Stmt) (c? : Option Node) (w : List String) (mw : Bool)
    (hs : ctx.sliceToSlice lhs cand = .ok slice?)
    (hc : ctx.castNode (lhs.exprType ctx.env) cand = .ok (c?, w))
    (hm : ctx.addressedBelow (ctx.env.tys.size + 1) lhs = .ok mw) :
    ctx.tryCand rec lhs rhsStruct warns cand =
      handlerOn ctx lhs cand warns slice? c? w (rec lhs cand)
        (Generated.Decisions.candidateHandler
          (ctx.accessible rhsStruct cand.objName) (ctx.opts.compareFieldName lhs.objName cand.objName)
          (isMethodNode cand) false
          (ctx.env.isSliceType (lhs.exprType ctx.env)) (ctx.env.isSliceType (cand.exprType ctx.env))
          slice?.isSome false c?.isSome
          (ctx.env.isStructType (lhs.exprType ctx.env)) (ctx.env.isStructType (cand.exprType ctx.env)) mw
          (ctx.env.isPtr (lhs.exprType ctx.env)) (cand.objNullable ctx.env)
          (recOk (rec lhs cand)) (recNonEmpty (rec lhs cand))) := by
  rw [skeleton_slices, skeleton_getter]
  unfold BCtx.tryCand
  simp only
  cases h0 : ctx.accessible rhsStruct cand.objName
  · simp [Generated.Decisions.candidateHandler, handlerOn]
  · cases h1 : ctx.opts.compareFieldName lhs.objName cand.objName
    · simp [Generated.Decisions.candidateHandler, handlerOn]
    · simp only [Bool.not_true, Bool.or_self, Bool.false_eq_true, if_false]
      cases h45 : (ctx.env.isSliceType (lhs.exprType ctx.env) && ctx.env.isSliceType (cand.exprType ctx.env))
      · simp only [Bool.false_eq_true, if_false]
        exact castOrNest_follows_source ctx rec lhs cand warns slice? c? w mw false _ hc hm (Or.inl rfl)
      · simp only [if_true, hs]
        cases slice? with
        | some s => simp [Generated.Decisions.candidateHandler, handlerOn]
        | none => exact castOrNest_follows_source ctx rec lhs cand warns none c? w mw true _ hc hm (Or.inr rfl)

/-! ## `structFieldAndStructGettersAndFields`: the two passes -/

theorem foldOutcome_append {σ α : Type} (f : σ → α → Outcome σ) (s : σ) (xs ys : List α) :
    foldOutcome f s (xs ++ ys) = (foldOutcome f s xs).bind (fun s' => foldOutcome f s' ys) := by
  induction xs generalizing s with
  | nil => simp [foldOutcome, Outcome.bind]
  | cons x xs ih =>
    simp only [List.cons_append, foldOutcome]
    cases f s x with
    | ok s' => simpa using ih s'
    | error e => simp [Outcome.bind]
    | panic p => simp [Outcome.bind]

/-- once an assignment is found the remaining candidates change nothing (`done`) -/
theorem fold_handler_found (rec : Node → Node → Outcome (List Stmt)) (lhs rhsStruct : Node) (st : BCtx.Pass)
    (h : st.a.isSome = true) (cs : List Node) :
    foldOutcome (ctx.handler rec lhs rhsStruct) st cs = .ok st := by
  induction cs with
  | nil => rfl
  | cons c cs ih => simp [foldOutcome, BCtx.handler, h, ih]

/-- the getters that are tried under `:getter`, and the fields -/
def getterCands (rhsStruct : Node) : List Node :=
  let env := ctx.env
  let rt := rhsStruct.exprType env
  ((env.methodsOf rt).filter fun m =>
      env.compliesGetter m && !(m.ptrRecv && !env.isPtr rt && !rhsStruct.addressable env)).map
    fun m => Node.method rhsStruct m.name m.results

def fieldCands (rhsStruct : Node) : List Node :=
  (ctx.env.fieldsOf (rhsStruct.exprType ctx.env)).map fun f => Node.field rhsStruct f.name f.ty

/-- what the model returns on each path of the outer function: `p1` is the state after the getter
pass (the initial state when there is none), `p2` the state after the field pass -/
def fieldDefaultOn (lhs : Node) (p1 p2 : BCtx.Pass) (label : String) : Outcome Stmt :=
  match label with
  | "bmodel.IterateStructMethods(); return a, err" =>
    match p1.a with | some a => .ok a | none => .panic "nothing found"
  | "bmodel.IterateStructMethods(); bmodel.IterateStructFields(); return a, err"
  | "bmodel.IterateStructFields(); return a, err" =>
    match p2.a with | some a => .ok a | none => .panic "nothing found"
  | "bmodel.IterateStructMethods(); bmodel.IterateStructFields(); logger.Wa …#6d04354e"
  | "bmodel.IterateStructFields(); logger.Warnf(); return gmodel.NoMatchField{LHS: lhsExpr}, nil"
  | "bmodel.IterateStructMethods(); logger.Warnf(); return gmodel.NoMatchField{LHS: lhsExpr}, nil"
  | "logger.Warnf(); return gmodel.NoMatchField{LHS: lhsExpr}, nil" => ctx.noMatchAt ctx.methodPos lhs p2.warns
  | _ => .panic "structFieldAndStructGettersAndFields: unknown path"

/-- **the two passes follow the source**: getters first and only under `:getter` with `:match name`;
fields only under `:match name`; the first pass that finds something ends the search; otherwise the
field is reported.  (Stated for passes that do not fail: c3 = c5 = false.) -/
theorem fieldDefault_follows_source (rec : Node → Node → Outcome (List Stmt)) (lhs rhsStruct : Node)
    (p1 p2 : BCtx.Pass)
    (h1 : foldOutcome (ctx.handler rec lhs rhsStruct) {}
            (if ctx.opts.getter && ctx.opts.rule == .name then getterCands ctx rhsStruct else []) = .ok p1)
    (h2 : foldOutcome (ctx.handler rec lhs rhsStruct) p1
            (if ctx.opts.rule == .name then fieldCands ctx rhsStruct else []) = .ok p2) :
    ctx.fieldDefault rec lhs rhsStruct =
      fieldDefaultOn ctx lhs p1 p2 (Generated.Decisions.fieldDefault ctx.opts.getter (ctx.opts.rule == .name)
        p1.a.isSome false p2.a.isSome false) := by
  have hc : ctx.candidates rhsStruct =
      (if ctx.opts.getter && ctx.opts.rule == .name then getterCands ctx rhsStruct else []) ++
      (if ctx.opts.rule == .name then fieldCands ctx rhsStruct else []) := by
    unfold BCtx.candidates getterCands fieldCands
    cases ctx.opts.getter <;> cases (ctx.opts.rule == .name) <;> simp
  unfold BCtx.fieldDefault
  rw [hc, foldOutcome_append, h1]
  simp only [Outcome.bind, bind, h2]
  unfold Generated.Decisions.fieldDefault
  cases hg : ctx.opts.getter <;> cases hr : (ctx.opts.rule == .name) <;> simp only [hg, hr] at h1 h2 <;>
    simp [foldOutcome] at h1 h2
  · subst h1; subst h2; simp [fieldDefaultOn]
  · subst h1
    cases hp2 : p2.a <;> simp [fieldDefaultOn, hp2, pure]
  · subst h1; subst h2; simp [fieldDefaultOn]
  · cases hp1 : p1.a with
    | some a =>
      have hfound := fold_handler_found ctx rec lhs rhsStruct p1 (by simp [hp1]) (fieldCands ctx rhsStruct)
      rw [hfound] at h2
      cases h2
      simp [fieldDefaultOn, hp1, pure]
    | none =>
      cases hp2 : p2.a <;> simp [fieldDefaultOn, hp2, pure]

/-! ## `dispatch` -/

/-- **`dispatch` follows the source**: two structs (behind at most one pointer each) are copied
member by member, anything else is reported -/
theorem dispatch_follows_source (fuel : Nat) (lhs rhs : Node) (args : List Node) :
    ctx.dispatch fuel lhs rhs args =
      (match Generated.Decisions.dispatch (ctx.env.isStructType (ctx.env.derefPtr (lhs.exprType ctx.env)))
          (ctx.env.isStructType (ctx.env.derefPtr (rhs.exprType ctx.env))) with
       | "return b.structToStruct()" => ctx.structToStruct fuel lhs rhs args
       | "logger.Warnf(); return []gmodel.Assignment{gmodel.NoMatchField{LHS: lhs.AssignExpr()}}, nil" =>
         .ok [.noMatch lhs [s!"{ctx.methodPos}: no assignment (non-struct operands)"]]
       | _ => .panic "dispatch: unknown path") := by
  unfold BCtx.dispatch Generated.Decisions.dispatch
  simp only
  cases h1 : ctx.env.isStructType (ctx.env.derefPtr (lhs.exprType ctx.env)) <;>
    cases h2 : ctx.env.isStructType (ctx.env.derefPtr (rhs.exprType ctx.env)) <;> simp

end Convergen.Bridge.Decisions
