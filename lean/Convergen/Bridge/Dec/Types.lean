import Convergen.Model.Types
import Convergen.Generated.Decisions
/-!
# Bridge: the model takes the same path as the Go code — how a type is written in the generated file

The skeletons of `ImportNames.TypeName` and `ImportNames.IsExternal` are regenerated from the Go
source (`Generated/Decisions.lean`; the type switch is the chain of tests "t is T" in source
order); the model's functions equal them composed with the table of what the model does on each
path, for all type tables and import tables.
-/
namespace Convergen.Bridge.Decisions
open Convergen

variable (env : Env)

/-- **`TypeName` follows the source**: a pointer is a star before its element's name, a basic type
its name, a named type its bare name when it belongs to no package, to the generated package or to
a dot import, else the name the setup file imports its package under and a dot; instantiated
generic types and composite types are printed member by member with those qualifiers (C01, C08) -/
theorem typeName_follows_source (fuel : Nat) (t : TyId) :
    env.typeName (fuel + 1) t =
      (match Generated.Decisions.typeName (env.kind t == .pointer) (env.kind t == .basic) (env.kind t == .named)
          (env.ty t).hasTypeArgs (env.ty t).pkgPath.isNone
          (((env.ty t).pkgPath.bind env.importName).isSome)
          (((env.ty t).pkgPath.bind env.importName) != some ".") with
       | "return \"*\" + i.TypeName(typ.Elem())" => "*" ++ env.typeName fuel (env.ty t).elem
       | "return typ.Name()" => (env.ty t).name
       | "return i.qualifiedString()" => Env.qualifyTemplate env.imports (env.ty t).qstr
       | "return typ.Obj().Name()" => (env.ty t).name
       | "return fmt.Sprintf()" =>
         (((env.ty t).pkgPath.bind env.importName).getD "") ++ "." ++ (env.ty t).name
       | _ => "") := by
  rw [Env.typeName]
  unfold Generated.Decisions.typeName
  cases hk : env.kind t <;> simp
  cases ha : (env.ty t).hasTypeArgs <;> simp
  cases hp : (env.ty t).pkgPath with
  | none => simp
  | some p =>
    simp only [Option.bind_some]
    rcases Option.eq_none_or_eq_some (env.importName p) with hn | ⟨n, hn⟩
    · simp [hn]
    · by_cases hd : n = "." <;> simp [hn, hd]

/-- **`IsExternal` follows the source**: only a named type (behind at most one pointer) of a
package the setup file imports -/
theorem isExternal_follows_source (t : TyId) :
    env.isExternal t =
      (match Generated.Decisions.isExternal (env.isNamedType (env.derefPtr t)) (env.ty (env.derefPtr t)).pkgPath.isNone with
       | "return false" => false
       | "return ok" => (((env.ty (env.derefPtr t)).pkgPath.bind env.importName).isSome)
       | _ => false) := by
  unfold Env.isExternal Generated.Decisions.isExternal
  cases hn : env.isNamedType (env.derefPtr t) <;> simp [hn]
  cases hp : (env.ty (env.derefPtr t)).pkgPath <;> simp [hp]

end Convergen.Bridge.Decisions
