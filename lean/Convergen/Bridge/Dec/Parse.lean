import Convergen.Model.Method
import Convergen.Model.Options
import Convergen.Model.Runner
import Convergen.Model.Parse
import Convergen.Generated.Decisions
/-!
# Bridge: the model takes the same path as the Go code — the loops of the parser: which interfaces become entries, all-or-nothing over the methods

`Generated/Decisions.lean` holds, for each function below, the *skeleton* of the Go source: a
function from the truth values of its condition leaves (in source order) to a label naming the path
taken — the `return` statement reached and the effects on the way.  Each theorem here says: the
model's function **equals** that skeleton composed with a table that maps every label to what the
model does on that path.  So the order of the tests, the set of tests and what each branch returns
are the Go source's, by proof, for all inputs; a reordered, dropped or added test in the Go code
changes the generated skeleton and this file stops compiling.  (One file per group of functions, so
that a change to one function breaks the obligations of the properties that depend on it and no
others.)
-/
namespace Convergen.Bridge.Decisions
open Convergen


/-! ## `findConvergenEntries`: the step for one object of the package scope -/

/-- what the model does on each path of the loop body -/
def entryStepOn (env : Env) (sc : Scope) (eng : Engine) (obj : ScopeObj) (st : PState) (label : String) : EntryStep :=
  let doc := st.docs.docOn obj.docChain
  let (notations, docs) := match doc with
    | some (node, g) =>
      let (ns, d) := st.docs.extract g isNotationLine
      let d := d.setGroup g []
      (ns, d.cleanUp node g)
    | none => ([], st.docs)
  let st' := { st with docs := docs }
  let res := parseNotations env sc eng validOpsIntf notations newOptions
  match label with
  | "continue" => .notTarget
  | "docComment.List=nil; cleanUp(); return nil, err" | "cleanUp(); return nil, err" =>
    match res with
    | .error msgs => .halt .error { st' with stderr := st'.stderr ++ msgs ++ msgs }
    | .panic s => .halt (.panic s) st'
    | .ok _ => .halt (.panic "no error") st'
  | "docComment.List=nil; cleanUp(); entries=append(); next" | "cleanUp(); entries=append(); next" =>
    match res with
    | .ok r => .entry { obj := obj, opts := storedIntfOpts r.opts newOptions } { st' with stdout := st'.stdout ++ r.stdout }
    | _ => .halt (.panic "no options") st'
  | _ => .halt (.panic "findConvergenEntries: unknown path") st

/-- the notations of an interface's doc comment and the options they give -/
def intfNotationResult (env : Env) (sc : Scope) (eng : Engine) (obj : ScopeObj) (st : PState) : Outcome ParseResult :=
  let doc := st.docs.docOn obj.docChain
  let notations := match doc with
    | some (_, g) => (st.docs.extract g isNotationLine).1
    | none => []
  parseNotations env sc eng validOpsIntf notations newOptions

/-- **the loop body of `findConvergenEntries` follows the source**: only declared types, only interfaces, only those of
the setup file, only those named `Convergen` or marked `:convergen`; a notation error ends the run;
everything else becomes an entry (C17) -/
theorem entryStep_follows_source (env : Env) (sc : Scope) (eng : Engine) (intfName : String) (obj : ScopeObj)
    (st : PState) :
    entryStep env sc eng intfName obj st =
      entryStepOn env sc eng obj st (Generated.Decisions.entryStep obj.isType obj.isInterface (!obj.inSetupFile)
        (obj.name == intfName) (docHasConvergen st obj) (st.docs.docOn obj.docChain).isSome
        (match intfNotationResult env sc eng obj st with | .ok _ => false | _ => true)) := by
  unfold entryStep isTargetIntf Generated.Decisions.entryStep intfNotationResult
  cases ht : obj.isType <;> cases hi : obj.isInterface <;> cases hs : obj.inSetupFile <;> cases hn : (obj.name == intfName) <;>
    cases hd : docHasConvergen st obj <;> simp [entryStepOn]
  all_goals
    cases hdoc : st.docs.docOn obj.docChain with
    | none =>
      simp only
      cases hr : parseNotations env sc eng validOpsIntf [] newOptions <;> simp
    | some ng =>
      obtain ⟨node, g⟩ := ng
      simp only
      cases hr : parseNotations env sc eng validOpsIntf (st.docs.extract g isNotationLine).1 newOptions <;> simp

/-- **after the loop**: no entry at all is an error (reported at the package clause) -/
theorem findConvergenEntries_end (env : Env) (sc : Scope) (eng : Engine) (file : FileFacts) (intfName : String)
    (acc : List IntfEntry) (st : PState) :
    findConvergenEntries env sc eng file intfName [] acc st =
      (match Generated.Decisions.findConvergenEntries false acc.isEmpty with
       | "return nil, Errorf(%v: %v interface not found)" =>
         failTwice s!"{file.packagePos}: {intfName} interface not found" st
       | "return entries, nil" => .ok (acc, st)
       | _ => .error (.panic "findConvergenEntries: unknown path", st)) := by
  unfold findConvergenEntries Generated.Decisions.findConvergenEntries
  cases acc.isEmpty <;> simp

/-- a failing step ends the loop with that failure, whatever follows -/
theorem findConvergenEntries_halt (env : Env) (sc : Scope) (eng : Engine) (file : FileFacts) (intfName : String)
    (obj : ScopeObj) (rest : List ScopeObj) (acc : List IntfEntry) (st st' : PState) (h : Halt) (c1 : Bool)
    (hstep : entryStep env sc eng intfName obj st = .halt h st') :
    (match Generated.Decisions.findConvergenEntries true c1 with
     | "return nil, err" => findConvergenEntries env sc eng file intfName (obj :: rest) acc st = .error (h, st')
     | _ => False) := by
  simp [Generated.Decisions.findConvergenEntries, findConvergenEntries, hstep]

/-! ## `parseMethods`: all or nothing -/

/-- **the loop body of `parseMethods` follows the source**: a method that fails is reported and
remembered, the others are collected -/
theorem parseMethods_step_follows_source (env : Env) (sc : Scope) (eng : Engine) (entry : IntfEntry)
    (m : MethodDecl) (rest : List MethodDecl) (acc : List ParsedMethod) (failed : Bool) (st st' : PState)
    (r? : Option ParsedMethod) (hm : parseMethod env sc eng m entry.opts st = .ok (r?, st')) :
    parseMethods.go env sc eng entry (m :: rest) acc failed st =
      (match Generated.Decisions.parseMethodsStep r?.isNone with
       | "_,_=fmt.Fprintln(); continue" => parseMethods.go env sc eng entry rest acc true st'
       | "methods=append(); next" =>
         (match r? with
          | some pm => parseMethods.go env sc eng entry rest (acc ++ [pm]) failed st'
          | none => .error (.panic "no method", st'))
       | _ => .error (.panic "parseMethods: unknown path", st')) := by
  unfold Generated.Decisions.parseMethodsStep
  cases r? <;> simp [parseMethods.go, hm]

/-- **after the loop**: one failed method fails the interface (`errAbort`) -/
theorem parseMethods_end_follows_source (env : Env) (sc : Scope) (eng : Engine) (entry : IntfEntry)
    (acc : List ParsedMethod) (failed : Bool) (st : PState) :
    parseMethods.go env sc eng entry [] acc failed st =
      (match Generated.Decisions.parseMethods failed with
       | "return nil, errAbort" => .error (.error, { st with stderr := st.stderr ++ ["abort"] })
       | "return methods, nil" => .ok (acc, st)
       | _ => .error (.panic "parseMethods: unknown path", st)) := by
  unfold Generated.Decisions.parseMethods
  cases failed <;> simp [parseMethods.go]

end Convergen.Bridge.Decisions
