import Convergen.Model.Method
import Convergen.Model.Options
import Convergen.Model.Runner
import Convergen.Generated.Decisions
/-!
# Bridge: the model takes the same path as the Go code — `resolveExpr`: one step along a `:map` / `:conv` source path

`Generated/Decisions.lean` holds, for each function below, the *skeleton* of the Go source: a
function from the truth values of its condition leaves (in source order) to a label naming the path
taken — the `return` statement reached and the effects on the way.  Each theorem here says: the
model's function **equals** that skeleton composed with a table that maps every label to what the
model does on that path.  So the order of the tests, the set of tests and what each branch returns
are the Go source's, by proof, for all inputs; a reordered, dropped or added test in the Go code
changes the generated skeleton and this file stops compiling.  (One file per group of functions, so
that a change to one function breaks the obligations of the properties that depend on it and no
others.)
-/
namespace Convergen.Bridge.Decisions
open Convergen

variable (ctx : BCtx)

/-- the method found by the lookup, if it is one -/
def lkMethod : Lookup → Option MethodInfo
  | .method m => some m
  | _ => none

def lkField : Lookup → Option (String × TyId)
  | .field n t => some (n, t)
  | _ => none

/-- `obj == nil`: nothing of that name, or a pointer-receiver method on a value that has no address
(`LookupFieldOrMethod(typ, isAddressable(node), …)`) -/
def lkNil (env : Env) (node : Node) : Lookup → Bool
  | .none => true
  | .method m => m.needsAddr && !node.addressable env
  | .field _ _ => false

/-- what the model does on each path of the loop body of `resolveExpr` -/
def resolveStepOn (rest : List String) (node : Node) (lk : Lookup) (label : String) : Option Node :=
  match label with
  | "return" => none
  | "node=bmodel.NewStructMethodNode(); return node, true" =>
    (lkMethod lk).map fun m => Node.method node m.name m.results
  | "node=bmodel.NewStructMethodNode(); return" => none
  | "node=bmodel.NewStructMethodNode(); typ=ret; next" =>
    match lkMethod lk with
    | some m =>
      match ctx.env.parseGetterReturnTypes m with
      | some (ret, _) => ctx.walkPath rest (Node.method node m.name m.results) ret
      | none => none
    | none => none
  | "node=bmodel.NewStructFieldNode(); return node, true" =>
    (lkField lk).map fun (n, t) => Node.field node n t
  | "node=bmodel.NewStructFieldNode(); typ=field.Type(); next" =>
    match lkField lk with
    | some (n, t) => ctx.walkPath rest (Node.field node n t) t
    | none => none
  | _ => none

/-- **one step of `resolveExpr` follows the source**: the member must exist (and be callable on this
operand), be of the kind the segment asks for (`X` a field, `X()` a method), be visible from the
generated package, and — for a method — have the shape of a getter; an error-returning getter can
only end a path -/
theorem walkPath_step_follows_source (seg : String) (rest : List String) (node : Node) (typ : TyId) :
    ctx.walkPath (seg :: rest) node typ =
      resolveStepOn ctx rest node (ctx.env.lookup typ (nameAt seg))
        (Generated.Decisions.resolveStep
          (lkNil ctx.env node (ctx.env.lookup typ (nameAt seg)))
          (forGetter seg)
          (lkMethod (ctx.env.lookup typ (nameAt seg))).isSome
          (ctx.env.isExternalPkg (ctx.env.pkgOf typ))
          (((lkMethod (ctx.env.lookup typ (nameAt seg))).map fun m => isExportedName m.name).getD false)
          (((lkMethod (ctx.env.lookup typ (nameAt seg))).map fun m => (ctx.env.parseGetterReturnTypes m).isSome).getD false)
          rest.isEmpty
          (((lkMethod (ctx.env.lookup typ (nameAt seg))).bind fun m => (ctx.env.parseGetterReturnTypes m).map (·.2)).getD false)
          (lkField (ctx.env.lookup typ (nameAt seg))).isSome
          (((lkField (ctx.env.lookup typ (nameAt seg))).map fun f => isExportedName f.1).getD false)) := by
  unfold BCtx.walkPath Generated.Decisions.resolveStep
  simp only
  generalize ctx.env.isExternalPkg (ctx.env.pkgOf typ) = ext
  cases hl : ctx.env.lookup typ (nameAt seg) with
  | none => simp [lkNil, resolveStepOn]
  | method m =>
    simp only [lkNil, lkMethod, lkField, Option.isSome_some, Option.map_some, Option.getD_some, Option.bind_some,
      Option.isSome_none, Option.map_none, Option.getD_none]
    by_cases hna : (m.needsAddr && !node.addressable ctx.env) = true
    · simp [hna, resolveStepOn]
    · by_cases hg : forGetter seg = true
      · rcases Option.eq_none_or_eq_some (ctx.env.parseGetterReturnTypes m) with hp | ⟨⟨ret, re⟩, hp⟩
        · by_cases hx : isExportedName m.name = true <;> cases ext <;>
            simp [resolveStepOn, hna, hg, hx, hp]
        · by_cases hx : isExportedName m.name = true <;> cases ext <;>
            by_cases hr : rest.isEmpty = true <;> cases re <;>
            simp [resolveStepOn, hna, hg, hx, hp, hr, lkMethod]
      · simp [hna, hg, resolveStepOn]
  | field fname fty =>
    simp only [lkNil, lkMethod, lkField, Option.isSome_some, Option.map_some, Option.getD_some,
      Option.isSome_none, Option.map_none, Option.getD_none, Option.bind_none]
    by_cases hg : forGetter seg = true
    · simp [hg, resolveStepOn]
    · by_cases hx : isExportedName fname = true <;> cases ext <;> by_cases hr : rest.isEmpty = true <;>
        simp [resolveStepOn, hg, hx, hr, lkField]

/-! ## `resolveTemplatedExpr` (`$n` sources) -/

/-- **the loop of `resolveTemplatedExpr` is the loop of `resolveExpr`**: the two skeletons are the
same function of the same ten conditions, so `walkPath_step_follows_source` speaks for both; a
change to one loop and not the other breaks this -/
theorem templatedStep_is_resolveStep :
    Generated.Decisions.templatedStep = Generated.Decisions.resolveStep := rfl

/-- **the head of `resolveTemplatedExpr` follows the source**: the first segment is `$n`, `n`
counts the additional arguments from one; a path of one segment is the argument itself, a longer
one is walked from it -/
theorem resolveTemplated_head_follows_source (pattern : String) (args : List Node) :
    ctx.resolveTemplatedExpr pattern args =
      (let paths := identPaths pattern
       let idx := (paths.head?.bind fun first => BCtx.parseInt (String.ofList (first.toList.drop 1)))
       let i : Int := (idx.getD 0) - 1
       match Generated.Decisions.templatedHead paths.isEmpty idx.isNone (decide (i < 0))
           (decide ((args.length : Int) ≤ i)) (decide (paths.length = 1)) with
       | "return" | "index--; return" => none
       | "index--; node=additionalArgs[index]; return node, true" => args[i.toNat]?
       | "index--; node=additionalArgs[index]; continue" =>
         (match args[i.toNat]? with
          | some node => ctx.walkPath (paths.drop 1) node (node.exprType ctx.env)
          | none => none)
       | _ => none) := by
  unfold BCtx.resolveTemplatedExpr Generated.Decisions.templatedHead
  cases hp : identPaths pattern with
  | nil => simp
  | cons first rest =>
    simp only [List.head?_cons, Option.bind_some, List.isEmpty_cons, List.drop_succ_cons, List.drop_zero]
    rcases Option.eq_none_or_eq_some (BCtx.parseInt (String.ofList (first.toList.drop 1))) with hi | ⟨idx, hi⟩
    · have hi' : BCtx.parseInt (String.ofList first.toList.tail) = none := by simpa using hi
      simp [hi']
    · simp only [hi, Option.getD_some, Option.isNone_some]
      by_cases h1 : idx - 1 < 0
      · simp [h1]
      · by_cases h2 : (args.length : Int) ≤ idx - 1
        · simp [h1, h2]
        · cases rest with
          | nil => cases args[(idx - 1).toNat]? <;> simp [h1, h2]
          | cons r rs => cases args[(idx - 1).toNat]? <;> simp [h1, h2]

end Convergen.Bridge.Decisions
