import Convergen.Model.Method
import Convergen.Model.Options
import Convergen.Model.Runner
import Convergen.Generated.Decisions
/-!
# Bridge: the model takes the same path as the Go code — the matchers of `pkg/option`

`Generated/Decisions.lean` holds, for each function below, the *skeleton* of the Go source: a
function from the truth values of its condition leaves (in source order) to a label naming the path
taken — the `return` statement reached and the effects on the way.  Each theorem here says: the
model's function **equals** that skeleton composed with a table that maps every label to what the
model does on that path.  So the order of the tests, the set of tests and what each branch returns
are the Go source's, by proof, for all inputs; a reordered, dropped or added test in the Go code
changes the generated skeleton and this file stops compiling.  (One file per group of functions, so
that a change to one function breaks the obligations of the properties that depend on it and no
others.)
-/
namespace Convergen.Bridge.Decisions
open Convergen

variable (ctx : BCtx)

/-! ## the matchers of `pkg/option` -/

/-- **`IdentMatcher.Match` follows the source** -/
theorem identMatch_follows_source (pattern ident : String) (exactCase : Bool) :
    identMatch pattern ident exactCase =
      (match Generated.Decisions.identMatch exactCase with
       | "return m.pattern == ident" => pattern == ident
       | "return strings.EqualFold()" => equalFold pattern ident
       | _ => false) := by
  cases exactCase <;> simp [identMatch, Generated.Decisions.identMatch]

/-- what `PatternMatcher.Match` does on each path: the answer and the matcher's new state -/
def patternMatchOn (eng : Engine) (m : PM) (ident : String) (exactCase : Bool) (label : String) : Outcome Bool × PM :=
  let answer (m' : PM) : Outcome Bool × PM :=
    if m'.reOk then (.ok (eng.search (compileExpr m'.pattern exactCase) (matchSubject ident exactCase)), m')
    else (.panic "PatternMatcher.Match: nil regexp", m')
  match label with
  | "m.re,_=compileRegexp(); m.exactCase=exactCase; return m.re.MatchString()" =>
    answer ⟨m.pattern, exactCase, eng.compiles (compileExpr m.pattern exactCase)⟩
  | "return m.re.MatchString()" => answer m
  | _ => (.panic "PatternMatcher.Match: unknown path", m)

/-- **`PatternMatcher.Match` follows the source**: the expression is recompiled exactly when the case
rule of the query differs from the remembered one -/
theorem patternMatch_follows_source (eng : Engine) (m : PM) (ident : String) (exactCase : Bool) :
    PM.match eng m ident exactCase =
      patternMatchOn eng m ident exactCase (Generated.Decisions.patternMatch (m.exactCase != exactCase)) := by
  unfold PM.match Generated.Decisions.patternMatch
  cases h : (m.exactCase != exactCase) <;> simp [patternMatchOn]

def skipOn (label : String) : Outcome Bool :=
  match label with
  | "return true" => .ok true
  | "return false" => .ok false
  | _ => .panic "unknown path"

/-- **`Options.ShouldSkip` follows the source**: the loop returns `true` at the first pattern that
matches, `false` when none does (stated for matchers that answer, i.e. no nil regexp) -/
theorem shouldSkipList_follows_source (eng : Engine) (exactCase : Bool) (path : String) (ms : List PM)
    (hans : ∀ m ∈ ms, ∃ b, (PM.match eng m path exactCase).1 = .ok b) :
    shouldSkipList eng exactCase path ms =
      skipOn (Generated.Decisions.shouldSkip (ms.any fun m => (PM.match eng m path exactCase).1 == .ok true)) := by
  induction ms with
  | nil => simp [shouldSkipList, Generated.Decisions.shouldSkip, skipOn]
  | cons m ms ih =>
    obtain ⟨b, hb⟩ := hans m (by simp)
    have ih' := ih (fun x hx => hans x (by simp [hx]))
    unfold shouldSkipList
    cases b
    · simp only [hb, ih', List.any_cons]
      have : ((Outcome.ok false : Outcome Bool) == .ok true) = false := by decide
      simp [this]
    · simp [hb, Generated.Decisions.shouldSkip, skipOn]

/-! ## `compileRegexp`, `NewPatternMatcher` -/

/-- the expression text on each path of `compileRegexp`, or `none` where the path reports "invalid regexp" -/
def compileRegexpOn (pattern : String) (label : String) : Option String :=
  let cs := pattern.toList
  let inner := String.ofList ((cs.drop 1).take (cs.length - 2))
  let quoted := "^" ++ quoteMeta pattern ++ "$"
  match label with
  | "expr=pattern[1 : len(pattern)-1]; expr=\"(?i)\" + expr; return re, nil" => some ("(?i)" ++ inner)
  | "expr=pattern[1 : len(pattern)-1]; return re, nil" => some inner
  | "expr=fmt.Sprintf(); expr=\"(?i)\" + expr; return re, nil" => some ("(?i)" ++ quoted)
  | "expr=fmt.Sprintf(); return re, nil" => some quoted
  | _ => none

/-- **`compileRegexp` follows the source**: the text between the slashes or the anchored quoted
literal, `(?i)` in front when the case rule is off, "invalid regexp" when it does not compile (C19) -/
theorem compileRegexp_follows_source (eng : Engine) (pattern : String) (exactCase : Bool) :
    (if eng.compiles (compileExpr pattern exactCase) then some (compileExpr pattern exactCase) else none) =
      compileRegexpOn pattern (Generated.Decisions.compileRegexp (pattern.toList.head? == some '/')
        (pattern.toList.getLast? == some '/') (decide (2 ≤ pattern.toList.length)) exactCase
        (!eng.compiles (compileExpr pattern exactCase))) := by
  unfold Generated.Decisions.compileRegexp compileExpr baseExpr
  cases h0 : (pattern.toList.head? == some '/') <;> cases h1 : (pattern.toList.getLast? == some '/') <;>
    cases h2 : decide (2 ≤ pattern.toList.length) <;> cases exactCase <;>
    simp [h0, h1, compileRegexpOn] <;>
    (first
      | (have h2' : ¬ (2 ≤ pattern.toList.length) := by simpa using h2
         simp [h2']
         split <;> simp_all)
      | (have h2' : 2 ≤ pattern.toList.length := by simpa using h2
         simp [h2']
         split <;> simp_all)
      | (split <;> simp_all))

/-- **`NewPatternMatcher` follows the source**: the error of `compileRegexp` is passed on, otherwise
the matcher remembers pattern and case rule -/
theorem newPatternMatcher_follows_source (eng : Engine) (pattern : String) (exactCase : Bool) :
    PM.new eng pattern exactCase =
      (match Generated.Decisions.newPatternMatcher (!eng.compiles (compileExpr pattern exactCase)) with
       | "return nil, err" => none
       | "return &PatternMatcher{ pattern: pattern, re: re, exactCase: exactCase, }, nil" =>
         some ⟨pattern, exactCase, true⟩
       | _ => none) := by
  unfold PM.new Generated.Decisions.newPatternMatcher
  cases eng.compiles (compileExpr pattern exactCase) <;> simp

end Convergen.Bridge.Decisions
