import Convergen.Model.Method
import Convergen.Model.Options
import Convergen.Model.Runner
import Convergen.Generated.Decisions
/-!
# Bridge: the model takes the same path as the Go code — the matchers of `pkg/option`

`Generated/Decisions.lean` holds, for each function below, the *skeleton* of the Go source: a
function from the truth values of its condition leaves (in source order) to a label naming the path
taken — the `return` statement reached and the effects on the way.  Each theorem here says: the
model's function **equals** that skeleton composed with a table that maps every label to what the
model does on that path.  So the order of the tests, the set of tests and what each branch returns
are the Go source's, by proof, for all inputs; a reordered, dropped or added test in the Go code
changes the generated skeleton and this file stops compiling.  (One file per group of functions, so
that a change to one function breaks the obligations of the properties that depend on it and no
others.)
-/
namespace Convergen.Bridge.Decisions
open Convergen

variable (ctx : BCtx)

/-! ## the matchers of `pkg/option` -/

/-- **`IdentMatcher.Match` follows the source** -/
theorem identMatch_follows_source (pattern ident : String) (exactCase : Bool) :
    identMatch pattern ident exactCase =
      (match Generated.Decisions.identMatch exactCase with
       | "return m.pattern == ident" => pattern == ident
       | "return strings.EqualFold()" => equalFold pattern ident
       | _ => false) := by
  cases exactCase <;> simp [identMatch, Generated.Decisions.identMatch]

/-- what `PatternMatcher.Match` does on each path: the answer and the matcher's new state -/
def patternMatchOn (eng : Engine) (m : PM) (ident : String) (exactCase : Bool) (label : String) : Outcome Bool × PM :=
  let answer (m' : PM) : Outcome Bool × PM :=
    if m'.reOk then (.ok (eng.search (compileExpr m'.pattern exactCase) (matchSubject ident exactCase)), m')
    else (.panic "PatternMatcher.Match: nil regexp", m')
  match label with
  | "m.re,_=compileRegexp(); m.exactCase=exactCase; return m.re.MatchString()" =>
    answer ⟨m.pattern, exactCase, eng.compiles (compileExpr m.pattern exactCase)⟩
  | "return m.re.MatchString()" => answer m
  | _ => (.panic "PatternMatcher.Match: unknown path", m)

/-- **`PatternMatcher.Match` follows the source**: the expression is recompiled exactly when the case
rule of the query differs from the remembered one -/
theorem patternMatch_follows_source (eng : Engine) (m : PM) (ident : String) (exactCase : Bool) :
    PM.match eng m ident exactCase =
      patternMatchOn eng m ident exactCase (Generated.Decisions.patternMatch (m.exactCase != exactCase)) := by
  unfold PM.match Generated.Decisions.patternMatch
  cases h : (m.exactCase != exactCase) <;> simp [patternMatchOn]

def skipOn (label : String) : Outcome Bool :=
  match label with
  | "return true" => .ok true
  | "return false" => .ok false
  | _ => .panic "unknown path"

/-- **`Options.ShouldSkip` follows the source**: the loop returns `true` at the first pattern that
matches, `false` when none does (stated for matchers that answer, i.e. no nil regexp) -/
theorem shouldSkipList_follows_source (eng : Engine) (exactCase : Bool) (path : String) (ms : List PM)
    (hans : ∀ m ∈ ms, ∃ b, (PM.match eng m path exactCase).1 = .ok b) :
    shouldSkipList eng exactCase path ms =
      skipOn (Generated.Decisions.shouldSkip (ms.any fun m => (PM.match eng m path exactCase).1 == .ok true)) := by
  induction ms with
  | nil => simp [shouldSkipList, Generated.Decisions.shouldSkip, skipOn]
  | cons m ms ih =>
    obtain ⟨b, hb⟩ := hans m (by simp)
    have ih' := ih (fun x hx => hans x (by simp [hx]))
    unfold shouldSkipList
    cases b
    · simp only [hb, ih', List.any_cons]
      have : ((Outcome.ok false : Outcome Bool) == .ok true) = false := by decide
      simp [this]
    · simp [hb, Generated.Decisions.shouldSkip, skipOn]

end Convergen.Bridge.Decisions
