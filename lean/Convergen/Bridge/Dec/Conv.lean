import Convergen.Model.Options
import Convergen.Model.Parse
import Convergen.Generated.Decisions
/-!
# Bridge: the model takes the same path as the Go code — `resolveConverters` (which function a `:conv` names)

`Generated/Decisions.lean` holds the *skeleton* of the Go source: a function from the truth values
of its condition leaves (in source order) to a label naming the path taken.  `resolveConverters` is
translated in three pieces: the look-up of a declared function (up to the loop), the loop body as the
step for one to-be-generated method (`continue` ends a step), and what follows the loop.  Each
theorem says: the model's function **equals** that skeleton composed with a table of what the model
does on each path, for all inputs.
-/
namespace Convergen.Bridge.Decisions
open Convergen

/-- **the head of `resolveConverters` follows the source**: a declared function of an acceptable
shape settles the converter; otherwise its diagnostic is kept and the methods that are being
generated are searched -/
theorem resolveConverter_head_follows_source (env : Env) (sc : Scope) (all : List ParsedMethod)
    (c : FieldConverter) (st : PState) :
    resolveConverter env sc all c st =
      (match Generated.Decisions.resolveConvertersHead
          (match lookupConverterFunc env sc c.fn with | .ok _ => true | .error _ => false) with
       | "conv.Set(); return nil" =>
         (match lookupConverterFunc env sc c.fn with
          | .ok (a, r, e) => .ok ({ c with argTy := a, retTy := r, retError := e }, st)
          | .error _ => .error (.panic "resolveConverters: no function", st))
       | "continue" =>
         (match lookupConverterFunc env sc c.fn with
          | .error msg0 =>
            resolveConverter.go env c s!"{c.pos}: function {c.fn} cannot use as a converter" all
              s!"{c.pos}: {msg0}" { st with stderr := st.stderr ++ [s!"{c.pos}: {msg0}"] }
          | .ok _ => .error (.panic "resolveConverters: function found", st))
       | _ => .error (.panic "resolveConverters: unknown path", st)) := by
  unfold resolveConverter Generated.Decisions.resolveConvertersHead
  cases h : lookupConverterFunc env sc c.fn with
  | ok v => obtain ⟨a, r, e⟩ := v; simp
  | error msg => simp

/-- **the loop body of `resolveConverters` follows the source**: only a method of that name, only
in return style, only without receiver can stand in as converter; a method of that name which
cannot is reported and the search goes on (C03, C06) -/
theorem resolveConverter_step_follows_source (env : Env) (c : FieldConverter) (cannot : String)
    (m : ParsedMethod) (rest : List ParsedMethod) (last : String) (st : PState) :
    resolveConverter.go env c cannot (m :: rest) last st =
      (match Generated.Decisions.resolveConvertersStep (m.decl.name != c.fn) (m.opts.style != .ret)
          (m.opts.receiver != "") with
       | "continue" => resolveConverter.go env c cannot rest last st
       | "err=Errorf(%v: function %v cannot use as a converter); continue" =>
         resolveConverter.go env c cannot rest cannot { st with stderr := st.stderr ++ [cannot] }
       | "conv.Set(); return nil" =>
         (match m.decl.params, m.decl.results with
          | src :: _, dst :: _ =>
            .ok ({ c with argTy := src.ty, retTy := dst.ty,
                          retError := ({ decl := m.decl, opts := m.opts } : MethodEntry).retError env }, st)
          | _, _ => .error (.panic "resolveConverters: method without operands", st))
       | _ => .error (.panic "resolveConverters: unknown path", st)) := by
  unfold Generated.Decisions.resolveConvertersStep
  cases h0 : (m.decl.name != c.fn) <;> cases h1 : (m.opts.style != .ret) <;> cases h2 : (m.opts.receiver != "") <;>
    simp [resolveConverter.go, h0, h1, h2]
  cases m.decl.params <;> cases m.decl.results <;> rfl

/-- **after the loop**: no function and no method of that name: the last diagnostic is the error -/
theorem resolveConverter_end_follows_source (env : Env) (c : FieldConverter) (cannot last : String) (st : PState) :
    resolveConverter.go env c cannot [] last st =
      (match Generated.Decisions.resolveConvertersEnd false with
       | "return err" => .error (.error, { st with stderr := st.stderr ++ [last] })
       | _ => .error (.panic "resolveConverters: unknown path", st)) := by
  simp [Generated.Decisions.resolveConvertersEnd, resolveConverter.go]

end Convergen.Bridge.Decisions
