import Convergen.Model.Method
import Convergen.Model.Options
import Convergen.Model.Runner
import Convergen.Generated.Decisions
/-!
# Bridge: the model takes the same path as the Go code — `castNode`, `sliceToSlice`

`Generated/Decisions.lean` holds, for each function below, the *skeleton* of the Go source: a
function from the truth values of its condition leaves (in source order) to a label naming the path
taken — the `return` statement reached and the effects on the way.  Each theorem here says: the
model's function **equals** that skeleton composed with a table that maps every label to what the
model does on that path.  So the order of the tests, the set of tests and what each branch returns
are the Go source's, by proof, for all inputs; a reordered, dropped or added test in the Go code
changes the generated skeleton and this file stops compiling.  (One file per group of functions, so
that a change to one function breaks the obligations of the properties that depend on it and no
others.)
-/
namespace Convergen.Bridge.Decisions
open Convergen

variable (ctx : BCtx)

/-- the node of an outcome that carries warnings -/
def nodeOf {α : Type} (o : Outcome (Option α × List String)) : Outcome (Option α) :=
  match o with
  | .ok (n, _) => .ok n
  | .error e => .error e
  | .panic p => .panic p

theorem newTypecast_total (t : TyId) (n : Node) : ∃ r, ctx.newTypecast t n = .ok r := by
  unfold BCtx.newTypecast
  simp only
  repeat' split
  all_goals exact ⟨_, rfl⟩

theorem castNode_total (t : TyId) (n : Node) : ∃ r w, ctx.castNode t n = .ok (r, w) := by
  obtain ⟨r, hr⟩ := newTypecast_total ctx t n
  unfold BCtx.castNode
  simp only [hr]
  repeat' split
  all_goals first | exact ⟨_, _, rfl⟩ | simp_all

/-! ## `castNode` -/

/-- what the model does on each path of `castNode` -/
def castNodeOn (lhsType : TyId) (rhs : Node) (label : String) : Outcome (Option Node × List String) :=
  match label with
  | "return rhs, true" => .ok (some rhs, [])
  | "return nil, false" => .ok (none, [])
  | "return b.castNode()" => .ok (some (.stringer rhs), [])   -- the recursive call on `NewStringer(rhs)`: a string is assignable
  | "c,ok=bmodel.NewTypecast(); return" =>
    match ctx.newTypecast lhsType rhs with
    | .ok (some c) => .ok (some c, [])
    | .ok none => .ok (none, [])
    | .error e => .error e
    | .panic s => .panic s
  | "c,ok=bmodel.NewTypecast(); logger.Warnf(); return" =>
    .ok (none, [s!"{ctx.methodPos}: typecast for {ctx.env.typeNameF lhsType} is not implemented(yet) for {rhs.assignExpr ctx.env}"])
  | _ => .panic "castNode: unknown path"

/-- **`castNode` follows the source.**  `ok` (c7) is whether `NewTypecast` succeeded. -/
theorem castNode_follows_source (lhsType : TyId) (rhs : Node) (r? : Option Node)
    (htc : ctx.newTypecast lhsType rhs = .ok r?) :
    ctx.castNode lhsType rhs =
      castNodeOn ctx lhsType rhs (Generated.Decisions.castNode
        (ctx.env.assignable (rhs.exprType ctx.env) lhsType) rhs.returnsError ctx.opts.stringer
        (ctx.env.assignable ctx.env.stringTy lhsType) (ctx.env.compliesStringer (rhs.exprType ctx.env))
        ctx.opts.typecast (ctx.env.convertible (rhs.exprType ctx.env) lhsType) r?.isSome) := by
  unfold BCtx.castNode Generated.Decisions.castNode
  simp only
  cases ctx.env.assignable (rhs.exprType ctx.env) lhsType <;> cases rhs.returnsError <;>
    cases ctx.opts.stringer <;> cases ctx.env.assignable ctx.env.stringTy lhsType <;>
    cases ctx.env.compliesStringer (rhs.exprType ctx.env) <;> cases ctx.opts.typecast <;>
    cases ctx.env.convertible (rhs.exprType ctx.env) lhsType <;> cases r? <;>
    simp [castNodeOn, htc]

/-! ## `sliceToSlice` -/

def sliceToSliceOn (lhs rhs : Node) (label : String) : Outcome (Option Stmt) :=
  let env := ctx.env
  let le := env.sliceElem (lhs.exprType env)
  match label with
  | "return" => .ok none
  | "a=gmodel.SliceAssignment{}; return" => .ok (some (.sliceCopy lhs rhs ("[]" ++ (env.ty le).str)))
  | "a=gmodel.SliceLoopAssignment{}; return" => .ok (some (.sliceLoop lhs rhs ("[]" ++ env.typeNameF le)))
  | "a=gmodel.SliceTypecastAssignment{}; return" =>
    .ok (some (.sliceCast lhs rhs ("[]" ++ env.typeNameF le) (conversionOperator (env.typeNameF le))))
  | _ => .panic "sliceToSlice: unknown path"

/-- **`sliceToSlice` follows the source** (it is only called on two slice types, so both element
types exist: c0 = c1 = false). -/
theorem sliceToSlice_follows_source (lhs rhs : Node) :
    ctx.sliceToSlice lhs rhs =
      sliceToSliceOn ctx lhs rhs (Generated.Decisions.sliceToSlice false false
        (ctx.env.assignable (ctx.env.sliceElem (rhs.exprType ctx.env)) (ctx.env.sliceElem (lhs.exprType ctx.env)))
        (ctx.env.isBasicType (ctx.env.sliceElem (rhs.exprType ctx.env)))
        (ctx.env.identical (ctx.env.sliceElem (rhs.exprType ctx.env)) (ctx.env.sliceElem (lhs.exprType ctx.env)))
        ctx.opts.typecast
        (ctx.env.convertible (ctx.env.sliceElem (rhs.exprType ctx.env)) (ctx.env.sliceElem (lhs.exprType ctx.env)))) := by
  unfold BCtx.sliceToSlice Generated.Decisions.sliceToSlice
  simp only
  cases ctx.env.assignable (ctx.env.sliceElem (rhs.exprType ctx.env)) (ctx.env.sliceElem (lhs.exprType ctx.env)) <;>
    cases ctx.env.isBasicType (ctx.env.sliceElem (rhs.exprType ctx.env)) <;>
    cases ctx.env.identical (ctx.env.sliceElem (rhs.exprType ctx.env)) (ctx.env.sliceElem (lhs.exprType ctx.env)) <;>
    cases ctx.opts.typecast <;>
    cases ctx.env.convertible (ctx.env.sliceElem (rhs.exprType ctx.env)) (ctx.env.sliceElem (lhs.exprType ctx.env)) <;>
    simp [sliceToSliceOn]

end Convergen.Bridge.Decisions
