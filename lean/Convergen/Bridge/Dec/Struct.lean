import Convergen.Model.Builder
import Convergen.Model.Method
import Convergen.Generated.Decisions
/-!
# Bridge: the model takes the same path as the Go code — the walk over a destination struct's members

`Generated/Decisions.lean` holds the *skeleton* of the Go source: a function from the truth values
of its condition leaves (in source order) to a label naming the path taken.  Here: the function
literal that `structToStruct` hands to `IterateStructFields` (the step for one destination member),
the one of `addressedBelow`, and the type switches of `isAddressable` and `usesElementLoop` (a type
switch is translated as the chain of tests "x is T" in source order).  Each theorem says: the
model's function **equals** that skeleton composed with a table of what the model does on each
path, for all inputs.
-/
namespace Convergen.Bridge.Decisions
open Convergen

variable (ctx : BCtx)

/-! ## `structToStruct`: the step for one destination member -/

/-- the members of the destination struct that are still to be visited, as the model walks them -/
def walkMembers (rec : Node → Node → Outcome (List Stmt)) (lhsStruct rhsStruct : Node) (args : List Node)
    (fs : List Field) : Outcome (List Stmt) :=
  BCtx.structToStructWith.go ctx rec lhsStruct rhsStruct args (fs.filter fun f => ctx.accessible lhsStruct f.name)

/-- **the step of `structToStruct` follows the source**: a member the generated package cannot
refer to is passed over without a line; every other member gets exactly the statement that
`matchStructFieldAndStruct` builds for it, in member order (C05, C02) -/
theorem structToStruct_step_follows_source (rec : Node → Node → Outcome (List Stmt)) (lhsStruct rhsStruct : Node)
    (args : List Node) (f : Field) (rest : List Field) :
    walkMembers ctx rec lhsStruct rhsStruct args (f :: rest) =
      (match Generated.Decisions.structToStructStep (ctx.accessible lhsStruct f.name)
          (match ctx.matchField rec (.field lhsStruct f.name f.ty) rhsStruct args with | .ok _ => true | _ => false)
          true with
       | "return" => walkMembers ctx rec lhsStruct rhsStruct args rest
       | "a,err=b.matchStructFieldAndStruct(); assignments=append(); return" =>
         (match ctx.matchField rec (.field lhsStruct f.name f.ty) rhsStruct args with
          | .ok s =>
            (match walkMembers ctx rec lhsStruct rhsStruct args rest with
             | .ok ss => .ok (s :: ss)
             | .error e => .error e
             | .panic p => .panic p)
          | _ => .panic "structToStruct: no statement")
       | "a,err=b.matchStructFieldAndStruct(); return" =>
         -- the Go builder never returns an error; the model's failures (a nil regexp) end the walk here
         (match ctx.matchField rec (.field lhsStruct f.name f.ty) rhsStruct args with
          | .error e => .error e
          | .panic p => .panic p
          | .ok _ => .panic "structToStruct: a statement")
       | _ => .panic "structToStruct: unknown path") := by
  unfold walkMembers Generated.Decisions.structToStructStep
  cases ha : ctx.accessible lhsStruct f.name
  · simp [List.filter, ha]
  · simp only [List.filter, ha]
    cases hm : ctx.matchField rec (.field lhsStruct f.name f.ty) rhsStruct args <;>
      simp [BCtx.structToStructWith.go, hm]
    cases BCtx.structToStructWith.go ctx rec lhsStruct rhsStruct args
      (List.filter (fun f => ctx.accessible lhsStruct f.name) rest) <;> rfl

/-- after the last member -/
theorem structToStruct_end (rec : Node → Node → Outcome (List Stmt)) (lhsStruct rhsStruct : Node) (args : List Node) :
    walkMembers ctx rec lhsStruct rhsStruct args [] = .ok [] := by
  simp [walkMembers, BCtx.structToStructWith.go]

/-- `structToStruct` is that walk over the members of the destination struct -/
theorem structToStructWith_is_walk (rec : Node → Node → Outcome (List Stmt)) (lhsStruct rhsStruct : Node)
    (args : List Node) :
    ctx.structToStructWith rec lhsStruct rhsStruct args =
      walkMembers ctx rec lhsStruct rhsStruct args (ctx.env.fieldsOf (lhsStruct.exprType ctx.env)) := rfl

/-! ## `addressedBelow` -/

/-- what the model asks of one member: is it named by a notation, or is something beneath it -/
def belowMember (fuel : Nat) (m : Node) : Outcome Bool :=
  match ctx.addressed m.matcherExpr with
  | .ok true => .ok true
  | .ok false => ctx.addressedBelow fuel m
  | .error e => .error e
  | .panic p => .panic p

/-- the members still to be visited -/
def belowWalk (fuel : Nat) (lhs : Node) (fs : List Field) : Outcome Bool :=
  BCtx.anyOutcome (belowMember ctx fuel)
    ((fs.filter fun f => ctx.accessible lhs f.name).map fun f => Node.field lhs f.name f.ty)

/-- **`addressedBelow` follows the source**: only a struct has something beneath it -/
theorem addressedBelow_follows_source (fuel : Nat) (lhs : Node) :
    ctx.addressedBelow (fuel + 1) lhs =
      (match Generated.Decisions.addressedBelow (ctx.env.isStructType (lhs.exprType ctx.env)) with
       | "return false" => .ok false
       | "bmodel.IterateStructFields(); return found" =>
         belowWalk ctx fuel lhs (ctx.env.fieldsOf (lhs.exprType ctx.env))
       | _ => .panic "addressedBelow: unknown path") := by
  unfold BCtx.addressedBelow Generated.Decisions.addressedBelow
  cases h : ctx.env.isStructType (lhs.exprType ctx.env) <;> simp [h]
  rfl

/-- **the step of `addressedBelow` follows the source**: a member the package cannot refer to is
passed over; the walk stops at the first member that is named by a notation or has such a member
beneath it (C06) -/
theorem addressedBelow_step_follows_source (fuel : Nat) (lhs : Node) (f : Field) (rest : List Field) :
    belowWalk ctx fuel lhs (f :: rest) =
      (match Generated.Decisions.addressedBelowStep (ctx.accessible lhs f.name) with
       | "return" => belowWalk ctx fuel lhs rest
       | "found=b.addressed(member.MatcherExpr()) || b.addressedBelow(member); return found" =>
         (match belowMember ctx fuel (.field lhs f.name f.ty) with
          | .ok true => .ok true
          | .ok false => belowWalk ctx fuel lhs rest
          | .error e => .error e
          | .panic p => .panic p)
       | _ => .panic "addressedBelow: unknown path") := by
  unfold belowWalk Generated.Decisions.addressedBelowStep
  cases ha : ctx.accessible lhs f.name <;> simp [List.filter, ha, BCtx.anyOutcome]
  cases belowMember ctx fuel (.field lhs f.name f.ty) with
  | ok b => cases b <;> rfl
  | error e => rfl
  | panic p => rfl

/-! ## `isAddressable` -/

/-- **`isAddressable` follows the source**: a variable is addressable, a member is if it is selected
through a pointer or from something addressable, nothing else is (C01) -/
theorem addressable_follows_source (env : Env) (n : Node) :
    n.addressable env =
      (match Generated.Decisions.isAddressable (match n with | .root _ _ => true | _ => false)
          (match n with | .field _ _ _ => true | _ => false) with
       | "return true" => true
       | "return util.IsPtr(p.ExprType()) || isAddressable(p)" =>
         (match n with
          | .field p _ _ => env.isPtr (p.exprType env) || p.addressable env
          | _ => false)
       | "return false" => false
       | _ => false) := by
  unfold Generated.Decisions.isAddressable
  cases n <;> simp [Node.addressable]

/-! ## `usesElementLoop` -/

/-- **the step of `usesElementLoop` follows the source**: the two element-wise slice statements use
the loop, a nested block does if one of its statements does, nothing else does (C02/C08) -/
theorem usesLoop_step_follows_source (s : Stmt) (rest : List Stmt) :
    Stmt.listUsesLoop (s :: rest) =
      (match Generated.Decisions.usesElementLoopStep (match s with | .sliceLoop _ _ _ => true | _ => false)
          (match s with | .sliceCast _ _ _ _ => true | _ => false)
          (match s with | .nest _ _ _ _ _ _ => true | _ => false)
          (match s with | .nest _ _ _ _ body _ => Stmt.listUsesLoop body | _ => false) with
       | "return true" => true
       | "next" => Stmt.listUsesLoop rest
       | _ => false) := by
  unfold Generated.Decisions.usesElementLoopStep
  cases s <;> simp [Stmt.listUsesLoop, Stmt.usesLoop]
  rename_i body _
  by_cases hb : Stmt.listUsesLoop body = true <;> simp [hb]

end Convergen.Bridge.Decisions
