import Convergen.Model.Method
import Convergen.Model.Options
import Convergen.Model.Runner
import Convergen.Generated.Decisions
import Convergen.Bridge.Dec.Cast
/-!
# Bridge: the model takes the same path as the Go code — the precedence chain and the notation-driven assignments

`Generated/Decisions.lean` holds, for each function below, the *skeleton* of the Go source: a
function from the truth values of its condition leaves (in source order) to a label naming the path
taken — the `return` statement reached and the effects on the way.  Each theorem here says: the
model's function **equals** that skeleton composed with a table that maps every label to what the
model does on that path.  So the order of the tests, the set of tests and what each branch returns
are the Go source's, by proof, for all inputs; a reordered, dropped or added test in the Go code
changes the generated skeleton and this file stops compiling.  (One file per group of functions, so
that a change to one function breaks the obligations of the properties that depend on it and no
others.)
-/
namespace Convergen.Bridge.Decisions
open Convergen

variable (ctx : BCtx)

/-! ## `matchStructFieldAndStruct` (the precedence chain) -/

def matchFieldOn (rec : Node → Node → Outcome (List Stmt)) (lhs rhs : Node) (args : List Node) (label : String) :
    Outcome Stmt :=
  let path := lhs.matcherExpr
  match label with
  | "return gmodel.SkipField{LHS: lhs.AssignExpr()}, nil" => .ok (.skip lhs)
  | "return b.createWithConverter()" =>
    match ctx.opts.converters.find? (fun c => identMatch c.dst path true) with
    | some c => ctx.createWithConverter lhs rhs c
    | none => .panic "no converter"
  | "return b.createWithMapper()" =>
    match ctx.opts.nameMapper.find? (fun m => identMatch m.dst path true) with
    | some m => ctx.createMapped lhs m.pos (ctx.resolveExpr m.src rhs.rootOf)
    | none => .panic "no mapper"
  | "return b.createWithTemplatedMapper()" =>
    match ctx.opts.templatedNameMapper.find? (fun m => identMatch m.dst path true) with
    | some m => ctx.createMapped lhs m.pos (ctx.resolveTemplatedExpr m.src (rhs.rootOf :: args))
    | none => .panic "no templated mapper"
  | "return gmodel.SimpleField{LHS: lhs.AssignExpr(), RHS: setter.Literal()}, nil" =>
    match ctx.opts.literals.find? (fun l => identMatch l.dst path true) with
    | some l => .ok (.simple lhs (.literal l.literal) false [])
    | none => .panic "no literal"
  | "return b.structFieldAndStructGettersAndFields()" => ctx.fieldDefault rec lhs rhs
  | _ => .panic "matchStructFieldAndStruct: unknown path"

/-- **the precedence chain follows the source**: skip, then the first converter, mapper, `$n` mapper
and literal setter whose destination is this path (each loop returns at its first match), then the
default matcher — in the order of the Go code -/
theorem matchField_follows_source (rec : Node → Node → Outcome (List Stmt)) (lhs rhs : Node) (args : List Node)
    (skip : Bool) (hs : ctx.opts.shouldSkip ctx.eng lhs.matcherExpr = .ok skip) :
    ctx.matchField rec lhs rhs args =
      matchFieldOn ctx rec lhs rhs args (Generated.Decisions.matchStructFieldAndStruct skip
        (ctx.opts.converters.find? (fun c => identMatch c.dst lhs.matcherExpr true)).isSome
        (ctx.opts.nameMapper.find? (fun m => identMatch m.dst lhs.matcherExpr true)).isSome
        (ctx.opts.templatedNameMapper.find? (fun m => identMatch m.dst lhs.matcherExpr true)).isSome
        (ctx.opts.literals.find? (fun l => identMatch l.dst lhs.matcherExpr true)).isSome) := by
  unfold BCtx.matchField Generated.Decisions.matchStructFieldAndStruct
  simp only [bind, Outcome.bind, pure, hs]
  cases skip
  · cases h1 : ctx.opts.converters.find? (fun c => identMatch c.dst lhs.matcherExpr true) <;>
      cases h2 : ctx.opts.nameMapper.find? (fun m => identMatch m.dst lhs.matcherExpr true) <;>
      cases h3 : ctx.opts.templatedNameMapper.find? (fun m => identMatch m.dst lhs.matcherExpr true) <;>
      cases h4 : ctx.opts.literals.find? (fun l => identMatch l.dst lhs.matcherExpr true) <;>
      simp [matchFieldOn, h1, h2, h3, h4]
  · simp [matchFieldOn]

/-! ## `createWithConverter`: the function literal that finds the converter's argument -/

/-- the function literal of `createWithConverter` (`converterNode := func() bmodel.Node {…}()`) as the
model computes it: the converter call cast to the destination type, if there is one, and the warnings
printed on the way -/
def converterNodeM (lhs rhs : Node) (c : FieldConverter) : Outcome (Option Node × List String) :=
  match ctx.resolveExpr c.src rhs.rootOf with
  | none => .ok (none, [])
  | some rhsNode =>
    match ctx.convArg c rhsNode with
    | .ok (none, w) => .ok (none, w)
    | .ok (some argNode, w) =>
      match ctx.castNode (lhs.exprType ctx.env) (.conv argNode c) with
      | .ok (casted?, w3) => .ok (casted?, w ++ w3)
      | .error e => .error e
      | .panic p => .panic p
    | .error e => .error e
    | .panic p => .panic p

/-- the model's `createWithConverter` is that literal followed by the decision of the outer function -/
theorem createWithConverter_split (lhs rhs : Node) (c : FieldConverter) :
    ctx.createWithConverter lhs rhs c =
      (converterNodeM ctx lhs rhs c).bind (fun r => ctx.convAssign lhs c r.1 r.2) := by
  unfold BCtx.createWithConverter converterNodeM
  cases ctx.resolveExpr c.src rhs.rootOf with
  | none => simp [Outcome.bind, BCtx.convAssign]
  | some rhsNode =>
    simp only
    cases ctx.convArg c rhsNode with
    | ok r =>
      obtain ⟨a?, w⟩ := r
      cases a? with
      | none => simp [Outcome.bind, BCtx.convAssign]
      | some a =>
        simp only
        cases ctx.castNode (lhs.exprType ctx.env) (.conv a c) with
        | ok r2 => simp [Outcome.bind]
        | error e => simp [Outcome.bind]
        | panic p => simp [Outcome.bind]
    | error e => simp [Outcome.bind]
    | panic p => simp [Outcome.bind]

/-- what the model does on each path of the literal: `a1?` is the source cast to the parameter type,
`a2?` the source cast to the parameter's element type -/
def converterNodeOn (lhs : Node) (c : FieldConverter) (a1? a2? : Option Node) (label : String) : Outcome (Option Node) :=
  match label with
  | "for; return nil" => .ok none
  | "for; argNode,ok=b.castNode(); return nil" => .ok none
  | "for; return casted" =>
    match a1? with
    | some a => nodeOf (ctx.castNode (lhs.exprType ctx.env) (.conv a c))
    | none => .panic "no argument"
  | "for; argNode,ok=b.castNode(); return casted" =>
    match a2? with
    | some a => nodeOf (ctx.castNode (lhs.exprType ctx.env) (.conv a c))
    | none => .panic "no argument"
  | _ => .panic "converterNode: unknown path"

/-- **the literal follows the source**, source path unresolved -/
theorem converterNode_unresolved (lhs rhs : Node) (c : FieldConverter)
    (h : ctx.resolveExpr c.src rhs.rootOf = none) (c1 c2 c3 c4 c5 : Bool) :
    nodeOf (converterNodeM ctx lhs rhs c) =
      converterNodeOn ctx lhs c none none (Generated.Decisions.converterNode false c1 c2 c3 c4 c5) := by
  simp [converterNodeM, h, nodeOf, Generated.Decisions.converterNode, converterNodeOn]

/-- **the literal follows the source**, source path resolved: an error-returning getter is no
argument; the parameter type is tried first, then — for a pointer parameter — its element type, and
then the argument must be addressable -/
theorem converterNode_resolved (lhs rhs rhsNode : Node) (c : FieldConverter)
    (h : ctx.resolveExpr c.src rhs.rootOf = some rhsNode)
    (a1? a2? : Option Node) (w1 w2 : List String)
    (h1 : ctx.castNode c.argTy rhsNode = .ok (a1?, w1))
    (h2 : ctx.castNode (ctx.env.derefPtr c.argTy) rhsNode = .ok (a2?, w2)) :
    nodeOf (converterNodeM ctx lhs rhs c) =
      converterNodeOn ctx lhs c a1? a2? (Generated.Decisions.converterNode true rhsNode.returnsError a1?.isSome
        (ctx.env.isPtr c.argTy) a2?.isSome ((a2?.map (·.addressable ctx.env)).getD false)) := by
  unfold converterNodeM
  simp only [h, BCtx.convArg, Generated.Decisions.converterNode]
  cases hre : rhsNode.returnsError
  · simp only [h1]
    cases a1? with
    | some a1 =>
      simp only [Bool.false_eq_true, if_false]
      obtain ⟨r, w, hc⟩ := castNode_total ctx (lhs.exprType ctx.env) (.conv a1 c)
      simp [hc, nodeOf, converterNodeOn]
    | none =>
      cases hp : ctx.env.isPtr c.argTy
      · simp [nodeOf, converterNodeOn]
      · simp only [h2]
        cases a2? with
        | none => simp [nodeOf, converterNodeOn]
        | some a2 =>
          cases had : a2.addressable ctx.env
          · simp [nodeOf, converterNodeOn, had]
          · obtain ⟨r, w, hc⟩ := castNode_total ctx (lhs.exprType ctx.env) (.conv a2 c)
            simp [hc, nodeOf, converterNodeOn, had]
  · simp [nodeOf, converterNodeOn]

/-! ## `createWithConverter`: the decision after the literal -/

def createWithConverterOn (lhs : Node) (c : FieldConverter) (casted? : Option Node) (warns : List String)
    (label : String) : Outcome Stmt :=
  match label with
  | "converterNode=nil; logger.Warnf(); return gmodel.NoMatchField{LHS: lhsExpr}, nil" => ctx.noMatchAt c.pos lhs warns
  | "logger.Warnf(); return gmodel.NoMatchField{LHS: lhsExpr}, nil" => ctx.noMatchAt c.pos lhs warns
  | "return gmodel.SimpleField{LHS: lhsExpr, RHS: rhsExpr, Error: converter.RetError()}, nil" =>
    match casted? with
    | some n => .ok (.simple lhs (.node n) c.retError warns)
    | none => .panic "no node"
  | _ => .panic "createWithConverter: unknown path"

/-- **`createWithConverter` follows the source**: a converter that can fail in a function without
error result is dropped *before* the assignment is written (c3, `converterNode != nil` after
`converterNode = nil`, is false) -/
theorem createWithConverter_follows_source (lhs : Node) (c : FieldConverter) (casted? : Option Node)
    (warns : List String) :
    ctx.convAssign lhs c casted? warns =
      createWithConverterOn ctx lhs c casted? warns
        (Generated.Decisions.createWithConverter casted?.isSome c.retError ctx.retError false) := by
  unfold BCtx.convAssign Generated.Decisions.createWithConverter
  cases casted? <;> cases hr : c.retError <;> cases hc : ctx.retError <;> simp [createWithConverterOn, hr]

/-! ## `createWithMapper`, `createWithTemplatedMapper` -/

/-- the function literal of both: the resolved source cast to the destination type -/
def mappedNodeM (lhs : Node) (rhsNode? : Option Node) : Outcome (Option Node × List String) :=
  match rhsNode? with
  | none => .ok (none, [])
  | some rhsNode => ctx.castNode (lhs.exprType ctx.env) rhsNode

def mappedNodeOn (lhs : Node) (rhsNode? : Option Node) (label : String) : Outcome (Option Node) :=
  match label with
  | "for; return nil" | "for; args=append(); return nil" => .ok none
  | "for; return casted" | "for; args=append(); return casted" =>
    match rhsNode? with
    | some r => nodeOf (ctx.castNode (lhs.exprType ctx.env) r)
    | none => .panic "no node"
  | _ => .panic "mappedNode: unknown path"

theorem mappedNode_follows_source (lhs : Node) (rhsNode? : Option Node) :
    nodeOf (mappedNodeM ctx lhs rhsNode?) = mappedNodeOn ctx lhs rhsNode? (Generated.Decisions.mappedNode rhsNode?.isSome) ∧
    nodeOf (mappedNodeM ctx lhs rhsNode?) = mappedNodeOn ctx lhs rhsNode? (Generated.Decisions.templatedNode rhsNode?.isSome) := by
  cases rhsNode? <;>
    simp [mappedNodeM, nodeOf, mappedNodeOn, Generated.Decisions.mappedNode, Generated.Decisions.templatedNode]

/-- the decision after the literal -/
def mappedAssign (lhs : Node) (pos : String) (casted? : Option Node) (w : List String) : Outcome Stmt :=
  match casted? with
  | some n =>
    if n.returnsError && !ctx.retError then ctx.noMatchAt pos lhs w
    else .ok (.simple lhs (.node n) n.returnsError w)
  | none => ctx.noMatchAt pos lhs w

theorem createMapped_split (lhs : Node) (pos : String) (rhsNode? : Option Node) :
    ctx.createMapped lhs pos rhsNode? =
      (mappedNodeM ctx lhs rhsNode?).bind (fun r => mappedAssign ctx lhs pos r.1 r.2) := by
  unfold BCtx.createMapped mappedNodeM
  cases rhsNode? with
  | none => simp [Outcome.bind, mappedAssign]
  | some r =>
    simp only [bind, pure]
    cases ctx.castNode (lhs.exprType ctx.env) r with
    | ok x =>
      obtain ⟨c?, w⟩ := x
      cases c? <;> simp [Outcome.bind, mappedAssign]
    | error e => simp [Outcome.bind]
    | panic p => simp [Outcome.bind]

def createWithMapperOn (lhs : Node) (pos : String) (casted? : Option Node) (warns : List String)
    (label : String) : Outcome Stmt :=
  match label with
  | "mappedNode=nil; logger.Warnf(); return gmodel.NoMatchField{LHS: lhsExpr}, nil" => ctx.noMatchAt pos lhs warns
  | "logger.Warnf(); return gmodel.NoMatchField{LHS: lhsExpr}, nil" => ctx.noMatchAt pos lhs warns
  | "return gmodel.SimpleField{LHS: lhsExpr, RHS: rhsExpr, Error: mappedNode.ReturnsError()}, nil" =>
    match casted? with
    | some n => .ok (.simple lhs (.node n) n.returnsError warns)
    | none => .panic "no node"
  | _ => .panic "createWithMapper: unknown path"

/-- **`createWithMapper` and `createWithTemplatedMapper` follow the source** -/
theorem createWithMapper_follows_source (lhs : Node) (pos : String) (casted? : Option Node) (warns : List String) :
    mappedAssign ctx lhs pos casted? warns =
      createWithMapperOn ctx lhs pos casted? warns
        (Generated.Decisions.createWithMapper casted?.isSome ((casted?.map (·.returnsError)).getD false) ctx.retError false) ∧
    mappedAssign ctx lhs pos casted? warns =
      createWithMapperOn ctx lhs pos casted? warns
        (Generated.Decisions.createWithTemplatedMapper casted?.isSome ((casted?.map (·.returnsError)).getD false) ctx.retError false) := by
  unfold mappedAssign Generated.Decisions.createWithMapper Generated.Decisions.createWithTemplatedMapper
  cases casted? with
  | none => simp [createWithMapperOn]
  | some n => cases hn : n.returnsError <;> cases hc : ctx.retError <;> simp [createWithMapperOn, hn]

/-! ## `addressed`, `isStructFieldAccessible` -/

def boolOn (label : String) : Outcome Bool :=
  match label with
  | "return true" => .ok true
  | "return false" => .ok false
  | _ => .panic "unknown path"

/-- **`addressed` follows the source**: `:skip` first, then converters, mappers, `$n` mappers, literals -/
theorem addressed_follows_source (path : String) (skip : Bool) (hs : ctx.opts.shouldSkip ctx.eng path = .ok skip) :
    ctx.addressed path = boolOn (Generated.Decisions.addressed skip
      (ctx.opts.converters.any (fun c => identMatch c.dst path true))
      (ctx.opts.nameMapper.any (fun m => identMatch m.dst path true))
      (ctx.opts.templatedNameMapper.any (fun m => identMatch m.dst path true))
      (ctx.opts.literals.any (fun l => identMatch l.dst path true))) := by
  unfold BCtx.addressed Generated.Decisions.addressed
  simp only [hs]
  cases skip <;>
    cases ctx.opts.converters.any (fun c => identMatch c.dst path true) <;>
    cases ctx.opts.nameMapper.any (fun m => identMatch m.dst path true) <;>
    cases ctx.opts.templatedNameMapper.any (fun m => identMatch m.dst path true) <;>
    cases ctx.opts.literals.any (fun l => identMatch l.dst path true) <;> simp [boolOn]

def accessibleOn (st : TyId) (leaf : String) (label : String) : Bool :=
  match label with
  | "return false" => false
  | "return obj != nil" => ctx.env.visibleMember st leaf   -- `LookupFieldOrMethod(structType, true, <generated package>, leaf)`
  | _ => false

/-- **`isStructFieldAccessible` follows the source**: not a struct, or the blank name: no; otherwise
what `go/types` finds from the generated package -/
theorem accessible_follows_source (structNode : Node) (leaf : String) :
    ctx.accessible structNode leaf =
      accessibleOn ctx (ctx.env.derefPtr (structNode.exprType ctx.env)) leaf
        (Generated.Decisions.isStructFieldAccessible
          (ctx.env.isStructType (ctx.env.derefPtr (structNode.exprType ctx.env))) (leaf == "_")) := by
  unfold BCtx.accessible Generated.Decisions.isStructFieldAccessible
  simp only
  cases ctx.env.isStructType (ctx.env.derefPtr (structNode.exprType ctx.env)) <;>
    cases hl : (leaf == "_") <;> simp [accessibleOn, hl]

end Convergen.Bridge.Decisions
