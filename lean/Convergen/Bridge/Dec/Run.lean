import Convergen.Model.Method
import Convergen.Model.Options
import Convergen.Model.Runner
import Convergen.Generated.Decisions
/-!
# Bridge: the model takes the same path as the Go code — `config.ParseArgs`, `runner.Run`, `Generator.Generate`

`Generated/Decisions.lean` holds, for each function below, the *skeleton* of the Go source: a
function from the truth values of its condition leaves (in source order) to a label naming the path
taken — the `return` statement reached and the effects on the way.  Each theorem here says: the
model's function **equals** that skeleton composed with a table that maps every label to what the
model does on that path.  So the order of the tests, the set of tests and what each branch returns
are the Go source's, by proof, for all inputs; a reordered, dropped or added test in the Go code
changes the generated skeleton and this file stops compiling.  (One file per group of functions, so
that a change to one function breaks the obligations of the properties that depend on it and no
others.)
-/
namespace Convergen.Bridge.Decisions
open Convergen

variable (ctx : BCtx)

/-! ## `config.ParseArgs` (C18) -/

/-- what `ParseArgs` leaves in the configuration on each path (`f`, `rest` = what the `flag` package
delivers, `gofile` = `$GOFILE`); the labels carry the assignments made, e.g.
`c.Output=inputPath[0:len(inputPath)-len(ext)] + ".gen" + ext` -/
def parseArgsOn (f : Flags) (rest : List String) (gofile : String) (label : String) : ArgsResult :=
  let arg0 := rest.headD ""
  let cfg (input output log : String) : ArgsResult :=
    .config { input := input, output := output, log := log, dryRun := f.dry, prints := f.print }
  match label with
  | "flag.Usage=Usage; flag.Parse(); inputPath=os.Getenv(); flag.Usage(); os.Exit()" => .usage
  | "flag.Usage=Usage; flag.Parse(); flag.Usage(); os.Exit()" => .usage
  | "flag.Usage=Usage; flag.Parse(); inputPath=os.Getenv(); c.Input=inputPa …#6d497167" => cfg gofile f.out (logPath f.out)
  | "flag.Usage=Usage; flag.Parse(); inputPath=os.Getenv(); c.Input=inputPa …#08418a9d" => cfg gofile f.out ""
  | "flag.Usage=Usage; flag.Parse(); inputPath=os.Getenv(); c.Input=inputPa …#8e947d77" =>
    cfg gofile (defaultOutput gofile) (logPath (defaultOutput gofile))
  | "flag.Usage=Usage; flag.Parse(); inputPath=os.Getenv(); c.Input=inputPa …#fde7984d" => cfg gofile (defaultOutput gofile) ""
  | "flag.Usage=Usage; flag.Parse(); c.Input=inputPath; c.Output=*output; c …#8d46ffc2" => cfg arg0 f.out (logPath f.out)
  | "flag.Usage=Usage; flag.Parse(); c.Input=inputPath; c.Output=*output; c …#b77cef32" => cfg arg0 f.out ""
  | "flag.Usage=Usage; flag.Parse(); c.Input=inputPath; c.Output=inputPath[ …#f2f5525e" =>
    cfg arg0 (defaultOutput arg0) (logPath (defaultOutput arg0))
  | "flag.Usage=Usage; flag.Parse(); c.Input=inputPath; c.Output=inputPath[ …#6c28731e" => cfg arg0 (defaultOutput arg0) ""
  | _ => .flagError

/-- **`ParseArgs` follows the source**: first positional argument, else `$GOFILE`, else usage and
exit; `-out` overrides the default output path; the log path is derived from the output path that
is in force; `-dry` and `-print` are copied -/
theorem parseArgs_follows_source (argv : List String) (gofile : String) (f : Flags) (rest : List String)
    (h : parseFlags (argv.length + 1) argv {} = some (f, rest)) :
    parseArgs argv gofile =
      parseArgsOn f rest gofile (Generated.Decisions.parseArgs (rest.headD "" == "") (gofile == "") (f.out != "") f.log) := by
  unfold parseArgs Generated.Decisions.parseArgs
  simp only [h]
  have hin : inputOf rest gofile = if rest.headD "" == "" then gofile else rest.headD "" := by
    cases rest with
    | nil => simp [inputOf]
    | cons a r =>
      by_cases ha : a = "" <;> simp [inputOf, ha]
  rw [hin]
  cases h0 : (rest.headD "" == "") <;> cases h1 : (gofile == "") <;> cases h2 : (f.out != "") <;> cases h3 : f.log <;>
    simp_all [parseArgsOn, configOf]

/-! ## `runner.Run` (C14 / C15: every stage's error ends the run, nothing runs after it) -/

/-- exit code and whether the logger was set up, per path of `Run` -/
def runOn (label : String) : Nat × Bool :=
  match label with
  | "return err" => (1, false)
  | "logger.SetupLogger(); return err" => (1, true)
  | "_,err=g.Generate(); return err" => (1, false)
  | "logger.SetupLogger(); _,err=g.Generate(); return err" => (1, true)
  | "_,err=g.Generate(); return nil" => (0, false)
  | "logger.SetupLogger(); _,err=g.Generate(); return nil" => (0, true)
  | _ => (2, false)

/-- the world after the log file was opened (`Run`'s first step) -/
def afterLog (cfg : Config) (w : World) : World := (openLog cfg w).getD w

def coreFails : CoreResult → Bool
  | .error _ _ => true
  | _ => false

/-- `Generate` returns an error: goimports/gofmt reject the text, or the file cannot be written -/
def generateFails (cfg : Config) (w1 : World) : CoreResult → Bool
  | .formatError _ _ _ => true
  | .ok _ _ _ => !cfg.dryRun && !w1.writable cfg.output
  | _ => false

/-- the part of `Run` after the log file was opened (`lg`: whether there is one) -/
theorem runFrom_follows_source (cfg : Config) (core : World → Config → CoreResult) (w1 : World)
    (lg c1 c3 c4 c5 : Bool) (hc1 : lg = true → c1 = false)
    (hnp : ∀ e o, core (visible w1 cfg) cfg ≠ .panic e o)
    (hstage : (c3 || c4 || c5) = coreFails (core (visible w1 cfg) cfg)) :
    (runFrom cfg core w1).exit =
      (runOn (Generated.Decisions.run lg c1 ((w1.get cfg.input).isNone || cfg.input == cfg.output)
        c3 c4 c5 (generateFails cfg w1 (core (visible w1 cfg) cfg)))).1 := by
  unfold runFrom Generated.Decisions.run
  have hc1' : (lg = true ∧ c1 = true) → False := by
    intro ⟨h1, h2⟩
    rw [hc1 h1] at h2
    cases h2
  cases hg : w1.get cfg.input with
  | none => cases lg <;> cases c1 <;> simp_all [runOn]
  | some x =>
    cases hio : (cfg.input == cfg.output)
    · simp only [Option.isNone_some, Bool.false_or, Bool.false_eq_true, if_false]
      cases hc : core (visible w1 cfg) cfg with
      | panic e o => exact absurd hc (hnp e o)
      | error e o =>
        rw [hc] at hstage
        simp only [coreFails] at hstage
        cases lg <;> cases c1 <;> cases c3 <;> cases c4 <;> cases c5 <;> simp_all [afterCore, runOn]
      | formatError ct e o =>
        rw [hc] at hstage
        simp only [coreFails] at hstage
        cases lg <;> cases c1 <;> cases c3 <;> cases c4 <;> cases c5 <;> simp_all [afterCore, runOn, generateFails]
      | ok b e o =>
        rw [hc] at hstage
        simp only [coreFails] at hstage
        cases lg <;> cases c1 <;> cases c3 <;> cases c4 <;> cases c5 <;> simp_all [afterCore, runOn, generateFails] <;>
          (cases cfg.dryRun <;> cases w1.writable cfg.output <;> simp)
    · cases lg <;> cases c1 <;> simp_all [runOn]

/-- **`Run` follows the source**: the log file is opened first; then `NewParser` (the input must
exist and must not be the output path), `Parse`, `CreateFunctions` per interface, `GenerateBaseCode`
(the model's `core` up to the unformatted text: any of the three may be the stage that fails) and
`Generate`; the first error ends the run with exit code 1, and only the path on which no stage fails
returns `nil` (exit code 0).  Stated for a `core` that does not panic. -/
theorem run_follows_source (cfg : Config) (core : World → Config → CoreResult) (w : World)
    (c3 c4 c5 : Bool)
    (hnp : ∀ e o, core (visible (afterLog cfg w) cfg) cfg ≠ .panic e o)
    (hstage : (c3 || c4 || c5) = coreFails (core (visible (afterLog cfg w) cfg) cfg)) :
    (run cfg core w).exit =
      (runOn (Generated.Decisions.run (cfg.log != "") (!w.writable cfg.log)
        (((afterLog cfg w).get cfg.input).isNone || cfg.input == cfg.output)
        c3 c4 c5 (generateFails cfg (afterLog cfg w) (core (visible (afterLog cfg w) cfg) cfg)))).1 := by
  cases hl : (cfg.log != "")
  · have hl' : (cfg.log == "") = true := by simpa using hl
    have hw : afterLog cfg w = w := by simp [afterLog, openLog, hl']
    rw [hw] at hnp hstage ⊢
    have : run cfg core w = runFrom cfg core w := by simp [run, openLog, hl']
    rw [this]
    exact runFrom_follows_source cfg core w false _ c3 c4 c5 (by simp) hnp hstage
  · have hl' : (cfg.log == "") = false := by simpa using hl
    cases hwr : w.writable cfg.log
    · simp [run, openLog, hl', hwr, Generated.Decisions.run, runOn]
    · have hw : afterLog cfg w = w.put cfg.log "" := by simp [afterLog, openLog, hl', hwr]
      rw [hw] at hnp hstage ⊢
      have : run cfg core w = runFrom cfg core (w.put cfg.log "") := by simp [run, openLog, hl', hwr]
      rw [this]
      exact runFrom_follows_source cfg core _ true _ c3 c4 c5 (by simp) hnp hstage

/-! ## `Generator.Generate` (what is printed and written, C15 / C18) -/

/-- what the run does on each path of `Generate`; `content` is the unformatted text, `bytes` the
formatted one, `e` / `o` the lines already on stderr / stdout -/
def generateOn (cfg : Config) (w1 : World) (content bytes : String) (e o : List String) (label : String) : RunResult :=
  match label with
  | "return nil, err" => { exit := 1, stdout := o, stderr := e, world := w1 }
  | "fmt.Println(); return nil, Errorf(error on optimizing imports of the generated code. %w)" =>
    { exit := 1, stdout := o ++ [content], stderr := e, world := w1 }
  | "return nil, Errorf(error on optimizing imports of the generated code. %w)" =>
    { exit := 1, stdout := o, stderr := e, world := w1 }
  | "fmt.Println(); return nil, Errorf(error on formatting the generated code. %w)" =>
    { exit := 1, stdout := o ++ [content], stderr := e, world := w1 }
  | "return nil, Errorf(error on formatting the generated code. %w)" =>
    { exit := 1, stdout := o, stderr := e, world := w1 }
  | "fmt.Println(); return formatted, nil" => { exit := 0, stdout := o ++ [bytes], stderr := e, world := w1 }
  | "return formatted, nil" => { exit := 0, stdout := o, stderr := e, world := w1 }
  | "err=os.WriteFile(); return nil, Errorf(error on writing to the file. %w)" =>
    { exit := 1, stdout := o, stderr := e ++ ["error on writing to the file."], world := w1 }
  | "err=os.WriteFile(); fmt.Println(); return formatted, nil" =>
    { exit := 0, stdout := o ++ [bytes], stderr := e, world := w1.put cfg.output bytes }
  | "err=os.WriteFile(); return formatted, nil" =>
    { exit := 0, stdout := o, stderr := e, world := w1.put cfg.output bytes }
  | _ => { exit := 2, stdout := [], stderr := ["Generate: unknown path"], world := w1 }

/-- the front half failed (`generateContent` returns the error): nothing is printed or written -/
theorem generate_error_follows_source (cfg : Config) (w1 : World) (e o : List String) (c1 c2 c3 c4 c5 : Bool) :
    afterCore cfg (.error e o) w1 = generateOn cfg w1 "" "" e o (Generated.Decisions.generate true c1 c2 c3 c4 c5) := by
  simp [afterCore, Generated.Decisions.generate, generateOn]

/-- goimports or gofmt rejects the emitted text: with `-print` the unformatted text is shown, the
output path is not touched — whichever of the two fails -/
theorem generate_formatError_follows_source (cfg : Config) (w1 : World) (content : String) (e o : List String)
    (c4 c5 : Bool) :
    afterCore cfg (.formatError content e o) w1 =
      generateOn cfg w1 content "" e o (Generated.Decisions.generate false true cfg.prints false c4 c5) ∧
    afterCore cfg (.formatError content e o) w1 =
      generateOn cfg w1 content "" e o (Generated.Decisions.generate false false cfg.prints true c4 c5) := by
  cases hp : cfg.prints <;> simp [afterCore, Generated.Decisions.generate, generateOn, hp]

/-- the emitted text is fine: `-dry` prints at most; otherwise the file is written first and then
printed, and a failing write prints nothing -/
theorem generate_ok_follows_source (cfg : Config) (w1 : World) (bytes : String) (e o : List String) :
    afterCore cfg (.ok bytes e o) w1 =
      generateOn cfg w1 "" bytes e o (Generated.Decisions.generate false false cfg.prints false cfg.dryRun
        (!w1.writable cfg.output)) := by
  cases hp : cfg.prints <;> cases hd : cfg.dryRun <;> cases hw : w1.writable cfg.output <;>
    simp [afterCore, Generated.Decisions.generate, generateOn, hp, hd, hw]

end Convergen.Bridge.Decisions
