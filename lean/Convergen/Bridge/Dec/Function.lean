import Convergen.Model.Method
import Convergen.Model.Options
import Convergen.Model.Runner
import Convergen.Generated.Decisions
/-!
# Bridge: the model takes the same path as the Go code — the checks of `CreateFunction`, `lookupConverterFunc`

`Generated/Decisions.lean` holds, for each function below, the *skeleton* of the Go source: a
function from the truth values of its condition leaves (in source order) to a label naming the path
taken — the `return` statement reached and the effects on the way.  Each theorem here says: the
model's function **equals** that skeleton composed with a table that maps every label to what the
model does on that path.  So the order of the tests, the set of tests and what each branch returns
are the Go source's, by proof, for all inputs; a reordered, dropped or added test in the Go code
changes the generated skeleton and this file stops compiling.  (One file per group of functions, so
that a change to one function breaks the obligations of the properties that depend on it and no
others.)
-/
namespace Convergen.Bridge.Decisions
open Convergen

variable (ctx : BCtx)

/-! ## `CreateFunction`: the checks before the body is built -/

/-- the variables `CreateFunction` sets up before building the body -/
def srcVarOf (env : Env) (m : MethodEntry) (src : ParamVar) : Var :=
  let v := createVar env src (if m.opts.reverse then "dst" else "src")
  if m.opts.receiver != "" then { v with name := m.opts.receiver } else v

def dstVarOf (env : Env) (m : MethodEntry) (dst : ParamVar) : Var :=
  let v := createVar env dst (if m.opts.reverse then "src" else "dst")
  if m.opts.style == .arg then { v with pointer := true } else v

def createFunctionOn (env : Env) (eng : Engine) (m : MethodEntry) (src dst : ParamVar) (additional : List ParamVar)
    (label : String) : Outcome Built :=
  let err (pos msg : String) : Outcome Built := .error [s!"{pos}: {msg}"]
  let srcVar := srcVarOf env m src
  let dstVar := dstVarOf env m dst
  let argVars := createArgVars env 0 additional
  match label with
  | "return nil, Errorf(%v: reverse cannot be used with additional arguments)" =>
    err m.decl.pos "reverse cannot be used with additional arguments"
  | "return nil, Errorf(%v: src type is not defined. make sure to be imported)" =>
    err src.pos "src type is not defined. make sure to be imported"
  | "return nil, Errorf(%v: dst type is not defined. make sure to be imported)" =>
    err dst.pos "dst type is not defined. make sure to be imported"
  | "return nil, Errorf(%v: arg type is not defined. make sure to be imported)" =>
    match additional.find? (fun a => env.isInvalidType a.ty) with
    | some a => err a.pos "arg type is not defined. make sure to be imported"
    | none => .panic "no invalid argument"
  | "return nil, Errorf(%v: src type should be a struct but %v)" =>
    err dst.pos s!"src type should be a struct but {(env.ty src.ty).underStr}"
  | "return nil, Errorf(%v: dst type should be a struct but %v)" =>
    err dst.pos s!"dst type should be a struct but {(env.ty dst.ty).underStr}"
  | "return nil, Errorf(%v: an external package type cannot be a receiver)" =>
    err m.decl.pos "an external package type cannot be a receiver"
  | "return nil, Errorf(%v: the receiver type already has a field or method %v)" =>
    .error [s!"{m.decl.pos}: the receiver type already has a field or method {m.decl.name}"]
  | "return nil, Errorf(%v: %v is generated twice)" => .error [s!"{m.decl.pos}: {m.decl.name} is generated twice"]
  | "return nil, Errorf(%v: the name %v would be declared twice in the generated function)" =>
    match firstDuplicate [] (scopeNames srcVar dstVar argVars (m.retError env)) with
    | some n => .error [s!"{m.decl.pos}: the name {n} would be declared twice in the generated function"]
    | none => .panic "no duplicate name"
  | "continue" => buildFunction env eng m src dst additional srcVar dstVar argVars
  | _ => .panic "CreateFunction: unknown path"

/-- **the checks of `CreateFunction` follow the source**: same tests, same order, same message on
every rejection; on the path that passes all of them the body is built (`buildFunction`) -/
theorem createFunction_follows_source (env : Env) (eng : Engine) (m : MethodEntry) (built : List String)
    (src dst : ParamVar) (additional restR : List ParamVar)
    (hp : m.decl.params = src :: additional) (hr : m.decl.results = dst :: restR) :
    createFunction env eng m built =
      createFunctionOn env eng m src dst additional (Generated.Decisions.createFunctionChecks
        m.opts.reverse (!additional.isEmpty) (env.isInvalidType src.ty) (env.isInvalidType dst.ty)
        (additional.find? (fun a => env.isInvalidType a.ty)).isSome
        (env.isStructType (env.derefPtr src.ty)) (env.isStructType (env.derefPtr dst.ty))
        (m.opts.receiver != "") (createVar env src (if m.opts.reverse then "dst" else "src")).external
        (env.hasMember src.ty m.decl.name)
        (built.contains (funcKey env m))
        (firstDuplicate [] (scopeNames (srcVarOf env m src) (dstVarOf env m dst) (createArgVars env 0 additional)
          (m.retError env))).isSome) := by
  unfold createFunction
  rw [hp, hr]
  simp only
  unfold Generated.Decisions.createFunctionChecks collision checkNamesAndBuild createFunctionOn srcVarOf dstVarOf
  simp only
  -- name every condition, so that both sides speak about the same Booleans
  generalize m.opts.reverse = c0
  generalize additional.isEmpty = e1
  generalize env.isInvalidType src.ty = c2
  generalize env.isInvalidType dst.ty = c3
  generalize additional.find? (fun a => env.isInvalidType a.ty) = f4
  generalize env.isStructType (env.derefPtr src.ty) = c5
  generalize env.isStructType (env.derefPtr dst.ty) = c6
  generalize (m.opts.receiver != "") = c7
  generalize built.contains (funcKey env m) = c10
  generalize env.hasMember src.ty m.decl.name = c9
  cases c0 <;> cases e1 <;> cases c2 <;> cases c3 <;> cases f4 <;> cases c5 <;> cases c6 <;> simp <;>
    (cases c7 <;> cases c9 <;> cases c10 <;>
      cases h8 : (createVar env src _).external <;>
      simp [h8] <;>
      (split <;> first | rfl | simp_all))

/-! ## the shape checks of functions named by `:conv` and by `:preprocess` / `:postprocess` -/

def lookupConverterOn (env : Env) (name : String) (sig : FuncSig) (label : String) : Except String (TyId × TyId × Bool) :=
  match label with
  | "err=Errorf(%v: function %v not found); return" => .error s!"function {name} not found"
  | "err=Errorf(%v: %v isn't a function); return" => .error s!"{name} isn't a function"
  | "err=Errorf(%v: function %v cannot use as a converter); return" => .error s!"function {name} cannot use as a converter"
  | "argType=sig.Params().At(0).Type(); retType=sig.Results().At(0).Type(); …#99d7a514" =>
    .ok (sig.params.headD 0, sig.results.headD 0, sig.results.length == 2 && env.isErrorType (sig.results.getD 1 0))
  | _ => .error "lookupConverterFunc: unknown path"

/-- **`lookupConverterFunc` follows the source**: found, a function, exactly one parameter and that not variadic, one
or two results, the second an `error` — tested in the order of the Go code -/
theorem lookupConverterFunc_follows_source (env : Env) (sc : Scope) (name : String) :
    lookupConverterFunc env sc name =
      (match lookupType env sc name with
       | .notFound => lookupConverterOn env name default (Generated.Decisions.lookupConverterFunc true false false false false false false false)
       | .notFunc => lookupConverterOn env name default (Generated.Decisions.lookupConverterFunc false false false false false false false false)
       | .func sig => lookupConverterOn env name sig (Generated.Decisions.lookupConverterFunc false true
           (sig.params.length != 1) (sig.results.length < 1) (2 < sig.results.length) sig.variadic
           (sig.results.length == 2) (env.isErrorType (sig.results.getD 1 0)))) := by
  unfold lookupConverterFunc Generated.Decisions.lookupConverterFunc
  cases lookupType env sc name with
  | notFound => simp [lookupConverterOn]
  | notFunc => simp [lookupConverterOn]
  | func sig =>
    simp only
    rcases hp : sig.params with _ | ⟨a, _ | ⟨b, ps⟩⟩ <;> rcases hr : sig.results with _ | ⟨r, _ | ⟨e, _ | ⟨x, rs⟩⟩⟩ <;>
      cases hv : sig.variadic <;>
      simp [lookupConverterOn, hp, hr, hv] <;>
      (cases env.isErrorType e <;> simp)

/-! ## `createVar` -/

/-- **`createVar` follows the source**: a parameter without a name, or with the blank name, gets the
default name; type, pointer-ness and external flag are those of the declared type (C08) -/
theorem createVar_follows_source (env : Env) (v : ParamVar) (defName : String) :
    createVar env v defName =
      (let rest (name : String) : Var :=
         { name := name, typ := env.typeNameF (env.derefPtr v.ty), pointer := env.isPtr v.ty,
           external := env.isExternal (env.derefPtr v.ty) }
       match Generated.Decisions.createVar (v.name == "") (v.name == "_") with
       | "name=defName; return gmodel.Var{ Name: name, Type: p.imports.TypeName( …#e47304d3" => rest defName
       | "return gmodel.Var{ Name: name, Type: p.imports.TypeName(typ), Pointer: …#30e539a2" => rest v.name
       | _ => rest "?") := by
  unfold createVar Generated.Decisions.createVar
  cases h0 : (v.name == "") <;> cases h1 : (v.name == "_") <;> simp

end Convergen.Bridge.Decisions
