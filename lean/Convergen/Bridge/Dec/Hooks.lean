import Convergen.Model.Method
import Convergen.Model.Options
import Convergen.Model.Runner
import Convergen.Generated.Decisions
/-!
# Bridge: the model takes the same path as the Go code — `buildManipulator`, `lookupManipulatorFunc`

`Generated/Decisions.lean` holds, for each function below, the *skeleton* of the Go source: a
function from the truth values of its condition leaves (in source order) to a label naming the path
taken — the `return` statement reached and the effects on the way.  Each theorem here says: the
model's function **equals** that skeleton composed with a table that maps every label to what the
model does on that path.  So the order of the tests, the set of tests and what each branch returns
are the Go source's, by proof, for all inputs; a reordered, dropped or added test in the Go code
changes the generated skeleton and this file stops compiling.  (One file per group of functions, so
that a change to one function breaks the obligations of the properties that depend on it and no
others.)
-/
namespace Convergen.Bridge.Decisions
open Convergen

variable (ctx : BCtx)

/-! ## `buildManipulator` (acceptance of a hook) -/

def buildManipulatorOn (env : Env) (m : ManipOpt) (args : List ParamVar) (label : String) :
    Outcome (Option Manipulator) :=
  let pkg := hookQualifier env m.pkgPath
  let fname := manipFuncName pkg m.name
  let err (msg : String) : Outcome (Option Manipulator) := .error [s!"{m.pos}: {msg}"]
  match label with
  | "return nil, nil" => .ok none
  | "return nil, Errorf(%v: manipulator function %v is not exported)" => err s!"manipulator function {fname} is not exported"
  | "return nil, Errorf(%v: cannot use manipulator function %v due to mismatch of returning error)" =>
    err s!"cannot use manipulator function {fname} due to mismatch of returning error"
  | "return nil, Errorf(%v: manipulator function %v 1st arg type mismatch)" => err s!"manipulator function {fname} 1st arg type mismatch"
  | "return nil, Errorf(%v: manipulator function %v 2nd arg type mismatch)" => err s!"manipulator function {fname} 2nd arg type mismatch"
  | "return nil, Errorf(%v: manipulator function %v additional args count mismatch)" =>
    err s!"manipulator function {fname} additional args count mismatch"
  | "return nil, Errorf(%v: manipulator function %v %s arg type mismatch)" =>
    match (m.additionalArgs.zip args).zipIdx.find? (fun ((h, a), _) => !env.assignable a.ty h) with
    | some (_, i) => err s!"manipulator function {fname} {ordinalNumber (i + 3)} arg type mismatch"
    | none => .panic "no mismatching argument"
  | "return ret, nil" =>
    .ok (some { pkg := pkg, name := m.name, isDstPtr := env.isPtr m.dstSide, isSrcPtr := env.isPtr m.srcSide,
                hasAdditionalArgs := !m.additionalArgs.isEmpty, retError := m.retError })
  | _ => .panic "buildManipulator: unknown path"

/-- **`buildManipulator` follows the source**: the tests are made in the order of the Go code and
every rejection carries the message of its branch -/
theorem buildManipulator_follows_source (env : Env) (m : ManipOpt) (src dst : ParamVar) (args : List ParamVar)
    (retError : Bool) :
    buildManipulator env (some m) src dst args retError =
      buildManipulatorOn env m args (Generated.Decisions.buildManipulator false
        (hookQualifier env m.pkgPath != "") m.exported m.retError retError
        (env.assignable (env.derefPtr dst.ty) (env.derefPtr m.dstSide))
        (env.assignable (env.derefPtr src.ty) (env.derefPtr m.srcSide))
        (!m.additionalArgs.isEmpty) (m.additionalArgs.length != args.length)
        ((m.additionalArgs.zip args).zipIdx.find? (fun ((h, a), _) => !env.assignable a.ty h)).isSome) := by
  unfold buildManipulator Generated.Decisions.buildManipulator
  simp only
  cases hp : (hookQualifier env m.pkgPath != "") <;> cases hx : m.exported <;> cases hr : m.retError <;> cases retError <;>
    cases env.assignable (env.derefPtr dst.ty) (env.derefPtr m.dstSide) <;>
    cases env.assignable (env.derefPtr src.ty) (env.derefPtr m.srcSide) <;>
    cases he : m.additionalArgs.isEmpty <;> cases (m.additionalArgs.length != args.length) <;>
    cases hf : (m.additionalArgs.zip args).zipIdx.find? (fun ((h, a), _) => !env.assignable a.ty h) <;>
    simp [buildManipulatorOn, he, hf, hp, hx, hr]

theorem buildManipulator_none_follows_source (env : Env) (src dst : ParamVar) (args : List ParamVar) (retError : Bool)
    (c1 c2 c3 c5 c6 c7 c8 c9 : Bool) :
    (match Generated.Decisions.buildManipulator true c1 c2 c3 retError c5 c6 c7 c8 c9 with
     | "return nil, nil" => buildManipulator env none src dst args retError = .ok none
     | _ => False) := by
  simp [Generated.Decisions.buildManipulator, buildManipulator]

/-! ## the shape check of functions named by `:preprocess` / `:postprocess` -/

def lookupManipulatorOn (env : Env) (name optName pos : String) (sig : FuncSig) (label : String) : ManipLookup :=
  match label with
  | "return nil, Errorf(%v: function %v not found)" => .error s!"function {name} not found"
  | "return nil, Errorf(%v: %v isn't a function)" => .error s!"{name} isn't a function"
  | "return nil, Errorf(%v: function %v cannot use for %v func)" => .error s!"function {name} cannot use for {optName} func"
  | "return &option.Manipulator{ Func: obj, DstSide: sig.Params().At(0).Typ …#fda8e394" =>
    .ok { name := sig.name, pkgPath := sig.pkgPath, exported := sig.exported, dstSide := sig.params.headD 0,
          srcSide := sig.params.getD 1 0, additionalArgs := sig.params.drop 2, pos := pos,
          retError := sig.results.length == 1 && env.isErrorType (sig.results.headD 0) }
  | _ => .error "lookupManipulatorFunc: unknown path"

/-- **`lookupManipulatorFunc` follows the source**: at most one result and that an `error`, at least
two parameters (the second test is the repair of the `makeslice` crash) -/
theorem lookupManipulatorFunc_follows_source (env : Env) (sc : Scope) (name optName pos : String) :
    lookupManipulatorFunc env sc name optName pos =
      (match lookupType env sc name with
       | .notFound => lookupManipulatorOn env name optName pos default (Generated.Decisions.lookupManipulatorFunc true false false false false false false)
       | .notFunc => lookupManipulatorOn env name optName pos default (Generated.Decisions.lookupManipulatorFunc false false false false false false false)
       | .func sig => lookupManipulatorOn env name optName pos sig (Generated.Decisions.lookupManipulatorFunc false true
           (1 < sig.results.length) (sig.results.length == 1) (env.isErrorType (sig.results.headD 0))
           (sig.params.length < 2) sig.variadic)) := by
  unfold lookupManipulatorFunc Generated.Decisions.lookupManipulatorFunc badHookResult
  cases lookupType env sc name with
  | notFound => simp [lookupManipulatorOn]
  | notFunc => simp [lookupManipulatorOn]
  | func sig =>
    simp only
    rcases hp : sig.params with _ | ⟨a, _ | ⟨b, ps⟩⟩ <;> rcases hr : sig.results with _ | ⟨r, _ | ⟨e, rs⟩⟩ <;>
      cases hv : sig.variadic <;>
      simp [lookupManipulatorOn, hp, hr, hv] <;>
      (try (cases env.isErrorType _ <;> simp)) <;>
      (try (have h2 : ¬ (ps.length + 1 + 1 < 2) := by omega
            simp [h2]))

end Convergen.Bridge.Decisions
