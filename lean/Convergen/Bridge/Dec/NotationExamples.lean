import Convergen.Bridge.Dec.Notation
/-!
# Non-vacuity of the notation skeleton: concrete notation lines take the paths the source names
-/
open Convergen Convergen.Bridge.Decisions

/-- the conditions are satisfiable and lead where the source says: `:style arg` on a method -/
example (env : Env) (sc : Scope) (eng : Engine) :
    notationStepPath env sc eng validOpsMethod newOptions "f.go:3:2" "style" "arg" =
      "args=strings.Fields(); opts.Style=style; next" := by
  have h : fields "arg" = ["arg"] := by decide
  simp [notationStepPath, Generated.Decisions.notationStep, h, isStyleValue, validOpsMethod]

/-- `:skip` on an interface is not valid there: the line is passed over -/
example (env : Env) (sc : Scope) (eng : Engine) :
    notationStepPath env sc eng validOpsIntf newOptions "f.go:3:2" "skip" "ID" =
      "args=strings.Fields(); continue" := by
  simp [notationStepPath, Generated.Decisions.notationStep, validOpsIntf]

/-- `:map` with one argument only: the diagnostic of the source -/
example (env : Env) (sc : Scope) (eng : Engine) :
    notationStepPath env sc eng validOpsMethod newOptions "f.go:3:2" "map" "ID" =
      "args=strings.Fields(); return Errorf(%v: needs <src> <dst> args)" := by
  have h : fields "ID" = ["ID"] := by decide
  simp [notationStepPath, Generated.Decisions.notationStep, h, fewerThanTwo, validOpsMethod]
