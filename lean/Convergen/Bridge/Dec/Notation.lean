import Convergen.Model.Options
import Convergen.Model.Parse
import Convergen.Generated.Decisions
/-!
# Bridge: the model takes the same path as the Go code — one notation line (`parseNotationInComments`), `lookupType`, `parseMethod`

`Generated/Decisions.lean` holds, for each function below, the *skeleton* of the Go source: a
function from the truth values of its condition leaves (in source order) to a label naming the path
taken.  The big `switch` of `parseNotationInComments` is translated as the chain of tests
`m[1] == "…"` in source order.  Each theorem here says: the model's function **equals** that
skeleton composed with a table that maps every label to what the model does on that path — so which
notation name leads to which effect, which argument-count test guards it, and which diagnostic is
returned are the Go source's, by proof, for all inputs.
-/
namespace Convergen.Bridge.Decisions
open Convergen

/-! ## `parseNotationInComments`: the step for one notation line -/

/-- what the model does on each path of the loop body (`reNotation` always yields three groups, so
only the paths through `args = strings.Fields(m[2])` exist) -/
def notationStepOn (env : Env) (sc : Scope) (eng : Engine) (res : ParseResult) (posReverse : String)
    (n : Comment) (name rest : String) (label : String) : Outcome (ParseResult × String) :=
  let args := fields rest
  let opts := res.opts
  let ok (o : Options) : Outcome (ParseResult × String) := .ok ({ res with opts := o }, posReverse)
  let err (t : String) : Outcome (ParseResult × String) := .error [n.pos ++ ": " ++ t]
  let viaOpts (e : Effect) : Outcome (ParseResult × String) :=
    match e with
    | .opts o => ok o
    | _ => .panic "parseNotationInComments: the path taken sets an option"
  let hookErr (e : Effect) : Outcome (ParseResult × String) :=
    match e with
    | .error t => err t
    | .panic s => .panic s
    | _ => .panic "parseNotationInComments: the path taken returns the lookup's error"
  match label with
  | "return Errorf(invalid notation format %#v)" => .error ["invalid notation format []string(nil)"]
  | "args=strings.Fields(); continue" => .ok (res, posReverse)
  | "args=strings.Fields(); next" => ok opts
  | "args=strings.Fields(); return Errorf(%v: needs <style> arg)" => err "needs <style> arg"
  | "args=strings.Fields(); return Errorf(%v: invalid <style> arg)" => err "invalid <style> arg"
  | "args=strings.Fields(); opts.Style=style; next" => viaOpts (styleEffect opts args)
  | "args=strings.Fields(); return Errorf(%v: needs <algorithm> arg)" => err "needs <algorithm> arg"
  | "args=strings.Fields(); return Errorf(%v: invalid <algorithm> arg)" => err "invalid <algorithm> arg"
  | "args=strings.Fields(); opts.Rule=rule; next" => viaOpts (matchEffect opts args)
  | "args=strings.Fields(); opts.ExactCase=true; next" => ok { opts with exactCase := true }
  | "args=strings.Fields(); opts.ExactCase=false; next" => ok { opts with exactCase := false }
  | "args=strings.Fields(); opts.Getter=true; next" => ok { opts with getter := true }
  | "args=strings.Fields(); opts.Getter=false; next" => ok { opts with getter := false }
  | "args=strings.Fields(); opts.Stringer=true; next" => ok { opts with stringer := true }
  | "args=strings.Fields(); opts.Stringer=false; next" => ok { opts with stringer := false }
  | "args=strings.Fields(); opts.Typecast=true; next" => ok { opts with typecast := true }
  | "args=strings.Fields(); opts.Typecast=false; next" => ok { opts with typecast := false }
  | "args=strings.Fields(); return Errorf(%v: needs name for the receiver)" => err "needs name for the receiver"
  | "args=strings.Fields(); return Errorf(%v: invalid ident)" => err "invalid ident"
  | "args=strings.Fields(); opts.Receiver=args[0]; next" => ok { opts with receiver := args.headD "" }
  | "args=strings.Fields(); opts.Reverse=true; posReverse=n.Pos(); next" =>
    .ok ({ res with opts := { opts with reverse := true } }, n.pos)
  | "args=strings.Fields(); return Errorf(%v: needs <field> arg)" => err "needs <field> arg"
  | "args=strings.Fields(); return Errorf(%v: invalid regexp)" => err "invalid regexp"
  | "args=strings.Fields(); opts.SkipFields=append(); next" => viaOpts (skipEffect eng opts args)
  | "args=strings.Fields(); return Errorf(%v: needs <src> <dst> args)" => err "needs <src> <dst> args"
  | "args=strings.Fields(); opts.TemplatedNameMapper=append(); next" =>
    ok { opts with templatedNameMapper := opts.templatedNameMapper ++ [⟨args.headD "", (args.drop 1).headD "", n.pos⟩] }
  | "args=strings.Fields(); opts.NameMapper=append(); next" =>
    ok { opts with nameMapper := opts.nameMapper ++ [⟨args.headD "", (args.drop 1).headD "", n.pos⟩] }
  | "args=strings.Fields(); dst=args[2]; opts.Converters=append(); next" =>
    ok { opts with converters := opts.converters ++
      [{ fn := args.headD "", src := (args.drop 1).headD "", dst := (args.drop 2).headD "", pos := n.pos }] }
  | "args=strings.Fields(); opts.Converters=append(); next" =>
    ok { opts with converters := opts.converters ++
      [{ fn := args.headD "", src := (args.drop 1).headD "", dst := (args.drop 1).headD "", pos := n.pos }] }
  | "args=strings.Fields(); return Errorf(%v: needs <dst> <literal> args)"
  | "args=strings.Fields(); m=reLiteral.FindStringSubmatch(); return Errorf …#d0565489" =>
    err "needs <dst> <literal> args"
  | "args=strings.Fields(); m=reLiteral.FindStringSubmatch(); opts.Literals=append(); next" =>
    viaOpts (literalEffect opts n.pos rest args)
  | "args=strings.Fields(); return Errorf(%v: needs <func> arg)" => err "needs <func> arg"
  | "args=strings.Fields(); return err" =>
    hookErr (hookEffect env sc n.pos name args (fun _ => opts))
  | "args=strings.Fields(); opts.PreProcess=pp; next" =>
    viaOpts (hookEffect env sc n.pos "preprocess" args (fun m => { opts with preProcess := some m }))
  | "args=strings.Fields(); opts.PostProcess=pp; next" =>
    viaOpts (hookEffect env sc n.pos "postprocess" args (fun m => { opts with postProcess := some m }))
  | "args=strings.Fields(); fmt.Printf(); next" =>
    .ok ({ res with stdout := res.stdout ++ [s!"{n.pos}: unknown notation {name}"] }, posReverse)
  | _ => .panic "parseNotationInComments: unknown path"

/-- the hook named by the first argument is not usable (`err != nil` after `lookupManipulatorFunc`) -/
def hookLookupFails (env : Env) (sc : Scope) (pos optName : String) (args : List String) : Bool :=
  match args with
  | [] => false
  | a :: _ => match lookupManipulatorFunc env sc a optName pos with | .ok _ => false | _ => true

def isStyleValue (args : List String) : Bool :=
  match args with | a :: _ => a == "return" || a == "arg" | [] => false

def isRuleValue (args : List String) : Bool :=
  match args with | a :: _ => a == "name" || a == "tag" || a == "none" | [] => false

def skipPatternFails (eng : Engine) (opts : Options) (args : List String) : Bool :=
  match args with | a :: _ => (PM.new eng a opts.exactCase).isNone | [] => false

/-- `len(args) < 2` -/
def fewerThanTwo (args : List String) : Bool :=
  match args with | _ :: _ :: _ => false | _ => true

/-- `3 <= len(args)` -/
def threeOrMore (args : List String) : Bool :=
  match args with | _ :: _ :: _ :: _ => true | _ => false

theorem fewerThanTwo_iff (args : List String) : fewerThanTwo args = decide (args.length < 2) := by
  unfold fewerThanTwo; split <;> simp_all
  rename_i h; match args, h with
  | [], _ => simp
  | [_], _ => simp
  | _ :: _ :: _, h => exact absurd rfl (h _ _ _)

theorem threeOrMore_iff (args : List String) : threeOrMore args = decide (3 ≤ args.length) := by
  unfold threeOrMore; split <;> simp_all
  rename_i h; match args, h with
  | [], _ => simp
  | [_], _ => simp
  | [_, _], _ => simp
  | _ :: _ :: _ :: _, h => exact absurd rfl (h _ _ _ _)

/-- the conditions of the Go loop body, read off the model's data, in the order of the skeleton -/
def notationStepPath (env : Env) (sc : Scope) (eng : Engine) (validOps : List String) (opts : Options)
    (pos name rest : String) : String :=
  let args := fields rest
  Generated.Decisions.notationStep false false true (validOps.contains name)
    (name == "convergen") (name == "style") (name == "match") (name == "case") (name == "case:off")
    (name == "getter") (name == "getter:off") (name == "stringer") (name == "stringer:off")
    (name == "typecast") (name == "typecast:off") (name == "recv") (name == "reverse") (name == "skip")
    (name == "map") (name == "conv") (name == "literal") (name == "preprocess") (name == "postprocess")
    args.isEmpty (hookLookupFails env sc pos name args) (fewerThanTwo args) (matchLiteral rest).isNone
    (threeOrMore args) ((args.headD "").toList.head? == some '$') args.isEmpty
    (skipPatternFails eng opts args) (isValidIdentifier (args.headD "")) (isRuleValue args) (isStyleValue args)

theorem notationEffect_ifs (env : Env) (sc : Scope) (eng : Engine) (opts : Options) (pos name rest : String) :
    notationEffect env sc eng opts pos name rest =
      (if name == "convergen" then .opts opts
       else if name == "style" then styleEffect opts (fields rest)
       else if name == "match" then matchEffect opts (fields rest)
       else if name == "case" then .opts { opts with exactCase := true }
       else if name == "case:off" then .opts { opts with exactCase := false }
       else if name == "getter" then .opts { opts with getter := true }
       else if name == "getter:off" then .opts { opts with getter := false }
       else if name == "stringer" then .opts { opts with stringer := true }
       else if name == "stringer:off" then .opts { opts with stringer := false }
       else if name == "typecast" then .opts { opts with typecast := true }
       else if name == "typecast:off" then .opts { opts with typecast := false }
       else if name == "recv" then recvEffect opts (fields rest)
       else if name == "reverse" then .reverse { opts with reverse := true }
       else if name == "skip" then skipEffect eng opts (fields rest)
       else if name == "map" then mapEffect opts pos (fields rest)
       else if name == "conv" then convEffect opts pos (fields rest)
       else if name == "literal" then literalEffect opts pos rest (fields rest)
       else if name == "preprocess" then
         hookEffect env sc pos "preprocess" (fields rest) (fun m => { opts with preProcess := some m })
       else if name == "postprocess" then
         hookEffect env sc pos "postprocess" (fields rest) (fun m => { opts with postProcess := some m })
       else .unknown) := by
  unfold notationEffect
  split <;> simp_all

set_option maxRecDepth 4000 in
/-- **the loop body of `parseNotationInComments` follows the source**: a line that is no notation
is a failure, a notation that is not valid here is passed over, every other one takes the `case`
of its name — with the source's argument tests and diagnostics (C06, C09, C14) -/
theorem applyNotation_follows_source (env : Env) (sc : Scope) (eng : Engine) (validOps : List String)
    (res : ParseResult) (posReverse : String) (n : Comment) :
    applyNotation env sc eng validOps (res, posReverse) n =
      (match matchNotation n.text with
       | none => notationStepOn env sc eng res posReverse n "" ""
           (Generated.Decisions.notationStep true false false false false false false false false false false false
             false false false false false false false false false false false false false false false false false
             false false false false false)
       | some (name, rest) => notationStepOn env sc eng res posReverse n name rest
           (notationStepPath env sc eng validOps res.opts n.pos name rest)) := by
  unfold applyNotation
  cases hm : matchNotation n.text with
  | none => simp [Generated.Decisions.notationStep, notationStepOn]
  | some nr =>
    obtain ⟨name, rest⟩ := nr
    simp only [notationStepPath]
    cases hv : validOps.contains name with
    | false => simp [Generated.Decisions.notationStep, notationStepOn]
    | true =>
      simp only [Bool.not_true, Bool.false_eq_true, if_false]
      rw [notationEffect_ifs]
      cases h0 : (name == "convergen")
      case true =>
        simp [Generated.Decisions.notationStep, notationStepOn, h0]
      cases h1 : (name == "style")
      case true =>
        cases ha : fields rest with
        | nil => simp [Generated.Decisions.notationStep, notationStepOn, styleEffect, isStyleValue, h0, h1]
        | cons a as =>
          by_cases hx1 : a = "return" <;> by_cases hx2 : a = "arg" <;>
            simp [Generated.Decisions.notationStep, notationStepOn, styleEffect, isStyleValue, h0, h1, ha, hx1, hx2]
      cases h2 : (name == "match")
      case true =>
        cases ha : fields rest with
        | nil => simp [Generated.Decisions.notationStep, notationStepOn, matchEffect, isRuleValue, h0, h1, h2]
        | cons a as =>
          by_cases hx1 : a = "name" <;> by_cases hx2 : a = "tag" <;> by_cases hx3 : a = "none" <;>
            simp [Generated.Decisions.notationStep, notationStepOn, matchEffect, isRuleValue, h0, h1, h2, ha, hx1, hx2, hx3]
      cases h3 : (name == "case")
      case true =>
        simp [Generated.Decisions.notationStep, notationStepOn, h0, h1, h2, h3]
      cases h4 : (name == "case:off")
      case true =>
        simp [Generated.Decisions.notationStep, notationStepOn, h0, h1, h2, h3, h4]
      cases h5 : (name == "getter")
      case true =>
        simp [Generated.Decisions.notationStep, notationStepOn, h0, h1, h2, h3, h4, h5]
      cases h6 : (name == "getter:off")
      case true =>
        simp [Generated.Decisions.notationStep, notationStepOn, h0, h1, h2, h3, h4, h5, h6]
      cases h7 : (name == "stringer")
      case true =>
        simp [Generated.Decisions.notationStep, notationStepOn, h0, h1, h2, h3, h4, h5, h6, h7]
      cases h8 : (name == "stringer:off")
      case true =>
        simp [Generated.Decisions.notationStep, notationStepOn, h0, h1, h2, h3, h4, h5, h6, h7, h8]
      cases h9 : (name == "typecast")
      case true =>
        simp [Generated.Decisions.notationStep, notationStepOn, h0, h1, h2, h3, h4, h5, h6, h7, h8, h9]
      cases h10 : (name == "typecast:off")
      case true =>
        simp [Generated.Decisions.notationStep, notationStepOn, h0, h1, h2, h3, h4, h5, h6, h7, h8, h9, h10]
      cases h11 : (name == "recv")
      case true =>
        cases ha : fields rest with
        | nil => simp [Generated.Decisions.notationStep, notationStepOn, recvEffect, h0, h1, h2, h3, h4, h5, h6, h7, h8, h9, h10, h11]
        | cons a as =>
          cases hi : isValidIdentifier a <;> simp [Generated.Decisions.notationStep, notationStepOn, recvEffect, h0, h1, h2, h3, h4, h5, h6, h7, h8, h9, h10, h11, hi, ha]
      cases h12 : (name == "reverse")
      case true =>
        simp [Generated.Decisions.notationStep, notationStepOn, h0, h1, h2, h3, h4, h5, h6, h7, h8, h9, h10, h11, h12]
      cases h13 : (name == "skip")
      case true =>
        cases ha : fields rest with
        | nil => simp [Generated.Decisions.notationStep, notationStepOn, skipEffect, skipPatternFails, h0, h1, h2, h3, h4, h5, h6, h7, h8, h9, h10, h11, h12, h13]
        | cons a as =>
          cases hp : PM.new eng a res.opts.exactCase <;> simp [Generated.Decisions.notationStep, notationStepOn, skipEffect, skipPatternFails, h0, h1, h2, h3, h4, h5, h6, h7, h8, h9, h10, h11, h12, h13, hp, ha]
      cases h14 : (name == "map")
      case true =>
        cases ha : fields rest with
        | nil => simp [Generated.Decisions.notationStep, notationStepOn, mapEffect, fewerThanTwo, h0, h1, h2, h3, h4, h5, h6, h7, h8, h9, h10, h11, h12, h13, h14]
        | cons a as =>
          cases as with
          | nil => simp [Generated.Decisions.notationStep, notationStepOn, mapEffect, fewerThanTwo, h0, h1, h2, h3, h4, h5, h6, h7, h8, h9, h10, h11, h12, h13, h14]
          | cons b bs =>
            by_cases hd : a.toList.head? = some '$' <;> simp [Generated.Decisions.notationStep, notationStepOn, mapEffect, fewerThanTwo, h0, h1, h2, h3, h4, h5, h6, h7, h8, h9, h10, h11, h12, h13, h14, hd, ha]
      cases h15 : (name == "conv")
      case true =>
        cases ha : fields rest with
        | nil => simp [Generated.Decisions.notationStep, notationStepOn, convEffect, fewerThanTwo, threeOrMore, h0, h1, h2, h3, h4, h5, h6, h7, h8, h9, h10, h11, h12, h13, h14, h15]
        | cons a as =>
          cases as with
          | nil => simp [Generated.Decisions.notationStep, notationStepOn, convEffect, fewerThanTwo, threeOrMore, h0, h1, h2, h3, h4, h5, h6, h7, h8, h9, h10, h11, h12, h13, h14, h15]
          | cons b bs => cases bs <;> simp [Generated.Decisions.notationStep, notationStepOn, convEffect, fewerThanTwo, threeOrMore, h0, h1, h2, h3, h4, h5, h6, h7, h8, h9, h10, h11, h12, h13, h14, h15, ha]
      cases h16 : (name == "literal")
      case true =>
        cases ha : fields rest with
        | nil => simp [Generated.Decisions.notationStep, notationStepOn, literalEffect, fewerThanTwo, h0, h1, h2, h3, h4, h5, h6, h7, h8, h9, h10, h11, h12, h13, h14, h15, h16]
        | cons a as =>
          cases as with
          | nil => simp [Generated.Decisions.notationStep, notationStepOn, literalEffect, fewerThanTwo, h0, h1, h2, h3, h4, h5, h6, h7, h8, h9, h10, h11, h12, h13, h14, h15, h16]
          | cons b bs => cases hl : matchLiteral rest <;> simp [Generated.Decisions.notationStep, notationStepOn, literalEffect, fewerThanTwo, h0, h1, h2, h3, h4, h5, h6, h7, h8, h9, h10, h11, h12, h13, h14, h15, h16, hl, ha]
      cases h17 : (name == "preprocess")
      case true =>
        have hn : name = "preprocess" := by simpa using h17
        subst hn
        cases ha : fields rest with
        | nil => simp [Generated.Decisions.notationStep, notationStepOn, hookEffect, hookLookupFails]
        | cons a as =>
          cases hl : lookupManipulatorFunc env sc a "preprocess" n.pos <;>
            simp [Generated.Decisions.notationStep, notationStepOn, hookEffect, hookLookupFails, hl, ha]
      cases h18 : (name == "postprocess")
      case true =>
        have hn : name = "postprocess" := by simpa using h18
        subst hn
        cases ha : fields rest with
        | nil => simp [Generated.Decisions.notationStep, notationStepOn, hookEffect, hookLookupFails]
        | cons a as =>
          cases hl : lookupManipulatorFunc env sc a "postprocess" n.pos <;>
            simp [Generated.Decisions.notationStep, notationStepOn, hookEffect, hookLookupFails, hl, ha]
      simp [Generated.Decisions.notationStep, notationStepOn, h0, h1, h2, h3, h4, h5, h6, h7, h8, h9, h10, h11, h12, h13, h14, h15, h16, h17, h18]

/-- **after the loop**: `:reverse` needs `:style arg`, reported at the `:reverse` line -/
theorem parseNotations_end_follows_source (env : Env) (sc : Scope) (eng : Engine) (validOps : List String)
    (notations : List Comment) (opts : Options) (res : ParseResult) (posReverse : String)
    (h : foldOutcome (applyNotation env sc eng validOps) ({ opts := opts }, "-") notations = .ok (res, posReverse)) :
    parseNotations env sc eng validOps notations opts =
      (match Generated.Decisions.parseNotationsEnd res.opts.reverse (res.opts.style == .ret) with
       | "return Errorf(%v: to use \":reverse\", style must be \":style arg\")" =>
         .error [s!"{posReverse}: to use \":reverse\", style must be \":style arg\""]
       | "return nil" => .ok res
       | _ => .panic "parseNotationInComments: unknown path") := by
  unfold parseNotations Generated.Decisions.parseNotationsEnd
  simp only [h]
  cases res.opts.reverse <;> cases (res.opts.style == .ret) <;> simp

/-- a line whose step returns an error ends the loop with that error: no later line is looked at -/
theorem parseNotations_first_error (env : Env) (sc : Scope) (eng : Engine) (validOps : List String)
    (st : ParseResult × String) (n : Comment) (later : List Comment) (msgs : List String)
    (h : applyNotation env sc eng validOps st n = .error msgs) :
    foldOutcome (applyNotation env sc eng validOps) st (n :: later) = .error msgs := by
  simp [foldOutcome, h]

/-! ## `lookupType` -/

/-- **`lookupType` follows the source**: a qualified name needs an imported package of the file
and an exported member -/
theorem lookupType_follows_source (env : Env) (sc : Scope) (ref pkg name : String) (more : List String)
    (h : ref.splitOn "." = pkg :: name :: more) :
    lookupType env sc ref =
      (match Generated.Decisions.lookupType false (lookupPath env.imports pkg).isSome
          (match lookupPath env.imports pkg with | some p => sc.pkgImported p | none => false)
          (isExportedName name) with
       | "return nil, nil" => .notFound
       | "return scope, obj" =>
         (match lookupPath env.imports pkg with
          | some path => sc.importedLookup path name
          | none => .notFound)
       | _ => .notFound) := by
  unfold lookupType Generated.Decisions.lookupType
  simp only [h]
  cases hl : lookupPath env.imports pkg with
  | none => simp
  | some p =>
    cases hp : sc.pkgImported p <;> cases he : isExportedName name <;> simp [hp, he]

/-- the bare-name path of `lookupType`: the scopes around the notation -/
theorem lookupType_bare_follows_source (env : Env) (sc : Scope) (ref name : String)
    (h : ref.splitOn "." = [name]) :
    lookupType env sc ref =
      (match Generated.Decisions.lookupType true false false false with
       | "return inner.LookupParent()" => sc.localLookup name
       | _ => .notFound) := by
  unfold lookupType Generated.Decisions.lookupType
  simp [h]

/-! ## `parseMethod` -/

/-- the notations of a method's doc comment and the options they give -/
def methodNotationResult (env : Env) (sc : Scope) (eng : Engine) (m : MethodDecl) (opts : Options)
    (st : PState) : Outcome ParseResult :=
  let notations := match st.docs.docOn m.docChain with
    | some (_, g) => (st.docs.extract g isNotationLine).1
    | none => []
  parseNotations env sc eng validOpsMethod notations opts

/-- **`parseMethod` follows the source**: a method needs an operand and a result, then its
notations are parsed; only when they are valid is the doc comment cleaned up (C03, C14) -/
theorem parseMethod_follows_source (env : Env) (sc : Scope) (eng : Engine) (m : MethodDecl) (opts : Options)
    (st : PState) (hp : ∀ s, methodNotationResult env sc eng m opts st ≠ .panic s) :
    ∃ st', parseMethod env sc eng m opts st =
      (match Generated.Decisions.parseMethod true m.params.isEmpty m.results.isEmpty
          (match methodNotationResult env sc eng m opts st with | .ok _ => false | _ => true) with
       | "return nil, Errorf(%v: method must have one or more arguments as copy source)" =>
         .ok (none, { st with stderr := st.stderr ++
            [s!"{m.pos}: method must have one or more arguments as copy source",
             s!"{m.pos}: method must have one or more arguments as copy source"] })
       | "return nil, Errorf(%v: method must have one or more return values as copy destination)" =>
         .ok (none, { st with stderr := st.stderr ++
            [s!"{m.pos}: method must have one or more return values as copy destination",
             s!"{m.pos}: method must have one or more return values as copy destination"] })
       | "return nil, err" => .ok (none, st')
       | "cleanUp(); return &model.MethodEntry{ Method: method, Opts: opts, DocComment: docComment, }, nil" =>
         (match methodNotationResult env sc eng m opts st with
          | .ok res => .ok (some { decl := m, opts := res.opts, docGroup := (st.docs.docOn m.docChain).map (·.2) }, st')
          | _ => .error (.panic "no options", st'))
       | _ => .error (.panic "parseMethod: unknown path", st')) := by
  unfold parseMethod Generated.Decisions.parseMethod methodNotationResult at *
  cases hps : m.params.isEmpty
  case true => exact ⟨st, by simp⟩
  cases hrs : m.results.isEmpty
  case true => exact ⟨st, by simp⟩
  cases hdoc : st.docs.docOn m.docChain with
  | none =>
    simp only [hdoc] at hp
    cases hr : parseNotations env sc eng validOpsMethod [] opts with
    | ok res => exact ⟨_, by simp [hr]; rfl⟩
    | error msgs => exact ⟨_, by simp [hr]; rfl⟩
    | panic s => exact absurd hr (hp s)
  | some ng =>
    obtain ⟨node, g⟩ := ng
    simp only [hdoc] at hp
    cases hr : parseNotations env sc eng validOpsMethod (st.docs.extract g isNotationLine).1 opts with
    | ok res => exact ⟨_, by simp [hr]; rfl⟩
    | error msgs => exact ⟨_, by simp [hr]; rfl⟩
    | panic s => exact absurd hr (hp s)

end Convergen.Bridge.Decisions
