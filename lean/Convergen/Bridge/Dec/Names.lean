import Convergen.Model.Options
import Convergen.Generated.Decisions
/-!
# Bridge: the model takes the same path as the Go code — how two member names are compared

The skeleton of `Options.CompareFieldName` is regenerated from the Go source
(`Generated/Decisions.lean`); the model's function equals it composed with the table of what the
model does on each path.
-/
namespace Convergen.Bridge.Decisions
open Convergen

/-- **`CompareFieldName` follows the source**: equality under `:case`, Unicode case folding otherwise (C04) -/
theorem compareFieldName_follows_source (o : Options) (a b : String) :
    o.compareFieldName a b =
      (match Generated.Decisions.compareFieldName o.exactCase with
       | "return a == b" => a == b
       | "return strings.EqualFold()" => equalFold a b
       | _ => false) := by
  unfold Options.compareFieldName Generated.Decisions.compareFieldName
  cases o.exactCase <;> simp

end Convergen.Bridge.Decisions
