import Convergen.Model.Method
import Convergen.Model.Options
import Convergen.Model.Runner
import Convergen.Generated.Decisions
/-!
# Bridge: the model takes the same path as the Go code — the deciders of `pkg/util`

`Generated/Decisions.lean` holds, for each function below, the *skeleton* of the Go source: a
function from the truth values of its condition leaves (in source order) to a label naming the path
taken — the `return` statement reached and the effects on the way.  Each theorem here says: the
model's function **equals** that skeleton composed with a table that maps every label to what the
model does on that path.  So the order of the tests, the set of tests and what each branch returns
are the Go source's, by proof, for all inputs; a reordered, dropped or added test in the Go code
changes the generated skeleton and this file stops compiling.  (One file per group of functions, so
that a change to one function breaks the obligations of the properties that depend on it and no
others.)
-/
namespace Convergen.Bridge.Decisions
open Convergen

variable (ctx : BCtx)

/-! ## the deciders of `pkg/util` -/

def getterTypesOn (_env : Env) (m : MethodInfo) (label : String) : Option (TyId × Bool) :=
  match label with
  | "return" => none
  | "return sig.Results().At(0).Type(), num == 2, true" => some (m.results.headD 0, m.results.length == 2)
  | _ => none

/-- **`ParseGetterReturnTypes` follows the source** -/
theorem parseGetterReturnTypes_follows_source (env : Env) (m : MethodInfo) :
    env.parseGetterReturnTypes m =
      getterTypesOn env m (Generated.Decisions.parseGetterReturnTypes (m.nparams != 0) (m.results.length == 0)
        (2 < m.results.length) (m.results.length == 2) (env.isErrorType (m.results.getD 1 0))) := by
  unfold Env.parseGetterReturnTypes Generated.Decisions.parseGetterReturnTypes
  cases hn : (m.nparams != 0)
  · rcases hr : m.results with _ | ⟨r, _ | ⟨e, _ | ⟨x, rs⟩⟩⟩ <;> simp [getterTypesOn, hr] <;>
      first
      | (cases env.isErrorType e <;> simp)
      | (have : 2 < rs.length + 1 + 1 + 1 := by omega
         simp [this])
  · simp [getterTypesOn]

def compliesGetterOn (env : Env) (m : MethodInfo) (label : String) : Bool :=
  match label with
  | "return false" => false
  | "return num == 1 && !IsErrorType(sig.Results().At(0).Type())" =>
    m.results.length == 1 && !env.isErrorType (m.results.headD 0)
  | _ => false

/-- **`CompliesGetter` follows the source** -/
theorem compliesGetter_follows_source (env : Env) (m : MethodInfo) :
    env.compliesGetter m = compliesGetterOn env m (Generated.Decisions.compliesGetter (m.nparams != 0)) := by
  unfold Env.compliesGetter Generated.Decisions.compliesGetter
  cases hn : (m.nparams != 0)
  · have h0 : (m.nparams == 0) = true := by simpa using hn
    rcases hr : m.results with _ | ⟨r, _ | ⟨e, rs⟩⟩ <;> simp [compliesGetterOn, h0, hr]
  · have h0 : (m.nparams == 0) = false := by simpa using hn
    simp [compliesGetterOn, h0]

def compliesStringerOn (env : Env) (t : TyId) (label : String) : Bool :=
  match label with
  | "return false" => false
  | "return sig.Params().Len() == 0 && sig.Results().Len() == 1 && sig.Resu …#9fae861c" =>
    match (env.ty (env.derefPtr t)).stringLookup with
    | .method m => m.nparams == 0 && (match m.results with | [r] => (env.ty r).str == "string" | _ => false)
    | _ => false
  | _ => false

/-- **`CompliesStringer` follows the source**: a defined type (behind at most one pointer) whose
member `String` is callable without arguments and yields one `string` -/
theorem compliesStringer_follows_source (env : Env) (t : TyId) :
    env.compliesStringer t =
      compliesStringerOn env t (Generated.Decisions.compliesStringer (env.isNamedType (env.derefPtr t))
        (match (env.ty (env.derefPtr t)).stringLookup with | .none => true | _ => false)
        (match (env.ty (env.derefPtr t)).stringLookup with | .method _ => true | _ => false)) := by
  unfold Env.compliesStringer Generated.Decisions.compliesStringer
  simp only
  cases env.isNamedType (env.derefPtr t)
  · simp [compliesStringerOn]
  · cases h : (env.ty (env.derefPtr t)).stringLookup <;> simp [compliesStringerOn, h]
    rename_i m
    rcases m.results with _ | ⟨r, _ | ⟨_, _⟩⟩ <;> rfl

end Convergen.Bridge.Decisions
