import Convergen.Model.Method
import Convergen.Model.Options
import Convergen.Model.Runner
import Convergen.Generated.Decisions
/-!
# Bridge: the model takes the same path as the Go code (decision skeletons)

`Generated/Decisions.lean` holds, for each of the functions below, the *skeleton* of the Go source:
a function from the truth values of its condition leaves (in source order) to a label naming the
path taken — the `return` statement reached and the effects on the way.  Each theorem here says:
the model's function **equals** that skeleton composed with a table that maps every label to what
the model does on that path.  So the order of the tests, the set of tests and what each branch
returns are the Go source's, by proof, for all inputs; a reordered, dropped or added test in the Go
code changes the generated skeleton and this file stops compiling.
-/
namespace Convergen.Bridge.Decisions
open Convergen

variable (ctx : BCtx)

/-! ## `castNode` -/

/-- what the model does on each path of `castNode` -/
def castNodeOn (lhsType : TyId) (rhs : Node) (label : String) : Outcome (Option Node × List String) :=
  match label with
  | "return rhs, true" => .ok (some rhs, [])
  | "return nil, false" => .ok (none, [])
  | "return b.castNode()" => .ok (some (.stringer rhs), [])   -- the recursive call on `NewStringer(rhs)`: a string is assignable
  | "c,ok=bmodel.NewTypecast(); return" =>
    match ctx.newTypecast lhsType rhs with
    | .ok (some c) => .ok (some c, [])
    | .ok none => .ok (none, [])
    | .error e => .error e
    | .panic s => .panic s
  | "c,ok=bmodel.NewTypecast(); logger.Warnf(); return" =>
    .ok (none, [s!"{ctx.methodPos}: typecast for {ctx.env.typeNameF lhsType} is not implemented(yet) for {rhs.assignExpr ctx.env}"])
  | _ => .panic "castNode: unknown path"

/-- **`castNode` follows the source.**  `ok` (c7) is whether `NewTypecast` succeeded. -/
theorem castNode_follows_source (lhsType : TyId) (rhs : Node) (r? : Option Node)
    (htc : ctx.newTypecast lhsType rhs = .ok r?) :
    ctx.castNode lhsType rhs =
      castNodeOn ctx lhsType rhs (Generated.Decisions.castNode
        (ctx.env.assignable (rhs.exprType ctx.env) lhsType) rhs.returnsError ctx.opts.stringer
        (ctx.env.assignable ctx.env.stringTy lhsType) (ctx.env.compliesStringer (rhs.exprType ctx.env))
        ctx.opts.typecast (ctx.env.convertible (rhs.exprType ctx.env) lhsType) r?.isSome) := by
  unfold BCtx.castNode Generated.Decisions.castNode
  simp only
  cases ctx.env.assignable (rhs.exprType ctx.env) lhsType <;> cases rhs.returnsError <;>
    cases ctx.opts.stringer <;> cases ctx.env.assignable ctx.env.stringTy lhsType <;>
    cases ctx.env.compliesStringer (rhs.exprType ctx.env) <;> cases ctx.opts.typecast <;>
    cases ctx.env.convertible (rhs.exprType ctx.env) lhsType <;> cases r? <;>
    simp [castNodeOn, htc]

/-! ## `sliceToSlice` -/

def sliceToSliceOn (lhs rhs : Node) (label : String) : Outcome (Option Stmt) :=
  let env := ctx.env
  let le := env.sliceElem (lhs.exprType env)
  match label with
  | "return" => .ok none
  | "a=gmodel.SliceAssignment{}; return" => .ok (some (.sliceCopy lhs rhs ("[]" ++ (env.ty le).str)))
  | "a=gmodel.SliceLoopAssignment{}; return" => .ok (some (.sliceLoop lhs rhs ("[]" ++ env.typeNameF le)))
  | "a=gmodel.SliceTypecastAssignment{}; return" =>
    .ok (some (.sliceCast lhs rhs ("[]" ++ env.typeNameF le) (env.typeNameF le)))
  | _ => .panic "sliceToSlice: unknown path"

/-- **`sliceToSlice` follows the source** (it is only called on two slice types, so both element
types exist: c0 = c1 = false). -/
theorem sliceToSlice_follows_source (lhs rhs : Node) :
    ctx.sliceToSlice lhs rhs =
      sliceToSliceOn ctx lhs rhs (Generated.Decisions.sliceToSlice false false
        (ctx.env.assignable (ctx.env.sliceElem (rhs.exprType ctx.env)) (ctx.env.sliceElem (lhs.exprType ctx.env)))
        (ctx.env.isBasicType (ctx.env.sliceElem (rhs.exprType ctx.env)))
        (ctx.env.identical (ctx.env.sliceElem (rhs.exprType ctx.env)) (ctx.env.sliceElem (lhs.exprType ctx.env)))
        ctx.opts.typecast
        (ctx.env.convertible (ctx.env.sliceElem (rhs.exprType ctx.env)) (ctx.env.sliceElem (lhs.exprType ctx.env)))) := by
  unfold BCtx.sliceToSlice Generated.Decisions.sliceToSlice
  simp only
  cases ctx.env.assignable (ctx.env.sliceElem (rhs.exprType ctx.env)) (ctx.env.sliceElem (lhs.exprType ctx.env)) <;>
    cases ctx.env.isBasicType (ctx.env.sliceElem (rhs.exprType ctx.env)) <;>
    cases ctx.env.identical (ctx.env.sliceElem (rhs.exprType ctx.env)) (ctx.env.sliceElem (lhs.exprType ctx.env)) <;>
    cases ctx.opts.typecast <;>
    cases ctx.env.convertible (ctx.env.sliceElem (rhs.exprType ctx.env)) (ctx.env.sliceElem (lhs.exprType ctx.env)) <;>
    simp [sliceToSliceOn]

/-! ## `matchStructFieldAndStruct` (the precedence chain) -/

def matchFieldOn (rec : Node → Node → Outcome (List Stmt)) (lhs rhs : Node) (args : List Node) (label : String) :
    Outcome Stmt :=
  let path := lhs.matcherExpr
  match label with
  | "return gmodel.SkipField{LHS: lhs.AssignExpr()}, nil" => .ok (.skip lhs)
  | "return b.createWithConverter()" =>
    match ctx.opts.converters.find? (fun c => identMatch c.dst path true) with
    | some c => ctx.createWithConverter lhs rhs c
    | none => .panic "no converter"
  | "return b.createWithMapper()" =>
    match ctx.opts.nameMapper.find? (fun m => identMatch m.dst path true) with
    | some m => ctx.createMapped lhs m.pos (ctx.resolveExpr m.src rhs.rootOf)
    | none => .panic "no mapper"
  | "return b.createWithTemplatedMapper()" =>
    match ctx.opts.templatedNameMapper.find? (fun m => identMatch m.dst path true) with
    | some m => ctx.createMapped lhs m.pos (ctx.resolveTemplatedExpr m.src (rhs.rootOf :: args))
    | none => .panic "no templated mapper"
  | "return gmodel.SimpleField{LHS: lhs.AssignExpr(), RHS: setter.Literal()}, nil" =>
    match ctx.opts.literals.find? (fun l => identMatch l.dst path true) with
    | some l => .ok (.simple lhs (.literal l.literal) false [])
    | none => .panic "no literal"
  | "return b.structFieldAndStructGettersAndFields()" => ctx.fieldDefault rec lhs rhs
  | _ => .panic "matchStructFieldAndStruct: unknown path"

/-- **the precedence chain follows the source**: skip, then the first converter, mapper, `$n` mapper
and literal setter whose destination is this path (each loop returns at its first match), then the
default matcher — in the order of the Go code -/
theorem matchField_follows_source (rec : Node → Node → Outcome (List Stmt)) (lhs rhs : Node) (args : List Node)
    (skip : Bool) (hs : ctx.opts.shouldSkip ctx.eng lhs.matcherExpr = .ok skip) :
    ctx.matchField rec lhs rhs args =
      matchFieldOn ctx rec lhs rhs args (Generated.Decisions.matchStructFieldAndStruct skip
        (ctx.opts.converters.find? (fun c => identMatch c.dst lhs.matcherExpr true)).isSome
        (ctx.opts.nameMapper.find? (fun m => identMatch m.dst lhs.matcherExpr true)).isSome
        (ctx.opts.templatedNameMapper.find? (fun m => identMatch m.dst lhs.matcherExpr true)).isSome
        (ctx.opts.literals.find? (fun l => identMatch l.dst lhs.matcherExpr true)).isSome) := by
  unfold BCtx.matchField Generated.Decisions.matchStructFieldAndStruct
  simp only [bind, Outcome.bind, pure, hs]
  cases skip
  · cases h1 : ctx.opts.converters.find? (fun c => identMatch c.dst lhs.matcherExpr true) <;>
      cases h2 : ctx.opts.nameMapper.find? (fun m => identMatch m.dst lhs.matcherExpr true) <;>
      cases h3 : ctx.opts.templatedNameMapper.find? (fun m => identMatch m.dst lhs.matcherExpr true) <;>
      cases h4 : ctx.opts.literals.find? (fun l => identMatch l.dst lhs.matcherExpr true) <;>
      simp [matchFieldOn, h1, h2, h3, h4]
  · simp [matchFieldOn]

/-! ## `buildManipulator` (acceptance of a hook) -/

def buildManipulatorOn (env : Env) (m : ManipOpt) (args : List ParamVar) (label : String) :
    Outcome (Option Manipulator) :=
  let pkg := (env.importName m.pkgPath).getD ""
  let fname := manipFuncName pkg m.name
  let err (msg : String) : Outcome (Option Manipulator) := .error [s!"{m.pos}: {msg}"]
  match label with
  | "return nil, nil" => .ok none
  | "return nil, Errorf(%v: manipulator function %v is not exported)" => err s!"manipulator function {fname} is not exported"
  | "return nil, Errorf(%v: cannot use manipulator function %v due to mismatch of returning error)" =>
    err s!"cannot use manipulator function {fname} due to mismatch of returning error"
  | "return nil, Errorf(%v: manipulator function %v 1st arg type mismatch)" => err s!"manipulator function {fname} 1st arg type mismatch"
  | "return nil, Errorf(%v: manipulator function %v 2nd arg type mismatch)" => err s!"manipulator function {fname} 2nd arg type mismatch"
  | "return nil, Errorf(%v: manipulator function %v additional args count mismatch)" =>
    err s!"manipulator function {fname} additional args count mismatch"
  | "return nil, Errorf(%v: manipulator function %v %s arg type mismatch)" =>
    match (m.additionalArgs.zip args).zipIdx.find? (fun ((h, a), _) => !env.assignable a.ty h) with
    | some (_, i) => err s!"manipulator function {fname} {ordinalNumber (i + 3)} arg type mismatch"
    | none => .panic "no mismatching argument"
  | "return ret, nil" =>
    .ok (some { pkg := pkg, name := m.name, isDstPtr := env.isPtr m.dstSide, isSrcPtr := env.isPtr m.srcSide,
                hasAdditionalArgs := !m.additionalArgs.isEmpty, retError := m.retError })
  | _ => .panic "buildManipulator: unknown path"

/-- **`buildManipulator` follows the source**: the tests are made in the order of the Go code and
every rejection carries the message of its branch -/
theorem buildManipulator_follows_source (env : Env) (m : ManipOpt) (src dst : ParamVar) (args : List ParamVar)
    (retError : Bool) :
    buildManipulator env (some m) src dst args retError =
      buildManipulatorOn env m args (Generated.Decisions.buildManipulator false
        ((env.importName m.pkgPath).getD "" != "") m.exported m.retError retError
        (env.assignable (env.derefPtr dst.ty) (env.derefPtr m.dstSide))
        (env.assignable (env.derefPtr src.ty) (env.derefPtr m.srcSide))
        (!m.additionalArgs.isEmpty) (m.additionalArgs.length != args.length)
        ((m.additionalArgs.zip args).zipIdx.find? (fun ((h, a), _) => !env.assignable a.ty h)).isSome) := by
  unfold buildManipulator Generated.Decisions.buildManipulator
  simp only
  cases hp : ((env.importName m.pkgPath).getD "" != "") <;> cases hx : m.exported <;> cases hr : m.retError <;> cases retError <;>
    cases env.assignable (env.derefPtr dst.ty) (env.derefPtr m.dstSide) <;>
    cases env.assignable (env.derefPtr src.ty) (env.derefPtr m.srcSide) <;>
    cases he : m.additionalArgs.isEmpty <;> cases (m.additionalArgs.length != args.length) <;>
    cases hf : (m.additionalArgs.zip args).zipIdx.find? (fun ((h, a), _) => !env.assignable a.ty h) <;>
    simp [buildManipulatorOn, he, hf, hp, hx, hr]

theorem buildManipulator_none_follows_source (env : Env) (src dst : ParamVar) (args : List ParamVar) (retError : Bool)
    (c1 c2 c3 c5 c6 c7 c8 c9 : Bool) :
    (match Generated.Decisions.buildManipulator true c1 c2 c3 retError c5 c6 c7 c8 c9 with
     | "return nil, nil" => buildManipulator env none src dst args retError = .ok none
     | _ => False) := by
  simp [Generated.Decisions.buildManipulator, buildManipulator]

/-! ## `CreateFunction`: the checks before the body is built -/

/-- the variables `CreateFunction` sets up before building the body -/
def srcVarOf (env : Env) (m : MethodEntry) (src : ParamVar) : Var :=
  let v := createVar env src (if m.opts.reverse then "dst" else "src")
  if m.opts.receiver != "" then { v with name := m.opts.receiver } else v

def dstVarOf (env : Env) (m : MethodEntry) (dst : ParamVar) : Var :=
  let v := createVar env dst (if m.opts.reverse then "src" else "dst")
  if m.opts.style == .arg then { v with pointer := true } else v

def createFunctionOn (env : Env) (eng : Engine) (m : MethodEntry) (src dst : ParamVar) (additional : List ParamVar)
    (label : String) : Outcome Built :=
  let err (pos msg : String) : Outcome Built := .error [s!"{pos}: {msg}"]
  let srcVar := srcVarOf env m src
  let dstVar := dstVarOf env m dst
  let argVars := createArgVars env 0 additional
  match label with
  | "return nil, Errorf(%v: reverse cannot be used with additional arguments)" =>
    err m.decl.pos "reverse cannot be used with additional arguments"
  | "return nil, Errorf(%v: src type is not defined. make sure to be imported)" =>
    err src.pos "src type is not defined. make sure to be imported"
  | "return nil, Errorf(%v: dst type is not defined. make sure to be imported)" =>
    err dst.pos "dst type is not defined. make sure to be imported"
  | "return nil, Errorf(%v: arg type is not defined. make sure to be imported)" =>
    match additional.find? (fun a => env.isInvalidType a.ty) with
    | some a => err a.pos "arg type is not defined. make sure to be imported"
    | none => .panic "no invalid argument"
  | "return nil, Errorf(%v: src type should be a struct but %v)" =>
    err dst.pos s!"src type should be a struct but {(env.ty src.ty).underStr}"
  | "return nil, Errorf(%v: dst type should be a struct but %v)" =>
    err dst.pos s!"dst type should be a struct but {(env.ty dst.ty).underStr}"
  | "return nil, Errorf(%v: an external package type cannot be a receiver)" =>
    err m.decl.pos "an external package type cannot be a receiver"
  | "return nil, Errorf(%v: the receiver type already has a field or method %v)" =>
    .error [s!"{m.decl.pos}: the receiver type already has a field or method {m.decl.name}"]
  | "return nil, Errorf(%v: %v is generated twice)" => .error [s!"{m.decl.pos}: {m.decl.name} is generated twice"]
  | "return nil, Errorf(%v: the name %v would be declared twice in the generated function)" =>
    match firstDuplicate [] (scopeNames srcVar dstVar argVars (m.retError env)) with
    | some n => .error [s!"{m.decl.pos}: the name {n} would be declared twice in the generated function"]
    | none => .panic "no duplicate name"
  | "continue" => buildFunction env eng m src dst additional srcVar dstVar argVars
  | _ => .panic "CreateFunction: unknown path"

/-- **the checks of `CreateFunction` follow the source**: same tests, same order, same message on
every rejection; on the path that passes all of them the body is built (`buildFunction`) -/
theorem createFunction_follows_source (env : Env) (eng : Engine) (m : MethodEntry) (built : List String)
    (src dst : ParamVar) (additional restR : List ParamVar)
    (hp : m.decl.params = src :: additional) (hr : m.decl.results = dst :: restR) :
    createFunction env eng m built =
      createFunctionOn env eng m src dst additional (Generated.Decisions.createFunctionChecks
        m.opts.reverse (!additional.isEmpty) (env.isInvalidType src.ty) (env.isInvalidType dst.ty)
        (additional.find? (fun a => env.isInvalidType a.ty)).isSome
        (env.isStructType (env.derefPtr src.ty)) (env.isStructType (env.derefPtr dst.ty))
        (m.opts.receiver != "") (createVar env src (if m.opts.reverse then "dst" else "src")).external
        (env.hasMember src.ty m.decl.name)
        (built.contains (funcKey env m))
        (firstDuplicate [] (scopeNames (srcVarOf env m src) (dstVarOf env m dst) (createArgVars env 0 additional)
          (m.retError env))).isSome) := by
  unfold createFunction
  rw [hp, hr]
  simp only
  unfold Generated.Decisions.createFunctionChecks collision checkNamesAndBuild createFunctionOn srcVarOf dstVarOf
  simp only
  -- name every condition, so that both sides speak about the same Booleans
  generalize m.opts.reverse = c0
  generalize additional.isEmpty = e1
  generalize env.isInvalidType src.ty = c2
  generalize env.isInvalidType dst.ty = c3
  generalize additional.find? (fun a => env.isInvalidType a.ty) = f4
  generalize env.isStructType (env.derefPtr src.ty) = c5
  generalize env.isStructType (env.derefPtr dst.ty) = c6
  generalize (m.opts.receiver != "") = c7
  generalize built.contains (funcKey env m) = c10
  generalize env.hasMember src.ty m.decl.name = c9
  cases c0 <;> cases e1 <;> cases c2 <;> cases c3 <;> cases f4 <;> cases c5 <;> cases c6 <;> simp <;>
    (cases c7 <;> cases c9 <;> cases c10 <;>
      cases h8 : (createVar env src _).external <;>
      simp [h8] <;>
      (split <;> first | rfl | simp_all))

/-! ## the shape checks of functions named by `:conv` and by `:preprocess` / `:postprocess` -/

def lookupConverterOn (env : Env) (name : String) (sig : FuncSig) (label : String) : Except String (TyId × TyId × Bool) :=
  match label with
  | "err=Errorf(%v: function %v not found); return" => .error s!"function {name} not found"
  | "err=Errorf(%v: %v isn't a function); return" => .error s!"{name} isn't a function"
  | "err=Errorf(%v: function %v cannot use as a converter); return" => .error s!"function {name} cannot use as a converter"
  | "argType=sig.Params().At(0).Type(); retType=sig.Results().At(0).Type(); …#99d7a514" =>
    .ok (sig.params.headD 0, sig.results.headD 0, sig.results.length == 2 && env.isErrorType (sig.results.getD 1 0))
  | _ => .error "lookupConverterFunc: unknown path"

/-- **`lookupConverterFunc` follows the source**: found, a function, exactly one parameter, one or two
results, the second an `error` — tested in the order of the Go code -/
theorem lookupConverterFunc_follows_source (env : Env) (sc : Scope) (name : String) :
    lookupConverterFunc env sc name =
      (match lookupType env sc name with
       | .notFound => lookupConverterOn env name default (Generated.Decisions.lookupConverterFunc true false false false false false false)
       | .notFunc => lookupConverterOn env name default (Generated.Decisions.lookupConverterFunc false false false false false false false)
       | .func sig => lookupConverterOn env name sig (Generated.Decisions.lookupConverterFunc false true
           (sig.params.length != 1) (sig.results.length < 1) (2 < sig.results.length) (sig.results.length == 2)
           (env.isErrorType (sig.results.getD 1 0)))) := by
  unfold lookupConverterFunc Generated.Decisions.lookupConverterFunc
  cases lookupType env sc name with
  | notFound => simp [lookupConverterOn]
  | notFunc => simp [lookupConverterOn]
  | func sig =>
    simp only
    rcases hp : sig.params with _ | ⟨a, _ | ⟨b, ps⟩⟩ <;> rcases hr : sig.results with _ | ⟨r, _ | ⟨e, _ | ⟨x, rs⟩⟩⟩ <;>
      simp [lookupConverterOn, hp, hr] <;>
      (cases env.isErrorType e <;> simp)

def lookupManipulatorOn (env : Env) (name optName pos : String) (sig : FuncSig) (label : String) : ManipLookup :=
  match label with
  | "return nil, Errorf(%v: function %v not found)" => .error s!"function {name} not found"
  | "return nil, Errorf(%v: %v isn't a function)" => .error s!"{name} isn't a function"
  | "return nil, Errorf(%v: function %v cannot use for %v func)" => .error s!"function {name} cannot use for {optName} func"
  | "return &option.Manipulator{ Func: obj, DstSide: sig.Params().At(0).Typ …#fda8e394" =>
    .ok { name := sig.name, pkgPath := sig.pkgPath, exported := sig.exported, dstSide := sig.params.headD 0,
          srcSide := sig.params.getD 1 0, additionalArgs := sig.params.drop 2, pos := pos,
          retError := sig.results.length == 1 && env.isErrorType (sig.results.headD 0) }
  | _ => .error "lookupManipulatorFunc: unknown path"

/-- **`lookupManipulatorFunc` follows the source**: at most one result and that an `error`, at least
two parameters (the second test is the repair of the `makeslice` crash) -/
theorem lookupManipulatorFunc_follows_source (env : Env) (sc : Scope) (name optName pos : String) :
    lookupManipulatorFunc env sc name optName pos =
      (match lookupType env sc name with
       | .notFound => lookupManipulatorOn env name optName pos default (Generated.Decisions.lookupManipulatorFunc true false false false false false)
       | .notFunc => lookupManipulatorOn env name optName pos default (Generated.Decisions.lookupManipulatorFunc false false false false false false)
       | .func sig => lookupManipulatorOn env name optName pos sig (Generated.Decisions.lookupManipulatorFunc false true
           (1 < sig.results.length) (sig.results.length == 1) (env.isErrorType (sig.results.headD 0))
           (sig.params.length < 2))) := by
  unfold lookupManipulatorFunc Generated.Decisions.lookupManipulatorFunc badHookResult
  cases lookupType env sc name with
  | notFound => simp [lookupManipulatorOn]
  | notFunc => simp [lookupManipulatorOn]
  | func sig =>
    simp only
    rcases hp : sig.params with _ | ⟨a, _ | ⟨b, ps⟩⟩ <;> rcases hr : sig.results with _ | ⟨r, _ | ⟨e, rs⟩⟩ <;>
      simp [lookupManipulatorOn, hp, hr] <;>
      (try (cases env.isErrorType _ <;> simp)) <;>
      (try (have h2 : ¬ (ps.length + 1 + 1 < 2) := by omega
            simp [h2]))

/-! ## `Generator.Generate` (what is printed and written, C15 / C18) -/

/-- what the run does on each path of `Generate`; `content` is the unformatted text, `bytes` the
formatted one, `e` / `o` the lines already on stderr / stdout -/
def generateOn (cfg : Config) (w1 : World) (content bytes : String) (e o : List String) (label : String) : RunResult :=
  match label with
  | "return nil, err" => { exit := 1, stdout := o, stderr := e, world := w1 }
  | "fmt.Println(); return nil, Errorf(error on optimizing imports of the generated code. %w)" =>
    { exit := 1, stdout := o ++ [content], stderr := e, world := w1 }
  | "return nil, Errorf(error on optimizing imports of the generated code. %w)" =>
    { exit := 1, stdout := o, stderr := e, world := w1 }
  | "fmt.Println(); return nil, Errorf(error on formatting the generated code. %w)" =>
    { exit := 1, stdout := o ++ [content], stderr := e, world := w1 }
  | "return nil, Errorf(error on formatting the generated code. %w)" =>
    { exit := 1, stdout := o, stderr := e, world := w1 }
  | "fmt.Println(); return formatted, nil" => { exit := 0, stdout := o ++ [bytes], stderr := e, world := w1 }
  | "return formatted, nil" => { exit := 0, stdout := o, stderr := e, world := w1 }
  | "err=os.WriteFile(); return nil, Errorf(error on writing to the file. %w)" =>
    { exit := 1, stdout := o, stderr := e ++ ["error on writing to the file."], world := w1 }
  | "err=os.WriteFile(); fmt.Println(); return formatted, nil" =>
    { exit := 0, stdout := o ++ [bytes], stderr := e, world := w1.put cfg.output bytes }
  | "err=os.WriteFile(); return formatted, nil" =>
    { exit := 0, stdout := o, stderr := e, world := w1.put cfg.output bytes }
  | _ => { exit := 2, stdout := [], stderr := ["Generate: unknown path"], world := w1 }

/-- the front half failed (`generateContent` returns the error): nothing is printed or written -/
theorem generate_error_follows_source (cfg : Config) (w1 : World) (e o : List String) (c1 c2 c3 c4 c5 : Bool) :
    afterCore cfg (.error e o) w1 = generateOn cfg w1 "" "" e o (Generated.Decisions.generate true c1 c2 c3 c4 c5) := by
  simp [afterCore, Generated.Decisions.generate, generateOn]

/-- goimports or gofmt rejects the emitted text: with `-print` the unformatted text is shown, the
output path is not touched — whichever of the two fails -/
theorem generate_formatError_follows_source (cfg : Config) (w1 : World) (content : String) (e o : List String)
    (c4 c5 : Bool) :
    afterCore cfg (.formatError content e o) w1 =
      generateOn cfg w1 content "" e o (Generated.Decisions.generate false true cfg.prints false c4 c5) ∧
    afterCore cfg (.formatError content e o) w1 =
      generateOn cfg w1 content "" e o (Generated.Decisions.generate false false cfg.prints true c4 c5) := by
  cases hp : cfg.prints <;> simp [afterCore, Generated.Decisions.generate, generateOn, hp]

/-- the emitted text is fine: `-dry` prints at most; otherwise the file is written first and then
printed, and a failing write prints nothing -/
theorem generate_ok_follows_source (cfg : Config) (w1 : World) (bytes : String) (e o : List String) :
    afterCore cfg (.ok bytes e o) w1 =
      generateOn cfg w1 "" bytes e o (Generated.Decisions.generate false false cfg.prints false cfg.dryRun
        (!w1.writable cfg.output)) := by
  cases hp : cfg.prints <;> cases hd : cfg.dryRun <;> cases hw : w1.writable cfg.output <;>
    simp [afterCore, Generated.Decisions.generate, generateOn, hp, hd, hw]

end Convergen.Bridge.Decisions
